package main

import (
	"fmt"
	"go/token"
	"go/types"
	"sort"
	"strings"

	"golang.org/x/tools/go/ssa"
)

func init() {
	register(&propDef{
		ID:        "C11",
		Title:     "TURN wire codecs round-trip and reject malformed input safely",
		Technique: "sibling agreement between each attribute's AddTo and GetFrom (attribute type, size, value path), interval-based bounds proof of every decoder index, must-facts on the ChannelData decoder's accepting return, structural lint of the encoder's padding",
		Explanation: "C11.1 pair agreement: for every type in package proto having both AddTo and GetFrom, the attribute type written (Message.Add / AddToAs) is the one read (Message.Get / GetFromAs) and the one named in stun.CheckSize; the number of bytes written equals the size checked on decode; " +
			"C11.2 decode safety: every index, slice and binary.UintN in a GetFrom / Decode / IsChannelData / consumeSingleTURNFrame is proven in range from the preceding size checks (undecided = failure); " +
			"C11.3 ChannelData: Decode returns nil only on the Valid() edge and when the declared length does not exceed the bytes available, and truncates Data to exactly the declared length; WriteHeader writes Number and len(Data) into the first four bytes; after the payload has been appended, Encode only ever extends Raw by appending constant zero bytes (no re-slicing into stale capacity); " +
			"C11.4 the integer an AddTo writes is a pure conversion of the receiver's value (no clamping or substitution path), matching the full width GetFrom reads; " +
			"C11.5 the datagram recogniser IsChannelData does not involve the padding rule (it agrees with Decode on unpadded datagrams); " +
			"C11.6 attribute encoders refuse a value only through the STUN library's own checks (which the decoders apply too): no refusal of their own makes a decoded value un-encodable. C11.7 Decode refuses only short buffers, invalid numbers and declared lengths beyond the buffer (closed refusal set).",
		NotCovered: "round-trip *equality* of values over the whole domain is numerical and is not claimed; pion/stun's own attribute framing; the padding amount (0..3) is checked structurally, not arithmetically.",
		Run:        runC11,
	})
}

type codecInfo struct {
	attr  int64
	size  int64 // -1 unknown/variable
	how   string
	found bool
}

func runC11(c *Ctx) {
	w := c.W
	a := w.absint()
	protoPkg := w.tpkg("proto")

	// ---- C11.1
	c.Rule("C11.1", "pair agreement for every proto type with AddTo and GetFrom: attribute type constants equal between Add/AddToAs, Get/GetFromAs and CheckSize; when both sides have a constant size, bytes written == size checked", 9)
	var names []string
	sc := protoPkg.Scope()
	for _, n := range sc.Names() {
		if tn, ok := sc.Lookup(n).(*types.TypeName); ok && !tn.IsAlias() {
			names = append(names, n)
		}
	}
	sort.Strings(names)
	for _, tn := range names {
		add := w.FuncOpt("proto", tn, "AddTo")
		get := w.FuncOpt("proto", tn, "GetFrom")
		if add == nil || get == nil {
			continue
		}
		c.Anchor("C11.1", tn)
		enc := codecInfo{size: -1}
		w.eachCallThrough(add, 2, func(call *ssa.Call, rs func(ssa.Value) ssa.Value) {
			if call.Call.StaticCallee() == nil {
				return
			}
			switch nm(call.Call.StaticCallee()) {
			case "Add":
				if k, isC := constInt(rs(call.Call.Args[1])); isC {
					enc.attr, enc.found, enc.how = k, true, "Message.Add"
					l := a.rangeOfTerm(Term{Len: true, V: call.Call.Args[2]}, call, 3)
					if isNilConst(call.Call.Args[2]) {
						l = ival{0, 0}
					}
					if l.lo == l.hi {
						enc.size = l.lo
					}
				}
			case "AddToAs":
				if k, isC := constInt(rs(call.Call.Args[len(call.Call.Args)-1])); isC {
					enc.attr, enc.found, enc.how = k, true, "AddToAs"
				}
			}
		})
		dec := codecInfo{size: -1}
		checkAttr := int64(-1)
		w.eachCallThrough(get, 2, func(call *ssa.Call, rs func(ssa.Value) ssa.Value) {
			if call.Call.StaticCallee() == nil {
				return
			}
			switch nm(call.Call.StaticCallee()) {
			case "Get":
				if k, isC := constInt(rs(call.Call.Args[1])); isC {
					dec.attr, dec.found, dec.how = k, true, "Message.Get"
				}
			case "GetFromAs":
				if k, isC := constInt(rs(call.Call.Args[len(call.Call.Args)-1])); isC {
					dec.attr, dec.found, dec.how = k, true, "GetFromAs"
				}
			case "CheckSize":
				if k, isC := constInt(rs(call.Call.Args[0])); isC {
					checkAttr = k
				}
				if k, isC := constInt(rs(call.Call.Args[2])); isC {
					dec.size = k
				}
			}
		})
		pos := w.pos(add.Pos())
		// a decoder of a fixed-size attribute accepts only that size: every nil return is
		// dominated by CheckSize(…, size) == nil (possibly established inside a shared helper)
		// or by len(value) == size
		sizeWhy := ""
		if dec.size >= 0 {
			for _, r := range returnsOf(get) {
				if len(r.Results) != 1 || !isNilConst(w.resolveLoad(r.Results[0])) {
					continue
				}
				okSize := false
				for _, f := range w.factsAt(r) {
					if v, isNil, isNF := nilFact(f); isNF && isNil {
						if cc, _ := callOf(v); cc != nil && cc.Call.StaticCallee() != nil && nm(cc.Call.StaticCallee()) == "CheckSize" {
							if k, isC := constInt(cc.Call.Args[2]); isC && k == dec.size {
								okSize = true
							}
						}
					}
					if f.Op == "==" && f.Truth {
						for _, pair := range [][2]ssa.Value{{f.X, f.Y}, {f.Y, f.X}} {
							if k, isC := constInt(pair[1]); isC && k == dec.size && termOf(pair[0]).Len {
								okSize = true
							}
						}
					}
				}
				if !okSize {
					sizeWhy = fmt.Sprintf("GetFrom accepts at %s without the attribute's length having been checked to be exactly %d (a longer or truncated attribute decodes as if it were well-formed)", w.instrPos(r), dec.size)
				}
			}
		}
		switch {
		case sizeWhy != "":
			c.Bad("C11.1", "proto."+tn, "size check", pos, sizeWhy)
		case !enc.found || !dec.found:
			c.Bad("C11.1", "proto."+tn, "attribute type", pos, fmt.Sprintf("cannot find the attribute type written (%v) / read (%v)", enc.found, dec.found))
		case enc.attr != dec.attr:
			c.Bad("C11.1", "proto."+tn, "attribute type", pos, fmt.Sprintf("AddTo writes attribute %#x but GetFrom reads %#x", enc.attr, dec.attr))
		case checkAttr >= 0 && checkAttr != dec.attr:
			c.Bad("C11.1", "proto."+tn, "attribute type", pos, fmt.Sprintf("GetFrom reads attribute %#x but reports size errors for %#x", dec.attr, checkAttr))
		case enc.size >= 0 && dec.size >= 0 && enc.size != dec.size:
			c.Bad("C11.1", "proto."+tn, "size", pos, fmt.Sprintf("AddTo writes %d bytes, GetFrom accepts only %d: the codec rejects its own output", enc.size, dec.size))
		default:
			sz := "variable size"
			if enc.size >= 0 && dec.size >= 0 {
				sz = fmt.Sprintf("%d bytes written = %d bytes checked", enc.size, dec.size)
			} else if dec.size >= 0 {
				sz = fmt.Sprintf("decoder checks %d bytes; encoder size is the value's own length", dec.size)
			}
			c.OK("C11.1", "proto."+tn, "pair", pos, fmt.Sprintf("attribute %#x via %s/%s; %s", enc.attr, enc.how, dec.how, sz))
		}
	}

	// ---- C11.2
	var decoders []*ssa.Function
	for _, fn := range w.ModFns {
		if fnPkgPath(fn) != protoPkg.Path() {
			continue
		}
		switch nm(fn) {
		case "GetFrom", "Decode", "IsChannelData", "consumeSingleTURNFrame", "WriteHeader", "Encode", "grow", "AddTo":
			decoders = append(decoders, fn)
		}
	}
	// ... and whatever helpers of the package they call (a shared size check, a header
	// parser): the bytes those look at are the same untrusted bytes
	{
		inList := map[*ssa.Function]bool{}
		for _, d := range decoders {
			inList[d] = true
		}
		for i := 0; i < len(decoders); i++ {
			w.eachInstr(decoders[i], func(in ssa.Instruction) {
				call, ok := in.(*ssa.Call)
				if !ok {
					return
				}
				if h := call.Call.StaticCallee(); h != nil && w.IsMod[h] && len(h.Blocks) > 0 && fnPkgPath(h) == protoPkg.Path() && !inList[h] {
					inList[h] = true
					decoders = append(decoders, h)
				}
			})
		}
	}
	ruleBounds(c, "C11.2", decoders, 8)

	// ---- C11.3
	c.Rule("C11.3", "ChannelData: (a) Decode's nil return is dominated by Number.Valid()==true and by ¬(declared > available) with declared = Uint16(buf[2:4]) and available = len(buf[4:]); Data is buf[4:], cut to [:declared] on the declared < len(Data) edge; (b) WriteHeader writes uint16(Number) into Raw[:2] and uint16(len(Data)) into Raw[2:4]; (c) in Encode every store to Raw that can execute after the payload append is an append of the constant byte 0", 3)
	{
		dec := w.Func("proto", "ChannelData", "Decode")
		valid := w.Func("proto", "ChannelNumber", "Valid")
		c.Anchor("C11.3", "Decode")
		bad := ""
		n := 0
		// the declared length: a value that stands for bytes [2,4) of the buffer being decoded,
		// read on its own or cut out of the header word
		isDeclared := func(v ssa.Value) bool {
			_, off, k, ok := w.wireField(stripIntConv(w.resolveLoad(stripIntConv(v))))
			return ok && off == 2 && k == 2
		}
		var declared []ssa.Value
		var bufV ssa.Value
		w.eachInstr(dec, func(in ssa.Instruction) {
			if v, isV := in.(ssa.Value); isV && isIntType(v.Type()) && isDeclared(v) {
				declared = append(declared, v)
				if bufV == nil {
					bufV, _, _, _ = w.wireField(stripIntConv(v))
				}
			}
		})
		for _, r := range returnsOf(dec) {
			if !isNilConst(w.resolveLoad(r.Results[0])) {
				continue
			}
			n++
			okValid, okLen := false, false
			// 4 + declared ≤ len(buf), by linear reasoning from the facts at the return — whatever
			// form the test takes (an end offset compared with len(buf), …)
			if bufV != nil {
				a := w.absint()
				for _, d := range declared {
					if ok, _ := a.proveLinearOff(termOf(d), Term{V: bufV, Len: true}, r, 4); ok {
						okLen = true
					}
				}
			}
			for _, f := range w.factsAt(r) {
				if f.Op == "true" && f.Truth {
					if vc, _ := callOf(f.X); vc != nil && vc.Call.StaticCallee() == valid {
						okValid = true
					}
				}
				// ¬(len(avail) < declared)
				if f.Op == "<" && !f.Truth {
					// available = len(buf[4:])  or  len(buf) - 4
					avail := false
					if t := termOf(f.X); t.Len {
						avail = true
					} else if bo, isBO := stripIntConv(f.X).(*ssa.BinOp); isBO && bo.Op == token.SUB {
						if k, isK := constInt(bo.Y); isK && k == 4 && termOf(bo.X).Len {
							avail = true
						}
					}
					if avail && isDeclared(f.Y) {
						okLen = true
					}
				}
			}
			if !okValid {
				bad = "Decode accepts at " + w.instrPos(r) + " without the channel number being in range"
			} else if !okLen {
				bad = "Decode accepts at " + w.instrPos(r) + " without the test declared length ≤ bytes available"
			}
		}
		// Data truncation store
		okTrunc := false
		dataF := w.Field("proto", "ChannelData", "Data")
		w.eachInstr(dec, func(in ssa.Instruction) {
			st, ok := in.(*ssa.Store)
			if !ok {
				return
			}
			fa, ok := st.Addr.(*ssa.FieldAddr)
			if !ok || fieldOf(fa) != dataF {
				return
			}
			// Data = buf[4:end] with end = 4 + declared
			if sl, isS := st.Val.(*ssa.Slice); isS && sl.High != nil && sl.Low != nil && bufV != nil && w.resolveLoad(sl.X) == bufV {
				if lo, isK := constInt(sl.Low); isK && lo == 4 {
					a := w.absint()
					for _, d := range declared {
						le, _ := a.proveLinearOff(termOf(d), termOf(sl.High), st, 4)
						ge, _ := a.proveLinearOff(termOf(sl.High), termOf(d), st, -4)
						if le && ge {
							okTrunc = true
						}
					}
				}
			}
			if sl, isS := st.Val.(*ssa.Slice); isS && sl.High != nil && sl.Low == nil {
				if isDeclared(sl.High) {
					okTrunc = true // Data[:declared] on the declared < len(Data) edge
				}
				// Data[:min(declared, len(Data))]
				if mc, isC := stripIntConv(sl.High).(*ssa.Call); isC {
					if b, isB := mc.Call.Value.(*ssa.Builtin); isB && b.Name() == "min" && len(mc.Call.Args) == 2 {
						for i := 0; i < 2; i++ {
							if isDeclared(mc.Call.Args[i]) && termOf(mc.Call.Args[1-i]).Len && w.sameKey(termOf(mc.Call.Args[1-i]).V, sl.X) {
								okTrunc = true
							}
						}
					}
				}
			}
		})
		if bad == "" && !okTrunc {
			bad = "Data is not cut to the declared length"
		}
		if bad == "" && n > 0 {
			c.OK("C11.3", fname(dec), "Decode", w.pos(dec.Pos()), "nil only under Valid() ∧ declared ≤ available; Data = buf[4:][:declared]")
		} else {
			if bad == "" {
				bad = "Decode never succeeds"
			}
			c.Bad("C11.3", fname(dec), "Decode", w.pos(dec.Pos()), bad)
		}
	}
	ruleChannelHeaderWritten(c, "C11.3")
	{
		enc := w.Func("proto", "ChannelData", "Encode")
		rawF := w.Field("proto", "ChannelData", "Raw")
		dataF := w.Field("proto", "ChannelData", "Data")
		c.Anchor("C11.3", "Encode padding")
		// the payload append
		payloadIn := func(g *ssa.Function) ssa.Instruction {
			var payload ssa.Instruction
			w.eachInstr(g, func(in ssa.Instruction) {
				st, ok := in.(*ssa.Store)
				if !ok {
					return
				}
				fa, ok := st.Addr.(*ssa.FieldAddr)
				if !ok || fieldOf(fa) != rawF {
					return
				}
				if call, isC := st.Val.(*ssa.Call); isC {
					if b, isB := call.Call.Value.(*ssa.Builtin); isB && b.Name() == "append" && len(call.Call.Args) == 2 {
						if _, f, isL := fieldLoad(call.Call.Args[1]); isL && f == dataF {
							payload = in
						}
					}
				}
			})
			return payload
		}
		payload := payloadIn(enc)
		if payload == nil {
			// ... or Encode begins with a call of a sibling method on the same receiver that ends
			// with the payload append (the unpadded encoder factored out): the call stands for it
			w.eachInstr(enc, func(in ssa.Instruction) {
				call, ok := in.(*ssa.Call)
				if !ok || payload != nil {
					return
				}
				h := call.Call.StaticCallee()
				if h == nil || !w.IsMod[h] || len(call.Call.Args) == 0 || call.Call.Args[0] != ssa.Value(enc.Params[0]) || in.Block() != enc.Blocks[0] {
					return
				}
				hp := payloadIn(h)
				if hp == nil {
					return
				}
				last := true
				w.eachInstr(h, func(in2 ssa.Instruction) {
					if st, ok := in2.(*ssa.Store); ok && in2 != hp && instrReaches(hp, in2) {
						if fa, ok := st.Addr.(*ssa.FieldAddr); ok && fieldOf(fa) == rawF {
							last = false
						}
					}
				})
				if last {
					payload = in
				}
			})
		}
		bad := ""
		nPad := 0
		if payload == nil {
			bad = "Encode does not append Data to Raw"
		} else {
			w.eachInstr(enc, func(in ssa.Instruction) {
				if in == payload || !instrReaches(payload, in) {
					return
				}
				switch x := in.(type) {
				case *ssa.Store:
					fa, ok := x.Addr.(*ssa.FieldAddr)
					if !ok || fieldOf(fa) != rawF {
						return
					}
					okZero := false
					if call, isC := x.Val.(*ssa.Call); isC {
						if b, isB := call.Call.Value.(*ssa.Builtin); isB && b.Name() == "append" && len(call.Call.Args) == 2 {
							es := variadicElems(call.Call.Args[1])
							okZero = len(es) > 0
							for _, e := range es {
								if k, isK := constInt(e); !isK || k != 0 {
									okZero = false
								}
							}
						}
					}
					// ... or Raw is only lengthened (re-sliced, slices.Grow) and everything from the
					// end of the payload on is cleared before Encode returns
					if !okZero && lengthenedThenCleared(w, x, payload, rawF) {
						okZero = true
					}
					if okZero {
						nPad++
					} else {
						bad = "after the payload, Raw is rewritten at " + w.instrPos(in) + " other than by appending zero bytes: padding may expose stale bytes of a reused buffer"
					}
				case ssa.CallInstruction:
					if cal := x.Common().StaticCallee(); cal != nil && w.IsMod[cal] && w.storeSet(cal)[rawF] {
						bad = "after the payload, Raw is modified by " + fname(cal) + " at " + w.instrPos(in) + " (re-slicing into existing capacity does not zero the padding)"
					}
				}
			})
		}
		if bad == "" && nPad > 0 {
			c.OK("C11.3", fname(enc), "Encode padding", w.pos(enc.Pos()), "payload appended, then only append(Raw, 0)")
		} else {
			if bad == "" {
				bad = "no zero padding is appended"
			}
			c.Bad("C11.3", fname(enc), "Encode padding", w.pos(enc.Pos()), bad)
		}
	}

	// ---- C11.4
	c.Rule("C11.4", "in every AddTo of package proto, the value passed to binary.BigEndian.PutUintN (or stored into the attribute's first byte) derives from the receiver through conversions and library calls only: no phi (no clamped/substituted alternative) lies between the receiver and the bytes written", 3)
	for _, fn := range w.ModFns {
		if fnPkgPath(fn) != protoPkg.Path() || fn.Name() != "AddTo" {
			continue
		}
		// the integers an AddTo serialises: PutUintN / AppendUintN arguments and values
		// converted to a byte that is stored into a byte slice
		var written []struct {
			v  ssa.Value
			at ssa.Instruction
		}
		// through unexported helpers shared by several attributes (addWord(m, t, w)): the
		// helper's parameter is the argument at this AddTo's call of it
		w.eachCallThrough(fn, 2, func(x *ssa.Call, resolve func(ssa.Value) ssa.Value) {
			if cal := x.Call.StaticCallee(); cal != nil && strings.Contains(cal.String(), "encoding/binary") &&
				(strings.HasPrefix(cal.Name(), "PutUint") || strings.HasPrefix(cal.Name(), "AppendUint")) {
				var at ssa.Instruction = x
				if x.Parent() != fn {
					if top := w.topOfCallThrough(x, fn); top != nil {
						at = top
					}
				}
				written = append(written, struct {
					v  ssa.Value
					at ssa.Instruction
				}{resolve(x.Call.Args[2]), at})
			}
		})
		w.eachInstr(fn, func(in ssa.Instruction) {
			switch x := in.(type) {
			case *ssa.Store:
				if ia, ok := x.Addr.(*ssa.IndexAddr); ok {
					if cv, isCv := x.Val.(*ssa.Convert); isCv && typeBits(cv.Type()) == 8 && typeBits(cv.X.Type()) > 8 {
						_ = ia
						written = append(written, struct {
							v  ssa.Value
							at ssa.Instruction
						}{cv.X, in})
					}
				}
			}
		})
		if len(written) > 0 {
			c.Anchor("C11.4", fname(fn))
		}
		for _, wr := range written {
			v, in := wr.v, wr.at
			hasPhi := w.dependsOn(v, func(x ssa.Value) bool {
				p, isPhi := x.(*ssa.Phi)
				return isPhi && len(p.Edges) > 1 && p.Parent() == fn
			}, fn)
			// the same question through helpers (l.wireSeconds()): more than one source, unless
			// the extra ones are the saturation constants of the full unsigned width
			if !hasPhi {
				if ls, complete := w.sources(stripIntConv(v), in, nil); complete {
					width := typeBits(v.Type())
					var keys []string
					for i := range ls {
						l := &ls[i]
						if k, isK := constInt(l.val); isK && len(l.sel) == 0 && l.mem == nil {
							// allowed: 0 under "x < 0", 2^width-1 under "2^width-1 < x"
							okSat := false
							for _, f := range l.facts {
								if f.Op != "<" || !f.Truth {
									continue
								}
								if k == 0 {
									if ky, isY := constInt(f.Y); isY && ky == 0 {
										okSat = true
									}
								}
								if width > 0 && width < 63 && k == int64(1)<<uint(width)-1 {
									if kx, isX := constInt(f.X); isX && kx == k {
										okSat = true
									}
								}
							}
							if okSat {
								continue
							}
						}
						keys = append(keys, w.key(l.val))
					}
					sort.Strings(keys)
					n := 0
					for i, k := range keys {
						if i == 0 || keys[i-1] != k {
							n++
						}
					}
					if n > 1 {
						hasPhi = true
					}
				}
			}
			fromRecv := w.dependsOn(v, func(x ssa.Value) bool { return x == ssa.Value(fn.Params[0]) }, fn)
			if !hasPhi && fromRecv {
				c.OK("C11.4", fname(fn), "encoded integer", w.instrPos(in), "pure conversion of the receiver's value")
			} else if hasPhi {
				c.Bad("C11.4", fname(fn), "encoded integer", w.instrPos(in), "the encoded integer is chosen among alternatives (clamped or substituted): some values of the domain are not encoded as themselves, while GetFrom decodes the full width")
			} else {
				c.Bad("C11.4", fname(fn), "encoded integer", w.instrPos(in), "the encoded integer does not derive from the receiver")
			}
		}
	}
	ruleRecogniserIgnoresPadding(c, "C11.5")
	ruleEncodersTotal(c, "C11.6")
	ruleDecodeRefusals(c, "C11.7")
}

// ruleRecogniserIgnoresPadding (C11.5): IsChannelData decides whether a DATAGRAM is a
// ChannelData message; Decode accepts exactly the buffers with a valid channel number and at
// least the declared number of data bytes (padding is optional over UDP). The recogniser must
// therefore not involve the 4-byte padding rule: a result that depends on the padded length
// refuses unpadded datagrams Decode accepts (what browsers send), and they are then taken for
// something else.
func ruleRecogniserIgnoresPadding(c *Ctx, rule string) {
	w := c.W
	c.Rule(rule, "sibling agreement IsChannelData/Decode: the result of IsChannelData does not depend (data or control, through helpers) on the 4-byte padding computation (nearestPaddedValueLength, or a %4 / &3 rounding of the declared length)", 1)
	fn := w.Func("proto", "", "IsChannelData")
	pad := w.FuncOpt("proto", "", "nearestPaddedValueLength")
	c.Anchor(rule, "IsChannelData")
	isPad := func(v ssa.Value, _ []*ssa.Call) bool {
		switch x := under(v).(type) {
		case *ssa.Call:
			return pad != nil && x.Call.StaticCallee() == pad
		case *ssa.BinOp:
			if x.Op == token.REM || x.Op == token.AND || x.Op == token.AND_NOT {
				if k, ok := constInt(x.Y); ok && (k == 4 || k == 3) {
					return true
				}
			}
		}
		return false
	}
	bad := ""
	for _, r := range returnsOf(fn) {
		if len(r.Results) == 0 {
			continue
		}
		if w.depWalk(r.Results[0], nil, isPad) {
			bad = "the result returned at " + w.instrPos(r) + " is computed from the padded length"
		}
		for _, f := range w.factsAt(r) {
			for _, side := range []ssa.Value{f.X, f.Y} {
				if side != nil && bad == "" && w.depWalk(side, nil, isPad) {
					bad = "the return at " + w.instrPos(r) + " is taken under a condition on the padded length"
				}
			}
		}
	}
	if bad == "" {
		c.OK(rule, fname(fn), "IsChannelData", w.pos(fn.Pos()), "compares the declared length with the bytes present; padding plays no part")
	} else {
		c.Bad(rule, fname(fn), "IsChannelData", w.pos(fn.Pos()), bad+": an unpadded ChannelData datagram (padding is optional over UDP) that Decode accepts is not recognised as ChannelData")
	}
}

// ruleEncodersTotal (C11.6): what the decoder accepts, the encoder must be able to write back
// (decode∘encode = id on the decoder's range). An attribute encoder therefore refuses a value
// only through the codec library's own checks (stun.CheckSize, AddToAs …), which the decoder
// applies as well — it has no refusal of its own (a range test on a port, a nil test on an IP)
// that would make a decoded value un-encodable.
func ruleEncodersTotal(c *Ctx, rule string) {
	w := c.W
	c.Rule(rule, "encoders are total on what decoders yield: every error an AddTo method of package proto (with a GetFrom sibling) can return is nil or the result of a call into the STUN library; none is produced by the module itself", 9)
	protoPkg := w.tpkg("proto")
	sc := protoPkg.Scope()
	var names []string
	for _, n := range sc.Names() {
		if tn, ok := sc.Lookup(n).(*types.TypeName); ok && !tn.IsAlias() {
			names = append(names, n)
		}
	}
	sort.Strings(names)
	var fromLib func(v ssa.Value, d int) (bool, string)
	fromLib = func(v ssa.Value, d int) (bool, string) {
		v = stripIface(w.resolveLoad(v))
		if isNilConst(v) {
			return true, ""
		}
		if d > 4 {
			return false, "too deep"
		}
		switch x := v.(type) {
		case *ssa.Phi:
			for _, e := range x.Edges {
				if ok, why := fromLib(e, d+1); !ok {
					return false, why
				}
			}
			return true, ""
		case *ssa.Call, *ssa.Extract:
			call, _ := callOf(v)
			if call == nil {
				return false, w.desc(v)
			}
			if call.Call.IsInvoke() {
				return false, "a dynamic call"
			}
			h := call.Call.StaticCallee()
			if h == nil {
				return false, "a dynamic call"
			}
			if h.Pkg != nil && strings.Contains(h.Pkg.Pkg.Path(), "pion/stun") {
				return true, ""
			}
			if w.IsMod[h] && len(h.Blocks) > 0 {
				// a module helper: only if everything IT returns comes from the library — or is
				// returned only for values no decoder can yield (a Port outside 0..65535)
				for _, r := range returnsOf(h) {
					for _, res := range r.Results {
						if res.Type().String() != "error" {
							continue
						}
						if ok, why := fromLib(res, d+1); !ok {
							if outsideDecoderRange(w, call, h, r) {
								continue
							}
							return false, fname(h) + " returns " + why
						}
					}
				}
				return true, ""
			}
			return false, "the result of " + h.String()
		}
		return false, w.desc(v)
	}
	for _, tn := range names {
		add := w.FuncOpt("proto", tn, "AddTo")
		get := w.FuncOpt("proto", tn, "GetFrom")
		if add == nil || get == nil {
			continue
		}
		c.Anchor(rule, tn)
		bad := ""
		for _, r := range returnsOf(add) {
			if len(r.Results) != 1 {
				continue
			}
			if ok, why := fromLib(r.Results[0], 0); !ok {
				bad = "the return at " + w.instrPos(r) + " yields " + why
			}
		}
		if bad == "" {
			c.OK(rule, "proto."+tn, "AddTo", w.pos(add.Pos()), "refuses only through the STUN library's own checks")
		} else {
			c.Bad(rule, "proto."+tn, "AddTo", w.pos(add.Pos()), "the encoder can refuse a value by a test of its own ("+bad+"): a value the decoder accepts (and every caller may hold) cannot be written back — decode∘encode is no longer the identity on the decoder's range")
		}
	}
}

// outsideDecoderRange: the return r of helper h (called as call) is reached only when an int
// parameter that the call fills from a Port field is below 0 or above 65535 — on every edge
// into the returning block. The decoders read the port from 16 bits, so such a value never
// comes out of a decode.
func outsideDecoderRange(w *World, call *ssa.Call, h *ssa.Function, r *ssa.Return) bool {
	isPortParam := func(v ssa.Value) bool {
		p, ok := stripIntConv(v).(*ssa.Parameter)
		if !ok || p.Parent() != h {
			return false
		}
		i := paramIndex(p)
		if i < 0 || i >= len(call.Call.Args) {
			return false
		}
		a := stripIntConv(w.resolveLoad(call.Call.Args[i]))
		if fx, isF := a.(*ssa.Field); isF {
			st, _ := fx.X.Type().Underlying().(*types.Struct)
			return st != nil && st.Field(fx.Field).Name() == "Port"
		}
		_, f, isL := fieldLoad(a)
		return isL && f.Name() == "Port"
	}
	outside := func(fs []Fact) bool {
		for _, f := range fs {
			if f.Op != "<" || !f.Truth {
				continue
			}
			if isPortParam(f.X) {
				if k, ok := constInt(f.Y); ok && k <= 0 {
					return true // port < k ≤ 0
				}
			}
			if isPortParam(f.Y) {
				if k, ok := constInt(f.X); ok && k >= 65535 {
					return true // 65535 ≤ k < port
				}
			}
		}
		return false
	}
	b := r.Block()
	var fs []Fact
	for f := range w.facts(h).in[b] {
		fs = append(fs, f)
	}
	if outside(fs) {
		return true
	}
	// merged error block of `p < 0 || p > max`: every incoming edge on its own
	seen := map[*ssa.BasicBlock]bool{}
	var edgeOK func(blk *ssa.BasicBlock, d int) bool
	edgeOK = func(blk *ssa.BasicBlock, d int) bool {
		if d > 3 || len(blk.Preds) == 0 || seen[blk] {
			return false
		}
		seen[blk] = true
		for _, p := range blk.Preds {
			var pf []Fact
			for f := range w.facts(h).in[p] {
				pf = append(pf, f)
			}
			pf = append(pf, edgeFacts(p, blk)...)
			if outside(pf) {
				continue
			}
			if len(edgeFacts(p, blk)) == 0 && edgeOK(p, d+1) {
				continue
			}
			return false
		}
		return true
	}
	return edgeOK(b, 0)
}

// ruleChannelHeaderWritten: the ChannelData header carries the channel number as it is
// (uint16(Number) into Raw[0:2]) and the payload length in its own 16 bits — a combined wider
// write would let length bits spill into the number (C11.3; shared with C08: the number seen on
// the wire is the number bound).
func ruleChannelHeaderWritten(c *Ctx, rule string) {
	w := c.W
	wh := w.Func("proto", "ChannelData", "WriteHeader")
	c.Anchor(rule, "WriteHeader")
	// byte by byte, however the header is put together (two 16-bit writes, or one 32-bit word
	// packed with shifts): Raw[0:2] = Number, Raw[2:4] = the low 16 bits of len(Data), big-endian
	wr, overlap := w.wireWrites(wh, w.Field("proto", "ChannelData", "Raw"), 4)
	isNum := func(v ssa.Value) bool {
		if v == nil {
			return false
		}
		_, f, isL := fieldLoad(stripConv(v))
		return isL && f.Name() == "Number"
	}
	isLen := func(v ssa.Value) bool {
		if v == nil || unsignedWidth(v.Type()) != 2 {
			return false
		}
		t := termOf(stripConv(v))
		if !t.Len || t.Cap {
			return false
		}
		_, f, isL := fieldLoad(t.V)
		return isL && f.Name() == "Data"
	}
	okNum := isNum(wr[0].val) && wr[0].idx == 1 && wr[1].val == wr[0].val && wr[1].idx == 0
	okLen := isLen(wr[2].val) && wr[2].idx == 1 && wr[3].val == wr[2].val && wr[3].idx == 0
	if okNum && okLen {
		c.OK(rule, fname(wh), "WriteHeader", w.pos(wh.Pos()), "Raw[0:2] = Number, Raw[2:4] = len(Data)")
	} else {
		why := fmt.Sprintf("header fields are not Number (%v) and len(Data) (%v)", okNum, okLen)
		if overlap != "" {
			why += ": the word written at " + overlap + " is put together from parts that overlap — a part wider than its field (a length not cut to 16 bits before it is merged in) spills into the neighbouring field"
		}
		c.Bad(rule, fname(wh), "WriteHeader", w.pos(wh.Pos()), why)
	}
}

// lengthenedThenCleared: the store st (after the payload append) puts back into Raw a value
// made from Raw by re-slicing / slices.Grow only — no byte is written — and on every path from
// it to the function's exits clear(Raw[E:]) runs, E being len(Raw) as read between the
// payload append and this store: the bytes past the payload are zero whatever the buffer held.
func lengthenedThenCleared(w *World, st *ssa.Store, payload ssa.Instruction, rawF *types.Var) bool {
	fn := st.Parent()
	isRawLoad := func(v ssa.Value) bool {
		if _, f, ok := fieldLoad(stripIface(v)); ok && f == rawF {
			return true
		}
		_, f, ok := fieldLoad(w.resolveLoad(v))
		return ok && f == rawF
	}
	// the stored value: Slice / Grow chain over a load of Raw
	v := st.Val
	for d := 0; d < 6; d++ {
		switch x := stripIface(v).(type) {
		case *ssa.Slice:
			if x.Low != nil {
				if k, isK := constInt(x.Low); !isK || k != 0 {
					return false
				}
			}
			v = x.X
			continue
		case *ssa.Call:
			if stdCallee(&x.Call) == "slices.Grow" && len(x.Call.Args) == 2 {
				v = x.Call.Args[0]
				continue
			}
			return false
		}
		break
	}
	if !isRawLoad(v) {
		return false
	}
	// E: len(load Raw) with the load after the payload append and before any later store to Raw
	isEnd := func(e ssa.Value) bool {
		t := termOf(e)
		if !t.Len || t.Cap {
			return false
		}
		ld, ok := stripIface(t.V).(*ssa.UnOp)
		if !ok || !isRawLoad(ld) || !instrDominates(payload, ld) {
			return false
		}
		clean := true
		w.eachInstr(fn, func(in ssa.Instruction) {
			s2, ok := in.(*ssa.Store)
			if !ok || in == payload {
				return
			}
			if fa, isFA := s2.Addr.(*ssa.FieldAddr); isFA && fieldOf(fa) == rawF && instrReaches(payload, s2) && instrReaches(s2, ld) {
				clean = false
			}
		})
		return clean
	}
	isClear := func(in ssa.Instruction) bool {
		call, ok := in.(*ssa.Call)
		if !ok {
			return false
		}
		b, isB := call.Call.Value.(*ssa.Builtin)
		if !isB || b.Name() != "clear" || len(call.Call.Args) != 1 {
			return false
		}
		sl, isS := stripIface(call.Call.Args[0]).(*ssa.Slice)
		return isS && sl.High == nil && sl.Low != nil && isRawLoad(sl.X) && isEnd(sl.Low)
	}
	blk := st.Block()
	after := false
	for _, in := range blk.Instrs {
		if in == ssa.Instruction(st) {
			after = true
			continue
		}
		if after && isClear(in) {
			return true
		}
	}
	if len(blk.Succs) == 0 {
		return false
	}
	for _, sb := range blk.Succs {
		if ok, _ := mustPassBefore(sb, isClear, func(*ssa.BasicBlock) bool { return false }); !ok {
			return false
		}
	}
	return true
}
