package main

// Thorough-tier self-validation: see mutants.go (filled in later).
func runSelftest(verifDir, repo, prop string) map[string]any {
	return selftestImpl(verifDir, repo, prop)
}
