package main

import (
	"fmt"
	"go/token"
	"go/types"
	"os"

	"golang.org/x/tools/go/ssa"
)

func init() {
	register(&propDef{
		ID:        "C01",
		Title:     "Client data leaves the relay only toward peers that client authorised",
		Technique: "guarded-sink dominance over go/ssa (must-facts + value identity), who-may-access on the relay socket field, predicate shape checks of the guard definitions",
		Explanation: "C01.1 the relay socket (Allocation.relayPacketConn) is written only inside (*Allocation).WriteTo, never leaks, and every call of (*Allocation).WriteTo is dominated by GetPermission(dst)!=nil or GetChannelByNumber(n)!=nil on the same allocation with dst/peer/number value-identical to what is written; " +
			"C01.2 that allocation comes from the manager lookup keyed by the request's own 5-tuple; " +
			"C01.3 AddPermission / AddChannelBind / CreateTCPConnection in package server are dominated by GrantPermission(req.SrcAddr, ip)==nil for the very IP installed (and by ipMatchesFamily(ip, alloc.AddressFamily()) for the first two); " +
			"C01.4 the guard functions have the required shape (GetPermission = map lookup by FingerprintAddr(arg); GetChannelByNumber returns only the element whose Number equals the argument; GrantPermission returns nil only if the handler is nil or returned true for the passed arguments; ipMatchesFamily true only under family==v4/v6 with the To4/To16 tests); " +
			"C01.6 the address installed in a permission/binding is decoded into storage local to the installing invocation (no aliasing with later decodes, so the entry expires under its own key); " +
			"C01.7 (=C07.1) permission timers are armed only from the permission timeout and channel timers only from the channel timeout (a swap lets one outlive its configured lifetime); " +
			"C01.8 every listener's read loop runs on the allocation manager that was created from that listener's own configuration (its PermissionHandler and relay generator), not on a manager picked from a table; " +
			"C01.9 (=C02.3) the function that keys the permission table (FingerprintAddr, or the key function AddPermission stores under) is a canonical form of the peer IP: evaluated over the three shapes of an IP (4-byte, IPv4-mapped, IPv6) on symbolic bytes, two different addresses never share a key, one address in two spellings has one key, port and zone play no part; " +
			"C01.5 the expiry closures remove exactly their own entry (RemovePermission(p.Addr) deletes key FingerprintAddr(addr); RemoveChannelBind(c.Number) removes the element with that number).",
		NotCovered: "that expiry happens at the right instant; the operator's policy; interleavings between the guard and the write.",
		Run:        runC01,
	})
}

func runC01(c *Ctx) {
	ruleC01_1(c, "C01.1a", "C01.1b")
	ruleAllocFromOwnTuple(c, "C01.2", []string{"handleSendIndication", "handleChannelData"})
	ruleInstallSinks(c, "C01.3")
	ruleGuardDefs(c, "C01.4")
	ruleExpiryRemoves(c, "C01.5")
	ruleInstalledAddrFresh(c, "C01.6")
	ruleTimerRoles(c, "C01.7")
	ruleListenerOwnManager(c, "C01.8")
	// the permission table key is injective in the peer IP (shared with C02.3/C08.6): a
	// permission for one address must not admit another
	ruleAddrDeps(c, "C01.9")
}

// ---------------------------------------------------------------------------------

func ruleC01_1(c *Ctx, ra, rb string) {
	w := c.W
	fld := w.Field("allocation", "Allocation", "relayPacketConn")
	sink := w.Func("allocation", "Allocation", "WriteTo")
	c.Rule(ra, "who-may-access: WriteTo is invoked on the value of Allocation.relayPacketConn only in (*Allocation).WriteTo; the field is assigned only from the packet-conn generator in CreateAllocation; its value is never stored elsewhere, passed on or returned", 3)
	invokes, stores, other := w.fieldUses(fld)
	nWrite := 0
	for _, iv := range invokes {
		c.Anchor(ra, fname(iv.fn)+"."+iv.method)
		switch iv.method {
		case "WriteTo":
			nWrite++
			if iv.fn == sink {
				c.OK(ra, fname(iv.fn), "relayPacketConn.WriteTo", w.instrPos(iv.call), "the one permitted writer of the relay socket")
			} else {
				c.Bad(ra, fname(iv.fn), "relayPacketConn.WriteTo", w.instrPos(iv.call), "a second code path writes to the relay socket, bypassing the guarded (*Allocation).WriteTo")
			}
		default:
			c.Triv(ra, fname(iv.fn), "relayPacketConn."+iv.method, w.instrPos(iv.call), "not a send")
		}
	}
	if nWrite == 0 {
		c.Bad(ra, "-", "relayPacketConn.WriteTo", "-", "no WriteTo on the relay socket found: anchor construct gone")
	}
	create := w.Func("allocation", "Manager", "CreateAllocation")
	gen := w.Field("allocation", "Manager", "allocatePacketConn")
	for _, st := range stores {
		ok := false
		isGenResult := func(v ssa.Value) bool {
			call, idx := callOf(v)
			if call == nil || idx != 0 || call.Call.IsInvoke() || call.Call.StaticCallee() != nil {
				return false
			}
			_, f, isLoad := fieldLoad(call.Call.Value)
			return isLoad && f == gen
		}
		if w.partOf(st.Parent(), create) {
			if isGenResult(st.Val) {
				ok = true
			} else if ls, complete := w.sources(st.Val, st, nil); complete && len(ls) > 0 {
				// through a helper's struct result: every source is the generator's socket or nil
				all, n := true, 0
				for i := range ls {
					switch {
					case len(ls[i].sel) == 0 && ls[i].mem == nil && isGenResult(ls[i].val):
						n++
					case isNilConst(ls[i].val):
					default:
						all = false
					}
				}
				ok = all && n > 0
			}
			if !ok {
				// through helpers, struct results and a take-out from where a reserved socket
				// was parked (C20.6's origin walk): generator results only
				org := map[string]bool{}
				w.relaySocketOrigins(st.Val, 0, map[ssa.Value]bool{}, org)
				ok = len(org) == 1 && org["generator"]
			}
		}
		if ok {
			c.OK(ra, fname(st.Parent()), "relayPacketConn=", w.instrPos(st), "assigned from result #0 of the Manager.allocatePacketConn generator")
		} else if al, isAl := rootAddr(st.Addr).(*ssa.Alloc); isAl && freshUnescapedAt(al, st) && isNilConst(st.Val) {
			c.Triv(ra, fname(st.Parent()), "relayPacketConn=", w.instrPos(st), "nil initialisation")
		} else {
			c.Bad(ra, fname(st.Parent()), "relayPacketConn=", w.instrPos(st), "relay socket assigned from something other than the packet-conn generator result in CreateAllocation")
		}
	}
	for _, o := range other {
		c.Bad(ra, fname(o.Parent()), "relayPacketConn escapes", w.instrPos(o), fmt.Sprintf("the relay socket value is used other than by a method call or nil test (%T): it may be written elsewhere", o))
	}

	c.Rule(rb, "every call of (*Allocation).WriteTo is guarded: destination ≡ argument of a dominating recv.GetPermission(·)!=nil, or ≡ .Peer of the result of a dominating recv.GetChannelByNumber(n)!=nil with n and the payload being fields of one decoded ChannelData; recv ≡ the sink's receiver; unguarded parameters propagate to the callers (depth ≤ 3)", 2)
	getPerm := w.Func("allocation", "Allocation", "GetPermission")
	getChan := w.Func("allocation", "Allocation", "GetChannelByNumber")
	var check func(site ssa.CallInstruction, recv, payload, dst ssa.Value, depth int, trail string)
	check = func(site ssa.CallInstruction, recv, payload, dst ssa.Value, depth int, trail string) {
		fn := site.Parent()
		pos := w.instrPos(site)
		c.Anchor(rb, fname(fn))
		// permission guard
		if g := w.guardedBy(site, getPerm, -1, "nonnil", func(g *ssa.Call) bool {
			return w.sameKey(g.Call.Args[0], recv) && w.sameKey(g.Call.Args[1], dst)
		}); g != nil {
			// the destination object must not be modified between guard and write
			if al, ok := stripIface(dst).(*ssa.Alloc); ok {
				if ok2, at := w.noStoreBetween(al, g, site); !ok2 {
					c.Bad(rb, fname(fn), "WriteTo dst", pos, "destination object is modified at "+at+" between the permission test and the write")
					return
				}
			}
			c.OK(rb, fname(fn), "WriteTo dst", pos, fmt.Sprintf("dominated by GetPermission(%s, %s) != nil at %s%s", w.key(recv), w.key(dst), w.instrPos(g), trail))
			return
		}
		// channel guard
		if g := w.guardedBy(site, getChan, -1, "nonnil", func(g *ssa.Call) bool {
			if !w.sameKey(g.Call.Args[0], recv) {
				return false
			}
			if !w.isFieldLoadOf(dst, g, "Peer") {
				return false
			}
			nb, nf, ok1 := fieldLoad(g.Call.Args[1])
			pb, pf, ok2 := fieldLoad(payload)
			return ok1 && ok2 && nf.Name() == "Number" && pf.Name() == "Data" && w.sameKey(nb, pb)
		}); g != nil {
			c.OK(rb, fname(fn), "WriteTo dst", pos, fmt.Sprintf("dominated by GetChannelByNumber(%s, %s) != nil at %s; destination is that binding's Peer; number and payload are fields of one ChannelData%s", w.key(recv), w.key(g.Call.Args[1]), w.instrPos(g), trail))
			return
		}
		// propagate when receiver and destination are parameters of the enclosing function
		rp, ok1 := stripIface(recv).(*ssa.Parameter)
		dp, ok2 := stripIface(dst).(*ssa.Parameter)
		pp, ok3 := stripIface(payload).(*ssa.Parameter)
		if ok1 && ok2 && ok3 && depth < 3 {
			callers := w.callsTo(fn)
			if len(callers) == 0 {
				c.Bad(rb, fname(fn), "WriteTo dst", pos, "unguarded relay write in a function that forwards its parameters, and no caller establishes the guard", w.factsDesc(site)...)
				return
			}
			for _, cs := range callers {
				args := cs.Common().Args
				check(cs, args[paramIndex(rp)], args[paramIndex(pp)], args[paramIndex(dp)], depth+1, trail+" (via "+fname(fn)+")")
			}
			return
		}
		c.Bad(rb, fname(fn), "WriteTo dst", pos, fmt.Sprintf("relay write to %s on %s is not dominated by a permission or channel-binding test for that destination on that allocation", w.key(dst), w.key(recv)), w.factsDesc(site)...)
	}
	for _, cs := range w.callsTo(sink) {
		a := cs.Common().Args
		check(cs, a[0], a[1], a[2], 0, "")
	}
}

func paramIndex(p *ssa.Parameter) int {
	for i, q := range p.Parent().Params {
		if q == p {
			return i
		}
	}
	return -1
}

// ---------------------------------------------------------------------------------
// C01.2 / C04.2 / C04.6: allocations come from the manager, keyed by the request's own tuple

// requestTuple checks that v is &allocation.FiveTuple{SrcAddr: req.SrcAddr, DstAddr:
// req.Conn.LocalAddr(), Protocol: UDP} for the req parameter of the enclosing handler.
func (w *World) requestTuple(v ssa.Value, fn *ssa.Function) (bool, string) {
	lit := w.literalOf(v)
	if lit == nil {
		return false, "not a FiveTuple literal: " + w.key(v)
	}
	root := w.bodyRoot(fn)
	if len(root.Params) == 0 {
		return false, "enclosing function has no request parameter"
	}
	req := root.Params[0]
	reqKey := w.key(req)
	src := lit.fields["SrcAddr"]
	if src == nil || w.key(src) != reqKey+".SrcAddr" {
		return false, "SrcAddr is " + w.key(src) + ", want " + reqKey + ".SrcAddr"
	}
	dst := lit.fields["DstAddr"]
	if dst == nil {
		return false, "DstAddr not set"
	}
	dc, _ := callOf(dst)
	if dc == nil || !dc.Call.IsInvoke() || dc.Call.Method.Name() != "LocalAddr" || w.key(dc.Call.Value) != reqKey+".Conn" {
		return false, "DstAddr is " + w.desc(dst) + ", want " + reqKey + ".Conn.LocalAddr()"
	}
	if p := lit.fields["Protocol"]; p != nil {
		if n, ok := constInt(p); !ok || n != 0 {
			return false, "Protocol is not the constant UDP(0)"
		}
	}
	return true, "{SrcAddr: req.SrcAddr, DstAddr: req.Conn.LocalAddr(), Protocol: UDP}"
}

func ruleAllocFromOwnTuple(c *Ctx, rule string, handlers []string) {
	w := c.W
	c.Rule(rule, "the *Allocation a data-plane handler acts on is the result of Manager.GetAllocation called on req.AllocationManager with a FiveTuple literal {SrcAddr: req.SrcAddr, DstAddr: req.Conn.LocalAddr(), Protocol: UDP} of the same request", len(handlers))
	get := w.Func("allocation", "Manager", "GetAllocation")
	for _, h := range handlers {
		fn := w.Func("server", "", h)
		n := 0
		for _, f := range w.helpersOf(fn) {
			w.eachInstr(f, func(in ssa.Instruction) {
				ci, ok := in.(ssa.CallInstruction)
				if !ok {
					return
				}
				cal := ci.Common().StaticCallee()
				if cal == nil || cal.Signature.Recv() == nil || !isPtrToNamed(cal.Signature.Recv().Type(), w.Named("allocation", "Allocation")) {
					return
				}
				n++
				recv := ci.Common().Args[0]
				gc, _ := callOf(recv)
				if gc == nil || gc.Call.StaticCallee() != get {
					c.Bad(rule, fname(f), "receiver of "+cal.Name(), w.instrPos(in), "allocation "+w.desc(recv)+" does not come from Manager.GetAllocation")
					return
				}
				if w.key(gc.Call.Args[0]) != w.key(fn.Params[0])+".AllocationManager" {
					c.Bad(rule, fname(f), "receiver of "+cal.Name(), w.instrPos(in), "lookup is not made on req.AllocationManager but on "+w.key(gc.Call.Args[0]))
					return
				}
				if ok, why := w.requestTuple(gc.Call.Args[1], f); !ok {
					c.Bad(rule, fname(f), "receiver of "+cal.Name(), w.instrPos(in), "lookup key is not the request's own 5-tuple: "+why)
					return
				}
				c.OK(rule, fname(f), "receiver of "+cal.Name(), w.instrPos(in), "GetAllocation(req.AllocationManager, {req.SrcAddr, req.Conn.LocalAddr(), UDP})")
			})
		}
		if n > 0 {
			c.Anchor(rule, h)
		}
	}
}

func isPtrToNamed(t types.Type, n *types.Named) bool {
	p, ok := t.(*types.Pointer)
	if !ok {
		return false
	}
	return types.Identical(p.Elem(), n)
}

// ---------------------------------------------------------------------------------
// C01.3 install sinks

func ruleInstallSinks(c *Ctx, rule string) {
	w := c.W
	c.Rule(rule, "AddPermission, AddChannelBind and CreateTCPConnection calls in package server are dominated by the ==nil edge of GrantPermission(req.AllocationManager, req.SrcAddr, ip) where ip is value-identical to the IP of the address being installed; the first two also by the true edge of ipMatchesFamily(ip, alloc.AddressFamily()) with alloc the receiver of the install call", 3)
	grant := w.Func("allocation", "Manager", "GrantPermission")
	fam := w.Func("server", "", "ipMatchesFamily")
	addrFam := w.Func("allocation", "Allocation", "AddressFamily")
	newPerm := w.Func("allocation", "", "NewPermission")
	newBind := w.Func("allocation", "", "NewChannelBind")
	type sink struct {
		fn        *ssa.Function
		allocArg  int
		addr      func(args []ssa.Value) (ssa.Value, string)
		needFam   bool
		construct string
	}
	sinks := []sink{
		{w.Func("allocation", "Allocation", "AddPermission"), 0, func(a []ssa.Value) (ssa.Value, string) {
			pc, _ := callOf(a[1])
			if pc == nil || pc.Call.StaticCallee() != newPerm {
				return nil, "argument is not a NewPermission(...) call"
			}
			return pc.Call.Args[0], ""
		}, true, "AddPermission"},
		{w.Func("allocation", "Allocation", "AddChannelBind"), 0, func(a []ssa.Value) (ssa.Value, string) {
			bc, _ := callOf(a[1])
			if bc == nil || bc.Call.StaticCallee() != newBind {
				return nil, "argument is not a NewChannelBind(...) call"
			}
			return bc.Call.Args[1], ""
		}, true, "AddChannelBind"},
		{w.Func("allocation", "Manager", "CreateTCPConnection"), 1, func(a []ssa.Value) (ssa.Value, string) {
			return a[2], ""
		}, false, "CreateTCPConnection"},
	}
	serverPkg := w.tpkg("server")
	for _, s := range sinks {
		for _, cs := range w.callsTo(s.fn) {
			fn := cs.Parent()
			if fn.Pkg == nil && fn.Parent() == nil {
				continue
			}
			if p := fnPkgPath(fn); p != serverPkg.Path() {
				continue
			}
			c.Anchor(rule, s.construct)
			args := cs.Common().Args
			pos := w.instrPos(cs)
			addr, why := s.addr(args)
			if addr == nil {
				c.Bad(rule, fname(fn), s.construct, pos, why)
				continue
			}
			ipKey, ok := w.ipKeyOfAddr(addr)
			if !ok {
				c.Undecided(rule, fname(fn), s.construct, pos, "cannot identify the IP of the installed address "+w.key(addr))
				continue
			}
			root := w.bodyRoot(fn)
			reqKey := w.key(root.Params[0])
			g := w.guardedBy(cs, grant, -1, "nil", func(g *ssa.Call) bool {
				return w.key(g.Call.Args[0]) == reqKey+".AllocationManager" && w.key(g.Call.Args[1]) == reqKey+".SrcAddr" && w.key(g.Call.Args[2]) == ipKey
			})
			if g == nil {
				c.Bad(rule, fname(fn), s.construct, pos, "not dominated by GrantPermission(req.AllocationManager, req.SrcAddr, "+ipKey+") == nil: the operator's veto is not consulted for the address installed here", w.factsDesc(cs)...)
				continue
			}
			if s.needFam {
				recv := args[s.allocArg]
				f := w.guardedBy(cs, fam, -1, "true", func(f *ssa.Call) bool {
					if w.key(f.Call.Args[0]) != ipKey {
						return false
					}
					fv := f.Call.Args[1]
					ac, _ := callOf(fv)
					if ac == nil {
						// the family read once before the per-peer callback (captured variable):
						// the same value, as the family is fixed when the allocation is created
						v := w.resolveLoad(fv)
						if x, isFV := v.(*ssa.FreeVar); isFV {
							if b := w.binding(x); b != nil {
								v = w.resolveLoad(b)
							}
						}
						if os.Getenv("TURNCHECK_C01DEBUG") != "" {
							fmt.Fprintf(os.Stderr, "C01.3 fam arg %T %s -> %T %s immutable=%v\n", fv, w.key(fv), v, w.key(v), w.immutableGetter(addrFam))
						}
						if ac2, _ := callOf(v); ac2 != nil && (ac2.Parent() == f.Parent() || w.immutableGetter(addrFam)) {
							ac = ac2
						}
					}
					return ac != nil && ac.Call.StaticCallee() == addrFam && w.sameKey(ac.Call.Args[0], recv)
				})
				if f == nil {
					c.Bad(rule, fname(fn), s.construct, pos, "not dominated by ipMatchesFamily("+ipKey+", alloc.AddressFamily()) being true for the receiving allocation", w.factsDesc(cs)...)
					continue
				}
			}
			c.OK(rule, fname(fn), s.construct, pos, "dominated by GrantPermission(mgr, req.SrcAddr, ip)==nil"+map[bool]string{true: " and ipMatchesFamily(ip, alloc.AddressFamily())", false: ""}[s.needFam]+" with ip = "+ipKey)
		}
	}
	// inside package allocation AddChannelBind -> AddPermission: discharged by propagation
	// (the peer of the permission is the channel's peer, whose install was vetted at the caller)
}

// ---------------------------------------------------------------------------------
// C01.4 guard definitions

func ruleGuardDefs(c *Ctx, rule string) {
	w := c.W
	c.Rule(rule, "shape of the guard functions: GetPermission returns recv.permissions[FingerprintAddr(arg)]; GetChannelByNumber returns an element only on the cb.Number == number edge; GrantPermission returns nil only when the handler is nil or handler(sourceAddr, peerIP) is true; ipMatchesFamily returns true only under family == IPv4 ∧ To4()!=nil or family == IPv6 ∧ To4()==nil ∧ To16()!=nil", 4)
	// GetPermission
	{
		fn := w.Func("allocation", "Allocation", "GetPermission")
		fp := w.permKeyFn()
		perms := w.Field("allocation", "Allocation", "permissions")
		c.Anchor(rule, "GetPermission")
		ok := false
		why := "no return of a map lookup found"
		for _, ret := range returnsOf(fn) {
			v := w.resolveLoad(ret.Results[0])
			lk, isL := v.(*ssa.Lookup)
			if !isL {
				if ex, isEx := v.(*ssa.Extract); isEx {
					lk, isL = ex.Tuple.(*ssa.Lookup)
				}
			}
			if !isL {
				why = "returns " + w.key(v) + ", not a map lookup"
				ok = false
				break
			}
			mb, mf, isLoad := fieldLoad(lk.X)
			kc, _ := callOf(lk.Index)
			if !isLoad || mf != perms || !w.sameKey(mb, fn.Params[0]) {
				why = "lookup is not in the receiver's permissions map"
				ok = false
				break
			}
			if kc == nil || kc.Call.StaticCallee() != fp || !w.sameKey(kc.Call.Args[0], fn.Params[1]) {
				why = "lookup key is not " + fp.Name() + "(addr) of the argument (the function AddPermission keys the table with)"
				ok = false
				break
			}
			ok = true
		}
		if ok {
			c.OK(rule, fname(fn), "GetPermission", w.pos(fn.Pos()), "every return is a.permissions[FingerprintAddr(addr)]")
		} else {
			c.Bad(rule, fname(fn), "GetPermission", w.pos(fn.Pos()), why)
		}
	}
	// GetChannelByNumber / GetChannelByAddr shape: non-nil return only under the equality
	{
		fn := w.Func("allocation", "Allocation", "GetChannelByNumber")
		c.Anchor(rule, "GetChannelByNumber")
		bad := ""
		n := 0
		for _, ret := range returnsOf(fn) {
			// every value the result can take (a direct return in the loop, or a "found"
			// variable set in it) is nil or an element on its own Number == number edge
			for _, lf := range w.guardedLeaves(ret.Results[0], ret) {
				v := lf.val
				if isNilConst(v) {
					continue
				}
				n++
				found := false
				for _, f := range lf.facts {
					if f.Op == "==" && f.Truth {
						for _, pair := range [][2]ssa.Value{{f.X, f.Y}, {f.Y, f.X}} {
							if w.isFieldLoadOf(pair[0], v, "Number") && w.sameKey(pair[1], fn.Params[1]) {
								found = true
							}
						}
					}
				}
				if !found {
					bad = "returns " + w.key(v) + " (selected at " + lf.at + ") without the test  returned.Number == number"
				}
				if !derivesFromTable(w, v, w.Field("allocation", "Allocation", "channelBindings")) {
					bad = "returns " + w.desc(v) + " at " + w.instrPos(ret) + ", which is not an element read from the live channelBindings table"
				}
			}
		}
		if bad == "" && n > 0 {
			c.OK(rule, fname(fn), "GetChannelByNumber", w.pos(fn.Pos()), fmt.Sprintf("%d non-nil return(s), each on the cb.Number == number edge for the returned element", n))
		} else {
			if bad == "" {
				bad = "never returns an element"
			}
			c.Bad(rule, fname(fn), "GetChannelByNumber", w.pos(fn.Pos()), bad)
		}
	}
	// GrantPermission
	{
		fn := w.Func("allocation", "Manager", "GrantPermission")
		ph := w.Field("allocation", "Manager", "permissionHandler")
		c.Anchor(rule, "GrantPermission")
		bad := ""
		n := 0
		for _, ret := range returnsOf(fn) {
			if !isNilConst(w.resolveLoad(ret.Results[0])) {
				continue
			}
			n++
			// every path to this return takes an edge on which the handler is nil or has said
			// yes (the two tests may be separate branches or one `||`)
			ok, _ := everyPathHas(fn, ret, func(f Fact) bool {
				// handler == nil
				if v, isNil, isNF := nilFact(f); isNF && isNil {
					if _, fl, isL := fieldLoad(v); isL && fl == ph {
						return true
					}
				}
				// handler(sourceAddr, peerIP) is true
				if f.Op == "true" && f.Truth {
					if call, _ := callOf(f.X); call != nil && call.Call.StaticCallee() == nil && !call.Call.IsInvoke() {
						if _, fl, isL := fieldLoad(call.Call.Value); isL && fl == ph && len(call.Call.Args) == 2 &&
							w.sameKey(call.Call.Args[0], fn.Params[1]) && w.sameKey(call.Call.Args[1], fn.Params[2]) {
							return true
						}
					}
				}
				return false
			})
			if !ok {
				bad = "returns nil at " + w.instrPos(ret) + " although neither 'handler == nil' nor 'handler(sourceAddr, peerIP) is true' holds on that path"
			}
		}
		if bad == "" && n > 0 {
			c.OK(rule, fname(fn), "GrantPermission", w.pos(fn.Pos()), fmt.Sprintf("%d nil return(s), each under handler==nil or handler(sourceAddr, peerIP)==true", n))
		} else {
			if bad == "" {
				bad = "never grants"
			}
			c.Bad(rule, fname(fn), "GrantPermission", w.pos(fn.Pos()), bad)
		}
	}
	// ipMatchesFamily
	{
		fn := w.Func("server", "", "ipMatchesFamily")
		c.Anchor(rule, "ipMatchesFamily")
		v4 := w.ConstInt("proto", "RequestedFamilyIPv4")
		v6 := w.ConstInt("proto", "RequestedFamilyIPv6")
		bad := ""
		n := 0
		for _, ret := range returnsOf(fn) {
			v := w.resolveLoad(ret.Results[0])
			if cst, ok := v.(*ssa.Const); ok && cst.Value != nil && cst.Value.String() == "false" {
				continue
			}
			n++
			famIs := int64(-1)
			for _, f := range w.factsAt(ret) {
				if f.Op == "==" && f.Truth {
					for _, pair := range [][2]ssa.Value{{f.X, f.Y}, {f.Y, f.X}} {
						if w.sameKey(pair[0], fn.Params[1]) {
							if k, ok := constInt(pair[1]); ok {
								famIs = k
							}
						}
					}
				}
			}
			// returned expression: conjunction of nil-tests of ip.To4() / ip.To16()
			tests := map[string]string{}
			collectNilTests(w, v, true, tests, fn.Params[0])
			switch famIs {
			case v4:
				if tests["To4"] != "nonnil" {
					bad = "IPv4 branch at " + w.instrPos(ret) + " does not return ip.To4() != nil"
				}
			case v6:
				if tests["To4"] != "nil" || tests["To16"] != "nonnil" {
					bad = "IPv6 branch at " + w.instrPos(ret) + " does not return ip.To4() == nil && ip.To16() != nil"
				}
			default:
				bad = "may return true at " + w.instrPos(ret) + " without a comparison of family with the IPv4/IPv6 constants"
			}
		}
		if bad == "" && n >= 2 {
			c.OK(rule, fname(fn), "ipMatchesFamily", w.pos(fn.Pos()), "true only under family==IPv4 ∧ To4()!=nil or family==IPv6 ∧ To4()==nil ∧ To16()!=nil")
		} else {
			if bad == "" {
				bad = "fewer than two family branches"
			}
			c.Bad(rule, fname(fn), "ipMatchesFamily", w.pos(fn.Pos()), bad)
		}
	}
}

func returnsOf(fn *ssa.Function) []*ssa.Return {
	var out []*ssa.Return
	for _, b := range fn.Blocks {
		if b == fn.Recover {
			continue // only reached after a recovered panic
		}
		if theWorld != nil && !theWorld.liveBlock(b) {
			continue // reachable only over branch edges that are never taken
		}
		if r, ok := b.Instrs[len(b.Instrs)-1].(*ssa.Return); ok {
			out = append(out, r)
		}
	}
	return out
}

// collectNilTests walks a boolean value made of nil comparisons of method results on ip
// combined by && (phi of false constants) and records method -> nil|nonnil.
func collectNilTests(w *World, v ssa.Value, truth bool, out map[string]string, ip ssa.Value) {
	for _, f := range normCond(v, truth) {
		if x, isNil, ok := nilFact(f); ok {
			if call, _ := callOf(x); call != nil {
				if cal := call.Call.StaticCallee(); cal != nil && len(call.Call.Args) > 0 && w.sameKey(call.Call.Args[0], ip) {
					if isNil {
						out[cal.Name()] = "nil"
					} else {
						out[cal.Name()] = "nonnil"
					}
				}
			}
		}
	}
	_ = token.NoPos
}

// ---------------------------------------------------------------------------------
// C01.5 / C07.3 expiry removes

func ruleExpiryRemoves(c *Ctx, rule string) {
	w := c.W
	c.Rule(rule, "the closure armed by Permission.start unconditionally calls p.allocation.RemovePermission(p.Addr) for its own p, and RemovePermission deletes key FingerprintAddr(addr) from the receiver's permissions; RemovePermission / RemoveChannelBind are called only from the entry's own expiry closure and from Allocation.Close; the closure armed by ChannelBind.start calls c.allocation.RemoveChannelBind(c.Number), and RemoveChannelBind removes an element only on the Number == number edge and does remove one when it exists", 4)
	afterFunc := timeAfterFunc(w)
	type spec struct {
		typ, remover, field string
	}
	for _, s := range []spec{{"Permission", "RemovePermission", "Addr"}, {"ChannelBind", "RemoveChannelBind", "Number"}} {
		start := w.Func("allocation", s.typ, "start")
		remover := w.Func("allocation", "Allocation", s.remover)
		c.Anchor(rule, s.typ+".start")
		var closure *ssa.Function
		w.eachInstr(start, func(in ssa.Instruction) {
			if call, ok := in.(*ssa.Call); ok && call.Call.StaticCallee() == afterFunc {
				if mc, ok := call.Call.Args[1].(*ssa.MakeClosure); ok {
					closure = w.closureBody(mc)
				}
			}
		})
		if closure == nil {
			c.Bad(rule, fname(start), s.typ+" expiry closure", w.pos(start.Pos()), "start does not arm time.AfterFunc with a function literal")
			continue
		}
		// the remover call must be in the entry block (unconditional) with the right args
		ok := false
		why := "closure does not call " + s.remover + " unconditionally"
		for _, in := range closure.Blocks[0].Instrs {
			call, isC := in.(*ssa.Call)
			if !isC || call.Call.StaticCallee() != remover {
				continue
			}
			recvOK := w.isFieldLoadOf(call.Call.Args[0], start.Params[0], "allocation") || w.key(call.Call.Args[0]) == "*@"+w.key(start.Params[0])+".allocation"
			argOK := w.key(call.Call.Args[1]) == "*@"+w.key(start.Params[0])+"."+s.field
			if recvOK && argOK {
				ok = true
			} else {
				why = fmt.Sprintf("closure calls %s(%s, %s): not the owner's allocation / own %s", s.remover, w.key(call.Call.Args[0]), w.key(call.Call.Args[1]), s.field)
			}
		}
		if ok {
			c.OK(rule, fname(closure), s.typ+" expiry closure", w.pos(closure.Pos()), "unconditionally calls recv.allocation."+s.remover+"(recv."+s.field+")")
		} else {
			c.Bad(rule, fname(closure), s.typ+" expiry closure", w.pos(closure.Pos()), why)
		}
	}
	// who may remove: an entry leaves its table only through its own expiry timer or the
	// allocation's teardown — no other code path may cut a lifetime short
	for _, s := range []spec{{"Permission", "RemovePermission", "Addr"}, {"ChannelBind", "RemoveChannelBind", "Number"}} {
		remover := w.Func("allocation", "Allocation", s.remover)
		start := w.Func("allocation", s.typ, "start")
		closeFn := w.Func("allocation", "Allocation", "Close")
		c.Anchor(rule, s.remover+" callers")
		bad := ""
		n := 0
		for _, cs := range w.callsTo(remover) {
			caller := cs.Parent()
			if caller.Synthetic != "" {
				continue
			}
			n++
			if w.withinBody(caller, start) || w.withinBody(caller, closeFn) {
				continue
			}
			bad = s.remover + " is called from " + fname(caller) + " at " + w.instrPos(cs) + ": a " + s.typ + " can be removed before its own timeout by something other than its expiry timer or the allocation's teardown"
		}
		if bad == "" && n >= 2 {
			c.OK(rule, fname(remover), s.remover+" callers", w.pos(remover.Pos()), fmt.Sprintf("%d callers: the %s expiry closure and Allocation.Close", n, s.typ))
		} else {
			if bad == "" {
				bad = fmt.Sprintf("only %d callers of %s (expiry closure and teardown expected)", n, s.remover)
			}
			c.Bad(rule, fname(remover), s.remover+" callers", w.pos(remover.Pos()), bad)
		}
	}
	// RemovePermission deletes FingerprintAddr(addr)
	{
		fn := w.Func("allocation", "Allocation", "RemovePermission")
		fp := w.permKeyFn()
		perms := w.Field("allocation", "Allocation", "permissions")
		c.Anchor(rule, "RemovePermission")
		ok := false
		// a value of a helper RemovePermission calls at one site, in RemovePermission's terms
		up := func(v ssa.Value, home *ssa.Function) ssa.Value {
			if home == fn {
				return v
			}
			p := rawParamOf(v, home)
			site := w.singleSiteCI(home)
			if p == nil || site == nil || site.Parent() != fn || paramIndex(p) >= len(site.Common().Args) {
				return v
			}
			return site.Common().Args[paramIndex(p)]
		}
		w.eachInstrDeep(fn, func(in ssa.Instruction) {
			call, isC := in.(*ssa.Call)
			if !isC {
				return
			}
			b, isB := call.Call.Value.(*ssa.Builtin)
			if !isB || b.Name() != "delete" {
				return
			}
			home := in.Parent()
			mb, mf, isLoad := fieldLoad(call.Call.Args[0])
			kc, _ := callOf(w.resolveLoad(up(call.Call.Args[1], home)))
			if !(isLoad && mf == perms && w.sameKey(up(mb, home), fn.Params[0]) && kc != nil && kc.Call.StaticCallee() == fp && w.sameKey(kc.Call.Args[0], fn.Params[1])) {
				return
			}
			// the delete may be conditional only on the presence of that very key
			good := true
			for _, f := range w.factsAt(in) {
				pres := false
				if f.Op == "true" && f.Truth {
					if e, isE := f.X.(*ssa.Extract); isE && e.Index == 1 {
						if lk, isL := e.Tuple.(*ssa.Lookup); isL && lk.CommaOk {
							_, lf, isFL := fieldLoad(lk.X)
							if isFL && lf == perms && w.sameKey(lk.Index, call.Call.Args[1]) {
								pres = true
							}
						}
					}
				}
				if !pres {
					good = false
				}
			}
			if good {
				ok = true
			}
		})
		if ok {
			c.OK(rule, fname(fn), "RemovePermission", w.pos(fn.Pos()), "delete(a.permissions, FingerprintAddr(addr)) whenever that key is present")
		} else {
			c.Bad(rule, fname(fn), "RemovePermission", w.pos(fn.Pos()), "does not delete key "+fp.Name()+"(addr) — the function AddPermission keys the table with — from the receiver's permissions on every path where it is present")
		}
	}
	// RemoveChannelBind: the store that shrinks channelBindings is on the Number==number edge
	{
		fn := w.Func("allocation", "Allocation", "RemoveChannelBind")
		cbs := w.Field("allocation", "Allocation", "channelBindings")
		c.Anchor(rule, "RemoveChannelBind")
		n := 0
		bad := ""
		relMemo := w.mayContain(func(in ssa.Instruction) bool {
			ci, ok := in.(ssa.CallInstruction)
			if !ok {
				return false
			}
			lo := w.lockOpOf(ci.Common())
			return lo != nil && lo.class == "allocation.Allocation.channelBindingsLock" && (lo.op == "Unlock" || lo.op == "RUnlock")
		})
		releasesTbl := func(h *ssa.Function) bool { return h != nil && w.IsMod[h] && len(h.Blocks) > 0 && relMemo(h) }
		// the number the removal is asked for, in the terms of the function that holds the
		// rewrite (RemoveChannelBind itself, or a helper it calls at one site with that number)
		isNumber := func(v ssa.Value, home *ssa.Function) bool {
			if home == fn {
				return w.sameKey(v, fn.Params[1])
			}
			p := rawParamOf(v, home)
			site := w.singleSiteCI(home)
			if p == nil || site == nil || paramIndex(p) >= len(site.Common().Args) {
				return false
			}
			return w.sameKey(site.Common().Args[paramIndex(p)], fn.Params[1])
		}
		w.eachInstrDeep(fn, func(in ssa.Instruction) {
			st, ok := in.(*ssa.Store)
			if !ok {
				return
			}
			fa, ok := st.Addr.(*ssa.FieldAddr)
			if !ok || fieldOf(fa) != cbs {
				return
			}
			n++
			found, stale := false, false
			for _, f := range w.factsAt(st) {
				if f.Op == "==" && f.Truth {
					for _, pair := range [][2]ssa.Value{{f.X, f.Y}, {f.Y, f.X}} {
						if base, fl, isL := fieldLoad(pair[0]); isL && fl.Name() == "Number" && isNumber(pair[1], st.Parent()) {
							// an observation made inside an accessor that takes and releases the
							// table's lock itself is stale by the time the slice is rewritten
							if site := w.siteOfValue(pair[0], base); site != nil && releasesTbl(site.Call.StaticCallee()) {
								stale = true
								continue
							}
							found = true
						}
					}
				}
			}
			if !found {
				bad = "channelBindings is rewritten at " + w.instrPos(st) + " without the test element.Number == number"
				if stale {
					bad += " made under the lock hold that covers the rewrite (the element was looked up in an earlier critical section: a ChannelBind that refreshes the binding in between is acknowledged and then lost)"
				}
			}
		})
		if n > 0 && bad == "" {
			c.OK(rule, fname(fn), "RemoveChannelBind", w.pos(fn.Pos()), "the slice is rewritten only on the element.Number == number edge")
		} else {
			if bad == "" {
				bad = "never removes"
			}
			c.Bad(rule, fname(fn), "RemoveChannelBind", w.pos(fn.Pos()), bad)
		}
	}
}

func timeAfterFunc(w *World) *ssa.Function {
	p := w.AllPkgs["time"]
	if p == nil {
		failf("anchor unresolved: package time")
	}
	obj, _ := p.Types.Scope().Lookup("AfterFunc").(*types.Func)
	if obj == nil {
		failf("anchor unresolved: time.AfterFunc")
	}
	return w.Prog.FuncValue(obj)
}

// ruleInstalledAddrFresh: the address object installed in a long-lived permission / channel
// binding must not share storage with later decodes. pion/stun's XOR address decoder re-uses
// the destination's IP backing array, so a PeerAddress variable that outlives one decode+install
// (e.g. hoisted out of the per-attribute callback) lets the next decode overwrite the bytes of
// the IP held by the permission already installed: its expiry then removes the wrong key and
// the first peer's permission never expires.
func ruleInstalledAddrFresh(c *Ctx, rule string) {
	w := c.W
	c.Rule(rule, "installed addresses do not alias decode storage: for every NewPermission / NewChannelBind call in package server, the proto.PeerAddress whose IP is copied into the installed net.UDPAddr literal is a local variable of the very function (literal) that performs the install — decoded and installed once per invocation — not a variable captured from an enclosing function or otherwise shared between decodes", 2)
	newPerm := w.Func("allocation", "", "NewPermission")
	newBind := w.Func("allocation", "", "NewChannelBind")
	serverPath := w.tpkg("server").Path()
	for _, target := range []*ssa.Function{newPerm, newBind} {
		argIdx := 0
		if target == newBind {
			argIdx = 1
		}
		for _, cs := range w.callsTo(target) {
			fn := cs.Parent()
			if fnPkgPath(fn) != serverPath {
				continue
			}
			c.Anchor(rule, fname(fn)+"."+target.Name())
			lit := w.literalOf(cs.Common().Args[argIdx])
			if lit == nil || lit.fields["IP"] == nil {
				c.Undecided(rule, fname(fn), target.Name()+" address", w.instrPos(cs), "installed address is not a literal with an IP field")
				continue
			}
			ip := lit.fields["IP"]
			if w.freshBytes(ip, 0) {
				c.OK(rule, fname(fn), target.Name()+" address", w.instrPos(cs), "the installed IP is a private copy of the decoded bytes")
				continue
			}
			base, _, ok := fieldLoadAddrOfLoad(ip)
			if !ok {
				c.Undecided(rule, fname(fn), target.Name()+" address", w.instrPos(cs), "cannot identify the storage the installed IP is read from: "+w.key(ip))
				continue
			}
			// the literal is built by a small helper on a by-value copy of the decoded
			// PeerAddress (peer.UDPAddr()): the copy shares the IP bytes with the value it was
			// made from — judge the storage that value was loaded from at the call
			if b, isAl := base.(*ssa.Alloc); isAl && b.Parent() != fn {
				if hc, _ := callOf(w.resolveLoad(cs.Common().Args[argIdx])); hc != nil {
					if o := w.byValueOrigin(b, hc); o != nil {
						base = rootAddr(o)
					}
				}
			}
			// shared storage is fine when every decode starts from the zero value: the
			// decoder then allocates a fresh IP instead of re-using the previous backing
			// array. Required: in this function a store of the zero PeerAddress into that
			// storage dominates the decode call (GetFrom / GetFromAs on its address), which
			// dominates the install.
			zeroedBeforeDecode := func() bool {
				okZero := false
				var zeroSts []ssa.Instruction
				w.eachInstr(fn, func(in ssa.Instruction) {
					st, isSt := in.(*ssa.Store)
					if !isSt || !(st.Addr == base || w.sameKey(st.Addr, base)) {
						return
					}
					if cst, isC := st.Val.(*ssa.Const); isC && cst.Value == nil {
						zeroSts = append(zeroSts, in)
					}
				})
				for _, zeroSt := range zeroSts {
					w.eachInstr(fn, func(in ssa.Instruction) {
						call, isC := in.(*ssa.Call)
						if !isC || call.Call.StaticCallee() == nil || len(call.Call.Args) == 0 {
							return
						}
						if n := call.Call.StaticCallee().Name(); n != "GetFrom" && n != "GetFromAs" {
							return
						}
						if (call.Call.Args[0] == base || w.sameKey(call.Call.Args[0], base)) && instrDominates(zeroSt, call) && instrDominates(call, cs) {
							okZero = true
						}
					})
				}
				return okZero
			}
			switch b := base.(type) {
			case *ssa.Alloc:
				if b.Parent() == fn {
					// also: a GetFrom decode into it must not sit in a loop with the install without re-allocation —
					// a local declared inside the loop body is a fresh Alloc per iteration in SSA
					c.OK(rule, fname(fn), target.Name()+" address", w.instrPos(cs), "IP read from a PeerAddress local to this invocation ("+b.Comment+")")
				} else {
					c.Bad(rule, fname(fn), target.Name()+" address", w.instrPos(cs), "the installed IP is read from storage owned by another function")
				}
			case *ssa.FreeVar:
				if zeroedBeforeDecode() {
					c.OK(rule, fname(fn), target.Name()+" address", w.instrPos(cs), "the captured decode target is reset to the zero value before every decode: the decoder allocates a fresh IP each time")
					break
				}
				c.Bad(rule, fname(fn), target.Name()+" address", w.instrPos(cs), "the installed IP is read from a PeerAddress variable captured from the enclosing function ("+b.Name()+"): it is shared by every decode of this request, and the decoder re-uses the IP's backing array, so a later XOR-PEER-ADDRESS overwrites the address held by the permission installed earlier (which then never expires under its own key)")
			default:
				if zeroedBeforeDecode() {
					c.OK(rule, fname(fn), target.Name()+" address", w.instrPos(cs), "the decode target is reset to the zero value before every decode: the decoder allocates a fresh IP each time")
				} else {
					c.Bad(rule, fname(fn), target.Name()+" address", w.instrPos(cs), "the installed IP is read from shared storage "+w.key(base))
				}
			}
		}
	}
}

// ruleListenerOwnManager (C01.8). The operator's permission handler is per listener
// (PacketConnConfig.PermissionHandler / ListenerConfig.PermissionHandler); it takes effect only
// through the allocation.Manager built from it. So the manager a listener's loop is started
// with has to be the one created from that very configuration value.
func ruleListenerOwnManager(c *Ctx, rule string) {
	w := c.W
	c.Rule(rule, "own manager: for every call of Server.readLoop / Server.readListener the manager argument is result #0 of a createAllocationManager call whose handler and generator arguments are fields of the same configuration value whose PacketConn / Listener field is the call's connection argument (followed through the goroutine's parameters)", 2)
	rl := w.Func("turn", "Server", "readLoop")
	rlis := w.Func("turn", "Server", "readListener")
	mk := w.Func("turn", "Server", "createAllocationManager")
	// cfgRoot: the configuration VALUE a field read comes from (the per-iteration element)
	var root func(v ssa.Value, site *ssa.Go, d int) (ssa.Value, string)
	root = func(v ssa.Value, site *ssa.Go, d int) (ssa.Value, string) {
		if d > 8 {
			return v, ""
		}
		v = stripIface(v)
		switch x := v.(type) {
		case *ssa.Field:
			r, _ := root(x.X, site, d+1)
			return r, x.X.Type().Underlying().(*types.Struct).Field(x.Field).Name()
		case *ssa.UnOp:
			if x.Op == token.MUL {
				if fa, ok := x.X.(*ssa.FieldAddr); ok {
					r, _ := root(fa.X, site, d+1)
					return r, derefStruct(fa.X.Type()).Field(fa.Field).Name()
				}
				if rv := w.resolveLoad(x); rv != ssa.Value(x) {
					return root(rv, site, d+1)
				}
				return root(x.X, site, d+1)
			}
		case *ssa.Alloc:
			if ss := w.stores[w.locKey(x)]; len(ss) == 1 && ss[0].Addr == ssa.Value(x) {
				return root(ss[0].Val, site, d+1)
			}
		case *ssa.FreeVar:
			// captured per-iteration variable (go func() { … cfg … am … }())
			if b := w.binding(x); b != nil {
				return root(b, nil, d+1)
			}
		case *ssa.Parameter:
			if site != nil {
				body := site.Call.StaticCallee()
				if mc, ok := site.Call.Value.(*ssa.MakeClosure); ok {
					body = w.closureBody(mc)
				}
				if x.Parent() == body {
					if i := paramIndex(x); i >= 0 && i < len(site.Call.Args) {
						return root(site.Call.Args[i], nil, d+1)
					}
				}
			}
		}
		return v, ""
	}
	n := 0
	for _, fn := range w.ModFns {
		if fnPkgPath(fn) != fnPkgPath(rl) {
			continue
		}
		w.eachInstr(fn, func(in ssa.Instruction) {
			call, ok := in.(*ssa.Call)
			if !ok || (call.Call.StaticCallee() != rl && call.Call.StaticCallee() != rlis) || len(call.Call.Args) < 3 {
				return
			}
			if call.Call.StaticCallee() == rl && fn == rlis {
				return // the per-connection loop of a stream listener: its manager is readListener's own parameter
			}
			if w.partOf(fn, rlis) {
				return
			}
			n++
			c.Anchor(rule, fname(fn)+"→"+call.Call.StaticCallee().Name())
			// the goroutine start this call runs in
			var site *ssa.Go
			for _, g := range w.goSitesOf(fn) {
				site = g
			}
			connRoot, connField := root(call.Call.Args[1], site, 0)
			amv, _ := root(call.Call.Args[2], site, 0)
			mc, idx := callOf(w.resolveLoad(amv))
			if p, isP := amv.(*ssa.Parameter); isP && (mc == nil || mc.Call.StaticCallee() != mk) {
				// the loop is a function value kept in a struct next to the configuration it was
				// built from (servedTransport{handler, generator, serve: func(am) {…}}) and called
				// as tr.serve(am) with am made from tr's own fields
				if ok, why := w.loopCarriedByConfigStruct(p, connRoot, mk, root); ok {
					c.OK(rule, fname(fn), "manager", w.instrPos(in), why)
					return
				}
			}
			if ia, isIA := amv.(*ssa.IndexAddr); isIA && (mc == nil || mc.Call.StaticCallee() != mk) {
				// managers created up front into a local slice parallel to the configurations:
				// managers[i] = create(cfgs[i]…) for every i, used as (cfgs[i], managers[i])
				if ok, why := w.parallelManagers(ia, connRoot, mk, root); ok {
					c.OK(rule, fname(fn), "manager", w.instrPos(in), why)
					return
				}
			}
			if mc == nil || mc.Call.StaticCallee() != mk || idx > 0 {
				c.Bad(rule, fname(fn), "manager", w.instrPos(in), "the allocation manager this listener's loop runs on is "+w.desc(amv)+", not the result of createAllocationManager for this listener's configuration: the listener's own PermissionHandler may never be consulted, so a peer it refuses is installed all the same")
				return
			}
			okAll := connField == "PacketConn" || connField == "Listener"
			for _, a := range mc.Call.Args[1:] {
				r, f := root(a, nil, 0)
				if f == "" || r != connRoot {
					okAll = false
				}
			}
			if okAll {
				c.OK(rule, fname(fn), "manager", w.instrPos(in), "manager created from the PermissionHandler and RelayAddressGenerator of the configuration whose "+connField+" the loop reads")
			} else {
				c.Bad(rule, fname(fn), "manager", w.instrPos(in), "the manager is created from another configuration value than the one whose connection the loop reads")
			}
		})
	}
	if n == 0 {
		c.Bad(rule, "-", "manager", "-", "no start of a listener loop found: anchor gone")
	}
}

// goSitesOf: the `go` statements that start fn (a function literal or a named function).
func (w *World) goSitesOf(fn *ssa.Function) []*ssa.Go {
	var out []*ssa.Go
	for _, f := range w.ModFns {
		w.eachInstr(f, func(in ssa.Instruction) {
			g, ok := in.(*ssa.Go)
			if !ok {
				return
			}
			if mc, isMC := g.Call.Value.(*ssa.MakeClosure); isMC {
				if w.closureBody(mc) == fn {
					out = append(out, g)
				}
			} else if g.Call.StaticCallee() == fn {
				out = append(out, g)
			}
		})
	}
	return out
}

// loopCarriedByConfigStruct: p is the manager parameter of a function literal C that is stored
// into a function-typed field fS of a struct literal L. Accepted when (1) every call through
// field fS passes, for p, result #0 of createAllocationManager called with fields of the very
// struct value the function was taken from, and (2) in L those fields are filled from the
// same configuration value (connRoot) whose connection C's loop reads.
func (w *World) loopCarriedByConfigStruct(p *ssa.Parameter, connRoot ssa.Value, mk *ssa.Function,
	root func(ssa.Value, *ssa.Go, int) (ssa.Value, string)) (bool, string) {
	body := p.Parent()
	var lit *ssa.Alloc
	var fS *types.Var
	for _, mcl := range w.Closures[body] {
		if mcl.Referrers() == nil {
			continue
		}
		for _, r := range *mcl.Referrers() {
			st, ok := r.(*ssa.Store)
			if !ok || st.Val != ssa.Value(mcl) {
				return false, ""
			}
			fa, ok := st.Addr.(*ssa.FieldAddr)
			if !ok {
				return false, ""
			}
			al, _ := allocBase(fa)
			if al == nil {
				return false, ""
			}
			lit, fS = al, fieldOf(fa)
		}
	}
	if lit == nil || fS == nil {
		return false, ""
	}
	// (1) the calls through the field
	usedFields := map[string]bool{}
	nCalls := 0
	okCalls := true
	for _, fn := range w.ModFns {
		w.eachInstr(fn, func(in ssa.Instruction) {
			call, ok := in.(*ssa.Call)
			if !ok || call.Call.IsInvoke() || call.Call.StaticCallee() != nil {
				return
			}
			holder, f, isL := fieldLoadAny(w, call.Call.Value)
			if !isL || f != fS {
				return
			}
			nCalls++
			i := paramIndex(p)
			if i < 0 || i >= len(call.Call.Args) {
				okCalls = false
				return
			}
			av, _ := root(call.Call.Args[i], nil, 0)
			cc, idx := callOf(w.resolveLoad(av))
			if cc == nil || cc.Call.StaticCallee() != mk || idx > 0 {
				okCalls = false
				return
			}
			for _, a := range cc.Call.Args[1:] {
				h2, f2, ok2 := fieldLoadAny(w, a)
				if !ok2 || !(h2 == holder || w.sameKey(h2, holder)) {
					okCalls = false
					return
				}
				usedFields[f2.Name()] = true
			}
		})
	}
	if nCalls == 0 || !okCalls || len(usedFields) == 0 {
		return false, ""
	}
	// (2) the literal fills those fields from the configuration the loop reads
	l := w.literalOf(lit)
	if l == nil {
		return false, ""
	}
	for name := range usedFields {
		v := l.fields[name]
		if v == nil {
			return false, ""
		}
		r, f := root(v, nil, 0)
		if f == "" || r != connRoot {
			return false, ""
		}
	}
	return true, fmt.Sprintf("the loop is carried in field %s of a struct whose handler and generator fields come from the same configuration; every call through the field passes the manager created from that struct's own fields (%d call site(s))", fS.Name(), nCalls)
}

// fieldLoadAny: v reads field f of a struct — through a pointer (load of a FieldAddr) or of a
// struct value (Field); holder is the struct's address resp. value, resolved through captured
// variables.
func fieldLoadAny(w *World, v ssa.Value) (holder ssa.Value, f *types.Var, ok bool) {
	v = stripIface(v)
	switch x := v.(type) {
	case *ssa.Field:
		st, isS := x.X.Type().Underlying().(*types.Struct)
		if !isS {
			return nil, nil, false
		}
		return stripIface(w.resolveLoad(x.X)), st.Field(x.Field), true
	case *ssa.UnOp:
		if x.Op == token.MUL {
			if fa, isFA := x.X.(*ssa.FieldAddr); isFA {
				h := fa.X
				if fv, isFV := h.(*ssa.FreeVar); isFV {
					if b := w.binding(fv); b != nil {
						h = b
					}
				}
				return h, fieldOf(fa), true
			}
		}
	}
	return nil, nil, false
}

// parallelManagers: use is &S[i] of a function-local slice S, and the connection read by the
// loop is an element &C[i] at the SAME index value; every store into S is S[j] = manager
// created from fields of C[j] (same j, same configuration slice C). Then S[i] is the manager of
// configuration C[i].
func (w *World) parallelManagers(use *ssa.IndexAddr, connRoot ssa.Value, mk *ssa.Function,
	root func(ssa.Value, *ssa.Go, int) (ssa.Value, string)) (bool, string) {
	cia, ok := connRoot.(*ssa.IndexAddr)
	if !ok || cia.Index != use.Index {
		return false, ""
	}
	sliceOf := func(v ssa.Value) ssa.Value { return stripIface(w.resolveLoad(v)) }
	S, isMS := sliceOf(use.X).(*ssa.MakeSlice)
	if !isMS || S.Parent() != use.Parent() && false {
		return false, ""
	}
	nStores := 0
	good := true
	fn := S.Parent()
	w.eachInstr(fn, func(in ssa.Instruction) {
		st, ok := in.(*ssa.Store)
		if !ok {
			return
		}
		ia, ok := st.Addr.(*ssa.IndexAddr)
		if !ok || sliceOf(ia.X) != ssa.Value(S) {
			return
		}
		nStores++
		v, _ := root(st.Val, nil, 0)
		cc, idx := callOf(w.resolveLoad(v))
		if cc == nil || cc.Call.StaticCallee() != mk || idx > 0 {
			good = false
			return
		}
		for _, a := range cc.Call.Args[1:] {
			r, f := root(a, nil, 0)
			ra, isIA := r.(*ssa.IndexAddr)
			if f == "" || !isIA || ra.Index != ia.Index || !(sliceOf(ra.X) == sliceOf(cia.X) || w.sameKey(ra.X, cia.X)) {
				good = false
			}
		}
	})
	// the slice itself goes nowhere else
	if S.Referrers() != nil {
		for _, r := range *S.Referrers() {
			switch x := r.(type) {
			case *ssa.IndexAddr, *ssa.DebugRef:
			case *ssa.Store:
				if al, isAl := x.Addr.(*ssa.Alloc); !isAl || x.Val != ssa.Value(S) || w.escapes(al) {
					good = false
				}
			case *ssa.Call:
				if b, isB := x.Call.Value.(*ssa.Builtin); !isB || (b.Name() != "len" && b.Name() != "cap") {
					good = false
				}
			default:
				good = false
			}
		}
	}
	if nStores == 0 || !good {
		return false, ""
	}
	return true, fmt.Sprintf("managers are created up front into a local slice parallel to the configurations (element j from configuration j, %d store(s)); the loop for configuration i runs on element i", nStores)
}

// permKeyFn: the function that keys the permission table: the callee that computes, from the
// permission's own address, the key AddPermission stores under — ipnet.FingerprintAddr, or a
// key function of the module taking the address alone (then subject to the same canonical-form
// obligation, C01.9). FingerprintAddr when AddPermission shows nothing else.
func (w *World) permKeyFn() *ssa.Function {
	fp := w.Func("ipnet", "", "FingerprintAddr")
	add := w.FuncOpt("allocation", "Allocation", "AddPermission")
	if add == nil {
		return fp
	}
	perms := w.Field("allocation", "Allocation", "permissions")
	res := fp
	w.eachInstr(add, func(in ssa.Instruction) {
		mu, ok := in.(*ssa.MapUpdate)
		if !ok {
			return
		}
		if _, f, isL := fieldLoad(mu.Map); !isL || f != perms {
			return
		}
		kc, _ := callOf(w.resolveLoad(mu.Key))
		if kc == nil || kc.Call.StaticCallee() == nil || len(kc.Call.Args) != 1 {
			return
		}
		h := kc.Call.StaticCallee()
		if !w.IsMod[h] || len(h.Params) != 1 || h.Params[0].Type().String() != "net.Addr" {
			return
		}
		if _, f, isL := fieldLoad(w.resolveLoad(kc.Call.Args[0])); isL && f.Name() == "Addr" {
			res = h
		}
	})
	return res
}
