package main

// E3 — lock analyses.
//   L1 balance (every acquire released on all exits, per lock instance)
//   L2 entry locksets over the call graph, lock-order graph, self re-acquisition
//   L3 guarded-by table
//   L4 atomic consistency
//   L5 blocking channel operations (inventory + held locks)

import (
	"encoding/json"
	"fmt"
	"go/token"
	"go/types"
	"sort"
	"strings"

	"golang.org/x/tools/go/ssa"
)

type lockOp struct {
	class string // "allocation.Manager.lock"
	inst  string // location key of the receiver
	op    string // Lock | Unlock | RLock | RUnlock
}

func (w *World) lockOpOf(c *ssa.CallCommon) *lockOp {
	fn := c.StaticCallee()
	if fn == nil || fn.Signature.Recv() == nil || len(c.Args) == 0 {
		return nil
	}
	rt := fn.Signature.Recv().Type().String()
	if rt != "*sync.Mutex" && rt != "*sync.RWMutex" {
		return nil
	}
	switch nm(fn) {
	case "Lock", "Unlock", "RLock", "RUnlock":
		return &lockOp{class: lockClass(c.Args[0]), inst: w.locKey(c.Args[0]), op: fn.Name()}
	}
	return nil
}

func lockClass(v ssa.Value) string {
	if fa, ok := v.(*ssa.FieldAddr); ok {
		pt := fa.X.Type().Underlying().(*types.Pointer).Elem()
		st := pt.Underlying().(*types.Struct)
		return refTypeStr(pt) + "." + nm(st.Field(fa.Field))
	}
	return "?" + short(v.Type().String())
}

func fieldClass(fa *ssa.FieldAddr) string {
	pt := fa.X.Type().Underlying().(*types.Pointer).Elem()
	st := pt.Underlying().(*types.Struct)
	return refTypeStr(pt) + "." + nm(st.Field(fa.Field))
}

// refTypeStr: short name of a type, with a renamed module type under its reference name.
func refTypeStr(t types.Type) string {
	if n, ok := t.(*types.Named); ok && n.Obj().Pkg() != nil && n.TypeArgs().Len() == 0 {
		if a := nm(n.Obj()); a != n.Obj().Name() {
			return n.Obj().Pkg().Name() + "." + a
		}
	}
	return short(t.String())
}

type sset map[string]bool

func (s sset) clone() sset {
	n := sset{}
	for k := range s {
		n[k] = true
	}
	return n
}
func (s sset) str() string {
	var ks []string
	for k := range s {
		ks = append(ks, k)
	}
	sort.Strings(ks)
	return strings.Join(ks, ",")
}
func inter(a, b sset) sset {
	n := sset{}
	for k := range a {
		if b[k] {
			n[k] = true
			continue
		}
		// held for writing on one side and for reading on the other: held for reading
		if strings.HasSuffix(k, "/W") && b[strings.TrimSuffix(k, "/W")+"/R"] {
			n[strings.TrimSuffix(k, "/W")+"/R"] = true
		}
		if strings.HasSuffix(k, "/R") && b[strings.TrimSuffix(k, "/R")+"/W"] {
			n[k] = true
		}
	}
	return n
}

// held sets contain "class/W" and "class/R"
type instrLocks struct{ must, may sset }

type lockInfo struct {
	at        map[ssa.Instruction]*instrLocks
	entryMust map[*ssa.Function]sset // {"TOP"} = no caller seen
	entryMay  map[*ssa.Function]sset
	callers   map[*ssa.Function][]ssa.CallInstruction
	roots     map[*ssa.Function]bool // thread roots (go targets, timer callbacks, no module caller)
	nLockFns  int
	nLockOps  int
}

func (w *World) lockInfo() *lockInfo {
	if w.li != nil {
		return w.li
	}
	li := &lockInfo{at: map[ssa.Instruction]*instrLocks{}, entryMust: map[*ssa.Function]sset{}, entryMay: map[*ssa.Function]sset{},
		callers: map[*ssa.Function][]ssa.CallInstruction{}, roots: map[*ssa.Function]bool{}}
	w.li = li
	for _, fn := range w.ModFns {
		type item struct {
			b    *ssa.BasicBlock
			held sset
			dfr  []string
		}
		seen := map[string]bool{}
		work := []item{{fn.Blocks[0], sset{}, nil}}
		has := false
		for len(work) > 0 {
			it := work[len(work)-1]
			work = work[:len(work)-1]
			k := fmt.Sprintf("%d|%s|%s", it.b.Index, it.held.str(), strings.Join(it.dfr, ","))
			if seen[k] {
				continue
			}
			seen[k] = true
			held := it.held.clone()
			dfr := append([]string{}, it.dfr...)
			for _, in := range it.b.Instrs {
				ii := li.at[in]
				if ii == nil {
					li.at[in] = &instrLocks{must: held.clone(), may: held.clone()}
				} else {
					ii.must = inter(ii.must, held)
					for k := range held {
						ii.may[k] = true
					}
				}
				switch x := in.(type) {
				case *ssa.Call:
					if lo := w.lockOpOf(&x.Call); lo != nil {
						has = true
						switch lo.op {
						case "Lock":
							held[lo.class+"/W"] = true
						case "RLock":
							held[lo.class+"/R"] = true
						case "Unlock":
							delete(held, lo.class+"/W")
						case "RUnlock":
							delete(held, lo.class+"/R")
						}
					}
				case *ssa.Defer:
					if lo := w.lockOpOf(&x.Call); lo != nil {
						has = true
						if lo.op == "Unlock" {
							dfr = append(dfr, lo.class+"/W")
						} else if lo.op == "RUnlock" {
							dfr = append(dfr, lo.class+"/R")
						}
					}
				case *ssa.RunDefers:
					for _, c := range dfr {
						delete(held, c)
					}
					dfr = nil
				}
			}
			for _, s := range liveSuccs(it.b) {
				work = append(work, item{s, held, dfr})
			}
		}
		if has {
			li.nLockFns++
		}
	}
	// call edges inside the module
	for _, fn := range w.ModFns {
		n := w.CG.Nodes[fn]
		if n == nil {
			continue
		}
		for _, e := range n.Out {
			cal := e.Callee.Func
			if !w.IsMod[cal] || e.Site == nil {
				continue
			}
			if _, isGo := e.Site.(*ssa.Go); isGo {
				li.roots[cal] = true
				continue
			}
			if _, isDefer := e.Site.(*ssa.Defer); isDefer {
				// deferred calls run at RunDefers; approximated by the lockset at the defer
				// statement minus nothing (conservative for may, optimistic for must) —
				// deferred module calls are not used as entry-lockset evidence
				continue
			}
			li.callers[cal] = append(li.callers[cal], e.Site)
		}
	}
	// closures handed to time.AfterFunc or to non-module code run on their own: roots
	for _, fn := range w.ModFns {
		for _, mc := range w.Closures[fn] {
			for _, r := range *mc.Referrers() {
				if c, ok := r.(ssa.CallInstruction); ok {
					// the body of a range-over-func loop: the iterator calls it back on this
					// goroutine before the range statement completes
					if _, isCall := c.(*ssa.Call); isCall && fn.Synthetic == "range-over-func yield" && c.Common().Value != ssa.Value(mc) {
						li.callers[fn] = append(li.callers[fn], c)
						continue
					}
					if cal := c.Common().StaticCallee(); cal != nil && !w.IsMod[cal] {
						if _, isCall := c.(*ssa.Call); isCall && syncCallback(cal) {
							// (*sync.Once).Do(f) runs f on the calling goroutine before it returns:
							// the call site is f's caller, with the locks held there
							li.callers[fn] = append(li.callers[fn], c)
							continue
						}
						li.roots[fn] = true
					}
				}
			}
		}
	}
	top := sset{"TOP": true}
	for _, fn := range w.ModFns {
		if len(li.callers[fn]) == 0 || li.roots[fn] {
			li.entryMust[fn] = sset{}
		} else {
			li.entryMust[fn] = top
		}
		li.entryMay[fn] = sset{}
	}
	for changed := true; changed; {
		changed = false
		for _, fn := range w.ModFns {
			if len(li.callers[fn]) == 0 {
				continue
			}
			var m sset
			first := true
			if li.roots[fn] {
				m = sset{}
				first = false
			}
			may := li.entryMay[fn].clone()
			for _, site := range li.callers[fn] {
				ii := li.at[site]
				if ii == nil {
					continue
				}
				caller := site.Parent()
				cm := li.entryMust[caller]
				var at sset
				if cm["TOP"] {
					at = top
				} else {
					at = ii.must.clone()
					for k := range cm {
						at[k] = true
					}
				}
				if first {
					m = at
					first = false
				} else if m["TOP"] {
					m = at
				} else if !at["TOP"] {
					m = inter(m, at)
				}
				for k := range ii.may {
					may[k] = true
				}
				for k := range li.entryMay[caller] {
					may[k] = true
				}
			}
			if m == nil {
				m = sset{}
			}
			if m.str() != li.entryMust[fn].str() {
				li.entryMust[fn] = m
				changed = true
			}
			if may.str() != li.entryMay[fn].str() {
				li.entryMay[fn] = may
				changed = true
			}
		}
	}
	return li
}

func (li *lockInfo) mustAt(in ssa.Instruction) sset {
	out := sset{}
	if ii := li.at[in]; ii != nil {
		for k := range ii.must {
			out[k] = true
		}
	}
	em := li.entryMust[in.Parent()]
	if !em["TOP"] {
		for k := range em {
			out[k] = true
		}
	}
	return out
}

func (li *lockInfo) mayAt(in ssa.Instruction) sset {
	out := sset{}
	if ii := li.at[in]; ii != nil {
		for k := range ii.may {
			out[k] = true
		}
	}
	for k := range li.entryMay[in.Parent()] {
		out[k] = true
	}
	return out
}

func holds(s sset, class string, write bool) bool {
	if s[class+"/W"] {
		return true
	}
	return !write && s[class+"/R"]
}

// ---------------------------------------------------------------------------------
// L1 balance

const textL1 = "L1 lock balance: along every control-flow path of a function, each sync.Mutex/RWMutex instance it acquires is released (directly or by a deferred call) before every return, and no lock is released that the function did not acquire"

func ruleL1(c *Ctx, rule string, floor int, filter func(fn *ssa.Function) bool) {
	w := c.W
	c.Rule(rule, textL1, floor)
	for _, fn := range w.ModFns {
		if filter != nil && !filter(fn) {
			continue
		}
		var ops []*lockOp
		w.eachInstr(fn, func(in ssa.Instruction) {
			if ci, ok := in.(ssa.CallInstruction); ok {
				if lo := w.lockOpOf(ci.Common()); lo != nil {
					ops = append(ops, lo)
				}
			}
		})
		if len(ops) == 0 {
			continue
		}
		c.Sites += len(ops)
		type st struct {
			held map[string]int
			dfr  []string
			path []string
		}
		clone := func(s st) st {
			n := st{held: map[string]int{}}
			for k, v := range s.held {
				if v != 0 {
					n.held[k] = v
				}
			}
			n.dfr = append([]string{}, s.dfr...)
			n.path = append([]string{}, s.path...)
			return n
		}
		str := func(s st) string {
			var ks []string
			for k, v := range s.held {
				if v != 0 {
					ks = append(ks, fmt.Sprintf("%s=%d", k, v))
				}
			}
			sort.Strings(ks)
			return strings.Join(ks, ",") + "|" + strings.Join(s.dfr, ",")
		}
		apply := func(s *st, lo *lockOp) {
			switch lo.op {
			case "Lock":
				s.held[lo.inst+"/W"]++
			case "Unlock":
				s.held[lo.inst+"/W"]--
			case "RLock":
				s.held[lo.inst+"/R"]++
			case "RUnlock":
				s.held[lo.inst+"/R"]--
			}
		}
		type item struct {
			b *ssa.BasicBlock
			s st
		}
		seen := map[string]bool{}
		work := []item{{fn.Blocks[0], st{held: map[string]int{}}}}
		type leak struct {
			lock string
			ret  ssa.Instruction
			path []string
		}
		leaks := map[string]leak{}
		nret := 0
		for len(work) > 0 {
			it := work[len(work)-1]
			work = work[:len(work)-1]
			k := fmt.Sprintf("%d#%s", it.b.Index, str(it.s))
			if seen[k] {
				continue
			}
			seen[k] = true
			s := clone(it.s)
			for _, in := range it.b.Instrs {
				switch x := in.(type) {
				case *ssa.Call:
					if lo := w.lockOpOf(&x.Call); lo != nil {
						apply(&s, lo)
						s.path = append(s.path, fmt.Sprintf("%s %s.%s()", w.instrPos(in), lo.inst, lo.op))
					}
				case *ssa.Defer:
					if lo := w.lockOpOf(&x.Call); lo != nil {
						s.dfr = append(s.dfr, lo.inst+"\x00"+lo.op+"\x00"+lo.class)
					}
				case *ssa.RunDefers:
					for i := len(s.dfr) - 1; i >= 0; i-- {
						p := strings.Split(s.dfr[i], "\x00")
						apply(&s, &lockOp{inst: p[0], op: p[1], class: p[2]})
					}
					s.dfr = nil
				case *ssa.Return:
					nret++
					for hk, v := range s.held {
						if v != 0 {
							id := hk + "@" + w.instrPos(x)
							if _, ok := leaks[id]; !ok {
								leaks[id] = leak{fmt.Sprintf("%s (count %+d)", hk, v), x, append(append([]string{}, s.path...), w.instrPos(x)+" return")}
							}
						}
					}
				}
			}
			for _, succ := range liveSuccs(it.b) {
				work = append(work, item{succ, s})
			}
		}
		// one obligation per lock instance of the function
		insts := map[string]bool{}
		for _, lo := range ops {
			insts[lo.inst] = true
		}
		var il []string
		for i := range insts {
			il = append(il, i)
		}
		sort.Strings(il)
		for _, inst := range il {
			var bad []leak
			var ids []string
			for id := range leaks {
				ids = append(ids, id)
			}
			sort.Strings(ids)
			for _, id := range ids {
				if strings.HasPrefix(id, inst+"/") {
					bad = append(bad, leaks[id])
				}
			}
			c.Anchor(rule, fname(fn))
			if len(bad) == 0 {
				c.OK(rule, fname(fn), inst, w.pos(fn.Pos()), fmt.Sprintf("balanced on all %d explored (block,lockset) states, %d returns", len(seen), nret))
				continue
			}
			for _, l := range bad {
				c.Bad(rule, fname(fn), inst, w.instrPos(l.ret), "returns with "+l.lock+" still held/unbalanced", l.path...)
			}
		}
	}
}

// ---------------------------------------------------------------------------------
// L2 lock order and self re-acquisition

func ruleL2(c *Ctx, rule string) {
	w := c.W
	li := w.lockInfo()
	c.Rule(rule, "L2 lock order: the graph 'class B acquired (directly or in a callee) while class A is held' is acyclic, and no lock class is write-acquired (or read-then-write acquired) while already held on the same path", 8)
	order := map[string]map[string]string{}
	nacq := 0
	for _, fn := range w.ModFns {
		w.eachInstr(fn, func(in ssa.Instruction) {
			call, ok := in.(*ssa.Call)
			if !ok {
				return
			}
			lo := w.lockOpOf(&call.Call)
			if lo == nil || (lo.op != "Lock" && lo.op != "RLock") {
				return
			}
			nacq++
			held := li.mayAt(in)
			selfBad := ""
			for h := range held {
				hc := h[:len(h)-2]
				if hc == lo.class {
					// same class already (possibly) held: re-acquisition is a self-deadlock when
					// it is the same instance; R then R is tolerated by sync.RWMutex only without
					// a waiting writer, so any re-acquisition is reported
					if sameInstanceLikely(w, li, in, lo) {
						selfBad = h
					}
					continue
				}
				if order[hc] == nil {
					order[hc] = map[string]string{}
				}
				if _, ok := order[hc][lo.class]; !ok {
					order[hc][lo.class] = fname(fn) + " " + w.instrPos(in)
				}
			}
			if selfBad != "" {
				c.Bad(rule, fname(fn), "reacquire "+lo.class, w.instrPos(in), fmt.Sprintf("%s of %s while %s may already be held on a path reaching this call (self-deadlock)", lo.op, lo.class, selfBad))
			}
		})
	}
	// cycle detection
	var nodes []string
	for a := range order {
		nodes = append(nodes, a)
	}
	sort.Strings(nodes)
	color := map[string]int{}
	var stack []string
	var cyc []string
	var dfs func(n string) bool
	dfs = func(n string) bool {
		color[n] = 1
		stack = append(stack, n)
		var succ []string
		for b := range order[n] {
			succ = append(succ, b)
		}
		sort.Strings(succ)
		for _, b := range succ {
			if color[b] == 1 {
				for i, s := range stack {
					if s == b {
						cyc = append(append([]string{}, stack[i:]...), b)
					}
				}
				return true
			}
			if color[b] == 0 && dfs(b) {
				return true
			}
		}
		stack = stack[:len(stack)-1]
		color[n] = 2
		return false
	}
	found := false
	for _, n := range nodes {
		if color[n] == 0 && dfs(n) {
			found = true
			break
		}
	}
	var es []string
	for _, a := range nodes {
		var bs []string
		for b := range order[a] {
			bs = append(bs, b)
		}
		sort.Strings(bs)
		for _, b := range bs {
			es = append(es, fmt.Sprintf("%s -> %s [%s]", a, b, order[a][b]))
			c.Anchor(rule, a+"->"+b)
		}
	}
	if found {
		var path []string
		for i := 0; i+1 < len(cyc); i++ {
			path = append(path, fmt.Sprintf("%s -> %s at %s", cyc[i], cyc[i+1], order[cyc[i]][cyc[i+1]]))
		}
		c.Bad(rule, "-", "lock-order cycle "+strings.Join(cyc, " -> "), "-", "lock classes are acquired in inconsistent order: two threads taking them in opposite order deadlock", path...)
	} else {
		c.OK(rule, "-", "lock-order graph", "-", fmt.Sprintf("acyclic: %d edges over %d acquisitions: %s", len(es), nacq, strings.Join(es, "; ")))
	}
	c.Sites += nacq
}

// sameInstanceLikely: the lock being acquired is the same instance as the one held. Within a
// function the instance keys are compared; across a call the receiver object is assumed to be
// the same when the class is a singleton per object graph (one Manager per listener, one
// Allocation per method receiver chain) — this is the per-class assumption recorded in the
// evidence. Distinct objects of one class locked in sequence (binding A then binding B) would
// be a false alarm; the repository has no such code today.
func sameInstanceLikely(w *World, li *lockInfo, in ssa.Instruction, lo *lockOp) bool {
	return true
}

// ---------------------------------------------------------------------------------
// L3 guarded-by

type guardedBy struct {
	pkg, typ, field string
	lockClass       string
	reason          string
}

// Discovered from the code (>= 90 % of non-constructor accesses under the lock), confirmed by
// reading, then frozen.
var guardedTable = []guardedBy{
	{"allocation", "Manager", "allocations", "allocation.Manager.lock", "5-tuple table"},
	{"allocation", "Manager", "reservations", "allocation.Manager.lock", "port reservations"},
	{"allocation", "Allocation", "tcpConnections", "allocation.Manager.lock", "documented in the struct: guarded by the manager lock"},
	{"allocation", "Allocation", "permissions", "allocation.Allocation.permissionsLock", "permission table"},
	{"allocation", "Allocation", "channelBindings", "allocation.Allocation.channelBindingsLock", "channel table"},
	{"turn", "Client", "relayedConn", "turn.Client.mutex", "documented: protected by mutex"},
	{"turn", "Client", "tcpAllocation", "turn.Client.mutex", "documented: protected by mutex"},
	{"client", "TransactionMap", "trMap", "client.TransactionMap.mutex", "transaction table"},
	{"client", "Transaction", "nRtx", "client.Transaction.mutex", "retransmission counter"},
	{"client", "Transaction", "interval", "client.Transaction.mutex", "current RTO"},
	{"client", "Transaction", "timer", "client.Transaction.mutex", "retransmission timer"},
	{"client", "bindingManager", "chanMap", "client.bindingManager.mutex", "channel->binding"},
	{"client", "bindingManager", "addrMap", "client.bindingManager.mutex", "addr->binding"},
	{"client", "bindingManager", "next", "client.bindingManager.mutex", "next channel number"},
	{"client", "binding", "_refreshedAt", "client.binding.mutex", "documented: protected by mutex"},
	{"client", "allocation", "_nonce", "client.allocation.mutex", "current nonce"},
	{"client", "allocation", "_lifetime", "client.allocation.mutex", "granted lifetime"},
	{"client", "permissionMap", "permMap", "client.permissionMap.mutex", "client permission table"},
	{"client", "PeriodicTimer", "stopFunc", "client.PeriodicTimer.mutex", "periodic timer stop channel"},
}

func ruleL3(c *Ctx, rule string, only func(g guardedBy) bool) {
	w := c.W
	li := w.lockInfo()
	c.Rule(rule, "L3 guarded-by: every access to a field of the frozen guarded-by table happens with its lock class held (write mode for stores, map updates and deletes), locally or in the entry lockset derived over all callers; exempt: objects freshly allocated in the same function that have not escaped (constructor idiom)", 10)
	tab := map[*types.Var]guardedBy{}
	for _, g := range guardedTable {
		if only != nil && !only(g) {
			continue
		}
		f := w.FieldOpt(g.pkg, g.typ, g.field)
		if f == nil {
			// the field is gone (replaced by another representation): nothing to guard; what
			// replaced it is covered by the new-field rule below
			c.Triv(rule, g.pkg+"."+g.typ, g.field, "-", "field of the reference tree no longer exists")
			continue
		}
		tab[f] = g
	}
	// fields that the reference tree does not have, in structs that own a mutex: a field that
	// is written with one of the struct's own locks held somewhere is guarded by it everywhere
	// (contradiction rule; the reference inventory tells old from new)
	var inv refInventory
	_ = json.Unmarshal(refnamesJSON, &inv)
	for _, fn := range w.ModFns {
		w.eachInstr(fn, func(in ssa.Instruction) {
			fa, ok := in.(*ssa.FieldAddr)
			if !ok {
				return
			}
			f := fieldOf(fa)
			if _, known := tab[f]; known || f.Pkg() == nil {
				return
			}
			owner := fieldOwnerName(w, f)
			if _, inRef := inv.Fields[f.Pkg().Path()+"|"+owner+"|"+f.Name()]; inRef || owner == "?" {
				return
			}
			if _, isRenamed := inv.Fields[f.Pkg().Path()+"|"+owner+"|"+nm(f)]; isRenamed {
				return
			}
			if !fieldAddrIsWritten(fa) {
				return
			}
			if al, ok := rootAddr(fa.X).(*ssa.Alloc); ok && freshUnescapedAt(al, in) {
				return
			}
			prefix := f.Pkg().Name() + "." + owner + "."
			for cls := range li.mustAt(in) {
				base := strings.TrimSuffix(strings.TrimSuffix(cls, "/W"), "/R")
				if strings.HasPrefix(base, prefix) && strings.HasSuffix(cls, "/W") {
					tab[f] = guardedBy{f.Pkg().Name(), owner, f.Name(), base, "new field, written under this lock at " + w.instrPos(in)}
				}
			}
		})
	}
	for _, fn := range w.ModFns {
		w.eachInstr(fn, func(in ssa.Instruction) {
			fa, ok := in.(*ssa.FieldAddr)
			if !ok {
				return
			}
			g, ok := tab[fieldOf(fa)]
			if !ok {
				return
			}
			name := g.pkg + "." + g.typ + "." + g.field
			c.Anchor(rule, name)
			if al, ok := rootAddr(fa.X).(*ssa.Alloc); ok && freshUnescapedAt(al, in) {
				c.Triv(rule, fname(fn), name, w.instrPos(in), "constructor: object allocated in this function and not yet shared")
				return
			}
			write := fieldAddrIsWritten(fa)
			held := li.mustAt(in)
			if li.entryMust[fn]["TOP"] {
				c.Undecided(rule, fname(fn), name, w.instrPos(in), "function has callers but none could be resolved: entry lockset unknown")
				return
			}
			if holds(held, g.lockClass, write) {
				mode := "read"
				if write {
					mode = "write"
				}
				c.OK(rule, fname(fn), name, w.instrPos(in), fmt.Sprintf("%s access with {%s} held (entry lockset {%s})", mode, held.str(), li.entryMust[fn].str()))
				return
			}
			mode := "read"
			if write {
				mode = "write"
			}
			c.Bad(rule, fname(fn), name, w.instrPos(in), fmt.Sprintf("%s access to %s without %s (held on all paths: {%s}); %s", mode, name, g.lockClass, held.str(), g.reason))
		})
	}
}

// freshUnescapedAt: al is a `new T` in this function and nothing before `at` (in program
// order of dominating blocks) published it. Approximation: every use of al that stores it
// somewhere, passes it to a call or returns it is not reachable-before `at`.
func freshUnescapedAt(al *ssa.Alloc, at ssa.Instruction) bool {
	if !al.Heap {
		return true
	}
	for _, r := range *al.Referrers() {
		switch x := r.(type) {
		case *ssa.FieldAddr, *ssa.DebugRef:
			continue
		case *ssa.Store:
			if x.Addr == ssa.Value(al) {
				continue
			}
		case *ssa.UnOp:
			continue
		}
		// escaping use: must not be able to execute before `at`
		if r == at {
			continue
		}
		if instrReaches(r, at) {
			return false
		}
	}
	return true
}

// fieldAddrIsWritten: the address is the target of a store, or the field holds a map/slice
// that is updated (MapUpdate, delete builtin) through a load of it.
func fieldAddrIsWritten(fa *ssa.FieldAddr) bool {
	for _, r := range *fa.Referrers() {
		switch x := r.(type) {
		case *ssa.Store:
			if x.Addr == ssa.Value(fa) {
				return true
			}
		case *ssa.UnOp:
			if x.Op != token.MUL {
				continue
			}
			for _, r2 := range *x.Referrers() {
				switch y := r2.(type) {
				case *ssa.MapUpdate:
					if y.Map == ssa.Value(x) {
						return true
					}
				case *ssa.Call:
					if b, ok := y.Call.Value.(*ssa.Builtin); ok && b.Name() == "delete" && len(y.Call.Args) > 0 && y.Call.Args[0] == ssa.Value(x) {
						return true
					}
				}
			}
		}
	}
	return false
}

// ---------------------------------------------------------------------------------
// L4 atomic consistency

func ruleL4(c *Ctx, rule string) {
	w := c.W
	c.Rule(rule, "L4 atomic consistency: a struct field whose address is passed to a sync/atomic function anywhere in the module is never read or written non-atomically (outside constructors of fresh objects)", 2)
	atomicFields := map[*types.Var]string{}
	isAtomicUse := func(fa *ssa.FieldAddr) bool {
		ok := false
		var visit func(v ssa.Value)
		visit = func(v ssa.Value) {
			for _, r := range *v.Referrers() {
				switch x := r.(type) {
				case *ssa.Convert:
					visit(x)
				case *ssa.ChangeType:
					visit(x)
				case ssa.CallInstruction:
					if cal := x.Common().StaticCallee(); cal != nil && cal.Pkg != nil && cal.Pkg.Pkg.Path() == "sync/atomic" {
						ok = true
					}
				}
			}
		}
		visit(fa)
		return ok
	}
	for _, fn := range w.ModFns {
		w.eachInstr(fn, func(in ssa.Instruction) {
			if fa, ok := in.(*ssa.FieldAddr); ok && isAtomicUse(fa) {
				atomicFields[fieldOf(fa)] = fieldClass(fa)
			}
		})
	}
	for _, fn := range w.ModFns {
		w.eachInstr(fn, func(in ssa.Instruction) {
			fa, ok := in.(*ssa.FieldAddr)
			if !ok {
				return
			}
			name, ok := atomicFields[fieldOf(fa)]
			if !ok {
				return
			}
			c.Anchor(rule, name)
			if isAtomicUse(fa) {
				c.OK(rule, fname(fn), name, w.instrPos(in), "accessed through sync/atomic")
				return
			}
			if al, ok := rootAddr(fa.X).(*ssa.Alloc); ok && freshUnescapedAt(al, in) {
				c.Triv(rule, fname(fn), name, w.instrPos(in), "constructor initialisation of a fresh object")
				return
			}
			plain := false
			for _, r := range *fa.Referrers() {
				switch x := r.(type) {
				case *ssa.Store:
					plain = true
				case *ssa.UnOp:
					if x.Op == token.MUL {
						plain = true
					}
				}
			}
			if plain {
				c.Bad(rule, fname(fn), name, w.instrPos(in), "plain (non-atomic) load or store of a field that is accessed with sync/atomic elsewhere: data race")
			} else {
				c.OK(rule, fname(fn), name, w.instrPos(in), "address taken but not loaded/stored plainly")
			}
		})
	}
	// fields of type atomic.Bool / atomic.Value etc. are safe by construction: count them
	for _, fn := range w.ModFns {
		w.eachInstr(fn, func(in ssa.Instruction) {
			if fa, ok := in.(*ssa.FieldAddr); ok {
				if n, ok := fieldOf(fa).Type().(*types.Named); ok && n.Obj().Pkg() != nil && n.Obj().Pkg().Path() == "sync/atomic" {
					c.Anchor(rule, fieldClass(fa))
				}
			}
		})
	}
}

// ---------------------------------------------------------------------------------
// L5 channel operations

type chanOp struct {
	in       ssa.Instruction
	kind     string // send | recv | select
	blocking bool
	ch       string // class of the channel (field) or key
}

func (w *World) chanOps(fn *ssa.Function) []chanOp {
	var out []chanOp
	w.eachInstr(fn, func(in ssa.Instruction) {
		switch x := in.(type) {
		case *ssa.Send:
			out = append(out, chanOp{in, "send", true, w.chanClass(x.Chan)})
		case *ssa.UnOp:
			if x.Op == token.ARROW {
				out = append(out, chanOp{in, "recv", true, w.chanClass(x.X)})
			}
		case *ssa.Select:
			var cs []string
			for _, s := range x.States {
				d := "recv "
				if s.Dir == types.SendOnly {
					d = "send "
				}
				cs = append(cs, d+w.chanClass(s.Chan))
			}
			out = append(out, chanOp{in, "select", x.Blocking, strings.Join(cs, " | ")})
		}
	})
	return out
}

func (w *World) chanClass(v ssa.Value) string {
	v = w.resolveLoad(v)
	if u, ok := v.(*ssa.UnOp); ok && u.Op == token.MUL {
		if fa, ok := u.X.(*ssa.FieldAddr); ok {
			return fieldClass(fa)
		}
	}
	if c, _ := callOf(v); c != nil {
		if f := c.Call.StaticCallee(); f != nil {
			return "result of " + fname(f)
		}
		if c.Call.IsInvoke() {
			return "result of " + c.Call.Method.Name()
		}
	}
	return w.key(v)
}

// syncCallback: library functions that run their function argument synchronously, on the
// calling goroutine, before returning.
func syncCallback(cal *ssa.Function) bool {
	switch cal.String() {
	case "(*sync.Once).Do":
		return true
	}
	return false
}
