package main

import (
	"fmt"
	"go/constant"
	"go/token"
	"go/types"
	"os"
	"strings"

	"golang.org/x/tools/go/ssa"
)

func init() {
	register(&propDef{
		ID:        "C17",
		Title:     "Time-windowed shared-secret credentials validate iff authentic and unexpired",
		Technique: "sibling agreement between the two credential generators and the two auth handlers (same derivation function, same arguments), normal form of the expiry comparison from must-facts, provenance of the returned key",
		Explanation: "C17.1 both generators and both handlers derive the password through one function (longTermCredentials) applied to the full username and the shared secret; the handlers return GenerateAuthKey(ra.Username, ra.Realm, that password) as key; " +
			"C17.2 a handler returns ok=true only on the edge equivalent to stamp ≥ now — operator and operand order normalised to ¬(int64(stamp) < time.Now().Unix()), whole seconds on both sides — with stamp the Atoi of the leading field of the username on the Atoi-success edge; every other return has ok=false; " +
			"C17.3 the generators stamp time.Now().Add(duration).Unix() formatted in base 10 as (the leading field of) the username; " +
			"C17.4 GenerateAuthKey hashes username:realm:password of its parameters as given (no normalisation of one side's inputs); " +
			"C17.5 the derived password depends on both the username and the shared secret on every success return and on no state outside the parameters, except a memo that is looked up under a key made of both; " +
			"C17.6 the key a handler returns owns its bytes: it is GenerateAuthKey's result or written into fresh storage, never into a pooled or shared buffer that the next authentication overwrites. C17.7 Server.authHandler is ServerConfig.AuthHandler itself. C17.8 the time-windowed handlers refuse only malformed or expired usernames (closed refusal set; an expiry test in a one-line helper is followed).",
		NotCovered: "forgery resistance of HMAC-SHA1/MD5; the clock; usernames containing further colons beyond what the derivation over the full username already binds.",
		Run:        runC17,
	})
}

func runC17(c *Ctx) {
	w := c.W
	derive := w.Func("turn", "", "longTermCredentials")
	genKey := w.Func("turn", "", "GenerateAuthKey")
	timeNow := w.extFunc("time", "Now")

	// ---- C17.3 + generator half of C17.1
	c.Rule("C17.3", "generators: the stamp is (time.Time).Unix() of time.Now().Add(duration) with duration the generator's parameter; the username is strconv.FormatInt(stamp, 10), for the REST variant concatenated with \":\" and the user; the password is result #0 of longTermCredentials(username, sharedSecret) with exactly that username and the secret parameter", 2)
	for _, gn := range []string{"GenerateLongTermCredentials", "GenerateLongTermTURNRESTCredentials"} {
		fn := w.Func("turn", "", gn)
		c.Anchor("C17.3", gn)
		var dc *ssa.Call
		w.eachInstr(fn, func(in ssa.Instruction) {
			if call, ok := in.(*ssa.Call); ok && call.Call.StaticCallee() == derive {
				dc = call
			}
		})
		if dc == nil {
			// the derivation may sit behind value-type helpers (username.password(secret))
			if why, ok := w.c17GeneratorSources(fn, derive, timeNow); ok {
				c.OK("C17.3", fname(fn), "stamp and derivation", w.pos(fn.Pos()), "username = FormatInt(Now().Add(duration).Unix(), 10)[:user]; password = longTermCredentials(username, secret); both returned (followed through helpers)")
			} else {
				if why == "" {
					why = "the generator does not derive the password through longTermCredentials"
				}
				c.Bad("C17.3", fname(fn), "derivation", w.pos(fn.Pos()), why)
			}
			continue
		}
		// stamp chain
		okStamp := false
		var stampStr ssa.Value
		w.eachInstr(fn, func(in ssa.Instruction) {
			call, ok := in.(*ssa.Call)
			if !ok || call.Call.StaticCallee() == nil || call.Call.StaticCallee().String() != "strconv.FormatInt" {
				return
			}
			if k, isK := constInt(call.Call.Args[1]); !isK || k != 10 {
				return
			}
			uc, _ := callOf(call.Call.Args[0])
			if uc == nil || uc.Call.StaticCallee() == nil || uc.Call.StaticCallee().String() != "(time.Time).Unix" {
				return
			}
			ac, _ := callOf(uc.Call.Args[0])
			if ac == nil || ac.Call.StaticCallee() == nil || ac.Call.StaticCallee().String() != "(time.Time).Add" {
				return
			}
			nc, _ := callOf(ac.Call.Args[0])
			var durParam ssa.Value = fn.Params[len(fn.Params)-1]
			if nc != nil && nc.Call.StaticCallee() == timeNow && w.sameKey(ac.Call.Args[1], durParam) {
				okStamp = true
				stampStr = call
			}
		})
		// username passed to derive: the stamp string, or stamp + ":" + user
		okUser := false
		if stampStr != nil {
			u := dc.Call.Args[0]
			if u == stampStr {
				okUser = true
			} else if bo, ok := u.(*ssa.BinOp); ok { // (stamp + ":") + user
				if b2, ok := bo.X.(*ssa.BinOp); ok && b2.X == stampStr {
					if k, isK := b2.Y.(*ssa.Const); isK && k.Value != nil && constant.StringVal(k.Value) == ":" {
						if _, isP := bo.Y.(*ssa.Parameter); isP {
							okUser = true
						}
					}
				}
			}
		}
		okSecret := w.sameKey(dc.Call.Args[1], fn.Params[0])
		// returned username and password
		okRet := true
		for _, r := range returnsOf(fn) {
			pc, pi := callOf(w.resolveLoad(r.Results[1]))
			if !(pc == dc && pi == 0) || !w.sameKey(w.resolveLoad(r.Results[0]), dc.Call.Args[0]) {
				okRet = false
			}
		}
		if okStamp && okUser && okSecret && okRet {
			c.OK("C17.3", fname(fn), "stamp and derivation", w.pos(fn.Pos()), "username = FormatInt(Now().Add(duration).Unix(), 10)[:user]; password = longTermCredentials(username, secret); both returned")
		} else {
			c.Bad("C17.3", fname(fn), "stamp and derivation", w.pos(fn.Pos()), fmt.Sprintf("generator shape changed: stamp=now+duration %v, username built from the stamp %v, secret is the parameter %v, returns (username, derived password) %v", okStamp, okUser, okSecret, okRet))
		}
	}

	ruleAuthKeyPure(c, "C17.4")
	rulePasswordPure(c, "C17.5")
	ruleKeyOwnsItsBytes(c, "C17.6")
	ruleAuthHandlerIsOperators(c, "C17.7")
	ruleTimeWindowRefusals(c, "C17.8")

	// ---- handlers
	c.Rule("C17.1", "handlers: the password is result #0 of longTermCredentials(ra.Username, sharedSecret) — the full presented username and the captured secret of the enclosing constructor — and the key returned with ok=true is GenerateAuthKey(ra.Username, ra.Realm, that password)", 2)
	c.Rule("C17.2", "expiry normal form: the return with ok=true is dominated by Atoi(stamp)#1 == nil and by ¬(int64(Atoi(stamp)#0) < time.Now().Unix()) (operator/operand order normalised), where stamp is ra.Username or element 0 of strings.Split(ra.Username, \":\"); all other returns have ok=false", 2)
	for _, hn := range []string{"NewLongTermAuthHandler", "LongTermTURNRESTAuthHandler"} {
		outer := w.Func("turn", "", hn)
		if len(outer.AnonFuncs) != 1 {
			c.Bad("C17.1", fname(outer), "handler closure", w.pos(outer.Pos()), "expected exactly one handler closure")
			continue
		}
		h := outer.AnonFuncs[0]
		ra := h.Params[0]
		c.Anchor("C17.1", hn)
		c.Anchor("C17.2", hn)
		var trueRet *ssa.Return
		okFalse := true
		for _, r := range returnsOf(h) {
			v, isC := w.resolveLoad(r.Results[2]).(*ssa.Const)
			if !isC || v.Value == nil {
				okFalse = false
				continue
			}
			if constant.BoolVal(v.Value) {
				if trueRet != nil {
					okFalse = false
				}
				trueRet = r
			}
		}
		if trueRet == nil || !okFalse {
			c.Bad("C17.2", fname(h), "ok results", w.pos(h.Pos()), "the handler does not have exactly one accepting return with constant results elsewhere")
			continue
		}
		// C17.1
		// the key may come out of a helper shared by both handlers: what that helper returns
		// on the outcome known at the accepting return
		kc, _ := callOf(w.resolveLoad(trueRet.Results[1]))
		if kc == nil || kc.Call.StaticCallee() != genKey {
			keyV, _, _ := w.originAt(trueRet.Results[1], trueRet)
			kc, _ = callOf(keyV)
		}
		okKey := false
		why := "the key is not GenerateAuthKey(...)"
		if kc != nil && kc.Call.StaticCallee() == genKey {
			pc, pi := callOf(kc.Call.Args[2])
			switch {
			case !w.isFieldLoadOf(kc.Call.Args[0], ra, "Username") || !w.isFieldLoadOf(kc.Call.Args[1], ra, "Realm"):
				why = "the key is not computed over ra.Username and ra.Realm but over " + w.key(kc.Call.Args[0]) + " and " + w.key(kc.Call.Args[1])
			case pc == nil || pc.Call.StaticCallee() != derive || pi != 0:
				why = "the key's password is not the result of longTermCredentials"
			case !w.isFieldLoadOf(pc.Call.Args[0], ra, "Username"):
				why = "the password is derived from " + w.key(pc.Call.Args[0]) + ", not from the full presented username: credentials issued for one username authenticate another"
			default:
				// secret: free variable bound to the constructor's first parameter
				p, ok := w.valueRootParam(pc.Call.Args[1])
				if ok && p == outer.Params[0] {
					okKey = true
				} else {
					why = "the secret used is not the constructor's sharedSecret"
				}
			}
		}
		if !okKey && kc != nil && kc.Call.StaticCallee() == genKey && w.isFieldLoadOf(kc.Call.Args[0], ra, "Username") && w.isFieldLoadOf(kc.Call.Args[1], ra, "Realm") {
			// the password may come out of value-type helpers (username.password(secret)):
			// every source of it is result #0 of longTermCredentials over the presented username
			if why2, ok := w.c17PasswordSources(kc.Call.Args[2], trueRet, derive, ra, outer.Params[0]); ok {
				okKey = true
			} else if why2 != "" {
				why = why2
			}
		}
		if okKey {
			c.OK("C17.1", fname(h), "key", w.instrPos(trueRet), "key = GenerateAuthKey(ra.Username, ra.Realm, longTermCredentials(ra.Username, sharedSecret))")
		} else {
			c.Bad("C17.1", fname(h), "key", w.instrPos(trueRet), why)
		}
		// C17.2
		var atoi *ssa.Call
		okErr, okCmp := false, false
		facts := w.factsAt(trueRet)
		for _, f := range facts {
			if v, isNil, ok := nilFact(f); ok && isNil {
				if ac, ai := callOf(v); ac != nil && ai == 1 && isDecimalParse(ac) {
					atoi = ac
					okErr = true
				}
			}
		}
		stampOK := false
		if atoi != nil {
			s := atoi.Call.Args[0]
			if w.isFieldLoadOf(s, ra, "Username") {
				stampOK = true
			} else if whole := leadingFieldOf(s); whole != nil && w.isFieldLoadOf(whole, ra, "Username") {
				stampOK = true
			}
		}
		for _, f := range facts {
			if f.Op != "<" || f.Truth {
				continue
			}
			xc, xi := callOf(stripIntConv(w.unixSeconds(f.X, trueRet)))
			yc, _ := callOf(f.Y)
			if xc != nil && atoi != nil && (xc == atoi || w.key(xc) == w.key(atoi)) && xi == 0 && yc != nil && yc.Call.StaticCallee() != nil && yc.Call.StaticCallee().String() == "(time.Time).Unix" {
				if nc, _ := callOf(yc.Call.Args[0]); nc != nil && nc.Call.StaticCallee() == timeNow {
					okCmp = true
				}
			}
		}
		if !(okErr && stampOK && okCmp) {
			if w.c17ExpirySources(trueRet, ra, timeNow) {
				okErr, stampOK, okCmp = true, true, true
			}
		}
		if okErr && stampOK && okCmp {
			c.OK("C17.2", fname(h), "expiry", w.instrPos(trueRet), "accepted only when Atoi(stamp) succeeded and ¬(stamp < Now().Unix()): valid through the stamped second, rejected from the next")
		} else {
			c.Bad("C17.2", fname(h), "expiry", w.instrPos(trueRet), fmt.Sprintf("the accepting return is not on the edge stamp ≥ now in whole seconds (Atoi ok=%v, stamp is the username's leading field=%v, comparison int64(stamp) vs time.Now().Unix() in normal form=%v)", okErr, stampOK, okCmp), w.factsDesc(trueRet)...)
		}
	}
}

// ruleAuthKeyPure (C17.4): GenerateAuthKey is MD5(username ":" realm ":" password) of its
// parameters as given.
func ruleAuthKeyPure(c *Ctx, rule string) {
	w := c.W
	c.Rule(rule, "GenerateAuthKey hashes exactly username \":\" realm \":\" password: the three parameters, in this order, joined by \":\", reach the MD5 unmodified — the only calls in the function are the hash, the join/concatenation/formatting and byte conversions (no case folding, trimming or other normalisation of one side's inputs: the client signs with the strings as sent)", 1)
	fn := w.Func("turn", "", "GenerateAuthKey")
	c.Anchor(rule, "GenerateAuthKey")
	allowed := func(name string) bool {
		switch name {
		case "crypto/md5.New", "crypto/md5.Sum", "fmt.Fprint", "fmt.Sprint", "strings.Join", "io.WriteString", "fmt.Fprintf", "fmt.Sprintf":
			return true
		}
		return false
	}
	bad := ""
	var joined []ssa.Value
	sep := ""
	w.eachInstrDeep(fn, func(in ssa.Instruction) {
		call, ok := in.(*ssa.Call)
		if !ok {
			return
		}
		if _, isB := call.Call.Value.(*ssa.Builtin); isB {
			return
		}
		if call.Call.IsInvoke() {
			switch call.Call.Method.Name() {
			case "Write", "Sum", "Reset", "WriteString":
				return
			}
			bad = "the key derivation invokes " + call.Call.Method.Name() + " at " + w.instrPos(in)
			return
		}
		cal := call.Call.StaticCallee()
		if cal == nil || !allowed(cal.String()) {
			name := "a function value"
			if cal != nil {
				name = cal.String()
			}
			bad = "the key derivation calls " + name + " at " + w.instrPos(in) + ": an input is transformed before it is hashed, so the key differs from the one the client signs with (MD5(username:realm:password) of the strings as sent)"
			return
		}
		if cal.String() == "strings.Join" {
			joined = variadicElems(call.Call.Args[0])
			if k, isK := call.Call.Args[1].(*ssa.Const); isK && k.Value != nil {
				sep = constant.StringVal(k.Value)
			}
		}
	})
	if bad == "" && len(joined) > 0 {
		if len(joined) != 3 || sep != ":" {
			bad = fmt.Sprintf("the hashed string joins %d values with %q, not username:realm:password", len(joined), sep)
		} else {
			for i, v := range joined {
				if p, ok := w.valueRootParam(v); !ok || p != fn.Params[i] {
					bad = fmt.Sprintf("element %d of the hashed string is %s, not parameter %s", i, w.desc(v), fn.Params[i].Name())
				}
			}
		}
	}
	if bad == "" && len(joined) == 0 {
		// concatenation form: result must depend on all three parameters
		for _, p := range fn.Params {
			dep := false
			for _, r := range returnsOf(fn) {
				if w.dependsOn(r.Results[0], func(x ssa.Value) bool { return x == ssa.Value(p) }, fn) {
					dep = true
				}
			}
			if !dep {
				bad = "the key does not depend on parameter " + p.Name()
			}
		}
	}
	if bad == "" {
		c.OK(rule, fname(fn), "GenerateAuthKey", w.pos(fn.Pos()), "MD5 over username:realm:password, parameters unmodified")
	} else {
		c.Bad(rule, fname(fn), "GenerateAuthKey", w.pos(fn.Pos()), bad)
	}
}

// isDecimalParse: strconv.Atoi(s), or strconv.ParseInt(s, 10, 0|64) — the same function on
// every string.
func isDecimalParse(c *ssa.Call) bool {
	cal := c.Call.StaticCallee()
	if cal == nil {
		return false
	}
	switch cal.String() {
	case "strconv.Atoi":
		return true
	case "strconv.ParseInt":
		base, ok1 := constInt(c.Call.Args[1])
		bits, ok2 := constInt(c.Call.Args[2])
		return ok1 && ok2 && base == 10 && (bits == 0 || bits == 64)
	}
	return false
}

// leadingFieldOf: v is the text before the first ':' of a string S — strings.Split(S, ":")[0]
// (SplitN with n ≥ 3 or < 0) or the first result of strings.Cut(S, ":") — and S (nil otherwise).
func leadingFieldOf(v ssa.Value) ssa.Value {
	if u, ok := v.(*ssa.UnOp); ok && u.Op == token.MUL {
		if ia, ok := u.X.(*ssa.IndexAddr); ok {
			if k, isK := constInt(ia.Index); isK && k == 0 {
				if sc, _ := callOf(ia.X); sc != nil && isColonSplit(sc) {
					return sc.Call.Args[0]
				}
			}
		}
	}
	if ex, ok := v.(*ssa.Extract); ok && ex.Index == 0 {
		if sc, ok := ex.Tuple.(*ssa.Call); ok && stdCallee(&sc.Call) == "strings.Cut" && len(sc.Call.Args) == 2 {
			if sep, ok := sc.Call.Args[1].(*ssa.Const); ok && sep.Value != nil && sep.Value.ExactString() == `":"` {
				return sc.Call.Args[0]
			}
		}
	}
	return nil
}

// isColonSplit: strings.Split(s, ":"), or strings.SplitN(s, ":", n) with n < 0 or n ≥ 3 —
// the first two fields are then the same as Split's.
func isColonSplit(c *ssa.Call) bool {
	cal := c.Call.StaticCallee()
	if cal == nil || len(c.Call.Args) < 2 {
		return false
	}
	sep, ok := c.Call.Args[1].(*ssa.Const)
	if !ok || sep.Value == nil || sep.Value.ExactString() != `":"` {
		return false
	}
	switch cal.String() {
	case "strings.Split":
		return true
	case "strings.SplitN":
		n, okN := constInt(c.Call.Args[2])
		return okN && (n < 0 || n >= 3)
	}
	return false
}

// unixSeconds: time.Unix(s, 0).Unix() is s (the stamp carried as an instant and read back
// in whole seconds); any other value is returned unchanged.
func (w *World) unixSeconds(v ssa.Value, at ssa.Instruction) ssa.Value {
	uc, _ := callOf(stripIntConv(v))
	if uc == nil || uc.Call.StaticCallee() == nil || uc.Call.StaticCallee().String() != "(time.Time).Unix" {
		return v
	}
	tv, _, _ := w.originAt(uc.Call.Args[0], at)
	tc, _ := callOf(tv)
	if os.Getenv("TURNCHECK_C17DEBUG") != "" {
		fmt.Fprintf(os.Stderr, "unixSeconds: arg=%s origin=%s (%T)\n", w.key(uc.Call.Args[0]), w.key(tv), tv)
	}
	if tc == nil || tc.Call.StaticCallee() == nil || tc.Call.StaticCallee().String() != "time.Unix" {
		return v
	}
	if k, isK := constInt(tc.Call.Args[1]); !isK || k != 0 {
		return v
	}
	return tc.Call.Args[0]
}

// c17PasswordSources: every source of the password value is result #0 of derive(username,
// secret) with every source of that username being ra.Username and the secret the
// constructor's parameter.
func (w *World) c17PasswordSources(pw ssa.Value, at ssa.Instruction, derive *ssa.Function, ra *ssa.Parameter, secret *ssa.Parameter) (string, bool) {
	stop := func(h *ssa.Function) bool { return h == derive }
	leaves, complete := w.sources(pw, at, stop)
	if !complete || len(leaves) == 0 {
		return "", false
	}
	for i := range leaves {
		l := &leaves[i]
		dc, di := callOf(l.val)
		if dc == nil || dc.Call.StaticCallee() != derive || di != 0 || len(l.sel) > 0 {
			return "the key's password is not the result of longTermCredentials", false
		}
		uls, ok := w.sourcesIn(dc.Call.Args[0], dc, l.frames, l.facts, stop)
		if !ok || len(uls) == 0 {
			return "the username the password is derived from could not be followed to its sources", false
		}
		for j := range uls {
			u := &uls[j]
			if len(u.sel) > 0 || u.mem != nil || !w.isFieldLoadOf(u.outer(w, u.val), ra, "Username") {
				return "the password is derived from " + w.desc(u.val) + " (" + u.where + "), not from the full presented username: credentials issued for one username authenticate another", false
			}
		}
		sv := l.outer(w, dc.Call.Args[1])
		if p, ok := w.valueRootParam(sv); !ok || p != secret {
			return "the secret used is not the constructor's sharedSecret", false
		}
	}
	return "", true
}

// c17ExpirySources: the accepting return is dominated by a comparison — possibly made inside
// value-type helpers — equivalent to ¬(stamp < time.Now().Unix()), stamp being result #0 of
// a successful decimal parse of ra.Username or of the first ":"-field of it.
func (w *World) c17ExpirySources(at *ssa.Return, ra *ssa.Parameter, timeNow *ssa.Function) bool {
	type cand struct {
		x, y   ssa.Value
		frames []srcFrame
		facts  []Fact
	}
	var cands []cand
	for _, f := range w.factsAt(at) {
		switch {
		case f.Op == "<" && !f.Truth:
			cands = append(cands, cand{f.X, f.Y, nil, w.factsAt(at)})
		case f.Op == "true":
			c0, _ := callOf(f.X)
			if c0 == nil || c0.Call.StaticCallee() == nil || !w.IsMod[c0.Call.StaticCallee()] {
				continue
			}
			leaves, complete := w.sources(f.X, at, nil)
			if !complete {
				continue
			}
			for i := range leaves {
				l := &leaves[i]
				for _, nf := range normCond(l.val, f.Truth) {
					if nf.Op == "<" && !nf.Truth {
						cands = append(cands, cand{nf.X, nf.Y, l.frames, l.facts})
					}
				}
			}
		}
	}
	for _, cd := range cands {
		// right-hand side: time.Now().Unix()
		okNow := false
		if ys, ok := w.sourcesIn(cd.y, nil, cd.frames, cd.facts, nil); ok && len(ys) == 1 {
			if uc, _ := callOf(ys[0].val); uc != nil && uc.Call.StaticCallee() != nil && uc.Call.StaticCallee().String() == "(time.Time).Unix" {
				if ns, ok := w.sourcesIn(uc.Call.Args[0], nil, ys[0].frames, ys[0].facts, nil); ok && len(ns) == 1 {
					if nc, _ := callOf(ns[0].val); nc != nil && nc.Call.StaticCallee() == timeNow {
						okNow = true
					}
				}
			}
		}
		if !okNow {
			continue
		}
		xs, ok := w.sourcesIn(stripIntConv(cd.x), nil, cd.frames, cd.facts, nil)
		if !ok || len(xs) != 1 {
			continue
		}
		x := &xs[0]
		pc, pi := callOf(stripIntConv(x.val))
		if pc == nil || pi != 0 || !isDecimalParse(pc) {
			continue
		}
		okErr := false
		for _, f := range append(append([]Fact{}, x.facts...), w.factsAt(at)...) {
			if v, isNil, isNF := nilFact(f); isNF && isNil {
				if c2, i2 := callOf(v); c2 == pc && i2 == 1 {
					okErr = true
				}
			}
		}
		if !okErr {
			continue
		}
		// the parsed string: ra.Username, or element 0 of its split at ":"
		fromUser := func(v ssa.Value, frames []srcFrame, facts []Fact) bool {
			ls, ok := w.sourcesIn(v, nil, frames, facts, nil)
			if !ok || len(ls) == 0 {
				return false
			}
			for i := range ls {
				if len(ls[i].sel) > 0 || ls[i].mem != nil || !w.isFieldLoadOf(ls[i].outer(w, ls[i].val), ra, "Username") {
					return false
				}
			}
			return true
		}
		arg := w.resolveLoad(pc.Call.Args[0])
		if fromUser(arg, x.frames, x.facts) {
			return true
		}
		if whole := leadingFieldOf(arg); whole != nil && fromUser(whole, x.frames, x.facts) {
			return true
		}
	}
	return false
}

// c17GeneratorSources: the generator rule on value sources: every source of the returned
// password is result #0 of derive(username, secret) with secret the generator's first
// parameter; every source of that username is FormatInt(time.Now().Add(duration).Unix(), 10)
// or that string + ":" + the user parameter; the returned username has the same sources.
func (w *World) c17GeneratorSources(fn, derive, timeNow *ssa.Function) (string, bool) {
	stop := func(h *ssa.Function) bool { return h == derive }
	durParam := fn.Params[len(fn.Params)-1]
	single := func(v ssa.Value, frames []srcFrame, facts []Fact) *srcLeaf {
		ls, ok := w.sourcesIn(v, nil, frames, facts, stop)
		if !ok || len(ls) != 1 || len(ls[0].sel) > 0 || ls[0].mem != nil {
			return nil
		}
		return &ls[0]
	}
	isStamp := func(v ssa.Value, frames []srcFrame, facts []Fact) bool {
		l := single(v, frames, facts)
		if l == nil {
			return false
		}
		fc, _ := callOf(l.val)
		if fc == nil || fc.Call.StaticCallee() == nil || fc.Call.StaticCallee().String() != "strconv.FormatInt" {
			return false
		}
		if k, isK := constInt(fc.Call.Args[1]); !isK || k != 10 {
			return false
		}
		ul := single(fc.Call.Args[0], l.frames, l.facts)
		if ul == nil {
			return false
		}
		uc, _ := callOf(ul.val)
		if uc == nil || uc.Call.StaticCallee() == nil || uc.Call.StaticCallee().String() != "(time.Time).Unix" {
			return false
		}
		al := single(uc.Call.Args[0], ul.frames, ul.facts)
		if al == nil {
			return false
		}
		ac, _ := callOf(al.val)
		if ac == nil || ac.Call.StaticCallee() == nil || ac.Call.StaticCallee().String() != "(time.Time).Add" {
			return false
		}
		nl := single(ac.Call.Args[0], al.frames, al.facts)
		dl := single(ac.Call.Args[1], al.frames, al.facts)
		if nl == nil || dl == nil {
			return false
		}
		nc, _ := callOf(nl.val)
		return nc != nil && nc.Call.StaticCallee() == timeNow && (dl.val == ssa.Value(durParam) || w.sameKey(dl.outer(w, dl.val), durParam))
	}
	userOK := func(l *srcLeaf) bool {
		if len(l.sel) > 0 || l.mem != nil {
			return false
		}
		if fc, _ := callOf(l.val); fc != nil {
			return isStamp(l.val, l.frames, l.facts)
		}
		bo, ok := l.val.(*ssa.BinOp)
		if !ok || bo.Op != token.ADD {
			return false
		}
		b2, ok := bo.X.(*ssa.BinOp)
		if !ok || b2.Op != token.ADD {
			return false
		}
		if k, isK := b2.Y.(*ssa.Const); !isK || k.Value == nil || k.Value.ExactString() != `":"` {
			return false
		}
		if !isStamp(b2.X, l.frames, l.facts) {
			return false
		}
		ul := single(bo.Y, l.frames, l.facts)
		if ul == nil {
			return false
		}
		_, isP := ul.val.(*ssa.Parameter)
		return isP && ul.val.Parent() == fn && len(ul.frames) == 0
	}
	nDerive := 0
	var userKeys []string
	for _, r := range returnsOf(fn) {
		pls, ok := w.sources(r.Results[1], r, stop)
		if !ok || len(pls) == 0 {
			return "the returned password could not be followed to its sources", false
		}
		for i := range pls {
			l := &pls[i]
			dc, di := callOf(l.val)
			if dc == nil || dc.Call.StaticCallee() != derive || di != 0 {
				return "the generator does not derive the password through longTermCredentials", false
			}
			nDerive++
			if sv := l.outer(w, dc.Call.Args[1]); !(sv == ssa.Value(fn.Params[0]) || w.sameKey(sv, fn.Params[0])) {
				return "the password is not derived with the generator's shared secret", false
			}
			uls, ok := w.sourcesIn(dc.Call.Args[0], dc, l.frames, l.facts, stop)
			if !ok || len(uls) == 0 {
				return "the username the password is derived from could not be followed to its sources", false
			}
			for j := range uls {
				if !userOK(&uls[j]) {
					return "the username the password is derived from (" + w.desc(uls[j].val) + ") is not the decimal stamp now+duration (optionally followed by \":\" and the user)", false
				}
				userKeys = append(userKeys, w.key(uls[j].val))
			}
		}
		rls, ok := w.sources(r.Results[0], r, stop)
		if !ok || len(rls) == 0 {
			return "the returned username could not be followed to its sources", false
		}
		for j := range rls {
			found := false
			for _, k := range userKeys {
				if k == w.key(rls[j].val) {
					found = true
				}
			}
			if !found || !userOK(&rls[j]) {
				return "the username returned (" + w.desc(rls[j].val) + ") is not the one the password was derived from", false
			}
		}
	}
	return "", nDerive > 0
}

// rulePasswordPure (C17.5): the password of a time-windowed username is a function of the
// username AND the shared secret, and of nothing else. Every nil-error return of the
// derivation function yields a value that depends on both parameters and on no package-level
// or remembered state: a result looked up by username alone (a memo shared by handlers of
// different secrets) authenticates credentials minted under another secret.
func rulePasswordPure(c *Ctx, rule string) {
	w := c.W
	c.Rule(rule, "the derived password depends on both the username and the shared secret on every success return of longTermCredentials, and on no state outside its parameters (no package-level variable or remembered table is read on the way)", 1)
	fn := w.Func("turn", "", "longTermCredentials")
	c.Anchor(rule, "longTermCredentials")
	n := 0
	bad := ""
	for _, r := range returnsOf(fn) {
		if len(r.Results) < 2 || !isNilConst(stripIface(w.resolveLoad(r.Results[1]))) {
			continue
		}
		n++
		for _, p := range fn.Params {
			if !w.dependsOn(r.Results[0], func(x ssa.Value) bool { return x == ssa.Value(p) }, fn) {
				bad = "the password returned at " + w.instrPos(r) + " does not depend on parameter " + p.Name() + ": a credential derived under one secret is accepted under another"
			}
		}
		if bad == "" {
			// remembered state may only stand in for the computation when it is looked up
			// under a key that names both inputs (a memo keyed by (secret, username))
			var g *ssa.Global
			var lookups []*ssa.Lookup
			w.depWalk(r.Results[0], nil, func(x ssa.Value, _ []*ssa.Call) bool {
				if gg, ok := x.(*ssa.Global); ok && gg.Pkg != nil && strings.HasPrefix(gg.Pkg.Pkg.Path(), modPath) && !strings.HasPrefix(gg.Name(), "err") {
					g = gg
				}
				if lk, ok := x.(*ssa.Lookup); ok {
					if _, isMap := lk.X.Type().Underlying().(*types.Map); isMap {
						lookups = append(lookups, lk)
					}
				}
				return false
			})
			if g != nil {
				keyed := len(lookups) > 0
				for _, lk := range lookups {
					// the index, expressed through the helper's own parameters, must depend on both
					// of the derivation's inputs: judged from the derivation function's call of the
					// helper (depWalk maps parameters through the call stack)
					for _, p := range fn.Params {
						if !w.lookupKeyDependsOn(fn, lk, p) {
							keyed = false
						}
					}
				}
				if !keyed {
					bad = "the password returned at " + w.instrPos(r) + " is taken from package-level state (" + g.Name() + ") that is not looked up under a key made of both the username and the secret"
				}
			}
		}
	}
	switch {
	case n == 0:
		c.Bad(rule, fname(fn), "longTermCredentials", w.pos(fn.Pos()), "no success return: anchor gone")
	case bad != "":
		c.Bad(rule, fname(fn), "longTermCredentials", w.pos(fn.Pos()), bad)
	default:
		c.OK(rule, fname(fn), "longTermCredentials", w.pos(fn.Pos()), fmt.Sprintf("%d success return(s): HMAC over the username keyed by the secret, nothing else", n))
	}
}

// lookupKeyDependsOn: the index of map lookup lk (in fn or in a helper fn calls) depends on
// parameter p of fn: in fn itself directly; in a helper, through the arguments of fn's call.
func (w *World) lookupKeyDependsOn(fn *ssa.Function, lk *ssa.Lookup, p *ssa.Parameter) bool {
	if lk.Parent() == fn {
		return w.dependsOn(lk.Index, func(x ssa.Value) bool { return x == ssa.Value(p) }, fn)
	}
	h := lk.Parent()
	found := false
	w.eachInstr(fn, func(in ssa.Instruction) {
		call, ok := in.(*ssa.Call)
		if !ok || call.Call.StaticCallee() != h || found {
			return
		}
		if w.depWalk(lk.Index, []*ssa.Call{call}, func(x ssa.Value, _ []*ssa.Call) bool { return x == ssa.Value(p) }) {
			found = true
		}
	})
	return found
}

// ruleKeyOwnsItsBytes (C17.6): the server keeps the key a handler returned (to check
// MESSAGE-INTEGRITY, to sign the response). It is "the long-term key of (username, realm,
// password)" only as long as nobody rewrites its bytes: a key handed out from a buffer that
// goes back into a pool, or from a field, is overwritten by the next authentication.
func ruleKeyOwnsItsBytes(c *Ctx, rule string) {
	w := c.W
	c.Rule(rule, "the key result of the handler closures of NewLongTermAuthHandler / LongTermTURNRESTAuthHandler is, on every return, nil, the result of GenerateAuthKey, or bytes in storage made for this call (make / hash.Sum(nil) / Sum into a fresh slice / a copy) — through module helpers", 2)
	genKey := w.Func("turn", "", "GenerateAuthKey")
	var owned func(v ssa.Value, d int) (bool, string)
	owned = func(v ssa.Value, d int) (bool, string) {
		v = stripIface(w.resolveLoad(v))
		if isNilConst(v) {
			return true, ""
		}
		if d > 5 {
			return false, "too deep"
		}
		switch x := v.(type) {
		case *ssa.MakeSlice:
			return true, ""
		case *ssa.Slice:
			return owned(x.X, d+1)
		case *ssa.Alloc:
			return true, "" // a local array
		case *ssa.Phi:
			for _, e := range x.Edges {
				if ok, why := owned(e, d+1); !ok {
					return false, why
				}
			}
			return true, ""
		case *ssa.Call, *ssa.Extract:
			call, idx := callOf(v)
			if call == nil {
				return false, w.desc(v)
			}
			if call.Call.StaticCallee() == genKey {
				return true, ""
			}
			if call.Call.IsInvoke() && call.Call.Method.Name() == "Sum" && len(call.Call.Args) == 1 {
				return owned(call.Call.Args[0], d+1) // Sum(b) appends to b
			}
			if w.freshBytes(v, 0) {
				return true, ""
			}
			if h := call.Call.StaticCallee(); h != nil && w.IsMod[h] && len(h.Blocks) > 0 {
				if idx < 0 {
					idx = 0
				}
				for _, r := range returnsOf(h) {
					if idx < len(r.Results) {
						if ok, why := owned(r.Results[idx], d+1); !ok {
							return false, why
						}
					}
				}
				return true, ""
			}
			return false, "the result of " + w.desc(v)
		case *ssa.UnOp:
			if _, f, isL := fieldLoad(x); isL {
				return false, "field " + f.Name() + " (storage that outlives the call)"
			}
		}
		return false, w.desc(v)
	}
	for _, cn := range []string{"NewLongTermAuthHandler", "LongTermTURNRESTAuthHandler"} {
		ctor := w.Func("turn", "", cn)
		c.Anchor(rule, cn)
		n := 0
		bad := ""
		for _, fn := range w.reachableHelpers(ctor) {
			if fn.Parent() == nil || fn.Signature.Results().Len() != 3 {
				continue
			}
			for _, r := range returnsOf(fn) {
				n++
				if ok, why := owned(r.Results[1], 0); !ok {
					bad = "the key returned at " + w.instrPos(r) + " lives in " + why
				}
			}
		}
		switch {
		case n == 0:
			c.Bad(rule, fname(ctor), "key bytes", w.pos(ctor.Pos()), "no handler closure with a key result found: anchor gone")
		case bad != "":
			c.Bad(rule, fname(ctor), "key bytes", w.pos(ctor.Pos()), bad+": the next authentication through this handler rewrites it while the server still uses it — it is then no longer the long-term key of its (username, realm, password)")
		default:
			c.OK(rule, fname(ctor), "key bytes", w.pos(ctor.Pos()), fmt.Sprintf("%d returns: the key owns its bytes", n))
		}
	}
}
