package main

import (
	"fmt"
	"go/token"
	"go/types"
	"sort"
	"strings"

	"golang.org/x/tools/go/ssa"
)

func init() {
	register(&propDef{
		ID:        "C20",
		Title:     "Relay address generators honour their configuration",
		Technique: "abstract interpretation with linear bounds over the symbols MinPort/MaxPort, checked at the vertices of the precondition polytope 1 ≤ MinPort ≤ MaxPort ≤ 65535; provenance of the advertised address; sibling comparison of the three generators; who-may-use lint for SO_REUSEPORT",
		Explanation: "C20.1 range arithmetic of the port-range generator under the precondition 1 ≤ MinPort ≤ MaxPort ≤ 65535 (linear forms evaluated at the polytope's vertices): the argument of every Intn is ≥ 1, the port that reaches the bind call lies in [MinPort, MaxPort], and no uint16 expression tree wraps at its root (MaxPort = 65535 and single-port ranges included); " +
			"C20.2 the advertised address is the bound socket's own LocalAddr()/Addr() with only its IP overwritten by RelayAddress (range, static) or untouched (none), and a requested port is passed unchanged to the bind call; " +
			"C20.3 clean failure: every return with a non-nil error returns no socket, and the retry loops are bounded by MaxRetries; " +
			"C20.5 requested ports are not invented: a non-zero RequestedPort handed to a generator is a port a generator bound before (read from the address it returned), or that port + 1 (the RFC 5766 reservation pair); C20.6 the socket / listener an allocation relays on is the result of a generator call made for that allocation, never one taken from a table or field where another request could find it too; C20.7 a socket obtained from the generator inside a loop (the even-port probe) is closed in the same iteration, not by a defer that runs when the whole search returns — held probes fill the range and make the search fail while ports are free; " +
			"C20.4 UDP relay sockets are bound by a plain ListenPacket: SO_REUSEPORT (reuseport.Control) is referenced only by the TCP listener/dialer paths, so a busy UDP port is refused by the kernel rather than shared. C20.8 nothing rewrites MinPort/MaxPort except a tightening that provably keeps MinPort ≤ MaxPort. C20.9 RelayAddressGeneratorPortRange.Validate refuses only unset fields, a failed library call, or MaxPort < MinPort (closed refusal set).",
		NotCovered: "that two live sockets cannot share a port is the kernel's bind() semantics; the quality of the random source; a MinPort > MaxPort configuration (outside the property's precondition).",
		Run:        runC20,
	})
}

// lin: a*MinPort + b*MaxPort + c
type lin struct{ a, b, c int64 }

func (l lin) at(m, M int64) int64 { return l.a*m + l.b*M + l.c }
func (l lin) add(o lin) lin       { return lin{l.a + o.a, l.b + o.b, l.c + o.c} }
func (l lin) sub(o lin) lin       { return lin{l.a - o.a, l.b - o.b, l.c - o.c} }
func (l lin) String() string {
	var parts []string
	if l.a != 0 {
		parts = append(parts, fmt.Sprintf("%d·Min", l.a))
	}
	if l.b != 0 {
		parts = append(parts, fmt.Sprintf("%d·Max", l.b))
	}
	if l.c != 0 || len(parts) == 0 {
		parts = append(parts, fmt.Sprint(l.c))
	}
	return strings.Join(parts, "+")
}

type lbound struct {
	lo, hi lin
	ok     bool
}

var polyVertices = [][2]int64{{1, 1}, {1, 65535}, {65535, 65535}}

// geAll: l ≥ k at every vertex of the precondition polytope
func geAll(l lin, k int64) bool {
	for _, v := range polyVertices {
		if l.at(v[0], v[1]) < k {
			return false
		}
	}
	return true
}
func leAll(l lin, k int64) bool {
	for _, v := range polyVertices {
		if l.at(v[0], v[1]) > k {
			return false
		}
	}
	return true
}

type linEval struct {
	w       *World
	minF    *types.Var
	maxF    *types.Var
	issues  []string
	intnArg []struct {
		at ssa.Instruction
		b  lbound
	}
	bind map[*ssa.Parameter]lbound
	// at: the instruction whose dominating conditions may tighten operand bounds
	at       ssa.Instruction
	noRefine int
	// loop-carried phis: bounds assumed while the back edges are checked against them
	assume  map[*ssa.Phi]lbound
	busy    map[*ssa.Phi]bool
	hitBusy bool
}

// eval returns linear bounds of an integer value, tightened by the comparisons that dominate
// the instruction under evaluation (if port >= r.MaxPort { return r.MinPort }; return port + 1).
func (le *linEval) eval(v ssa.Value, depth int) lbound {
	return le.refine(v, le.eval0(v, depth), depth)
}

func (le *linEval) refine(v ssa.Value, b lbound, depth int) lbound {
	if !b.ok || le.at == nil || le.noRefine > 0 || depth > 12 {
		return b
	}
	if _, isC := v.(*ssa.Const); isC {
		return b
	}
	if in, ok := le.at.(ssa.Instruction); !ok || in.Block() == nil {
		return b
	}
	le.noRefine++
	defer func() { le.noRefine-- }()
	tightenHi := func(c lin) {
		if leAllLin(c, b.hi) {
			b.hi = c
		}
	}
	tightenLo := func(c lin) {
		if leAllLin(b.lo, c) {
			b.lo = c
		}
	}
	for _, f := range le.w.factsAt(le.at) {
		switch f.Op {
		case "<":
			switch {
			case f.X == v:
				if o := le.eval0(f.Y, depth+1); o.ok {
					if f.Truth {
						tightenHi(o.hi.sub(lin{0, 0, 1}))
					} else {
						tightenLo(o.lo)
					}
				}
			case f.Y == v:
				if o := le.eval0(f.X, depth+1); o.ok {
					if f.Truth {
						tightenLo(o.lo.add(lin{0, 0, 1}))
					} else {
						tightenHi(o.hi)
					}
				}
			}
		case "==":
			if !f.Truth {
				continue
			}
			var other ssa.Value
			switch {
			case f.X == v:
				other = f.Y
			case f.Y == v:
				other = f.X
			default:
				continue
			}
			if o := le.eval0(other, depth+1); o.ok {
				tightenHi(o.hi)
				tightenLo(o.lo)
			}
		}
	}
	return b
}

func (le *linEval) eval0(v ssa.Value, depth int) lbound {
	if depth > 12 {
		return lbound{}
	}
	w := le.w
	switch x := v.(type) {
	case *ssa.Const:
		if k, ok := constInt(x); ok {
			return lbound{lin{0, 0, k}, lin{0, 0, k}, true}
		}
	case *ssa.Parameter:
		if b, ok := le.bind[x]; ok {
			return b
		}
	case *ssa.UnOp:
		if x.Op == token.MUL {
			if _, f, ok := fieldLoad(x); ok {
				switch f {
				case le.minF:
					return lbound{lin{1, 0, 0}, lin{1, 0, 0}, true}
				case le.maxF:
					return lbound{lin{0, 1, 0}, lin{0, 1, 0}, true}
				}
			}
			if rv := w.resolveLoad(x); rv != ssa.Value(x) {
				return le.eval(rv, depth+1)
			}
		}
	case *ssa.BinOp:
		savedAt := le.at
		if x.Block() != nil {
			le.at = x
		}
		l, r := le.eval(x.X, depth+1), le.eval(x.Y, depth+1)
		le.at = savedAt
		if !l.ok || !r.ok {
			return lbound{}
		}
		var out lbound
		switch x.Op {
		case token.ADD:
			out = lbound{l.lo.add(r.lo), l.hi.add(r.hi), true}
		case token.SUB:
			out = lbound{l.lo.sub(r.hi), l.hi.sub(r.lo), true}
		default:
			return lbound{}
		}
		// root of a fixed-width tree: must fit the type
		if sizedInt(x.Type()) || isUint16(x.Type()) {
			isRoot := true
			for _, ref := range *x.Referrers() {
				if p, ok := ref.(*ssa.BinOp); ok && arith(p.Op) && types.Identical(p.Type(), x.Type()) {
					isRoot = false
				}
			}
			if isRoot {
				tr := typeRange(x.Type())
				if !geAll(out.lo, tr.lo) || !leAll(out.hi, tr.hi) {
					le.issues = append(le.issues, fmt.Sprintf("%s expression at %s has ℤ-range [%s, %s] which leaves the type for some MinPort ≤ MaxPort (e.g. MaxPort = 65535): the value wraps", short(x.Type().String()), w.instrPos(x), out.lo, out.hi))
					return lbound{}
				}
			}
		}
		return out
	case *ssa.Convert:
		in := le.eval(x.X, depth+1)
		if !in.ok {
			return lbound{}
		}
		tr := typeRange(x.Type())
		if !geAll(in.lo, tr.lo) || !leAll(in.hi, tr.hi) {
			le.issues = append(le.issues, fmt.Sprintf("conversion to %s at %s of a value in [%s, %s] may lose value", short(x.Type().String()), w.instrPos(x), in.lo, in.hi))
			return lbound{}
		}
		return in
	case *ssa.ChangeType:
		return le.eval(x.X, depth+1)
	case *ssa.Call:
		if cal := x.Call.StaticCallee(); cal != nil && w.IsMod[cal] && cal.Signature.Results().Len() == 1 {
			return le.inline(x, cal, depth)
		}
		name := ""
		if x.Call.IsInvoke() {
			name = x.Call.Method.Name()
		} else if cal := x.Call.StaticCallee(); cal != nil {
			name = cal.Name()
		}
		if name == "Intn" || name == "IntN" {
			arg := le.eval(x.Call.Args[len(x.Call.Args)-1], depth+1)
			seenIntn := false
			for i := range le.intnArg {
				if le.intnArg[i].at == ssa.Instruction(x) {
					le.intnArg[i].b, seenIntn = arg, true
				}
			}
			if !seenIntn {
				le.intnArg = append(le.intnArg, struct {
					at ssa.Instruction
					b  lbound
				}{x, arg})
			}
			if !arg.ok {
				return lbound{}
			}
			return lbound{lin{0, 0, 0}, arg.hi.sub(lin{0, 0, 1}), true}
		}
	case *ssa.Phi:
		if b, ok := le.assume[x]; ok {
			return b
		}
		if le.busy[x] {
			le.hitBusy = true
			return lbound{}
		}
		if le.busy == nil {
			le.busy, le.assume = map[*ssa.Phi]bool{}, map[*ssa.Phi]lbound{}
		}
		join := func(out lbound, first bool, eb lbound) (lbound, bool) {
			if first {
				return eb, true
			}
			return hullLin(out, eb)
		}
		// pass 1: the edges that do not come back to this phi
		le.busy[x] = true
		savedAt := le.at
		var out lbound
		first := true
		var cyclic []ssa.Value
		for i, e := range x.Edges {
			if deadEdge(x.Block().Preds[i], x.Block()) {
				continue
			}
			savedHit := le.hitBusy
			le.hitBusy = false
			le.at = x.Block().Preds[i].Instrs[len(x.Block().Preds[i].Instrs)-1]
			nIssues := len(le.issues)
			eb := le.eval(e, depth+1)
			hit := le.hitBusy
			le.hitBusy = savedHit || hit
			le.at = savedAt
			if hit {
				le.issues = le.issues[:nIssues]
				cyclic = append(cyclic, e)
				continue
			}
			if !eb.ok {
				delete(le.busy, x)
				return lbound{}
			}
			var ok bool
			if out, ok = join(out, first, eb); !ok {
				delete(le.busy, x)
				return lbound{}
			}
			first = false
		}
		delete(le.busy, x)
		if first {
			return lbound{}
		}
		if len(cyclic) == 0 {
			return out
		}
		// pass 2: with the phi assumed within those bounds, every back edge stays within them
		le.hitBusy = false
		le.assume[x] = out
		defer delete(le.assume, x)
		for i, e := range x.Edges {
			isCyc := false
			for _, ce := range cyclic {
				if ce == e {
					isCyc = true
				}
			}
			if !isCyc || deadEdge(x.Block().Preds[i], x.Block()) {
				continue
			}
			le.at = x.Block().Preds[i].Instrs[len(x.Block().Preds[i].Instrs)-1]
			eb := le.eval(e, depth+1)
			le.at = savedAt
			if !eb.ok || !leAllLin(out.lo, eb.lo) || !leAllLin(eb.hi, out.hi) {
				if eb.ok {
					le.issues = append(le.issues, fmt.Sprintf("the loop-carried value at %s leaves [%s, %s] on a back edge: [%s, %s]", w.instrPos(x), out.lo, out.hi, eb.lo, eb.hi))
				}
				return lbound{}
			}
		}
		return out
	}
	return lbound{}
}

func leAllLin(a, b lin) bool { return geAll(b.sub(a), 0) }

// hullLin: the smallest bounds containing both, when the lower bounds and the upper bounds are
// each ordered the same way at every vertex of the precondition polytope.
func hullLin(a, b lbound) (lbound, bool) {
	out := lbound{ok: true}
	switch {
	case leAllLin(a.lo, b.lo):
		out.lo = a.lo
	case leAllLin(b.lo, a.lo):
		out.lo = b.lo
	default:
		return lbound{}, false
	}
	switch {
	case leAllLin(b.hi, a.hi):
		out.hi = a.hi
	case leAllLin(a.hi, b.hi):
		out.hi = b.hi
	default:
		return lbound{}, false
	}
	return out, true
}

func isUint16(t types.Type) bool {
	b, ok := t.Underlying().(*types.Basic)
	return ok && b.Kind() == types.Uint16
}

func (le *linEval) inline(call *ssa.Call, cal *ssa.Function, depth int) lbound {
	saved := map[*ssa.Parameter]lbound{}
	for i, p := range cal.Params {
		if i < len(call.Call.Args) && isIntType(p.Type()) {
			if old, ok := le.bind[p]; ok {
				saved[p] = old
			}
			le.bind[p] = le.eval(call.Call.Args[i], depth+1)
		}
	}
	var out lbound
	first := true
	savedAt := le.at
	defer func() { le.at = savedAt }()
	for _, r := range returnsOf(cal) {
		le.at = r
		rb := le.eval(le.w.resolveLoad(r.Results[0]), depth+1)
		if !rb.ok {
			out = lbound{}
			first = false
			break
		}
		if first {
			out, first = rb, false
		} else if rb.lo != out.lo || rb.hi != out.hi {
			h, ok := hullLin(out, rb)
			if !ok {
				out = lbound{}
				break
			}
			out = h
		}
	}
	for _, p := range cal.Params {
		if old, ok := saved[p]; ok {
			le.bind[p] = old
		} else {
			delete(le.bind, p)
		}
	}
	return out
}

func runC20(c *Ctx) {
	w := c.W
	rangeT := "RelayAddressGeneratorPortRange"
	minF := w.Field("turn", rangeT, "MinPort")
	maxF := w.Field("turn", rangeT, "MaxPort")

	// ---- C20.1
	c.Rule("C20.1", "linear bounds under 1 ≤ MinPort ≤ MaxPort ≤ 65535: in AllocatePacketConn and AllocateListener of the port-range generator (and helpers they call) every Intn argument has lower bound ≥ 1, the integer formatted into the bind address on the no-requested-port path has bounds within [MinPort, MaxPort], and every fixed-width arithmetic root stays in its type at all vertices", 2)
	for _, mn := range []string{"AllocatePacketConn", "AllocateListener"} {
		fn := w.Func("turn", rangeT, mn)
		c.Anchor("C20.1", mn)
		le := &linEval{w: w, minF: minF, maxF: maxF, bind: map[*ssa.Parameter]lbound{}}
		// candidate port values: integer values converted to int and then formatted (strconv.Itoa) or
		// passed to the local listen closure, excluding conf.RequestedPort
		var ports []ssa.Value
		var portAt []ssa.Instruction
		body := w.reachableHelpers(fn)
		inBody := map[*ssa.Function]bool{}
		for _, f := range body {
			inBody[f] = true
		}
		var collect func(arg ssa.Value, at ssa.Instruction, d int)
		collect = func(arg ssa.Value, at ssa.Instruction, d int) {
			// skip the requested-port path
			if _, f2, isL := fieldLoad(stripIntConv(arg)); isL && f2.Name() == "RequestedPort" {
				return
			}
			if p, isP := stripIntConv(arg).(*ssa.Parameter); isP {
				// the port parameter of a named helper (listenPacket(network, port)): the
				// arguments at its call sites inside this generator method; a literal's own
				// parameter is covered by the call of the literal
				if h := p.Parent(); h.Parent() == nil && h != fn && inBody[h] && d < 3 {
					for _, cs := range w.callsTo(h) {
						if inBody[cs.Parent()] {
							if i := paramIndex(p); i >= 0 && i < len(cs.Common().Args) {
								collect(cs.Common().Args[i], cs, d+1)
							}
						}
					}
				}
				return
			}
			ports = append(ports, arg)
			portAt = append(portAt, at)
		}
		for _, f := range body {
			w.eachInstr(f, func(in ssa.Instruction) {
				call, ok := in.(*ssa.Call)
				if !ok {
					return
				}
				var arg ssa.Value
				if a0 := decimalFormatArg(call); a0 != nil {
					arg = a0
				} else if mc, isMC := call.Call.Value.(*ssa.MakeClosure); isMC && len(call.Call.Args) == 1 && isIntType(call.Call.Args[0].Type()) {
					_ = mc
					arg = call.Call.Args[0]
				} else if _, isCl := w.resolveLoad(call.Call.Value).(*ssa.MakeClosure); isCl && len(call.Call.Args) == 1 && isIntType(call.Call.Args[0].Type()) {
					arg = call.Call.Args[0]
				}
				if arg == nil {
					return
				}
				collect(arg, in, 0)
			})
		}
		if len(ports) == 0 {
			c.Bad("C20.1", fname(fn), "random port", w.pos(fn.Pos()), "cannot find the randomly chosen port that is bound: anchor gone")
			continue
		}
		for i, p := range ports {
			le.at = portAt[i]
			b := le.eval(p, 0)
			le.at = nil
			switch {
			case !b.ok:
				why := "expression outside the linear domain"
				if len(le.issues) > 0 {
					why = strings.Join(le.issues, "; ")
				}
				c.Bad("C20.1", fname(fn), "random port", w.instrPos(portAt[i]), "the bound port is not proven to lie in [MinPort, MaxPort]: "+why)
			case !geAll(b.lo.sub(lin{1, 0, 0}), 0) || !geAll(lin{0, 1, 0}.sub(b.hi), 0):
				c.Bad("C20.1", fname(fn), "random port", w.instrPos(portAt[i]), fmt.Sprintf("the bound port has bounds [%s, %s], not within [MinPort, MaxPort] for every configuration", b.lo, b.hi))
			default:
				c.OK("C20.1", fname(fn), "random port", w.instrPos(portAt[i]), fmt.Sprintf("bounds [%s, %s] ⊆ [MinPort, MaxPort] at all vertices of 1 ≤ Min ≤ Max ≤ 65535", b.lo, b.hi))
			}
		}
		for _, ia := range le.intnArg {
			if ia.b.ok && geAll(ia.b.lo, 1) {
				c.OK("C20.1", fname(fn), "Intn argument", w.instrPos(ia.at), fmt.Sprintf("argument bounds [%s, %s]: ≥ 1 everywhere (Intn panics on n ≤ 0)", ia.b.lo, ia.b.hi))
			} else {
				c.Bad("C20.1", fname(fn), "Intn argument", w.instrPos(ia.at), "the argument of Intn is not proven ≥ 1 for every MinPort ≤ MaxPort: rand.Intn panics for n ≤ 0")
			}
		}
		if len(le.intnArg) == 0 {
			c.Bad("C20.1", fname(fn), "Intn argument", w.pos(fn.Pos()), "no random choice found")
		}
	}

	// ---- C20.2 / C20.3 / C20.4 for all three generators
	c.Rule("C20.2", "advertised address: in every AllocatePacketConn/AllocateListener, each return with a nil error returns (sock, addr) where addr is sock.LocalAddr()/sock.Addr() itself (pass-through generator) or its *net.UDPAddr/*net.TCPAddr assertion whose only field store is .IP = r.RelayAddress; the port bound on the requested-port path is conf.RequestedPort formatted unchanged", 6)
	c.Rule("C20.3", "clean failure: every return with a non-nil error has a nil socket result; every retry loop's continuation is guarded by try < r.MaxRetries; every store to MaxRetries stores a value ≥ 1 under the precondition", 6)
	c.Rule("C20.4", "reuseport.Control is referenced only inside AllocateListener / AllocateConn (and their closures) of the generators — never on the UDP AllocatePacketConn path", 3)
	for _, gen := range []string{"RelayAddressGeneratorPortRange", "RelayAddressGeneratorStatic", "RelayAddressGeneratorNone"} {
		for _, mn := range []string{"AllocatePacketConn", "AllocateListener"} {
			fn := w.Func("turn", gen, mn)
			c.Anchor("C20.2", gen+"."+mn)
			c.Anchor("C20.3", gen+"."+mn)
			body := w.reachableHelpers(fn)
			inBody := map[*ssa.Function]bool{}
			for _, f := range body {
				inBody[f] = true
			}
			// forwards: the socket is a result of the listen closure or of a helper of this
			// method that returns (socket, address, …, error) itself: checked there
			forwards := func(sock ssa.Value) bool {
				sc, _ := callOf(sock)
				if sc == nil {
					return false
				}
				if isClosureCall(w, sc) {
					return true
				}
				h := sc.Call.StaticCallee()
				return h != nil && inBody[h] && h != fn && sockAddrErrResults(h)
			}
			for _, f := range body {
				if !sockAddrErrResults(f) {
					continue
				}
				nRes := f.Signature.Results().Len()
				for _, r := range returnsOf(f) {
					sock := w.resolveLoad(r.Results[0])
					addr := w.resolveLoad(r.Results[1])
					errv := w.resolveLoad(r.Results[nRes-1])
					if !isNilConst(errv) {
						// forwarded result of the inner listen closure: checked inside the closure
						if forwards(sock) {
							c.Triv("C20.3", fname(f), "error return", w.instrPos(r), "forwards the results of the listen closure / helper")
							continue
						}
						if isNilConst(stripIface(sock)) {
							c.OK("C20.3", fname(f), "error return", w.instrPos(r), "no socket is returned together with an error")
						} else {
							c.Bad("C20.3", fname(f), "error return", w.instrPos(r), "a socket is returned together with a non-nil error: a failed allocation hands out a socket")
						}
						continue
					}
					if forwards(sock) {
						c.Triv("C20.2", fname(f), "success return", w.instrPos(r), "forwards the results of the listen closure / helper")
						continue
					}
					// addr provenance
					av := stripIface(addr)
					var src *ssa.Call
					asserted := false
					if ex, ok := av.(*ssa.Extract); ok {
						if ta, ok := ex.Tuple.(*ssa.TypeAssert); ok && ex.Index == 0 {
							asserted = true
							src, _ = callOf(ta.X)
						}
					} else {
						src, _ = callOf(av)
					}
					okSrc := src != nil && src.Call.IsInvoke() && (src.Call.Method.Name() == "LocalAddr" || src.Call.Method.Name() == "Addr") && w.sameKey(src.Call.Value, sock)
					if !okSrc {
						c.Bad("C20.2", fname(f), "advertised address", w.instrPos(r), "the address returned is not LocalAddr()/Addr() of the socket returned: "+w.desc(addr))
						continue
					}
					// stores into the asserted addr object
					bad := ""
					nIP := 0
					if asserted {
						for _, ref := range *av.Referrers() {
							fa, ok := ref.(*ssa.FieldAddr)
							if !ok {
								continue
							}
							for _, r2 := range *fa.Referrers() {
								st, ok := r2.(*ssa.Store)
								if !ok || st.Addr != ssa.Value(fa) {
									continue
								}
								if fieldOf(fa).Name() != "IP" {
									bad = "field " + fieldOf(fa).Name() + " of the socket's address is overwritten: the advertised port is no longer the port bound"
									continue
								}
								if _, rf, isL := fieldLoad(st.Val); isL && rf.Name() == "RelayAddress" {
									nIP++
								} else {
									bad = "the advertised IP is " + w.key(st.Val) + ", not the configured RelayAddress"
								}
							}
						}
						if bad == "" && nIP == 0 && gen != "RelayAddressGeneratorNone" {
							bad = "the advertised IP is not set to the configured RelayAddress"
						}
					} else if gen != "RelayAddressGeneratorNone" {
						bad = "the advertised IP is not set to the configured RelayAddress"
					}
					if bad == "" {
						c.OK("C20.2", fname(f), "advertised address", w.instrPos(r), "socket's own address, IP set to RelayAddress only where configured")
					} else {
						c.Bad("C20.2", fname(f), "advertised address", w.instrPos(r), bad)
					}
				}
			}
			// requested port is passed unchanged
			okReq := false
			for _, f := range body {
				w.eachInstr(f, func(in ssa.Instruction) {
					call, ok := in.(*ssa.Call)
					if !ok {
						return
					}
					if a0 := decimalFormatArg(call); a0 != nil {
						if _, f2, isL := fieldLoad(stripIntConv(a0)); isL && f2.Name() == "RequestedPort" {
							okReq = true
						}
					}
					if isClosureCall(w, call) && len(call.Call.Args) == 1 {
						if _, f2, isL := fieldLoad(call.Call.Args[0]); isL && f2.Name() == "RequestedPort" {
							okReq = true
						}
					}
					// handed to a helper of this method whose parameter is what gets formatted
					if h := call.Call.StaticCallee(); h != nil && inBody[h] && h.Parent() == nil && h != fn {
						for i, a := range call.Call.Args {
							if _, f2, isL := fieldLoad(stripIntConv(a)); isL && f2.Name() == "RequestedPort" && i < len(h.Params) {
								w.eachInstr(h, func(in2 ssa.Instruction) {
									if c2, ok := in2.(*ssa.Call); ok {
										if a0 := decimalFormatArg(c2); a0 != nil && rawParamOf(stripIntConv(a0), h) == h.Params[i] {
											okReq = true
										}
									}
								})
							}
						}
					}
				})
			}
			if okReq {
				c.OK("C20.2", fname(fn), "requested port", w.pos(fn.Pos()), "conf.RequestedPort is formatted/passed unchanged into the bind address")
			} else {
				c.Bad("C20.2", fname(fn), "requested port", w.pos(fn.Pos()), "the requested port does not reach the bind call unchanged")
			}
			// retry loop bound (range generator only)
			if gen == "RelayAddressGeneratorPortRange" {
				okLoop := false
				w.eachInstr(fn, func(in ssa.Instruction) {
					iff, ok := in.(*ssa.If)
					if !ok {
						return
					}
					// the loop goes on only on an edge where counter < MaxRetries holds, whichever
					// way round the test is written (`try < max` to continue, `try >= max` to break)
					var both []Fact
					both = append(both, normCond(iff.Cond, true)...)
					both = append(both, normCond(iff.Cond, false)...)
					for _, fct := range both {
						if fct.Op == "<" && fct.Truth {
							if _, f2, isL := fieldLoad(w.resolveLoad(fct.Y)); isL && f2.Name() == "MaxRetries" {
								// the counter: a loop phi, or phi+1 of the rotated `for range n` form
								x := stripIntConv(fct.X)
								if bo, isB := x.(*ssa.BinOp); isB && bo.Op == token.ADD {
									if k, isK := constInt(bo.Y); isK && k == 1 {
										x = bo.X
									}
								}
								if ph, isPhi := x.(*ssa.Phi); isPhi {
									// loop-carried: one edge is the phi plus one
									for _, e := range ph.Edges {
										if bo, isB := e.(*ssa.BinOp); isB && bo.Op == token.ADD && bo.X == ssa.Value(ph) {
											if k, isK := constInt(bo.Y); isK && k == 1 {
												okLoop = true
											}
										}
									}
								}
							}
						}
					}
				})
				if okLoop {
					c.OK("C20.3", fname(fn), "retry bound", w.pos(fn.Pos()), "loop continues only while try < r.MaxRetries")
				} else {
					c.Bad("C20.3", fname(fn), "retry bound", w.pos(fn.Pos()), "the bind retry loop is not bounded by MaxRetries")
				}
			}
		}
	}
	// retry budget: the configured/defaulted MaxRetries is never lowered below one attempt
	{
		c.Anchor("C20.3", "MaxRetries stores")
		mr := w.Field("turn", rangeT, "MaxRetries")
		n := 0
		bad := ""
		for _, fn := range w.ModFns {
			w.eachInstr(fn, func(in ssa.Instruction) {
				st, ok := in.(*ssa.Store)
				if !ok {
					return
				}
				fa, ok := st.Addr.(*ssa.FieldAddr)
				if !ok || fieldOf(fa) != mr {
					return
				}
				n++
				le := &linEval{w: w, minF: minF, maxF: maxF, bind: map[*ssa.Parameter]lbound{}}
				b := le.eval(st.Val, 0)
				if !b.ok || !geAll(b.lo, 1) {
					got := "outside the linear domain"
					if b.ok {
						got = "[" + b.lo.String() + ", " + b.hi.String() + "]"
					}
					bad = "MaxRetries is set at " + w.instrPos(in) + " to a value not proven ≥ 1 for every 1 ≤ MinPort ≤ MaxPort ≤ 65535 (" + got + "): with zero attempts every allocation fails although ports are free (e.g. a single-port range)"
				}
			})
		}
		if bad == "" && n >= 1 {
			c.OK("C20.3", "turn."+rangeT, "MaxRetries stores", "-", fmt.Sprintf("%d store(s), each ≥ 1", n))
		} else {
			if bad == "" {
				bad = "no default for a zero MaxRetries"
			}
			c.Bad("C20.3", "turn."+rangeT, "MaxRetries stores", "-", bad)
		}
	}
	ruleReusePortSites(c, "C20.4")
	if n := len(c.Notes); n == 0 {
		c.Notes = append(c.Notes, "advisory: in the UDP AllocatePacketConn paths the socket is not closed when conn.LocalAddr() is not a *net.UDPAddr (unreachable with the standard net package)")
	}
	ruleRequestedPortsNotInvented(c, "C20.5")
	ruleRelaySocketFresh(c, "C20.6")
	ruleProbeReleasedPerIteration(c, "C20.7")
	ruleValidateKeepsRange(c, "C20.8")
	ruleValidateRefusals(c, "C20.9")
}

func isClosureCall(w *World, call *ssa.Call) bool {
	if call.Call.IsInvoke() || call.Call.StaticCallee() != nil {
		// a direct call of a function literal has a static callee that is anonymous
		if cal := call.Call.StaticCallee(); cal != nil && cal.Parent() != nil {
			return true
		}
		return false
	}
	_, ok := w.resolveLoad(call.Call.Value).(*ssa.MakeClosure)
	return ok
}

// decimalFormatArg: the integer formatted in base 10 by a strconv call (Itoa, FormatInt(x,
// 10), FormatUint(x, 10)); nil for other calls.
func decimalFormatArg(call *ssa.Call) ssa.Value {
	cal := call.Call.StaticCallee()
	if cal == nil {
		return nil
	}
	switch cal.String() {
	case "strconv.Itoa":
		return call.Call.Args[0]
	case "strconv.FormatInt", "strconv.FormatUint":
		if k, ok := constInt(call.Call.Args[1]); ok && k == 10 {
			return call.Call.Args[0]
		}
	}
	return nil
}

// sockAddrErrResults: the function returns (socket, address, …, error): at least three
// results, the second a net.Addr, the last an error.
func sockAddrErrResults(f *ssa.Function) bool {
	res := f.Signature.Results()
	if res.Len() < 3 {
		return false
	}
	return res.At(res.Len()-1).Type().String() == "error" && res.At(1).Type().String() == "net.Addr"
}

// ruleRequestedPortsNotInvented (C20.5): the generators pass a requested port straight to the
// bind (C20.2) — the range is enforced only for ports they draw themselves. The only
// legitimate non-zero requests are therefore ports that came out of a generator: the port of
// an address a generator returned (the even port found by probing) and that port + 1 (the
// pair reserved with a RESERVATION-TOKEN). Any other arithmetic on a port on its way to
// AllocateListenerConfig.RequestedPort can name a port outside the configured range.
func ruleRequestedPortsNotInvented(c *Ctx, rule string) {
	w := c.W
	c.Rule(rule, "requested ports are not invented: every value stored into AllocateListenerConfig.RequestedPort (through parameters at all call sites, locals, phis, the reservation table) is the constant 0, the Port of a net.UDPAddr/TCPAddr obtained from a generator's returned address, or such a port + 1", 1)
	cfgT := w.Named("allocation", "AllocateListenerConfig")
	st, _ := cfgT.Underlying().(*types.Struct)
	var rpF *types.Var
	for i := 0; st != nil && i < st.NumFields(); i++ {
		if st.Field(i).Name() == "RequestedPort" {
			rpF = st.Field(i)
		}
	}
	if rpF == nil {
		failf("anchor unresolved: field allocation.AllocateListenerConfig.RequestedPort")
	}
	var origin func(v ssa.Value, plus int, depth int, seen map[ssa.Value]bool) string
	origin = func(v ssa.Value, plus int, depth int, seen map[ssa.Value]bool) string {
		v = stripIntConv(w.resolveLoad(v))
		if depth > 16 {
			return "too deep: " + w.key(v)
		}
		if seen[v] {
			return ""
		}
		seen[v] = true
		defer delete(seen, v)
		switch x := v.(type) {
		case *ssa.Const:
			if k, ok := constInt(x); ok && k == 0 && plus == 0 {
				return ""
			}
			return "the constant " + w.key(x)
		case *ssa.Phi:
			for _, e := range x.Edges {
				if r := origin(e, plus, depth+1, seen); r != "" {
					return r
				}
			}
			return ""
		case *ssa.BinOp:
			if k, ok := constInt(x.Y); ok && x.Op == token.ADD && k == 1 && plus == 0 {
				return origin(x.X, 1, depth+1, seen)
			}
			if k, ok := constInt(x.X); ok && x.Op == token.ADD && k == 1 && plus == 0 {
				return origin(x.Y, 1, depth+1, seen)
			}
			return "computed as " + w.key(x)
		case *ssa.Parameter:
			fn := x.Parent()
			idx := paramIndex(x)
			n := 0
			if node := w.CG.Nodes[fn]; node != nil {
				for _, e := range node.In {
					if e.Site == nil || !w.IsMod[e.Caller.Func] {
						continue
					}
					args := e.Site.Common().Args
					off := 0
					if e.Site.Common().IsInvoke() {
						off = 1
					}
					if idx-off >= 0 && idx-off < len(args) {
						n++
						if r := origin(args[idx-off], plus, depth+1, seen); r != "" {
							return r
						}
					}
				}
			}
			if n == 0 {
				return "parameter " + x.Name() + " of " + fname(fn) + " (an API entry point)"
			}
			return ""
		case *ssa.Extract:
			if call, ok := x.Tuple.(*ssa.Call); ok {
				if h := call.Call.StaticCallee(); h != nil && w.IsMod[h] && len(h.Blocks) > 0 {
					for _, r := range returnsOf(h) {
						if x.Index < len(r.Results) {
							if isZeroConst(stripIntConv(w.resolveLoad(r.Results[x.Index]))) {
								continue // the error returns' zero
							}
							if rr := origin(r.Results[x.Index], plus, depth+1, seen); rr != "" {
								return rr
							}
						}
					}
					return ""
				}
			}
		case *ssa.Call:
			if h := x.Call.StaticCallee(); h != nil && w.IsMod[h] && len(h.Blocks) > 0 {
				for _, r := range returnsOf(h) {
					if len(r.Results) > 0 {
						if rr := origin(r.Results[0], plus, depth+1, seen); rr != "" {
							return rr
						}
					}
				}
				return ""
			}
		case *ssa.UnOp:
			if x.Op == token.MUL {
				if fa, ok := x.X.(*ssa.FieldAddr); ok {
					f := fieldOf(fa)
					owner := ""
					if n := namedOf(fa.X.Type()); n != nil {
						owner = n.Obj().Pkg().Path() + "." + n.Obj().Name()
					}
					if f.Name() == "Port" && (owner == "net.UDPAddr" || owner == "net.TCPAddr") {
						return "" // the port of a bound address
					}
					// a module field (reservation.port, a config field): what is stored there
					if f.Pkg() != nil && strings.HasPrefix(f.Pkg().Path(), modPath) {
						vals := w.flow().fieldStore[f]
						if len(vals) == 0 {
							return "the unset field " + f.Name()
						}
						for _, sv := range vals {
							if r := origin(sv, plus, depth+1, seen); r != "" {
								return r
							}
						}
						return ""
					}
				}
			}
		}
		return w.key(v)
	}
	n := 0
	for _, fn := range w.ModFns {
		w.eachInstr(fn, func(in ssa.Instruction) {
			stI, ok := in.(*ssa.Store)
			if !ok {
				return
			}
			fa, ok := stI.Addr.(*ssa.FieldAddr)
			if !ok || fieldOf(fa) != rpF {
				return
			}
			n++
			c.Anchor(rule, fname(fn))
			if r := origin(stI.Val, 0, 0, map[ssa.Value]bool{}); r == "" {
				c.OK(rule, fname(fn), "RequestedPort", w.instrPos(in), "0, a generator-bound port, or that port + 1")
			} else {
				c.Bad(rule, fname(fn), "RequestedPort", w.instrPos(in), "the port requested from the relay address generator here can be "+r+": not a port a generator bound (nor its reservation pair) — the generators bind a requested port without looking at the configured range, so the allocation can land outside [MinPort, MaxPort]")
			}
		})
	}
	if n == 0 {
		c.Bad(rule, "-", "RequestedPort", "-", "no RequestedPort is ever set: anchor gone")
	}
}

// ruleRelaySocketFresh (C20.6): "per allocation, a freshly bound socket … two live allocations
// never share a relay port". What is stored into Allocation.relayPacketConn / relayListener
// comes — through helper results and phis — from a call of the configured generator made on
// behalf of this allocation, not from somewhere a second request could pick it up as well (a
// held reservation socket found under a read lock, a cache).
func ruleRelaySocketFresh(c *Ctx, rule string) {
	w := c.W
	c.Rule(rule, "relay sockets are fresh: every value stored into Allocation.relayPacketConn / Allocation.relayListener originates (helper results, phis, locals) from a call of Manager.allocatePacketConn / allocateListener only", 2)
	origins := func(v ssa.Value, d int, seen map[ssa.Value]bool, out map[string]bool) {
		w.relaySocketOrigins(v, d, seen, out)
	}
	for _, fname2 := range []string{"relayPacketConn", "relayListener"} {
		fld := w.Field("allocation", "Allocation", fname2)
		n := 0
		for _, fn := range w.ModFns {
			w.eachInstr(fn, func(in ssa.Instruction) {
				st, ok := in.(*ssa.Store)
				if !ok {
					return
				}
				fa, ok := st.Addr.(*ssa.FieldAddr)
				if !ok || fieldOf(fa) != fld || isNilConst(stripIface(st.Val)) {
					return
				}
				n++
				c.Anchor(rule, fname2)
				out := map[string]bool{}
				origins(st.Val, 0, map[ssa.Value]bool{}, out)
				var bad []string
				for k := range out {
					if k != "generator" {
						bad = append(bad, k)
					}
				}
				sort.Strings(bad)
				if len(bad) == 0 && out["generator"] {
					c.OK(rule, fname(fn), fname2, w.instrPos(in), "bound by the generator for this allocation")
				} else {
					c.Bad(rule, fname(fn), fname2, w.instrPos(in), fmt.Sprintf("the relay socket of a new allocation can be %v rather than one the generator just bound for it: a socket kept where another request finds it too can be handed to two allocations, which then share one relay port", bad))
				}
			})
		}
		if n == 0 {
			c.Anchor(rule, fname2)
			c.Bad(rule, "-", fname2, "-", "Allocation."+fname2+" is never assigned: anchor gone")
		}
	}
}

// reusePortBehindFlag: the reference to reuseport.Control sits in a shared helper on the true
// edge of one of its bool parameters, and every call passes that parameter a constant: true
// only from AllocateListener / AllocateConn, false from everywhere else.
func reusePortBehindFlag(w *World, fn *ssa.Function, in ssa.Instruction) (bool, string) {
	var flag *ssa.Parameter
	for _, f := range w.factsAt(in) {
		if f.Op == "true" && f.Truth {
			if p, ok := f.X.(*ssa.Parameter); ok && p.Parent() == fn && p.Type().String() == "bool" {
				flag = p
			}
		}
	}
	if flag == nil {
		return false, ""
	}
	sites := w.callsTo(fn)
	if len(sites) == 0 {
		return false, ""
	}
	nTrue := 0
	for _, cs := range sites {
		i := paramIndex(flag)
		if i < 0 || i >= len(cs.Common().Args) {
			return false, ""
		}
		k, isC := cs.Common().Args[i].(*ssa.Const)
		if !isC || k.Value == nil {
			return false, ""
		}
		if k.Value.String() == "true" {
			nTrue++
			if n := rootFn(cs.Parent()).Name(); n != "AllocateListener" && n != "AllocateConn" {
				return false, ""
			}
		}
	}
	return true, fmt.Sprintf("behind the helper's flag %s: %d call(s), true only from the TCP listener/dialer paths (%d), false from the UDP paths", flag.Name(), len(sites), nTrue)
}

// takenOut: ld reads field address fa while a mutex is held for writing, and later in the same
// block — before any unlock — nil is stored to that same field of that same object.
func takenOut(w *World, ld *ssa.UnOp, fa *ssa.FieldAddr) bool {
	held := w.lockInfo().mustAt(ld)
	hasW := false
	for cls := range held {
		if strings.HasSuffix(cls, "/W") {
			hasW = true
		}
	}
	if !hasW {
		return false
	}
	b := ld.Block()
	for i := indexIn(ld) + 1; i < len(b.Instrs); i++ {
		switch x := b.Instrs[i].(type) {
		case ssa.CallInstruction:
			if lo := w.lockOpOf(x.Common()); lo != nil && (lo.op == "Unlock" || lo.op == "RUnlock") {
				return false
			}
		case *ssa.Store:
			if fa2, ok := x.Addr.(*ssa.FieldAddr); ok && fa2.Field == fa.Field && (fa2.X == fa.X || w.sameKey(fa2.X, fa.X)) && isNilConst(stripIface(x.Val)) {
				return true
			}
		}
	}
	return false
}

// relaySocketOrigins: where a relay socket / listener value comes from: "generator" for a call
// of Manager.allocatePacketConn / allocateListener, anything else by description.
func (w *World) relaySocketOrigins(v ssa.Value, d int, seen map[ssa.Value]bool, out map[string]bool) {
	gens := map[*types.Var]bool{
		w.Field("allocation", "Manager", "allocatePacketConn"): true,
		w.Field("allocation", "Manager", "allocateListener"):   true,
	}
	origins := w.relaySocketOrigins

	v = stripIface(v)
	if seen[v] {
		return
	}
	seen[v] = true
	if d > 8 {
		out["too deep"] = true
		return
	}
	if isNilConst(v) {
		return
	}
	switch x := v.(type) {
	case *ssa.Phi:
		for _, e := range x.Edges {
			origins(e, d+1, seen, out)
		}
		return
	case *ssa.Call, *ssa.Extract:
		call, idx := callOf(v)
		if call == nil {
			break
		}
		if idx < 0 {
			idx = 0
		}
		if h := call.Call.StaticCallee(); h != nil {
			if w.IsMod[h] && len(h.Blocks) > 0 {
				for _, r := range returnsOf(h) {
					if idx < len(r.Results) {
						origins(r.Results[idx], d+1, seen, out)
					}
				}
				return
			}
			out["the result of "+h.String()] = true
			return
		}
		if _, f, isL := fieldLoad(call.Call.Value); isL && gens[f] {
			out["generator"] = true
			return
		}
		out["a dynamic call"] = true
		return
	case *ssa.UnOp:
		if x.Op == token.MUL {
			if al, isAl := x.X.(*ssa.Alloc); isAl {
				for _, st := range w.stores[w.locKey(al)] {
					origins(st.Val, d+1, seen, out)
				}
				return
			}
			if _, f, isL := fieldLoad(x); isL {
				// a field of a local struct value (the helper's result struct): what was put there
				if fa, isFA := x.X.(*ssa.FieldAddr); isFA {
					if al, path := allocBase(fa); al != nil && !w.escapesToWriters(al) {
						if vals, ok := w.flow().localPathStores(al, path); ok && len(vals) > 0 {
							for _, sv := range vals {
								origins(sv, d+1, seen, out)
							}
							return
						}
					}
				}
				// taken out of where it was kept: read under a write lock and the field set
				// to nil in the same block before any unlock — no second request can get it.
				// Where it was put there from is then what counts.
				if fa, isFA := x.X.(*ssa.FieldAddr); isFA && takenOut(w, x, fa) {
					n0 := len(out)
					for _, fn2 := range w.ModFns {
						w.eachInstr(fn2, func(i2 ssa.Instruction) {
							st, ok := i2.(*ssa.Store)
							if !ok {
								return
							}
							if fa2, ok2 := st.Addr.(*ssa.FieldAddr); ok2 && fieldOf(fa2) == f && !isNilConst(stripIface(st.Val)) {
								origins(st.Val, d+1, seen, out)
							}
						})
					}
					if len(out) > n0 || out["generator"] {
						return
					}
				}
				out["field "+fieldOwnerName(w, f)+"."+f.Name()] = true
				return
			}
		}
	case *ssa.Field:
		if st, ok := x.X.Type().Underlying().(*types.Struct); ok {
			if vals, ok2 := w.flow().structValueField(x.X, []string{st.Field(x.Field).Name()}, 0); ok2 && len(vals) > 0 {
				for _, sv := range vals {
					origins(sv, d+1, seen, out)
				}
				return
			}
		}
	case *ssa.Parameter:
		sites := w.callsTo(x.Parent())
		if len(sites) > 0 {
			for _, cs := range sites {
				if i := paramIndex(x); i >= 0 && i < len(cs.Common().Args) {
					origins(cs.Common().Args[i], d+1, seen, out)
				}
			}
			return
		}
	}
	out[w.desc(v)] = true
}

// ruleProbeReleasedPerIteration (C20.7): GetRandomEvenPort binds a socket per attempt to learn
// its port and must let it go before the next attempt. `defer conn.Close()` inside the loop
// runs at function return: up to 128 probe sockets stay bound, the port-range generator's
// retries collide with them, and the search reports "no port" while ports are free.
func ruleProbeReleasedPerIteration(c *Ctx, rule string) {
	w := c.W
	c.Rule(rule, "in every function of package allocation that calls Manager.allocatePacketConn / allocateListener inside a loop, no defer statement inside that loop closes the socket obtained: the release is a plain call in the iteration (or the iteration is a helper call of its own, whose deferred calls run at its return)", 1)
	gens := map[*types.Var]bool{
		w.Field("allocation", "Manager", "allocatePacketConn"): true,
		w.Field("allocation", "Manager", "allocateListener"):   true,
	}
	apkg := w.tpkg("allocation").Path()
	n := 0
	for _, fn := range w.ModFns {
		if fnPkgPath(fn) != apkg {
			continue
		}
		w.eachInstr(fn, func(in ssa.Instruction) {
			call, ok := in.(*ssa.Call)
			if !ok || call.Call.IsInvoke() || call.Call.StaticCallee() != nil {
				return
			}
			if _, f, isL := fieldLoad(call.Call.Value); !isL || !gens[f] {
				return
			}
			if !instrReaches(in, in) {
				// not in a loop of its own function: a probe helper called from a loop? its
				// deferred calls run when the helper returns, i.e. once per iteration
				var inLoop func(f *ssa.Function, d int) ssa.CallInstruction
				inLoop = func(f *ssa.Function, d int) ssa.CallInstruction {
					if d > 2 {
						return nil
					}
					for _, cs := range w.callsTo(f) {
						if _, isGo := cs.(*ssa.Go); isGo {
							continue
						}
						if _, isD := cs.(*ssa.Defer); isD {
							continue
						}
						if instrReaches(cs, cs) {
							return cs
						}
						if up := inLoop(cs.Parent(), d+1); up != nil {
							return up
						}
					}
					return nil
				}
				if cs := inLoop(fn, 0); cs != nil {
					n++
					c.Anchor(rule, fname(fn))
					c.OK(rule, fname(fn), "probe socket", w.instrPos(in), "bound in a helper that the loop at "+w.instrPos(cs)+" calls once per iteration: whatever the helper defers runs when that call returns")
				}
				return
			}
			n++
			c.Anchor(rule, fname(fn))
			bad := ""
			w.eachInstr(fn, func(i2 ssa.Instruction) {
				d, isD := i2.(*ssa.Defer)
				if !isD || !instrReaches(i2, i2) {
					return
				}
				// a deferred Close (method value, invoke or closure calling Close) of a value from this call
				closes := false
				if d.Call.IsInvoke() && d.Call.Method.Name() == "Close" {
					if cc, _ := callOf(stripIface(w.resolveLoad(d.Call.Value))); cc == call {
						closes = true
					}
				}
				if mcl, isMC := d.Call.Value.(*ssa.MakeClosure); isMC {
					if body := w.closureBody(mcl); body != nil {
						w.eachInstr(body, func(i3 ssa.Instruction) {
							if c3, ok3 := i3.(*ssa.Call); ok3 && c3.Call.IsInvoke() && c3.Call.Method.Name() == "Close" {
								closes = true
							}
						})
					}
				}
				if closes {
					bad = w.instrPos(i2)
				}
			})
			if bad == "" {
				c.OK(rule, fname(fn), "probe socket", w.instrPos(in), "no deferred release inside the loop")
			} else {
				c.Bad(rule, fname(fn), "probe socket", w.instrPos(in), "the socket bound in this loop is released by a defer inside the loop ("+bad+"): deferred calls run when the function returns, so every probe of the search stays bound until it ends — the range fills up with the manager's own probes and the search fails although ports are free")
			}
		})
	}
	if n == 0 {
		c.Anchor(rule, "-")
		c.Bad(rule, "-", "probe socket", "-", "no generator call inside a loop found (GetRandomEvenPort's probe): anchor gone")
	}
}

// ruleReusePortSites (C20.4, =C19.10): SO_REUSEPORT only where RFC 6062 needs it.
func ruleReusePortSites(c *Ctx, rule string) {
	w := c.W
	if rule != "C20.4" {
		c.Rule(rule, "(=C20.4) reuseport.Control is referenced only by the TCP listener/dialer paths of the generators: a UDP relay port held by a live allocation cannot be bound a second time, so no two live allocations report one relayed address", 3)
	}
	for _, fn := range w.ModFns {
		w.eachInstr(fn, func(in ssa.Instruction) {
			for _, op := range in.Operands(nil) {
				f, ok := (*op).(*ssa.Function)
				if !ok || !strings.HasSuffix(f.String(), "reuseport.Control") {
					continue
				}
				root := rootFn(fn)
				name := root.Name()
				c.Anchor(rule, fname(root))
				if name == "AllocateListener" || name == "AllocateConn" {
					c.OK(rule, fname(fn), "reuseport.Control", w.instrPos(in), "TCP listener/dialer path (RFC 6062 needs to share the relayed address between listener and outgoing connections)")
				} else if ok, why := reusePortBehindFlag(w, fn, in); ok {
					c.OK(rule, fname(fn), "reuseport.Control", w.instrPos(in), why)
				} else {
					c.Bad(rule, fname(fn), "reuseport.Control", w.instrPos(in), "SO_REUSEPORT is enabled on "+name+": a UDP relay port still held by a live allocation can be bound a second time, so two allocations share a relay port")
				}
			}
		})
	}
}
