package main

// The contents of a slice as a sequence of parts: "all the elements of slice X, in order" and
// "the single element e". Decides obligations of the form "the list handed on is the stored
// list followed by this attribute" however the list is put together: append(x, e),
// append(x, y...), slices.Clone / slices.Concat, a variadic literal, or make + copy — where
// copy fills min(len(dst), len(src)) elements, so a destination made with length 0 receives
// nothing and one made with length len(src) receives all of src.

import (
	"go/types"

	"golang.org/x/tools/go/ssa"
)

type seqPart struct {
	all  ssa.Value // every element of this slice, in order
	elem ssa.Value // or: this one element
}

// seqParts: the contents of slice v as used at instruction at; ok=false when the evaluator
// cannot tell.
func (w *World) seqParts(v ssa.Value, at ssa.Instruction, depth int) ([]seqPart, bool) {
	if depth > 6 {
		return nil, false
	}
	v = stripIface(w.resolveLoad(v))
	// a value of a helper seen from its call site: a variadic literal made there is a list of
	// that many single elements (which ones is the helper's business)
	if vv, isV := v.(*virtVal); isV {
		if sl, isS := under(vv).(*ssa.Slice); isS {
			if els := variadicElemsOrdered(sl); els != nil {
				var out []seqPart
				for _, e := range els {
					out = append(out, seqPart{elem: e})
				}
				return out, true
			}
		}
	}
	switch x := v.(type) {
	case *ssa.Const:
		if x.Value == nil {
			return nil, true // nil slice: empty
		}
	case *ssa.Slice:
		if els := variadicElemsOrdered(x); els != nil {
			var out []seqPart
			for _, e := range els {
				out = append(out, seqPart{elem: e})
			}
			return out, true
		}
		// x[:] / x[0:len(x)] of a slice: the same elements
		if x.Low == nil && x.High == nil && x.Max == nil {
			if _, isSl := x.X.Type().Underlying().(*types.Slice); isSl {
				return w.seqParts(x.X, at, depth+1)
			}
		}
		return nil, false
	case *ssa.MakeSlice:
		// contents come from the copy calls into it that run before the use
		n, isK := constInt(x.Len)
		var copies []*ssa.Call
		other := false
		for _, r := range *x.Referrers() {
			switch u := r.(type) {
			case *ssa.DebugRef:
			case *ssa.Call:
				if b, isB := u.Call.Value.(*ssa.Builtin); isB {
					switch b.Name() {
					case "copy":
						if u.Call.Args[0] == ssa.Value(x) {
							copies = append(copies, u)
							continue
						}
						continue // copied FROM: a read
					case "append", "len", "cap":
						continue
					}
				}
				other = true
			case *ssa.Slice, *ssa.IndexAddr:
				other = true // written or re-sliced in ways not followed
			}
		}
		if other {
			return nil, false
		}
		if isK && n == 0 {
			return nil, true // copy into a zero-length slice copies nothing
		}
		if len(copies) == 1 && (at == nil || instrDominates(copies[0], at)) {
			src := copies[0].Call.Args[1]
			// len(dst) == len(src): the make's length is len(src)
			if t := termOf(x.Len); t.Len && !t.Cap && (w.sameKey(t.V, src) || w.resolveLoad(t.V) == w.resolveLoad(src)) {
				return []seqPart{{all: w.resolveLoad(src)}}, true
			}
		}
		return nil, false
	case *ssa.Call:
		if b, isB := x.Call.Value.(*ssa.Builtin); isB && b.Name() == "append" {
			head, ok := w.seqParts(x.Call.Args[0], x, depth+1)
			if !ok {
				return nil, false
			}
			if len(x.Call.Args) == 1 {
				return head, true
			}
			tail, ok := w.seqParts(x.Call.Args[1], x, depth+1)
			if !ok {
				return nil, false
			}
			return append(append([]seqPart{}, head...), tail...), true
		}
		switch stdCallee(&x.Call) {
		case "slices.Clone":
			return w.seqParts(x.Call.Args[0], x, depth+1)
		case "slices.Concat":
			if els := variadicElemsOrdered(x.Call.Args[0]); els != nil {
				var out []seqPart
				for _, e := range els {
					p, ok := w.seqParts(e, x, depth+1)
					if !ok {
						return nil, false
					}
					out = append(out, p...)
				}
				return out, true
			}
			return nil, false
		}
	}
	// anything else: the slice itself, whole
	if _, isSl := v.Type().Underlying().(*types.Slice); isSl {
		return []seqPart{{all: v}}, true
	}
	return nil, false
}
