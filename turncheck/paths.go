package main

// Path-sensitive reachability with constant/boolean propagation along the path.
//
// Several rules ask "once this edge is taken, can that instruction still execute?". The CFG
// alone answers yes whenever a flag is set and tested later (found = true; break; ...;
// if found { return }). feasibleReach walks the CFG from an edge, resolves every phi by the
// predecessor actually taken, remembers the truth of the boolean conditions of the edges
// taken, and follows only the branch a condition is known to take when its (resolved) value
// is a constant or one of the remembered booleans. Anything it cannot decide is treated as
// feasible, so the answer "unreachable" is sound.

import (
	"go/constant"
	"go/token"
	"go/types"

	"golang.org/x/tools/go/ssa"
)

type pathEnv struct {
	phi   map[*ssa.Phi]ssa.Value
	truth map[ssa.Value]bool
	// interprocedural exploration (ipaths.go): parameters / free variables / single results
	// bound to caller-side values, tuple results of inlined calls, and known nil-ness
	bind map[ssa.Value]ssa.Value
	res  map[*ssa.Call][]ssa.Value
	nilK map[ssa.Value]bool // true: known nil, false: known non-nil
	// cells: the constant last stored on this path into a local variable that is only ever
	// loaded, stored and captured by closures called or deferred in place (a flag such as
	// `recycle := true; defer func() { if recycle {...} }()`)
	cells map[ssa.Value]ssa.Value
}

func (e *pathEnv) clone() *pathEnv {
	n := &pathEnv{phi: map[*ssa.Phi]ssa.Value{}, truth: map[ssa.Value]bool{}}
	for k, v := range e.phi {
		n.phi[k] = v
	}
	for k, v := range e.truth {
		n.truth[k] = v
	}
	if e.bind != nil {
		n.bind = make(map[ssa.Value]ssa.Value, len(e.bind))
		for k, v := range e.bind {
			n.bind[k] = v
		}
	}
	if e.res != nil {
		n.res = make(map[*ssa.Call][]ssa.Value, len(e.res))
		for k, v := range e.res {
			n.res[k] = v
		}
	}
	if e.cells != nil {
		n.cells = make(map[ssa.Value]ssa.Value, len(e.cells))
		for k, v := range e.cells {
			n.cells[k] = v
		}
	}
	if e.nilK != nil {
		n.nilK = make(map[ssa.Value]bool, len(e.nilK))
		for k, v := range e.nilK {
			n.nilK[k] = v
		}
	}
	return n
}

// forget drops what is known of a value that is computed anew.
func (e *pathEnv) forget(v ssa.Value) {
	delete(e.truth, v)
	if e.nilK != nil {
		delete(e.nilK, v)
	}
	if c, ok := v.(*ssa.Call); ok && e.res != nil {
		delete(e.res, c)
	}
	if e.bind != nil {
		delete(e.bind, v)
	}
	for k, c := range e.cells {
		if c == v {
			delete(e.cells, k)
		}
	}
}

func (e *pathEnv) resolve(v ssa.Value) ssa.Value {
	for i := 0; i < 12; i++ {
		switch x := v.(type) {
		case *ssa.Phi:
			r, ok := e.phi[x]
			if !ok {
				return v
			}
			v = r
		case *ssa.Parameter, *ssa.FreeVar:
			r, ok := e.bind[v]
			if !ok {
				return v
			}
			v = r
		case *ssa.Extract:
			c, ok := x.Tuple.(*ssa.Call)
			if !ok {
				return v
			}
			rs, ok := e.res[c]
			if !ok || x.Index >= len(rs) {
				return v
			}
			v = rs[x.Index]
		case *ssa.Call:
			rs, ok := e.res[x]
			if !ok || len(rs) != 1 {
				return v
			}
			v = rs[0]
		case *ssa.UnOp:
			if x.Op != token.MUL || e.cells == nil {
				return v
			}
			c, ok := e.cells[e.resolve(x.X)]
			if !ok {
				return v
			}
			v = c
		default:
			return v
		}
	}
	return v
}

// knownNil: is the (resolved) value known to be nil / non-nil on this path?
func (e *pathEnv) knownNil(v ssa.Value) (known, isNil bool) {
	v = e.resolve(v)
	if isNilConst(v) {
		return true, true
	}
	if n, ok := e.nilK[v]; ok {
		return true, n
	}
	// the value of a comma-ok lookup that was found, in a map that never holds nil
	if ex, ok := v.(*ssa.Extract); ok && ex.Index == 0 && theWorld != nil {
		if lk, isL := ex.Tuple.(*ssa.Lookup); isL && lk.CommaOk && lk.Referrers() != nil {
			for _, r := range *lk.Referrers() {
				if ok2, isE := r.(*ssa.Extract); isE && ok2.Index == 1 {
					if t, known := e.truth[ok2]; known && t {
						if _, fld, isF := fieldLoad(theWorld.resolveLoad(lk.X)); isF && theWorld.mapNeverHoldsNil(fld) {
							return true, false
						}
					}
				}
			}
		}
	}
	// an element of a slice table that never holds nil (a.channelBindings[i])
	if theWorld != nil {
		if ld, ok := v.(*ssa.UnOp); ok && ld.Op == token.MUL {
			if ia, isIA := ld.X.(*ssa.IndexAddr); isIA {
				if _, fld, isF := fieldLoad(theWorld.resolveLoad(ia.X)); isF && theWorld.sliceNeverHoldsNil(fld) {
					return true, false
				}
			}
		}
	}
	if theWorld != nil {
		if _, isCall := v.(*ssa.Call); isCall && theWorld.absint().definitelyNonNil(v) {
			return true, false // fmt.Errorf, errors.New, constructors that always allocate
		}
		if u, isLd := v.(*ssa.UnOp); isLd && u.Op == token.MUL {
			if _, isG := u.X.(*ssa.Global); isG && theWorld.absint().definitelyNonNil(v) {
				return true, false // a sentinel error variable, initialised once with errors.New
			}
		}
	}
	switch x := v.(type) {
	case *ssa.Alloc, *ssa.MakeInterface, *ssa.MakeClosure, *ssa.MakeMap, *ssa.MakeChan, *ssa.FieldAddr, *ssa.IndexAddr, *ssa.Function, *ssa.Global:
		return true, false
	case *ssa.ChangeInterface:
		return e.knownNil(x.X)
	case *ssa.ChangeType:
		return e.knownNil(x.X)
	}
	return false, false
}

// eval: the truth of a boolean value under the environment (known, value).
func (e *pathEnv) eval(v ssa.Value, depth int) (bool, bool) {
	v = e.resolve(v)
	if t, ok := e.truth[v]; ok {
		return true, t
	}
	if depth > 6 {
		return false, false
	}
	switch x := v.(type) {
	case *ssa.Const:
		if x.Value != nil && x.Value.Kind() == constant.Bool {
			return true, constant.BoolVal(x.Value)
		}
	case *ssa.UnOp:
		if x.Op == token.NOT {
			if k, t := e.eval(x.X, depth+1); k {
				return true, !t
			}
		}
	case *ssa.BinOp:
		if nv, isEq, ok := isNilCmp(x); ok {
			if known, isNil := e.knownNil(nv); known {
				return true, isNil == isEq
			}
		}
		a, b := e.resolve(x.X), e.resolve(x.Y)
		ca, okA := a.(*ssa.Const)
		cb, okB := b.(*ssa.Const)
		if okA && okB {
			switch x.Op {
			case token.EQL, token.NEQ:
				if ca.Value == nil || cb.Value == nil {
					// nil comparisons
					eq := ca.Value == nil && cb.Value == nil
					if ca.Value == nil != (cb.Value == nil) {
						return false, false
					}
					return true, eq == (x.Op == token.EQL)
				}
				return true, constant.Compare(ca.Value, x.Op, cb.Value)
			case token.LSS, token.LEQ, token.GTR, token.GEQ:
				if ca.Value != nil && cb.Value != nil {
					return true, constant.Compare(ca.Value, x.Op, cb.Value)
				}
			}
		}
		// x == nil / x != nil where x is remembered as (non-)nil through a truth entry of
		// the comparison itself is covered by e.truth above
	}
	return false, false
}

// learn records what taking the edge with `cond == branch` tells about boolean values.
func (e *pathEnv) learn(cond ssa.Value, branch bool) {
	cond = e.resolve(cond)
	e.truth[cond] = branch
	if nv, isEq, ok := isNilCmp(cond); ok {
		if e.nilK == nil {
			e.nilK = map[ssa.Value]bool{}
		}
		e.nilK[e.resolve(nv)] = isEq == branch
	}
	for _, f := range normCond(cond, branch) {
		if f.Op == "true" {
			e.truth[e.resolve(f.X)] = f.Truth
		}
	}
	if u, ok := cond.(*ssa.UnOp); ok && u.Op == token.NOT {
		e.learn(u.X, !branch)
	}
}

// feasibleReach: starting by taking the edge from→to (with cond facts `known` true on it),
// can block target be entered? stop blocks end a path.
func feasibleReach(from, to *ssa.BasicBlock, known map[ssa.Value]bool, target *ssa.BasicBlock) bool {
	env := &pathEnv{phi: map[*ssa.Phi]ssa.Value{}, truth: map[ssa.Value]bool{}}
	for k, v := range known {
		env.truth[k] = v
	}
	if iff, ok := from.Instrs[len(from.Instrs)-1].(*ssa.If); ok && from.Succs[0] != from.Succs[1] {
		env.learn(iff.Cond, from.Succs[0] == to)
	}
	type vkey struct{ b, p *ssa.BasicBlock }
	budget := 20000
	var visit func(b, pred *ssa.BasicBlock, env *pathEnv, onPath map[vkey]int) bool
	visit = func(b, pred *ssa.BasicBlock, env *pathEnv, onPath map[vkey]int) bool {
		budget--
		if budget < 0 {
			return true // undecided: assume reachable
		}
		if b == target {
			return true
		}
		k := vkey{b, pred}
		if onPath[k] >= 2 {
			return false // a third pass through the same edge adds nothing new
		}
		onPath[k]++
		defer func() { onPath[k]-- }()
		// resolve this block's phis by the predecessor taken
		idx := -1
		for i, p := range b.Preds {
			if p == pred {
				idx = i
			}
		}
		env = env.clone()
		if idx >= 0 {
			var upd []struct {
				p *ssa.Phi
				v ssa.Value
			}
			for _, in := range b.Instrs {
				p, ok := in.(*ssa.Phi)
				if !ok {
					break
				}
				upd = append(upd, struct {
					p *ssa.Phi
					v ssa.Value
				}{p, env.resolve(p.Edges[idx])})
			}
			for _, u := range upd {
				env.phi[u.p] = u.v
			}
			// values computed in this block are new instances: forget what was known of them
			for _, in := range b.Instrs {
				if v, ok := in.(ssa.Value); ok {
					if _, isPhi := in.(*ssa.Phi); !isPhi {
						delete(env.truth, v)
					}
				}
			}
		}
		if len(b.Succs) == 0 {
			return false
		}
		if iff, ok := b.Instrs[len(b.Instrs)-1].(*ssa.If); ok && b.Succs[0] != b.Succs[1] {
			if known, t := env.eval(iff.Cond, 0); known {
				s := b.Succs[1]
				if t {
					s = b.Succs[0]
				}
				e2 := env.clone()
				e2.learn(iff.Cond, t)
				return visit(s, b, e2, onPath)
			}
			for i, s := range b.Succs {
				if deadEdge(b, s) {
					continue
				}
				e2 := env.clone()
				e2.learn(iff.Cond, i == 0)
				if visit(s, b, e2, onPath) {
					return true
				}
			}
			return false
		}
		for _, s := range liveSuccs(b) {
			if visit(s, b, env, onPath) {
				return true
			}
		}
		return false
	}
	return visit(to, from, env, map[vkey]int{})
}

// flagCell: alloc is a local variable whose address is used only to load it, to store into it,
// and to be captured by closures that are called or deferred in place and use it the same way:
// every write to it lies on an explored path (or in a closure whose call the explorer sees).
func flagCell(a *ssa.Alloc) bool {
	if a.Referrers() == nil {
		return false
	}
	var okUse func(addr ssa.Value, depth int) bool
	okUse = func(addr ssa.Value, depth int) bool {
		refs := addr.Referrers()
		if refs == nil || depth > 3 {
			return false
		}
		for _, r := range *refs {
			switch x := r.(type) {
			case *ssa.UnOp:
				if x.Op != token.MUL {
					return false
				}
			case *ssa.Store:
				if x.Addr != addr {
					return false
				}
			case *ssa.DebugRef:
			case *ssa.MakeClosure:
				fn, _ := x.Fn.(*ssa.Function)
				if fn == nil || x.Referrers() == nil {
					return false
				}
				for _, u := range *x.Referrers() {
					ci, isCall := u.(ssa.CallInstruction)
					if !isCall || ci.Common().Value != ssa.Value(x) {
						return false
					}
					if _, isGo := u.(*ssa.Go); isGo {
						return false
					}
				}
				for i, b := range x.Bindings {
					if b == addr && i < len(fn.FreeVars) && !okUse(fn.FreeVars[i], depth+1) {
						return false
					}
				}
			default:
				return false
			}
		}
		return true
	}
	return okUse(a, 0)
}

// store records a store on the path into a flag cell.
func (e *pathEnv) store(st *ssa.Store) {
	addr := e.resolve(st.Addr)
	a, ok := addr.(*ssa.Alloc)
	if !ok {
		return
	}
	if flagCell(a) {
		// a constant, or any value of the path (the cell then stands for that value until it
		// is stored again or the value is computed anew: see forget)
		if e.cells == nil {
			e.cells = map[ssa.Value]ssa.Value{}
		}
		e.cells[a] = e.resolve(st.Val)
		return
	}
	if e.cells != nil {
		delete(e.cells, a)
	}
}

// clobberedBy: a closure that is called without being entered may write the cells it captured.
func (e *pathEnv) clobberedBy(ci ssa.CallInstruction) {
	if e.cells == nil {
		return
	}
	if mc, ok := ci.Common().Value.(*ssa.MakeClosure); ok {
		for _, b := range mc.Bindings {
			delete(e.cells, e.resolve(b))
		}
	}
}

func isErrorType(t types.Type) bool { return t.String() == "error" }
