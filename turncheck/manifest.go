package main

import (
	"bufio"
	"encoding/json"
	"os"
	"os/exec"
	"path/filepath"
	"sort"
	"strings"
)

const envPrefix = "env -u GOWORK GOFLAGS=-mod=mod GOPROXY=off "

// writeManifest regenerates MANIFEST.json from the registry of implemented properties, so that
// the manifest, the level texts and the not_applicable list cannot drift from the code.
func writeManifest(verifDir string) {
	f, err := os.Open(filepath.Join(verifDir, "properties.jsonl"))
	if err != nil {
		failf("manifest: %v", err)
	}
	defer f.Close()
	var ids []string
	sc := bufio.NewScanner(f)
	sc.Buffer(make([]byte, 1<<20), 1<<24)
	for sc.Scan() {
		var p struct {
			ID string `json:"id"`
		}
		if json.Unmarshal(sc.Bytes(), &p) == nil && p.ID != "" {
			ids = append(ids, p.ID)
		}
	}
	sort.Strings(ids)
	var checks []map[string]any
	na := []map[string]any{}
	var served []string
	for _, id := range ids {
		p := props[id]
		if p == nil {
			na = append(na, map[string]any{"property_id": id, "reason": "no static rule for this property has been built yet; it is not claimed"})
			continue
		}
		served = append(served, id)
		checks = append(checks, map[string]any{
			"property_id":         id,
			"quick_cmd":           envPrefix + "bin/turncheck -prop " + id + " -tier quick",
			"thorough_cmd":        envPrefix + "bin/turncheck -prop " + id + " -tier thorough",
			"evidence_file":       "/verif/evidence/" + id + ".json",
			"replay_cmd_template": envPrefix + "bin/turncheck -explain {path}",
			"engine":              "turncheck",
			"technique":           p.Technique,
			"level_claimed": map[string]any{
				"category":   "other",
				"text":       "Static analysis of the type-checked SSA form of the current tree; structural necessary conditions of the property, each covering every path of every function it looks at. " + p.Explanation,
				"design_ref": "DESIGN.md §4 " + id,
			},
			"level_note": "Not covered (stated, not claimed): " + p.NotCovered + " Trusted base: go/types, go/ssa, CHA+VTA call graph (x/tools v0.29.0), the rule and anchor tables of turncheck; operator callbacks and pion/stun, net, time, sync are assumed to behave as documented.",
		})
	}
	var commits []string
	if out, err := exec.Command("git", "-C", "/repo", "log", "--format=%H %s", "a2dd526..HEAD").Output(); err == nil {
		for _, l := range strings.Split(strings.TrimSpace(string(out)), "\n") {
			if l != "" {
				commits = append(commits, strings.SplitN(l, " ", 2)[0])
			}
		}
	}
	m := map[string]any{
		"version":   1,
		"setup_cmd": "cd /verif/turncheck && env -u GOWORK GOFLAGS=-mod=mod GOPROXY=off go build -o /verif/bin/turncheck .",
		"hooks": map[string]any{
			"guard":            "verif",
			"enable":           "no source hooks are needed: the checks read the source, they do not run it (the tag `verif` guards nothing)",
			"baseline_off_cmd": "cd /repo && env -u GOWORK GOFLAGS=-mod=mod GOPROXY=off go test -count=1 -vet=off ./internal/... ./e2e/...",
			"source_commits":   commits,
			"add_only":         true,
		},
		"engines": []map[string]any{{
			"name": "turncheck", "path": "/verif/turncheck", "serves_properties": served,
			"kind_free_text": "repository-specific static analyser over go/packages + go/ssa + VTA call graph: value normalisation, must-facts/dominance, locksets, interval abstract interpretation, effects, provenance; rule tables per property",
		}},
		"checks":         checks,
		"not_applicable": na,
		"notes":          "All checks are static (no code of pion/turn is run). Exit 0 = all obligations discharged or listed in known_findings.json; exit 1 + VIOLATION line otherwise; exit 2 = analysis failure (type error, unresolved anchor, checker panic) — never a silent pass. source_commits lists the unguarded `fix:` commits repairing genuine defects (see known_findings.json).",
	}
	b, _ := json.MarshalIndent(m, "", " ")
	if err := os.WriteFile(filepath.Join(verifDir, "MANIFEST.json"), append(b, '\n'), 0o644); err != nil {
		failf("manifest: %v", err)
	}
}
