package main

// Models of a few generic standard-library helpers that refactorings like to introduce
// (package slices / maps). Each is stated from the documented contract:
//
//	i := slices.IndexFunc(s, f)   -1 ≤ i < len(s); i ≥ 0 ⇒ f(s[i])
//	i := slices.Index(s, v)       -1 ≤ i < len(s); i ≥ 0 ⇒ s[i] == v
//	slices.ContainsFunc / Contains: no post-condition used; the slice is only read
//	slices.Delete(s, i, j)        result aliases s (stored back: an in-place removal)
//	slices.AppendSeq(fresh, maps.Values(m)) / slices.Collect(maps.Values(m)) /
//	slices.Clone(s) / maps.Clone(m)   a fresh copy of the collection's elements

import (
	"go/token"
	"go/types"
	"strings"

	"golang.org/x/tools/go/ssa"
)

// stdCallee: the name of a standard-library generic a call instantiates ("slices.IndexFunc").
func stdCallee(c *ssa.CallCommon) string {
	h := c.StaticCallee()
	if h == nil {
		return ""
	}
	if o := h.Origin(); o != nil {
		h = o
	}
	s := h.String()
	if i := strings.IndexByte(s, '['); i >= 0 {
		s = s[:i]
	}
	return s
}

// indexSearch: v is i := slices.IndexFunc/Index(s, …): returns the call.
func indexSearch(v ssa.Value) *ssa.Call {
	c, ok := stripIntConv(v).(*ssa.Call)
	if !ok {
		return nil
	}
	switch stdCallee(&c.Call) {
	case "slices.IndexFunc", "slices.Index":
		return c
	}
	return nil
}

// stdlibFacts: facts implied by the contracts above, added to a fact set.
func (w *World) stdlibFacts(facts []Fact) []Fact {
	for i := 0; i < len(facts) && len(facts) < 4000; i++ {
		f := facts[i]
		// i ≥ 0 in one of its spellings: ¬(i < 0), i != -1, -1 < i
		var ic *ssa.Call
		switch {
		case f.Op == "<" && !f.Truth:
			if k, isK := constInt(f.Y); isK && k == 0 {
				ic = indexSearch(f.X)
			}
		case f.Op == "<" && f.Truth:
			if k, isK := constInt(f.X); isK && k == -1 {
				ic = indexSearch(f.Y)
			}
		case f.Op == "==" && !f.Truth:
			if k, isK := constInt(f.Y); isK && k == -1 {
				ic = indexSearch(f.X)
			} else if k, isK := constInt(f.X); isK && k == -1 {
				ic = indexSearch(f.Y)
			}
		}
		if ic == nil || len(ic.Call.Args) != 2 {
			continue
		}
		s := ic.Call.Args[0]
		// the element loads s[i] of this function
		fn := ic.Parent()
		if fn == nil {
			continue
		}
		var elems []ssa.Value
		w.eachInstr(fn, func(in ssa.Instruction) {
			ld, ok := in.(*ssa.UnOp)
			if !ok || ld.Op != token.MUL {
				return
			}
			ia, ok := ld.X.(*ssa.IndexAddr)
			if !ok || stripIntConv(ia.Index) != ssa.Value(ic) {
				return
			}
			if ia.X == s || w.sameKey(ia.X, s) {
				elems = append(elems, ld)
			}
		})
		if stdCallee(&ic.Call) != "slices.IndexFunc" {
			continue
		}
		mc, ok := ic.Call.Args[1].(*ssa.MakeClosure)
		if !ok {
			continue
		}
		body, _ := mc.Fn.(*ssa.Function)
		if body == nil || len(body.Params) != 1 {
			continue
		}
		rets := returnsOf(body)
		if len(rets) != 1 || len(rets[0].Results) != 1 {
			continue
		}
		for _, el := range elems {
			syn := &ssa.Call{}
			syn.Call.Value = body
			syn.Call.Args = []ssa.Value{el}
			setRegType(syn, rets[0].Results[0].Type())
			if in, ok := el.(ssa.Instruction); ok {
				setBlock(syn, in.Block())
			}
			w.ss().synOrigin[syn] = ic
			cond := w.translate(rets[0].Results[0], body, syn)
			for _, nf := range normCond(cond, true) {
				dup := false
				for _, g := range facts {
					if g == nf {
						dup = true
					}
				}
				if !dup {
					facts = append(facts, nf)
				}
			}
		}
	}
	return facts
}

// readOnlySliceUse: the call only reads its slice argument (or returns an alias that the
// caller stores straight back): no reference outlives the call.
func readOnlySliceUse(c *ssa.CallCommon) bool {
	switch stdCallee(c) {
	case "slices.IndexFunc", "slices.Index", "slices.Contains", "slices.ContainsFunc", "slices.Equal", "slices.EqualFunc",
		"slices.Max", "slices.Min", "slices.MaxFunc", "slices.MinFunc", "slices.Clone", "maps.Clone", "maps.Values", "maps.Keys", "slices.Values", "slices.All":
		return true
	}
	return false
}

// inPlaceSliceOp: the call returns (a re-sliced view of) its first argument after editing it
// in place: slices.Delete / DeleteFunc / Insert / Compact / Grow / Clip.
func inPlaceSliceOp(c *ssa.CallCommon) bool {
	switch stdCallee(c) {
	case "slices.Delete", "slices.DeleteFunc", "slices.Insert", "slices.Compact", "slices.CompactFunc", "slices.Grow":
		return true
	}
	return false
}

// freshCopyOf: v is a fresh collection holding the elements of src(field): slices.Clone(x),
// slices.Collect(maps.Values(x)), slices.AppendSeq(fresh, maps.Values(x) / slices.Values(x)),
// maps.Clone(x). Returns the source collection value.
func (w *World) freshCopyOf(v ssa.Value) ssa.Value {
	c, ok := stripIface(w.resolveLoad(v)).(*ssa.Call)
	if !ok {
		return nil
	}
	seqSrc := func(x ssa.Value) ssa.Value {
		sc, ok := stripIface(w.resolveLoad(x)).(*ssa.Call)
		if !ok || len(sc.Call.Args) != 1 {
			return nil
		}
		switch stdCallee(&sc.Call) {
		case "maps.Values", "slices.Values":
			return sc.Call.Args[0]
		}
		return nil
	}
	switch stdCallee(&c.Call) {
	case "slices.Clone", "maps.Clone":
		return c.Call.Args[0]
	case "slices.Collect":
		return seqSrc(c.Call.Args[0])
	case "slices.AppendSeq":
		base := stripIface(w.resolveLoad(c.Call.Args[0]))
		fresh := false
		switch y := base.(type) {
		case *ssa.MakeSlice:
			fresh = true
		case *ssa.Const:
			fresh = y.Value == nil
		case *ssa.Slice:
			_, fresh = y.X.(*ssa.Alloc)
		}
		if fresh {
			return seqSrc(c.Call.Args[1])
		}
	}
	return nil
}

// orArgs: call is cmp.Or(a, b, …) — the first argument that is not the zero value, the zero
// value when all are — and its arguments in order (nil otherwise).
func orArgs(call *ssa.Call) []ssa.Value {
	if call == nil || stdCallee(&call.Call) != "cmp.Or" || len(call.Call.Args) != 1 {
		return nil
	}
	return variadicElemsOrdered(call.Call.Args[0])
}

// variadicElemsOrdered: the elements of the implicit slice of a variadic call, by index
// (nil unless every element is stored exactly once at a constant index).
func variadicElemsOrdered(sl ssa.Value) []ssa.Value {
	s, ok := sl.(*ssa.Slice)
	if !ok {
		return nil
	}
	arr, ok := s.X.(*ssa.Alloc)
	if !ok {
		return nil
	}
	byIdx := map[int64]ssa.Value{}
	for _, r := range *arr.Referrers() {
		ia, ok := r.(*ssa.IndexAddr)
		if !ok {
			continue
		}
		k, isK := constInt(ia.Index)
		if !isK {
			return nil
		}
		for _, r2 := range *ia.Referrers() {
			if st, ok := r2.(*ssa.Store); ok && st.Addr == ssa.Value(ia) {
				if _, dup := byIdx[k]; dup {
					return nil
				}
				byIdx[k] = st.Val
			}
		}
	}
	out := make([]ssa.Value, len(byIdx))
	for k, v := range byIdx {
		if k < 0 || int(k) >= len(out) {
			return nil
		}
		out[k] = v
	}
	return out
}

// freshBytes: v is a byte slice that shares no memory with any earlier storage: made here
// (make, append to nil/an empty literal, a conversion from a string), a Clone, or the result
// of a module helper every return of which is one (ownedIP: make + copy).
func (w *World) freshBytes(v ssa.Value, depth int) bool {
	if depth > 4 || v == nil {
		return false
	}
	v = w.resolveLoad(v)
	switch x := v.(type) {
	case *ssa.MakeSlice:
		return true
	case *ssa.ChangeType:
		return w.freshBytes(x.X, depth)
	case *ssa.Convert:
		if b, ok := x.X.Type().Underlying().(*types.Basic); ok && b.Info()&types.IsString != 0 {
			return true
		}
		return w.freshBytes(x.X, depth)
	case *ssa.Phi:
		for _, e := range x.Edges {
			if !w.freshBytes(e, depth+1) {
				return false
			}
		}
		return len(x.Edges) > 0
	case *ssa.Call:
		if b, ok := x.Call.Value.(*ssa.Builtin); ok && b.Name() == "append" && len(x.Call.Args) > 0 {
			base := stripIface(w.resolveLoad(x.Call.Args[0]))
			if isNilConst(base) {
				return true
			}
			if sl, isSl := base.(*ssa.Slice); isSl {
				if al, isAl := sl.X.(*ssa.Alloc); isAl && al.Heap {
					return true // append([]byte{}, …)
				}
			}
			return w.freshBytes(base, depth+1)
		}
		switch stdCallee(&x.Call) {
		case "slices.Clone", "bytes.Clone":
			return true
		}
		h := x.Call.StaticCallee()
		if h == nil || !w.IsMod[h] || len(h.Blocks) == 0 {
			return false
		}
		rets := returnsOf(h)
		for _, r := range rets {
			if len(r.Results) == 0 || !w.freshBytes(r.Results[0], depth+1) {
				return false
			}
		}
		return len(rets) > 0
	}
	return false
}

// copiedFrom: v is a private copy of a byte slice made by slices.Clone / bytes.Clone /
// append(nil, x...) or by a one-parameter module helper that copies its parameter into fresh
// storage: the slice it is a copy of (nil otherwise).
func (w *World) copiedFrom(v ssa.Value) ssa.Value {
	c, ok := stripIface(w.resolveLoad(v)).(*ssa.Call)
	if !ok {
		if ct, isCT := stripIface(w.resolveLoad(v)).(*ssa.ChangeType); isCT {
			return w.copiedFrom(ct.X)
		}
		return nil
	}
	switch stdCallee(&c.Call) {
	case "slices.Clone", "bytes.Clone":
		return c.Call.Args[0]
	}
	if b, isB := c.Call.Value.(*ssa.Builtin); isB && b.Name() == "append" && len(c.Call.Args) == 2 && w.freshBytes(c, 0) {
		return c.Call.Args[1]
	}
	h := c.Call.StaticCallee()
	if h == nil || !w.IsMod[h] || len(h.Params) != 1 || len(c.Call.Args) != 1 || !w.freshBytes(c, 0) {
		return nil
	}
	copies := false
	w.eachInstr(h, func(in ssa.Instruction) {
		call, ok := in.(*ssa.Call)
		if !ok {
			return
		}
		if b, isB := call.Call.Value.(*ssa.Builtin); isB && (b.Name() == "copy" || b.Name() == "append") && len(call.Call.Args) == 2 {
			if w.sameKey(call.Call.Args[1], h.Params[0]) || stripIface(w.resolveLoad(call.Call.Args[1])) == ssa.Value(h.Params[0]) {
				copies = true
			}
		}
		switch stdCallee(&call.Call) {
		case "slices.Clone", "bytes.Clone":
			copies = true
		}
	})
	if copies {
		return c.Call.Args[0]
	}
	return nil
}
