package main

// A hand-written replacement of io.Copy (a relay loop over a pooled buffer) is accepted as a
// faithful one-way copy when its shape shows it: it only reads from its reader parameter and
// only writes to its writer parameter; everything it writes is buf[:n] of a Read(buf) of the
// same iteration, with nothing else touching buf; and on every path from a Read to the next
// Read or to a return the bytes of that Read were written, unless the path learned n <= 0
// (the io.Reader contract: process the n > 0 bytes before looking at the error).

import (
	"go/token"
	"go/types"

	"golang.org/x/tools/go/ssa"
)

func hasMethod(t types.Type, name string) bool {
	ms := types.NewMethodSet(t)
	for i := 0; i < ms.Len(); i++ {
		if ms.At(i).Obj().Name() == name {
			return true
		}
	}
	return false
}

// copyCallOf: call is io.Copy(dst, src) or a call of a module function with a writer and a
// reader parameter that moves bytes from the one to the other (judged by faithfulCopier).
// isCopier: the call is such a copy attempt at all; why: non-empty when it is not faithful.
func (w *World) copyCallOf(call *ssa.Call) (dst, src ssa.Value, isCopier bool, why string) {
	cal := call.Call.StaticCallee()
	if cal == nil {
		return nil, nil, false, ""
	}
	if cal.String() == "io.Copy" && len(call.Call.Args) == 2 {
		return call.Call.Args[0], call.Call.Args[1], true, ""
	}
	if !w.IsMod[cal] || len(cal.Blocks) == 0 {
		return nil, nil, false, ""
	}
	di, si := -1, -1
	for i, p := range cal.Params {
		if _, isI := p.Type().Underlying().(*types.Interface); !isI {
			continue
		}
		switch {
		case hasMethod(p.Type(), "Write") && di < 0 && !hasMethod(p.Type(), "Read"):
			di = i
		case hasMethod(p.Type(), "Read") && si < 0 && !hasMethod(p.Type(), "Write"):
			si = i
		}
	}
	if di < 0 || si < 0 {
		// net.Conn on both sides: first writer-capable parameter is dst, second is src — only
		// when the body reads from exactly one and writes to exactly the other
		var rw []int
		for i, p := range cal.Params {
			if _, isI := p.Type().Underlying().(*types.Interface); isI && hasMethod(p.Type(), "Write") && hasMethod(p.Type(), "Read") {
				rw = append(rw, i)
			}
		}
		if len(rw) != 2 {
			return nil, nil, false, ""
		}
		readsFrom := func(i int) bool {
			found := false
			w.eachInstr(cal, func(in ssa.Instruction) {
				if c2, ok := in.(*ssa.Call); ok && c2.Call.IsInvoke() && c2.Call.Method.Name() == "Read" && c2.Call.Value == ssa.Value(cal.Params[i]) {
					found = true
				}
			})
			return found
		}
		switch {
		case readsFrom(rw[1]) && !readsFrom(rw[0]):
			di, si = rw[0], rw[1]
		case readsFrom(rw[0]) && !readsFrom(rw[1]):
			di, si = rw[1], rw[0]
		default:
			return nil, nil, false, ""
		}
	}
	hasRead := false
	w.eachInstr(cal, func(in ssa.Instruction) {
		if c2, ok := in.(*ssa.Call); ok && c2.Call.IsInvoke() && c2.Call.Method.Name() == "Read" {
			hasRead = true
		}
	})
	if !hasRead {
		// a thin wrapper around another copier
		var inner *ssa.Call
		n := 0
		w.eachInstr(cal, func(in ssa.Instruction) {
			if c2, ok := in.(*ssa.Call); ok {
				if _, _, is, _ := w.copyCallOf(c2); is {
					inner = c2
					n++
				}
			}
		})
		if n != 1 {
			return nil, nil, false, ""
		}
		d2, s2, _, why2 := w.copyCallOf(inner)
		if d2 != ssa.Value(cal.Params[di]) || s2 != ssa.Value(cal.Params[si]) {
			return nil, nil, false, ""
		}
		return call.Call.Args[di], call.Call.Args[si], true, why2
	}
	return call.Call.Args[di], call.Call.Args[si], true, w.faithfulCopier(cal, cal.Params[di], cal.Params[si])
}

func (w *World) faithfulCopier(f *ssa.Function, dst, src *ssa.Parameter) string {
	if w.copierMemo == nil {
		w.copierMemo = map[*ssa.Function]string{}
	}
	if r, ok := w.copierMemo[f]; ok {
		return r
	}
	r := w.faithfulCopier1(f, dst, src)
	w.copierMemo[f] = r
	return r
}

func (w *World) faithfulCopier1(f *ssa.Function, dst, src *ssa.Parameter) string {
	type rd struct {
		call *ssa.Call
		buf  ssa.Value
	}
	var reads []rd
	var writes []*ssa.Call
	bad := ""
	w.eachInstr(f, func(in ssa.Instruction) {
		call, ok := in.(*ssa.Call)
		if !ok {
			return
		}
		if call.Call.IsInvoke() {
			switch call.Call.Method.Name() {
			case "Read":
				if call.Call.Value != ssa.Value(src) {
					bad = "reads from something other than its source parameter at " + w.instrPos(in)
					return
				}
				reads = append(reads, rd{call, call.Call.Args[0]})
			case "Write":
				if call.Call.Value != ssa.Value(dst) {
					bad = "writes to something other than its destination parameter at " + w.instrPos(in)
					return
				}
				writes = append(writes, call)
			}
			return
		}
		if cal := call.Call.StaticCallee(); cal != nil && cal.String() == "io.Copy" {
			if len(call.Call.Args) != 2 || call.Call.Args[0] != ssa.Value(dst) || call.Call.Args[1] != ssa.Value(src) {
				bad = "falls back to an io.Copy between other endpoints at " + w.instrPos(in)
			}
		}
	})
	if bad != "" {
		return bad
	}
	if len(reads) == 0 || len(writes) == 0 {
		return "has no Read/Write pair"
	}
	// what a Write sends: buf[:n] (or buf[0:n]) of a Read(buf) that dominates it
	readOf := map[*ssa.Call]*ssa.Call{}
	for _, wr := range writes {
		sl, ok := wr.Call.Args[0].(*ssa.Slice)
		if !ok || sl.High == nil || (sl.Low != nil && !isZeroIntConst(sl.Low)) {
			return "writes something other than buf[:n] of a read at " + w.instrPos(wr)
		}
		var from *ssa.Call
		for _, r := range reads {
			if sl.X == r.buf && instrDominates(r.call, wr) {
				if ex, isE := sl.High.(*ssa.Extract); isE && ex.Tuple == ssa.Value(r.call) && ex.Index == 0 {
					from = r.call
				}
			}
		}
		if from == nil {
			return "writes bytes that are not exactly the n bytes of the preceding Read into the same buffer, at " + w.instrPos(wr)
		}
		readOf[wr] = from
	}
	// nothing else touches the buffer
	for _, r := range reads {
		if r.buf.Referrers() == nil {
			continue
		}
		for _, u := range *r.buf.Referrers() {
			switch x := u.(type) {
			case *ssa.Call:
				if x.Call.IsInvoke() && x.Call.Method.Name() == "Read" {
					continue
				}
				if b, isB := x.Call.Value.(*ssa.Builtin); isB && (b.Name() == "len" || b.Name() == "cap") {
					continue
				}
				return "hands the relay buffer to another call at " + w.instrPos(x)
			case *ssa.Slice:
				for _, u2 := range *x.Referrers() {
					if c2, isC := u2.(*ssa.Call); !isC || !c2.Call.IsInvoke() || c2.Call.Method.Name() != "Write" {
						if _, isDbg := u2.(*ssa.DebugRef); !isDbg {
							return "uses a slice of the relay buffer other than to write it at " + w.instrPos(u2)
						}
					}
				}
			case *ssa.DebugRef:
			case *ssa.IndexAddr:
				return "modifies or inspects single bytes of the relay buffer at " + w.instrPos(x)
			default:
				return "uses the relay buffer in another way at " + w.instrPos(u)
			}
		}
	}
	// every Read's bytes are written before the next Read or a return, unless n <= 0 is known
	noBytes := func(read *ssa.Call, env *pathEnv) bool {
		isN := func(v ssa.Value) bool {
			ex, ok := env.resolve(v).(*ssa.Extract)
			return ok && ex.Tuple == ssa.Value(read) && ex.Index == 0
		}
		for cond, t := range env.truth {
			bo, ok := cond.(*ssa.BinOp)
			if !ok {
				continue
			}
			op, x, y := bo.Op, bo.X, bo.Y
			if !t {
				op = negateOp(op)
			}
			if isN(y) {
				x, y, op = y, x, flipOp(op)
			}
			if !isN(x) {
				continue
			}
			k, isC := constInt(y)
			if !isC {
				continue
			}
			switch {
			case op == token.LEQ && k <= 0, op == token.LSS && k <= 1, op == token.EQL && k == 0:
				return true
			}
		}
		return false
	}
	cfg := &ipCfg[*ssa.Call]{w: w}
	cfg.Inline = func(ssa.CallInstruction, *ssa.Function) bool { return false }
	cfg.Step = func(in ssa.Instruction, pending *ssa.Call, env *pathEnv, _ []ssa.CallInstruction) *ssa.Call {
		// what the path has learned is forgotten when the loop re-enters the block of the Read:
		// settle "this Read delivered no bytes" as soon as it is known
		if pending != nil && noBytes(pending, env) {
			pending = nil
		}
		call, ok := in.(*ssa.Call)
		if !ok || !call.Call.IsInvoke() {
			return pending
		}
		switch call.Call.Method.Name() {
		case "Read":
			if pending != nil && !noBytes(pending, env) && bad == "" {
				bad = "reads again at " + w.instrPos(in) + " without having written the bytes of the Read at " + w.instrPos(pending)
			}
			return call
		case "Write":
			if readOf[call] == pending {
				return nil
			}
		}
		return pending
	}
	cfg.Return = func(r *ssa.Return, pending *ssa.Call, env *pathEnv) {
		if pending != nil && !noBytes(pending, env) && bad == "" {
			bad = "returns at " + w.instrPos(r) + " without having written the bytes of the Read at " + w.instrPos(pending) + " (a Read may return n > 0 together with an error: the last bytes of the stream are dropped)"
		}
	}
	explorePaths(cfg, f, nil)
	if cfg.Exhausted {
		return "undecided: path exploration exceeded its budget"
	}
	return bad
}

func isZeroIntConst(v ssa.Value) bool {
	k, ok := constInt(v)
	return ok && k == 0
}

func negateOp(op token.Token) token.Token {
	switch op {
	case token.LSS:
		return token.GEQ
	case token.LEQ:
		return token.GTR
	case token.GTR:
		return token.LEQ
	case token.GEQ:
		return token.LSS
	case token.EQL:
		return token.NEQ
	case token.NEQ:
		return token.EQL
	}
	return op
}

func flipOp(op token.Token) token.Token {
	switch op {
	case token.LSS:
		return token.GTR
	case token.LEQ:
		return token.GEQ
	case token.GTR:
		return token.LSS
	case token.GEQ:
		return token.LEQ
	}
	return op
}
