package main

import (
	"encoding/json"
	"flag"
	"fmt"
	"os"
	"path/filepath"
	"runtime/debug"
	"sort"
	"strconv"
	"strings"
	"time"
)

type propDef struct {
	ID          string
	Title       string
	Technique   string
	Explanation string // which clauses are decided
	NotCovered  string
	Run         func(c *Ctx)
}

var props = map[string]*propDef{}

func register(p *propDef) { props[p.ID] = p }

var thoroughConfigs = [][2]string{{"linux", "386"}, {"windows", "amd64"}, {"darwin", "arm64"}}

func main() {
	prop := flag.String("prop", "", "property id (C01..C20) or 'all'")
	tier := flag.String("tier", "quick", "quick|thorough")
	repo := flag.String("repo", "/repo", "repository to analyse")
	verif := flag.String("verif", "", "verif directory (default: current directory)")
	explain := flag.String("explain", "", "re-derive the obligation recorded in a violation file")
	list := flag.Bool("list", false, "list properties")
	dump := flag.String("dump", "", "debug: print must-facts and keys for calls whose callee name contains this string")
	manifest := flag.Bool("manifest", false, "regenerate MANIFEST.json from the registry")
	noself := flag.Bool("noselftest", false, "thorough: skip the mutant self-validation")
	refn := flag.String("refnames", "", "maintenance: write the reference inventory of unexported names of -repo to this file (turncheck/refnames.json) and exit")
	flag.Parse()
	if *verif == "" {
		wd, _ := os.Getwd()
		*verif = wd
	}
	if t := os.Getenv("VERIF_TIER"); t != "" && !isFlagSet("tier") {
		*tier = t
	}
	seed, _ := strconv.Atoi(os.Getenv("VERIF_SEED"))
	if *manifest {
		writeManifest(*verif)
		return
	}
	if *list {
		ids := []string{}
		for id := range props {
			ids = append(ids, id)
		}
		sort.Strings(ids)
		for _, id := range ids {
			fmt.Println(id, props[id].Title)
		}
		return
	}
	code := 2
	func() {
		defer func() {
			if r := recover(); r != nil {
				if af, ok := r.(analysisFailure); ok {
					fmt.Fprintf(os.Stderr, "ANALYSIS FAILURE (no verdict): %s\n", af.msg)
				} else {
					fmt.Fprintf(os.Stderr, "ANALYSIS FAILURE (checker panic, no verdict): %v\n%s\n", r, debug.Stack())
				}
				code = 2
			}
		}()
		if *dump != "" {
			w := Load(*repo, "", "")
			dumpFacts(w, *dump)
			code = 0
			return
		}
		if *refn != "" {
			w := Load(*repo, "", "")
			if err := writeRefnames(w, *refn); err != nil {
				fmt.Fprintln(os.Stderr, err)
				code = 2
				return
			}
			code = 0
			return
		}
		if *explain != "" {
			code = doExplain(*explain, *repo, *verif)
			return
		}
		ids := []string{*prop}
		if *prop == "all" {
			ids = nil
			for id := range props {
				ids = append(ids, id)
			}
			sort.Strings(ids)
		}
		for _, id := range ids {
			if props[id] == nil {
				failf("unknown property %q", id)
			}
		}
		w := Load(*repo, "", "")
		worst := 0
		var ctxs = map[string]*runResult{}
		starts := map[string]time.Time{}
		for _, id := range ids {
			starts[id] = time.Now()
			c := newCtx(w, id, *tier, "default")
			runProp(props[id], c)
			c.checkFloors()
			ctxs[id] = &runResult{ctxs: []*Ctx{c}}
		}
		if *tier == "thorough" {
			for _, cf := range thoroughConfigs {
				w2 := Load(*repo, cf[0], cf[1])
				for _, id := range ids {
					c := newCtx(w2, id, *tier, cf[0]+"/"+cf[1])
					runProp(props[id], c)
					c.checkFloors()
					ctxs[id].ctxs = append(ctxs[id].ctxs, c)
				}
				w2 = nil
			}
			if !*noself {
				for _, id := range ids {
					ctxs[id].selftest = runSelftest(*verif, *repo, id)
				}
			}
		}
		for _, id := range ids {
			t0 := starts[id]
			if len(ids) == 1 {
				t0 = tStart
			}
			rc := finish(*verif, id, *tier, seed, t0, ctxs[id], props[id].Explanation, props[id].NotCovered)
			if rc > worst {
				worst = rc
			}
		}
		code = worst
	}()
	os.Exit(code)
}

var tStart = time.Now()

// runProp runs the rules of one property. A construct the rules are anchored in that can no
// longer be found (removed, not renamed: renames are followed) is a violation of THIS property
// — the mechanism the property rests on is gone or was replaced by something the rules do not
// know, so the property cannot be shown — and not an analysis failure of the whole run.
func runProp(p *propDef, c *Ctx) {
	defer func() {
		r := recover()
		if r == nil {
			return
		}
		af, ok := r.(analysisFailure)
		if !ok || !strings.HasPrefix(af.msg, "anchor unresolved: ") {
			panic(r)
		}
		what := strings.TrimPrefix(af.msg, "anchor unresolved: ")
		rule := c.Prop + ".anchor"
		c.Rule(rule, "every function, field, type and constant the rules of this property are anchored in exists on the current tree (followed through renames)", 0)
		c.Bad(rule, "-", what, "-", "anchor gone: "+what+" no longer exists (and nothing structurally equivalent took its place): the mechanism this property rests on was removed or replaced, the remaining rules could not be evaluated")
	}()
	p.Run(c)
}

func isFlagSet(name string) bool {
	set := false
	flag.Visit(func(f *flag.Flag) {
		if f.Name == name {
			set = true
		}
	})
	return set
}

// doExplain re-derives the single obligation named in a violation file on the current tree.
func doExplain(path, repo, verif string) int {
	b, err := os.ReadFile(path)
	if err != nil {
		failf("explain: %v", err)
	}
	var v struct {
		Property string `json:"property"`
		Key      string `json:"key"`
		Config   string `json:"config"`
	}
	if err := json.Unmarshal(b, &v); err != nil {
		failf("explain: %v", err)
	}
	p := props[v.Property]
	if p == nil {
		failf("explain: unknown property %q", v.Property)
	}
	goos, goarch := "", ""
	if v.Config != "" && v.Config != "default" {
		parts := strings.SplitN(v.Config, "/", 2)
		goos, goarch = parts[0], parts[1]
	}
	w := Load(repo, goos, goarch)
	c := newCtx(w, v.Property, "quick", v.Config)
	runProp(p, c)
	c.checkFloors()
	for _, o := range c.Obls {
		if o.Key == v.Key {
			fmt.Printf("obligation %s\n  rule: %s — %s\n  at: %s in %s\n  status on the current tree: %s\n  %s\n", o.Key, o.Rule, c.Rules[o.Rule].Text, o.Pos, o.Func, o.Status, o.Reason)
			for _, s := range o.Path {
				fmt.Println("    " + s)
			}
			if o.Status != "discharged" {
				fmt.Printf("VIOLATION property=%s replay=%s\n", v.Property, path)
				return 1
			}
			return 0
		}
	}
	fmt.Printf("obligation %s does not exist on the current tree (construct gone or renamed)\n", v.Key)
	_ = filepath.Base
	return 0
}
