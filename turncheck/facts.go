package main

// E2 — must-facts. For every basic block the set of branch conditions that hold on every
// path reaching it. Facts are about SSA values, which are immutable, so a fact never has to
// be killed: the analysis is the forward intersection over predecessors of
// (facts at the end of the predecessor ∪ the condition on the edge).

import (
	"fmt"
	"go/constant"
	"go/token"
	"go/types"
	"sort"
	"strings"

	"golang.org/x/tools/go/ssa"
)

// Atom is a normalised atomic condition.
//
//	Op "==" : X == Y        Op "<" : X < Y        Op "true": X (a bool value)
type Atom struct {
	Op   string
	X, Y ssa.Value
}

type Fact struct {
	Atom
	Truth bool
}

type factSet map[Fact]struct{}

type funcFacts struct {
	in map[*ssa.BasicBlock]factSet
}

func normCond(cond ssa.Value, truth bool) []Fact { return normCondD(cond, truth, 0) }

func normCondD(cond ssa.Value, truth bool, depth int) []Fact {
	if depth > 6 {
		return []Fact{{Atom{"true", cond, nil}, truth}}
	}
	switch c := cond.(type) {
	case *ssa.UnOp:
		if c.Op == token.NOT {
			return normCondD(c.X, !truth, depth+1)
		}
	case *ssa.BinOp:
		switch c.Op {
		case token.EQL:
			return []Fact{{Atom{"==", c.X, c.Y}, truth}}
		case token.NEQ:
			return []Fact{{Atom{"==", c.X, c.Y}, !truth}}
		case token.LSS:
			return []Fact{{Atom{"<", c.X, c.Y}, truth}}
		case token.GTR:
			return []Fact{{Atom{"<", c.Y, c.X}, truth}}
		case token.GEQ:
			return []Fact{{Atom{"<", c.X, c.Y}, !truth}}
		case token.LEQ:
			return []Fact{{Atom{"<", c.Y, c.X}, !truth}}
		}
	case *ssa.Phi:
		// short-circuit && / || materialised as a phi of constants and one condition
		// (x && y: phi [false, y]); on the true edge of such a phi both hold.
		if truth {
			if fs := andPhi(c, depth); fs != nil {
				return fs
			}
		} else {
			if fs := orPhi(c, depth); fs != nil {
				return fs
			}
		}
	}
	return []Fact{{Atom{"true", cond, nil}, truth}}
}

// andPhi: phi whose operands are `false` constants and exactly one non-constant y, where the
// false constants come from blocks ending in `if x` (false edge). Then phi==true => y (and x).
func andPhi(p *ssa.Phi, depth int) []Fact {
	var out []Fact
	nonconst := 0
	for i, e := range p.Edges {
		if c, ok := e.(*ssa.Const); ok && c.Value != nil {
			if c.Value.String() != "false" {
				return nil
			}
			pred := p.Block().Preds[i]
			if iff, ok := pred.Instrs[len(pred.Instrs)-1].(*ssa.If); ok && pred.Succs[1] == p.Block() {
				out = append(out, normCondD(iff.Cond, true, depth+1)...)
			}
			continue
		}
		nonconst++
		out = append(out, normCondD(e, true, depth+1)...)
	}
	if nonconst != 1 {
		return nil
	}
	return out
}

func orPhi(p *ssa.Phi, depth int) []Fact {
	var out []Fact
	nonconst := 0
	for i, e := range p.Edges {
		if c, ok := e.(*ssa.Const); ok && c.Value != nil {
			if c.Value.String() != "true" {
				return nil
			}
			pred := p.Block().Preds[i]
			if iff, ok := pred.Instrs[len(pred.Instrs)-1].(*ssa.If); ok && pred.Succs[0] == p.Block() {
				out = append(out, normCondD(iff.Cond, false, depth+1)...)
			}
			continue
		}
		nonconst++
		out = append(out, normCondD(e, false, depth+1)...)
	}
	if nonconst != 1 {
		return nil
	}
	return out
}

func (w *World) facts(fn *ssa.Function) *funcFacts {
	if ff, ok := w.factMemo[fn]; ok {
		return ff
	}
	ff := &funcFacts{in: map[*ssa.BasicBlock]factSet{}}
	w.factMemo[fn] = ff
	if len(fn.Blocks) == 0 {
		return ff
	}
	// nil entry in `in` = ⊤ (not yet reached)
	ff.in[fn.Blocks[0]] = factSet{}
	changed := true
	for changed {
		changed = false
		for _, b := range fn.Blocks {
			if b == fn.Blocks[0] {
				continue
			}
			var acc factSet
			first := true
			for _, p := range b.Preds {
				pin, ok := ff.in[p]
				if !ok {
					continue // ⊤
				}
				out := factSet{}
				for f := range pin {
					out[f] = struct{}{}
				}
				for _, f := range edgeFacts(p, b) {
					out[f] = struct{}{}
				}
				if first {
					acc = out
					first = false
				} else {
					for f := range acc {
						if _, ok := out[f]; !ok {
							delete(acc, f)
						}
					}
				}
			}
			if first {
				continue
			}
			old, had := ff.in[b]
			if !had || len(old) != len(acc) {
				ff.in[b] = acc
				changed = true
			}
		}
	}
	return ff
}

func edgeFacts(p, s *ssa.BasicBlock) []Fact {
	if len(p.Instrs) == 0 {
		return nil
	}
	iff, ok := p.Instrs[len(p.Instrs)-1].(*ssa.If)
	if !ok || p.Succs[0] == p.Succs[1] {
		return nil
	}
	var out []Fact
	if p.Succs[0] == s {
		out = append(out, normCond(iff.Cond, true)...)
	}
	if p.Succs[1] == s {
		out = append(out, normCond(iff.Cond, false)...)
	}
	return out
}

// factsAt returns the must-facts at an instruction, including — for function literals — the
// facts that held where the (single) closure was created. Inheriting is sound for facts over
// SSA values (they never change); whether the *state* they describe is still current when
// the closure runs is a matter of the rule using them.
func (w *World) factsAt(in ssa.Instruction) []Fact {
	var out []Fact
	seen := map[*ssa.Function]bool{}
	for in != nil {
		fn := in.Parent()
		if seen[fn] {
			break
		}
		seen[fn] = true
		for f := range w.facts(fn).in[in.Block()] {
			out = append(out, f)
		}
		mcs := w.Closures[fn]
		if len(mcs) != 1 {
			break
		}
		in = mcs[0]
	}
	sort.Slice(out, func(i, j int) bool { return w.factStr(out[i]) < w.factStr(out[j]) })
	return out
}

func (w *World) factStr(f Fact) string {
	switch f.Op {
	case "==":
		op := "=="
		if !f.Truth {
			op = "!="
		}
		return fmt.Sprintf("%s %s %s", w.desc(f.X), op, w.desc(f.Y))
	case "<":
		op := "<"
		if !f.Truth {
			op = ">="
		}
		return fmt.Sprintf("%s %s %s", w.desc(f.X), op, w.desc(f.Y))
	}
	if f.Truth {
		return w.desc(f.X) + " is true"
	}
	return w.desc(f.X) + " is false"
}

// desc: human-readable description of a value (calls are shown with callee and argument keys)
func (w *World) desc(v ssa.Value) string {
	if e, ok := v.(*ssa.Extract); ok {
		return fmt.Sprintf("%s#%d", w.desc(e.Tuple), e.Index)
	}
	if c, ok := v.(*ssa.Call); ok {
		name := "?"
		if f := c.Call.StaticCallee(); f != nil {
			name = fname(f)
		} else if c.Call.IsInvoke() {
			name = "invoke " + w.key(c.Call.Value) + "." + c.Call.Method.Name()
		} else {
			name = "dyn " + w.key(c.Call.Value)
		}
		s := name + "("
		for i, x := range c.Call.Args {
			if i > 0 {
				s += ", "
			}
			s += w.key(x)
		}
		return s + ")"
	}
	return w.key(v)
}

// ---------------------------------------------------------------------------------
// queries used by rules

// nilFact decomposes a fact of the form  v == nil / v != nil.
func nilFact(f Fact) (v ssa.Value, isNil bool, ok bool) {
	if f.Op != "==" {
		return nil, false, false
	}
	switch {
	case isNilConst(f.Y):
		return f.X, f.Truth, true
	case isNilConst(f.X):
		return f.Y, f.Truth, true
	}
	return nil, false, false
}

// callOf strips conversions/extracts and returns the call that produced v (and the tuple
// index, -1 for a single result).
func callOf(v ssa.Value) (*ssa.Call, int) {
	idx := -1
	for {
		switch x := v.(type) {
		case *ssa.Extract:
			idx = x.Index
			v = x.Tuple
			continue
		case *ssa.MakeInterface:
			v = x.X
			continue
		case *ssa.ChangeInterface:
			v = x.X
			continue
		case *ssa.ChangeType:
			v = x.X
			continue
		case *ssa.Call:
			return x, idx
		}
		return nil, -1
	}
}

// guardCall: among the must-facts at `at`, find a fact "result(#idx) of a call to callee is
// non-nil / nil / true / false" and return the calls. want: "nonnil", "nil", "true", "false".
func (w *World) guardCalls(at ssa.Instruction, callee *ssa.Function, idx int, want string) []*ssa.Call {
	return w.guardCallsIn(w.factsAt(at), callee, idx, want, 2)
}

func factOutcome(f Fact) (v ssa.Value, outcome string) {
	if x, isNil, ok := nilFact(f); ok {
		if isNil {
			return x, "nil"
		}
		return x, "nonnil"
	}
	if f.Op == "true" {
		if f.Truth {
			return f.X, "true"
		}
		return f.X, "false"
	}
	return nil, ""
}

func (w *World) guardCallsIn(facts []Fact, callee *ssa.Function, idx int, want string, depth int) []*ssa.Call {
	var out []*ssa.Call
	for _, f := range facts {
		v, outcome := factOutcome(f)
		if v == nil {
			continue
		}
		c, i := callOf(w.resolveLoad(v))
		if c == nil {
			continue
		}
		if c.Call.StaticCallee() == callee {
			if i == idx && outcome == want {
				out = append(out, c)
			}
			continue
		}
		// the guard may have been moved into a helper: expand what the helper's outcome implies
		if h := c.Call.StaticCallee(); h != nil && w.IsMod[h] && depth > 0 && h != callee {
			out = append(out, w.expandHelper(c, i, outcome, callee, idx, want, depth-1)...)
		}
	}
	return out
}

// virtVal stands for a value of a helper function expressed in the caller's terms: it only
// carries a key.
type virtVal struct {
	k string
	t types.Type
}

func (v *virtVal) Name() string                  { return v.k }
func (v *virtVal) String() string                { return v.k }
func (v *virtVal) Type() types.Type              { return v.t }
func (v *virtVal) Parent() *ssa.Function         { return nil }
func (v *virtVal) Referrers() *[]ssa.Instruction { return nil }
func (v *virtVal) Pos() token.Pos                { return token.NoPos }

// expandHelper: hc is a call of module function h whose result hi is known to have outcome
// hout. Returns synthetic guard calls of `callee` (result idx == want) that hold on every
// return of h with that outcome, with their arguments translated to the caller.
func (w *World) expandHelper(hc *ssa.Call, hi int, hout string, callee *ssa.Function, idx int, want string, depth int) []*ssa.Call {
	h := hc.Call.StaticCallee()
	ri := hi
	if ri < 0 {
		ri = 0
	}
	ai := w.absint()
	type hit struct {
		c    *ssa.Call
		args []ssa.Value
		key  string
	}
	var acc map[string]hit
	first := true
	for _, ret := range returnsOf(h) {
		if ri >= len(ret.Results) {
			continue
		}
		rv := w.resolveLoad(ret.Results[ri])
		match := false
		var extra []Fact
		switch hout {
		case "nil", "nonnil":
			_, isC := stripIface(rv).(*ssa.Const)
			switch {
			case isC:
				match = isNilConst(stripIface(rv)) == (hout == "nil")
			case ai.definitelyNonNil(rv):
				match = hout == "nonnil"
			default:
				// unknown nil-ness: this return may produce the outcome; only facts that hold
				// here anyway count (a forwarded error of an inner call: nil iff that call's is)
				match = true
				if ic, ii := callOf(rv); ic != nil && hout == "nil" {
					_ = ii
					extra = append(extra, Fact{Atom{"==", rv, ssa.NewConst(nil, rv.Type())}, true})
				}
			}
		case "true", "false":
			if cst, ok := rv.(*ssa.Const); ok && cst.Value != nil && cst.Value.Kind() == constant.Bool {
				match = constant.BoolVal(cst.Value) == (hout == "true")
			} else {
				match = true
				extra = append(extra, normCond(rv, hout == "true")...)
			}
		}
		if !match {
			continue
		}
		facts := append(w.factsAt(ret), extra...)
		set := map[string]hit{}
		for _, g := range w.guardCallsIn(facts, callee, idx, want, depth) {
			var args []ssa.Value
			k := ""
			for _, a := range g.Call.Args {
				ta := w.translateToCaller(a, h, hc)
				args = append(args, ta)
				k += w.key(ta) + "|"
			}
			set[k] = hit{g, args, k}
		}
		if first {
			acc, first = set, false
		} else {
			for k := range acc {
				if _, ok := set[k]; !ok {
					delete(acc, k)
				}
			}
		}
	}
	var out []*ssa.Call
	var keys []string
	for k := range acc {
		keys = append(keys, k)
	}
	sort.Strings(keys)
	for _, k := range keys {
		hh := acc[k]
		syn := &ssa.Call{}
		syn.Call.Value = callee
		syn.Call.Args = hh.args
		if w.synthPos == nil {
			w.synthPos = map[ssa.Instruction]string{}
		}
		w.synthPos[syn] = w.instrPos(hh.c) + " (inside helper " + fname(h) + " called at " + w.instrPos(hc) + ")"
		out = append(out, syn)
	}
	return out
}

// translateToCaller: a value of helper h as seen from the call hc: parameters become the
// actual arguments; anything else becomes a virtual value whose key has the parameters
// substituted.
func (w *World) translateToCaller(v ssa.Value, h *ssa.Function, hc *ssa.Call) ssa.Value {
	if vv, ok := v.(*virtVal); ok {
		v = vv
	}
	if p, ok := stripIface(v).(*ssa.Parameter); ok && p.Parent() == h {
		if i := paramIndex(p); i >= 0 && i < len(hc.Call.Args) {
			return hc.Call.Args[i]
		}
	}
	if _, ok := v.(*ssa.Const); ok {
		return v
	}
	// a call inside the helper (e.g. alloc.AddressFamily()): the same call on translated arguments
	if c, ok := stripIface(v).(*ssa.Call); ok && c.Block() != nil && c.Call.StaticCallee() != nil {
		syn := &ssa.Call{}
		syn.Call.Value = c.Call.StaticCallee()
		for _, a := range c.Call.Args {
			syn.Call.Args = append(syn.Call.Args, w.translateToCaller(a, h, hc))
		}
		if w.synthPos == nil {
			w.synthPos = map[ssa.Instruction]string{}
		}
		w.synthPos[syn] = w.instrPos(c) + " (inside helper " + fname(h) + ")"
		return syn
	}
	k := w.key(v)
	for i, p := range h.Params {
		if i < len(hc.Call.Args) {
			k = strings.ReplaceAll(k, w.key(p), w.key(hc.Call.Args[i]))
		}
	}
	return &virtVal{k: k, t: v.Type()}
}

// resolveLoad: when v is a load of a private single-store local (err spilled because a
// closure captures it, named results, ...) return the stored value; else v.
func (w *World) resolveLoad(v ssa.Value) ssa.Value {
	for i := 0; i < 8; i++ {
		u, ok := v.(*ssa.UnOp)
		if !ok || u.Op != token.MUL {
			return v
		}
		al, _ := allocBase(u.X)
		if al == nil || w.escapes(al) {
			return v
		}
		ss := w.stores[w.locKey(u.X)]
		if len(ss) != 1 || inLoopWith(ss[0], u) {
			// several stores: the one that reaches this load, when it is unique and in the
			// same block or a dominating one with no other store in between
			if st := w.reachingStore(u); st != nil {
				v = st.Val
				continue
			}
			return v
		}
		v = ss[0].Val
	}
	return v
}

// reachingStore: for a load of a non-escaping local with several stores, the unique store
// that reaches it: the last store before the load in its own block, or — when the block has
// none — the same for its unique predecessor chain.
func (w *World) reachingStore(ld *ssa.UnOp) *ssa.Store {
	loc := w.locKey(ld.X)
	b := ld.Block()
	idx := indexIn(ld)
	for hops := 0; hops < 16; hops++ {
		for i := idx - 1; i >= 0; i-- {
			switch x := b.Instrs[i].(type) {
			case *ssa.Store:
				if w.locKey(x.Addr) == loc {
					return x
				}
			case *ssa.Call:
				// closures that capture the local may write it when called
				if w.callMayWriteLocal(x, ld) {
					return nil
				}
			}
		}
		if len(b.Preds) != 1 {
			return nil
		}
		b = b.Preds[0]
		idx = len(b.Instrs)
	}
	return nil
}

func (w *World) callMayWriteLocal(c *ssa.Call, ld *ssa.UnOp) bool {
	al, _ := allocBase(ld.X)
	if al == nil {
		return true
	}
	captured := false
	for _, r := range *al.Referrers() {
		if _, ok := r.(*ssa.MakeClosure); ok {
			captured = true
		}
	}
	if !captured {
		return false
	}
	// a captured local can be written by any call that may run the closure
	return true
}

func isBoolType(t types.Type) bool {
	b, ok := t.Underlying().(*types.Basic)
	return ok && b.Kind() == types.Bool
}
