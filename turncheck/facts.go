package main

// E2 — must-facts. For every basic block the set of branch conditions that hold on every
// path reaching it. Facts are about SSA values, which are immutable, so a fact never has to
// be killed: the analysis is the forward intersection over predecessors of
// (facts at the end of the predecessor ∪ the condition on the edge).

import (
	"fmt"
	"go/constant"
	"go/token"
	"go/types"
	"sort"
	"strconv"
	"strings"

	"golang.org/x/tools/go/ssa"
)

// Atom is a normalised atomic condition.
//
//	Op "==" : X == Y        Op "<" : X < Y        Op "true": X (a bool value)
type Atom struct {
	Op   string
	X, Y ssa.Value
}

type Fact struct {
	Atom
	Truth bool
}

type factSet map[Fact]struct{}

type funcFacts struct {
	in map[*ssa.BasicBlock]factSet
}

func normCond(cond ssa.Value, truth bool) []Fact { return normCondD(cond, truth, 0) }

func normCondD(cond ssa.Value, truth bool, depth int) []Fact {
	if depth > 6 {
		return []Fact{{Atom{"true", cond, nil}, truth}}
	}
	switch c := cond.(type) {
	case *ssa.UnOp:
		if c.Op == token.NOT {
			return normCondD(c.X, !truth, depth+1)
		}
	case *ssa.BinOp:
		switch c.Op {
		case token.EQL:
			return []Fact{{Atom{"==", c.X, c.Y}, truth}}
		case token.NEQ:
			return []Fact{{Atom{"==", c.X, c.Y}, !truth}}
		case token.LSS:
			return []Fact{{Atom{"<", c.X, c.Y}, truth}}
		case token.GTR:
			return []Fact{{Atom{"<", c.Y, c.X}, truth}}
		case token.GEQ:
			return []Fact{{Atom{"<", c.X, c.Y}, !truth}}
		case token.LEQ:
			return []Fact{{Atom{"<", c.Y, c.X}, !truth}}
		}
	case *ssa.Phi:
		// short-circuit && / || materialised as a phi of constants and one condition
		// (x && y: phi [false, y]); on the true edge of such a phi both hold.
		if truth {
			if fs := andPhi(c, depth); fs != nil {
				return fs
			}
		} else {
			if fs := orPhi(c, depth); fs != nil {
				return fs
			}
		}
	}
	return []Fact{{Atom{"true", cond, nil}, truth}}
}

// andPhi: phi whose operands are `false` constants and exactly one non-constant y, where the
// false constants come from blocks ending in `if x` (false edge). Then phi==true => y (and x).
func andPhi(p *ssa.Phi, depth int) []Fact {
	var out []Fact
	nonconst := 0
	for i, e := range p.Edges {
		if c, ok := e.(*ssa.Const); ok && c.Value != nil {
			if c.Value.String() != "false" {
				return nil
			}
			pred := p.Block().Preds[i]
			if iff, ok := pred.Instrs[len(pred.Instrs)-1].(*ssa.If); ok && pred.Succs[1] == p.Block() {
				out = append(out, normCondD(iff.Cond, true, depth+1)...)
			}
			continue
		}
		nonconst++
		out = append(out, normCondD(e, true, depth+1)...)
	}
	if nonconst != 1 {
		return nil
	}
	return out
}

func orPhi(p *ssa.Phi, depth int) []Fact {
	var out []Fact
	nonconst := 0
	for i, e := range p.Edges {
		if c, ok := e.(*ssa.Const); ok && c.Value != nil {
			if c.Value.String() != "true" {
				return nil
			}
			pred := p.Block().Preds[i]
			if iff, ok := pred.Instrs[len(pred.Instrs)-1].(*ssa.If); ok && pred.Succs[0] == p.Block() {
				out = append(out, normCondD(iff.Cond, false, depth+1)...)
			}
			continue
		}
		nonconst++
		out = append(out, normCondD(e, false, depth+1)...)
	}
	if nonconst != 1 {
		return nil
	}
	return out
}

func (w *World) facts(fn *ssa.Function) *funcFacts {
	if ff, ok := w.factMemo[fn]; ok {
		return ff
	}
	ff := &funcFacts{in: map[*ssa.BasicBlock]factSet{}}
	w.factMemo[fn] = ff
	if len(fn.Blocks) == 0 {
		return ff
	}
	// nil entry in `in` = ⊤ (not yet reached)
	ff.in[fn.Blocks[0]] = factSet{}
	changed := true
	for changed {
		changed = false
		for _, b := range fn.Blocks {
			if b == fn.Blocks[0] {
				continue
			}
			var acc factSet
			first := true
			var bounds []map[ssa.Value]ival // per live predecessor: constant bounds of integer values
			for _, p := range b.Preds {
				pin, ok := ff.in[p]
				if !ok {
					continue // ⊤
				}
				if semDead(p, b) {
					continue // never taken
				}
				out := factSet{}
				for f := range pin {
					out[f] = struct{}{}
				}
				for _, f := range edgeFacts(p, b) {
					out[f] = struct{}{}
				}
				if len(b.Preds) > 1 {
					bounds = append(bounds, constBounds(out))
				}
				if first {
					acc = out
					first = false
				} else {
					for f := range acc {
						if _, ok := out[f]; !ok {
							delete(acc, f)
						}
					}
				}
			}
			if first {
				continue
			}
			// what the predecessors agree on as a RANGE although they disagree on the atom:
			// class == 1 on one edge, class == 0 on the other leave class < 2 at the merge
			if len(bounds) > 1 {
				for x, r := range bounds[0] {
					all := true
					for _, bm := range bounds[1:] {
						r2, ok := bm[x]
						if !ok {
							all = false
							break
						}
						r = r.join(r2)
					}
					if !all {
						continue
					}
					tr := typeRange(x.Type())
					if r.hi < tr.hi && r.hi < inf-1 {
						acc[Fact{Atom{"<", x, w.intConst(x.Type(), r.hi+1)}, true}] = struct{}{}
					}
					if r.lo > tr.lo && r.lo > -inf {
						acc[Fact{Atom{"<", x, w.intConst(x.Type(), r.lo)}, false}] = struct{}{}
					}
				}
			}
			old, had := ff.in[b]
			same := had && len(old) == len(acc)
			if same {
				for f := range acc {
					if _, ok := old[f]; !ok {
						same = false
						break
					}
				}
			}
			if !same {
				ff.in[b] = acc
				changed = true
			}
		}
	}
	return ff
}

// constBounds: for every integer value compared with constants in the fact set, the interval
// those facts confine it to.
func constBounds(fs factSet) map[ssa.Value]ival {
	out := map[ssa.Value]ival{}
	upd := func(x ssa.Value, lo, hi int64) {
		if _, isC := x.(*ssa.Const); isC || !isIntType(x.Type()) {
			return
		}
		r, ok := out[x]
		if !ok {
			r = ival{-inf, inf}
		}
		if lo > r.lo {
			r.lo = lo
		}
		if hi < r.hi {
			r.hi = hi
		}
		out[x] = r
	}
	for f := range fs {
		if f.X == nil || f.Y == nil {
			continue
		}
		cx, xIsC := constInt(f.X)
		cy, yIsC := constInt(f.Y)
		switch {
		case f.Op == "==" && f.Truth && yIsC:
			upd(f.X, cy, cy)
		case f.Op == "==" && f.Truth && xIsC:
			upd(f.Y, cx, cx)
		case f.Op == "<" && yIsC && f.Truth: // X < c
			upd(f.X, -inf, cy-1)
		case f.Op == "<" && yIsC && !f.Truth: // X >= c
			upd(f.X, cy, inf)
		case f.Op == "<" && xIsC && f.Truth: // c < Y
			upd(f.Y, cx+1, inf)
		case f.Op == "<" && xIsC && !f.Truth: // c >= Y
			upd(f.Y, -inf, cx)
		}
	}
	for x, r := range out {
		if r.lo == -inf && r.hi == inf {
			delete(out, x)
		}
	}
	return out
}

// intConst: the canonical constant k of type t (one object per (type, value), so that facts
// built from it compare equal).
func (w *World) intConst(t types.Type, k int64) *ssa.Const {
	if w.intConsts == nil {
		w.intConsts = map[string]*ssa.Const{}
	}
	key := t.String() + "|" + strconv.FormatInt(k, 10)
	if c, ok := w.intConsts[key]; ok {
		return c
	}
	c := ssa.NewConst(constant.MakeInt64(k), t)
	w.intConsts[key] = c
	return c
}

func edgeFacts(p, s *ssa.BasicBlock) []Fact {
	if len(p.Instrs) == 0 {
		return nil
	}
	iff, ok := p.Instrs[len(p.Instrs)-1].(*ssa.If)
	if !ok || p.Succs[0] == p.Succs[1] {
		return nil
	}
	var out []Fact
	if p.Succs[0] == s {
		out = append(out, normCond(iff.Cond, true)...)
	}
	if p.Succs[1] == s {
		out = append(out, normCond(iff.Cond, false)...)
	}
	return out
}

// factsAt returns the must-facts at an instruction, including — for function literals — the
// facts that held where the (single) closure was created. Inheriting is sound for facts over
// SSA values (they never change); whether the *state* they describe is still current when
// the closure runs is a matter of the rule using them.
func (w *World) factsAt(in ssa.Instruction) []Fact {
	if in == nil || in.Block() == nil {
		return nil
	}
	st := w.ss()
	if r, ok := st.factsAt[in.Block()]; ok {
		return r
	}
	b0 := in.Block()
	st.factsAt[b0] = nil // cycle guard
	var out []Fact
	seen := map[*ssa.Function]bool{}
	for in != nil && in.Block() != nil {
		fn := in.Parent()
		if seen[fn] {
			break
		}
		seen[fn] = true
		for f := range w.facts(fn).in[in.Block()] {
			out = append(out, f)
		}
		if mcs := w.Closures[fn]; len(mcs) == 1 {
			in = mcs[0]
			continue
		}
		if site := w.singleSiteCI(fn); site != nil {
			in = site
			continue
		}
		break
	}
	sort.Slice(out, func(i, j int) bool { return w.factStr(out[i]) < w.factStr(out[j]) })
	out = w.importFacts(out)
	st.factsAt[b0] = out
	return out
}

func (w *World) factStr(f Fact) string {
	switch f.Op {
	case "==":
		op := "=="
		if !f.Truth {
			op = "!="
		}
		return fmt.Sprintf("%s %s %s", w.desc(f.X), op, w.desc(f.Y))
	case "<":
		op := "<"
		if !f.Truth {
			op = ">="
		}
		return fmt.Sprintf("%s %s %s", w.desc(f.X), op, w.desc(f.Y))
	}
	if f.Truth {
		return w.desc(f.X) + " is true"
	}
	return w.desc(f.X) + " is false"
}

// desc: human-readable description of a value (calls are shown with callee and argument keys)
func (w *World) desc(v ssa.Value) string {
	if e, ok := v.(*ssa.Extract); ok {
		return fmt.Sprintf("%s#%d", w.desc(e.Tuple), e.Index)
	}
	if c, ok := v.(*ssa.Call); ok {
		name := "?"
		if f := c.Call.StaticCallee(); f != nil {
			name = fname(f)
		} else if c.Call.IsInvoke() {
			name = "invoke " + w.key(c.Call.Value) + "." + c.Call.Method.Name()
		} else {
			name = "dyn " + w.key(c.Call.Value)
		}
		s := name + "("
		for i, x := range c.Call.Args {
			if i > 0 {
				s += ", "
			}
			s += w.key(x)
		}
		return s + ")"
	}
	return w.key(v)
}

// ---------------------------------------------------------------------------------
// queries used by rules

// nilFact decomposes a fact of the form  v == nil / v != nil.
func nilFact(f Fact) (v ssa.Value, isNil bool, ok bool) {
	if f.Op != "==" {
		return nil, false, false
	}
	switch {
	case isNilConst(f.Y):
		return f.X, f.Truth, true
	case isNilConst(f.X):
		return f.Y, f.Truth, true
	}
	return nil, false, false
}

// callOf strips conversions/extracts and returns the call that produced v (and the tuple
// index, -1 for a single result).
func callOf(v ssa.Value) (*ssa.Call, int) {
	idx := -1
	for {
		switch x := v.(type) {
		case *ssa.Extract:
			idx = x.Index
			v = x.Tuple
			continue
		case *ssa.MakeInterface:
			v = x.X
			continue
		case *ssa.ChangeInterface:
			v = x.X
			continue
		case *ssa.ChangeType:
			v = x.X
			continue
		case *ssa.Call:
			return x, idx
		case *ssa.Parameter:
			if a, ok := argOfParam(x); ok {
				v = a
				continue
			}
		}
		return nil, -1
	}
}

// guardCall: among the must-facts at `at`, find a fact "result(#idx) of a call to callee is
// non-nil / nil / true / false" and return the calls. want: "nonnil", "nil", "true", "false".
func (w *World) guardCalls(at ssa.Instruction, callee *ssa.Function, idx int, want string) []*ssa.Call {
	return w.guardCallsIn(w.factsAt(at), callee, idx, want, 2)
}

func factOutcome(f Fact) (v ssa.Value, outcome string) {
	if x, isNil, ok := nilFact(f); ok {
		if isNil {
			return x, "nil"
		}
		return x, "nonnil"
	}
	if f.Op == "true" {
		if f.Truth {
			return f.X, "true"
		}
		return f.X, "false"
	}
	return nil, ""
}

func (w *World) guardCallsIn(facts []Fact, callee *ssa.Function, idx int, want string, depth int) []*ssa.Call {
	var out []*ssa.Call
	for _, f := range facts {
		v, outcome := factOutcome(f)
		if v == nil {
			continue
		}
		c, i := callOf(w.resolveLoad(v))
		if c == nil {
			// the accessor's lookup written out in place counts as a call of the accessor
			if ac := w.asAccessorCall(v, callee); ac != nil {
				c, i = ac, -1
			} else {
				continue
			}
		}
		if c.Call.StaticCallee() == callee {
			if i == idx && outcome == want {
				out = append(out, c)
			}
			continue
		}
	}
	return out
}

// virtVal stands for a value of a helper function expressed in the caller's terms: it only
// carries a key.
type virtVal struct {
	k    string
	t    types.Type
	orig ssa.Value // the helper's own value this stands for
	site *ssa.Call // the call site it was translated at
}

// under: the helper-side SSA value behind a virtual value (v itself otherwise). Use it only
// to inspect the SHAPE of the value; identity and keys must come from v.
func under(v ssa.Value) ssa.Value {
	for i := 0; i < 8; i++ {
		vv, ok := v.(*virtVal)
		if !ok || vv.orig == nil {
			return v
		}
		v = vv.orig
	}
	return v
}

func (v *virtVal) Name() string                  { return v.k }
func (v *virtVal) String() string                { return v.k }
func (v *virtVal) Type() types.Type              { return v.t }
func (v *virtVal) Parent() *ssa.Function         { return nil }
func (v *virtVal) Referrers() *[]ssa.Instruction { return nil }
func (v *virtVal) Pos() token.Pos                { return token.NoPos }

// argOfParam: a parameter of a single-call-site helper is the argument passed there.
func argOfParam(v ssa.Value) (ssa.Value, bool) {
	p, ok := v.(*ssa.Parameter)
	if !ok || theWorld == nil {
		return nil, false
	}
	site := theWorld.singleSiteCI(p.Parent())
	if site == nil {
		// several call sites that all hand in the very same value for this parameter
		if a := theWorld.uniformArgOf(p); a != nil {
			return a, true
		}
		return nil, false
	}
	if i := paramIndex(p); i >= 0 && i < len(site.Common().Args) {
		return site.Common().Args[i], true
	}
	return nil, false
}

// resolveLoad: when v is a load of a private single-store local (err spilled because a
// closure captures it, named results, ...) return the stored value; else v.
func (w *World) resolveLoad(v ssa.Value) ssa.Value { return w.resolveLoadX(v, true) }

// resolveLoadLocal: resolveLoad without stepping from a single-call-site helper's parameter
// to the argument (for analyses that track the call frames themselves).
func (w *World) resolveLoadLocal(v ssa.Value) ssa.Value { return w.resolveLoadX(v, false) }

func (w *World) resolveLoadX(v ssa.Value, hopParams bool) ssa.Value {
	for i := 0; i < 8; i++ {
		if a, ok := argOfParam(v); ok && hopParams {
			v = a
			continue
		}
		if fx, isF := v.(*ssa.Field); isF && hopParams {
			// a field of a struct VALUE (by-value parameter, helper's struct result)
			if st, _ := fx.X.Type().Underlying().(*types.Struct); st != nil {
				if r := w.structFieldValue(fx.X, []string{st.Field(fx.Field).Name()}, 0); r != nil && r != v {
					v = r
					continue
				}
			}
			return v
		}
		u, ok := v.(*ssa.UnOp)
		if !ok || u.Op != token.MUL {
			return v
		}
		al, _ := allocBase(u.X)
		viaFreeVar := false
		if al == nil {
			// a variable of the enclosing function read inside a function literal
			if fv, ok := rootAddr(u.X).(*ssa.FreeVar); ok {
				if b, ok := w.binding(fv).(*ssa.Alloc); ok {
					al, viaFreeVar = b, true
				}
			}
		}
		if al == nil || w.escapes(al) {
			// a write-once field of a local context object (writeonce.go)
			if loc := w.locKey(u.X); strings.HasPrefix(loc, "alloc:") {
				if wo := w.woStore(loc); wo != nil && wo.suffix == "" && (u.Parent() != wo.st.Parent() || instrDominates(wo.st, u)) {
					v = wo.st.Val
					continue
				}
			}
			// a field of an object reached through a pointer, written earlier in this very
			// function with nothing in between that can write it again
			if sv := w.forwardField(u); sv != nil {
				v = sv
				continue
			}
			if al == nil {
				if cv, suffix, ok := w.ctorField(u); ok && suffix == "" {
					v = cv
					continue
				}
			}
			return v
		}
		ss := w.stores[w.locKey(u.X)]
		if viaFreeVar {
			if len(ss) != 1 || storeRepeatsPerObject(ss[0], al) {
				// (one variable assigned once per loop iteration and read by the function
				// literals made in the loop: they read whatever the latest iteration stored)
				return v
			}
			v = ss[0].Val
			continue
		}
		if len(ss) == 0 {
			// a field of a by-value copy (the spill slot of a struct parameter, a local
			// struct assigned as a whole): the field of the value it was copied from
			if _, isFA := u.X.(*ssa.FieldAddr); isFA {
				if r := w.localStructField(al, pathOf(u.X), u, 0); r != nil {
					v = r
					continue
				}
			}
		}
		if len(ss) != 1 || inLoopWith(ss[0], u) {
			// several stores: the one that reaches this load, when it is unique and in the
			// same block or a dominating one with no other store in between
			if st := w.reachingStore(u); st != nil {
				v = st.Val
				continue
			}
			return v
		}
		v = ss[0].Val
	}
	return v
}

// reachingStore: for a load of a non-escaping local with several stores, the unique store
// that reaches it: the last store before the load in its own block, or — when the block has
// none — the same for its unique predecessor chain.
func (w *World) reachingStore(ld *ssa.UnOp) *ssa.Store {
	loc := w.locKey(ld.X)
	b := ld.Block()
	idx := indexIn(ld)
	for hops := 0; hops < 16; hops++ {
		for i := idx - 1; i >= 0; i-- {
			switch x := b.Instrs[i].(type) {
			case *ssa.Store:
				if w.locKey(x.Addr) == loc {
					return x
				}
			case *ssa.Call:
				// closures that capture the local may write it when called
				if w.callMayWriteLocal(x, ld) {
					return nil
				}
			}
		}
		if len(b.Preds) != 1 {
			return nil
		}
		b = b.Preds[0]
		idx = len(b.Instrs)
	}
	return nil
}

func (w *World) callMayWriteLocal(c *ssa.Call, ld *ssa.UnOp) bool {
	al, _ := allocBase(ld.X)
	if al == nil {
		return true
	}
	captured := false
	for _, r := range *al.Referrers() {
		if _, ok := r.(*ssa.MakeClosure); ok {
			captured = true
		}
	}
	if !captured {
		return false
	}
	// a captured local can be written by any call that may run the closure
	return true
}

func isBoolType(t types.Type) bool {
	b, ok := t.Underlying().(*types.Basic)
	return ok && b.Kind() == types.Bool
}

// forwardField: ld = *(&x.f): the value of the store to x.f (same x) that dominates ld when no
// other write of field f (a store, or a call of a module function that stores f) can execute
// between that store and ld. Scalars and slices only (the stored value is an SSA value that
// cannot change).
func (w *World) forwardField(ld *ssa.UnOp) ssa.Value {
	fa, ok := ld.X.(*ssa.FieldAddr)
	if !ok || ld.Block() == nil {
		return nil
	}
	if w.fwdBusy {
		return nil
	}
	w.fwdBusy = true
	defer func() { w.fwdBusy = false }()
	fn := ld.Parent()
	f := fieldOf(fa)
	writes := w.fieldWritesIn(fn, f)
	var hit *ssa.Store
	for _, wr := range writes {
		st, isSt := wr.(*ssa.Store)
		if !isSt {
			continue
		}
		fa2, _ := st.Addr.(*ssa.FieldAddr)
		if fa2 == nil || !(fa2.X == fa.X || w.key(fa2.X) == w.key(fa.X)) {
			continue
		}
		if instrDominates(st, ld) && (hit == nil || instrDominates(hit, st)) {
			hit = st
		}
	}
	if hit == nil || hit.Val == ssa.Value(ld) {
		return nil
	}
	for _, wr := range writes {
		if wr == ssa.Instruction(hit) {
			continue
		}
		if instrReaches(hit, wr) && instrReaches(wr, ld) {
			return nil
		}
	}
	// loops: the store itself must not be re-executed between … it dominates ld, fine
	return hit.Val
}
