package main

import (
	"fmt"
	"go/constant"
	"go/token"
	"go/types"
	"os"
	"sort"
	"strings"

	"golang.org/x/tools/go/ssa"
)

func init() {
	register(&propDef{
		ID:        "C03",
		Title:     "State-changing requests take effect only with valid long-term credentials",
		Technique: "dispatch-table recovery from must-facts, effect analysis over the call graph + dominance by the auth gate, composition check of authenticateRequest, owner-lookup provenance, sibling comparison of the NonceManager implementations",
		Explanation: "C03.1 the (class, method)→handler table is recovered from getMessageHandler; " +
			"C03.2 in each of the six authenticated handlers every instruction with a state effect (effect analysis over the call graph) is dominated by the hasAuth==true edge of authenticateRequest(req, stunMsg, M) with M the dispatch method; " +
			"C03.3 authenticateRequest returns hasAuth=true on exactly one return, dominated by: MESSAGE-INTEGRITY present, AuthHandler!=nil, NONCE decoded, req.NonceHash.Validate(that nonce)==nil, realm and username decoded, AuthHandler(username, realm of the message) ok, MessageIntegrity(key of that handler call).Check(stunMsg)==nil; the returned key and user are that call's results; every other return has hasAuth=false; " +
			"C03.4 in the five non-Allocate handlers every state effect is dominated by a non-nil result of GetAllocationForUserID(request tuple, user) / GetTCPConnection(user, id) with user = result #2 of authenticateRequest, and those lookups return non-nil only on the userID equality edge; " +
			"C03.5 challenge and validation use the same req.NonceHash, which is only assigned from Server.nonceHash; the challenge realm is req.Realm; " +
			"C03.6 every NonceManager.Validate returns nil only on the true edge of hmac.Equal over a MAC keyed by the instance key and bytes of the presented nonce, and under an expiry comparison involving time.Now and the nonce; C03.6d the bytes fed to that HMAC are the byte range the timestamp is decoded from (or the low-order bytes of its encoding), in Generate, Validate and their helpers; C03.6e the MAC a validator computes is written into storage of its own (hash.Sum(nil) or a fresh buffer), never appended onto a slice of the presented nonce — Sum(b) appends, and in place when b has room, which would make the comparison compare the nonce with itself. C03.8 a nonce is refused only for what is in the nonce, the key and the clock (closed refusal set); C03.9 (=C17.7) the AuthHandler consulted is the operator's own. C03.10 a success response of an owner-gated method is built only under owner lookup != nil; C03.11 (=C16.13) a pending peer connection is touched (bind timer stopped) only after the user matched, and its single use is never handed back. C03.12 the number of MAC bytes a nonce validator compares is fixed by the validator, never by the presented nonce (no slice bound of the expected MAC depends on the nonce argument).",
		NotCovered: "strength of HMAC/MD5; the numeric value of the one-hour threshold beyond the comparison being present; what the operator's AuthHandler returns; interleavings.",
		Run:        runC03,
	})
}

type dispatchEntry struct {
	class, method int64
	handler       *ssa.Function
}

// dispatchTable recovers (class, method) -> handler from getMessageHandler using the
// must-facts at each return of a function value.
func (w *World) dispatchTable() []dispatchEntry {
	fn := w.Func("server", "", "getMessageHandler")
	var out []dispatchEntry
	for _, ret := range returnsOf(fn) {
		v := stripIface(w.resolveLoad(ret.Results[0]))
		h, ok := v.(*ssa.Function)
		if !ok {
			continue
		}
		cls, mth := int64(-1), int64(-1)
		for _, f := range w.factsAt(ret) {
			if f.Op != "==" || !f.Truth {
				continue
			}
			for _, pair := range [][2]ssa.Value{{f.X, f.Y}, {f.Y, f.X}} {
				k, isC := constInt(pair[1])
				if !isC {
					continue
				}
				if w.sameKey(pair[0], fn.Params[0]) {
					cls = k
				}
				if w.sameKey(pair[0], fn.Params[1]) {
					mth = k
				}
			}
		}
		// a class/method pinned by a chain of exclusions rather than one equality (class is an
		// indication or a request, and not an indication)
		ai := w.absint()
		if cls < 0 {
			if r := ai.rangeOfTerm(termOf(fn.Params[0]), ret, 3); !r.empty() && r.lo == r.hi {
				cls = r.lo
			}
		}
		if mth < 0 {
			if r := ai.rangeOfTerm(termOf(fn.Params[1]), ret, 3); !r.empty() && r.lo == r.hi {
				mth = r.lo
			}
		}
		out = append(out, dispatchEntry{cls, mth, h})
	}
	sort.Slice(out, func(i, j int) bool {
		if out[i].class != out[j].class {
			return out[i].class < out[j].class
		}
		return out[i].method < out[j].method
	})
	return out
}

func stunConst(w *World, name string) int64 { return w.ConstInt("stun", name) }

var authedMethods = []string{"MethodAllocate", "MethodRefresh", "MethodCreatePermission", "MethodChannelBind", "MethodConnect", "MethodConnectionBind"}

// authedHandlers: method constant -> handler for the six methods that must authenticate.
func (w *World) authedHandlers(c *Ctx, rule string) map[string]*ssa.Function {
	tab := w.dispatchTable()
	reqClass := stunConst(w, "ClassRequest")
	out := map[string]*ssa.Function{}
	for _, m := range authedMethods {
		mv := stunConst(w, m)
		for _, e := range tab {
			if e.class == reqClass && e.method == mv {
				out[m] = e.handler
			}
		}
		if out[m] == nil && c != nil {
			c.Bad(rule, "server.getMessageHandler", "dispatch "+m, "-", "no handler is dispatched for request method "+m)
		}
	}
	return out
}

func runC03(c *Ctx) {
	w := c.W
	// C03.1
	c.Rule("C03.1", "dispatch: getMessageHandler maps (class, method) to a handler under equality tests of both parameters with constants; the six state-changing request methods each have a handler", 6)
	tab := w.dispatchTable()
	for _, e := range tab {
		if e.class < 0 || e.method < 0 {
			c.Bad("C03.1", "server.getMessageHandler", "dispatch "+fname(e.handler), w.pos(e.handler.Pos()), fmt.Sprintf("handler returned without both class and method being compared with constants (class=%d method=%d)", e.class, e.method))
			continue
		}
		c.Anchor("C03.1", fname(e.handler))
		c.OK("C03.1", "server.getMessageHandler", "dispatch "+fname(e.handler), w.pos(e.handler.Pos()), fmt.Sprintf("class=%d method=0x%03x -> %s", e.class, e.method, fname(e.handler)))
	}
	handlers := w.authedHandlers(c, "C03.1")

	ruleAuthGate(c, "C03.2", handlers)
	ruleAuthComposition(c, "C03.3")
	ruleOwnerCheck(c, "C03.4", handlers)
	ruleChallenge(c, "C03.5")
	ruleNonceValidators(c, "C03.6")
	ruleMACCoversTimestamp(c, "C03.6d")
	ruleMACNotAliased(c, "C03.6e")
	ruleNonceVerdictPure(c, "C03.8")
	ruleAuthHandlerIsOperators(c, "C03.9")
	// a request by another user must leave the owner's pending connection untouched
	ruleSingleUseOwner(c, "C03.7")
	ruleSuccessNeedsOwner(c, "C03.10", handlers)
	rulePendingConnOwnerOnly(c, "C03.11")
}

// authFact: the call of authenticateRequest whose #1 result is known true at `at`.
func (w *World) authFact(at ssa.Instruction) *ssa.Call {
	auth := w.Func("server", "", "authenticateRequest")
	return w.guardedBy(at, auth, 1, "true", nil)
}

func ruleAuthGate(c *Ctx, rule string, handlers map[string]*ssa.Function) {
	w := c.W
	c.Rule(rule, "auth gate: in each authenticated handler (and the function literals it creates) every instruction with a state effect is dominated by the hasAuth==true edge of authenticateRequest(req, stunMsg, M), with req and stunMsg the handler's own parameters and M the method the handler is dispatched for", 6)
	for _, m := range authedMethods {
		h := handlers[m]
		if h == nil {
			continue
		}
		c.Anchor(rule, fname(h))
		mv := stunConst(w, m)
		n := 0
		inBody := map[*ssa.Function]bool{}
		for _, f := range w.helpersOf(h) {
			inBody[f] = true
		}
		for _, f := range w.helpersOf(h) {
			w.eachInstr(f, func(in ssa.Instruction) {
				eff := w.effectAt(in)
				if eff == "" {
					return
				}
				// the call of a stage whose body is part of this handler: its effects are
				// judged where they happen
				if cal := staticCallee(in); cal != nil && inBody[cal] {
					return
				}
				n++
				ac := w.authFact(in)
				if ac == nil {
					c.Bad(rule, fname(f), effLabel(in), w.instrPos(in), "state effect ("+eff+") is reachable without the request having been authenticated (no dominating hasAuth==true)", w.factsDesc(in)...)
					return
				}
				if !w.sameKey(ac.Call.Args[0], h.Params[0]) && w.key(ac.Call.Args[0]) != w.key(h.Params[0]) {
					// req is passed by value: the argument is a load of the spilled parameter
					if !strings.HasSuffix(w.key(ac.Call.Args[0]), w.key(h.Params[0])) {
						c.Bad(rule, fname(f), effLabel(in), w.instrPos(in), "authenticated request is "+w.key(ac.Call.Args[0])+", not the handler's req")
						return
					}
				}
				if !w.sameKey(ac.Call.Args[1], h.Params[1]) {
					c.Bad(rule, fname(f), effLabel(in), w.instrPos(in), "authenticated message is "+w.key(ac.Call.Args[1])+", not the handler's stunMsg")
					return
				}
				if k, ok := constInt(ac.Call.Args[2]); !ok || k != mv {
					c.Bad(rule, fname(f), effLabel(in), w.instrPos(in), fmt.Sprintf("authenticateRequest is called with method %s, the handler is dispatched for %s (0x%03x)", w.key(ac.Call.Args[2]), m, mv))
					return
				}
				c.OK(rule, fname(f), effLabel(in), w.instrPos(in), "effect ("+eff+") dominated by authenticateRequest(req, stunMsg, "+m+")#1 == true")
			})
		}
		if n == 0 {
			c.Bad(rule, fname(h), "effects", w.pos(h.Pos()), "handler has no state effect at all: anchor construct gone (effect analysis found nothing to guard)")
		}
	}
}

func effLabel(in ssa.Instruction) string {
	if ci, ok := in.(ssa.CallInstruction); ok {
		if cal := ci.Common().StaticCallee(); cal != nil {
			return "effect " + cal.Name()
		}
		if ci.Common().IsInvoke() {
			return "effect invoke " + ci.Common().Method.Name()
		}
		return "effect dynamic call"
	}
	return fmt.Sprintf("effect %T", in)
}

// ---------------------------------------------------------------------------------

func ruleAuthComposition(c *Ctx, rule string) {
	w := c.W
	c.Rule(rule, "composition of authenticateRequest: exactly one return yields hasAuth=true and it is dominated by all credential checks, each applied to values decoded from the request message; all other returns yield hasAuth=false", 8)
	fn := w.Func("server", "", "authenticateRequest")
	pos := w.pos(fn.Pos())
	msgKey := w.key(fn.Params[1])
	reqKey := w.key(fn.Params[0])
	var trueRets []expRet
	// (results handed back as the fields of a small struct built by the stages are followed
	// to the returns of those stages)
	for _, er := range w.expandStructReturns(fn) {
		ret := er.ret
		if len(er.vals) < 2 {
			continue
		}
		if er.vals[1] == nil {
			continue // the zero value: false
		}
		v := w.resolveLoad(er.vals[1])
		if cst, ok := v.(*ssa.Const); ok && cst.Value != nil {
			if constant.BoolVal(cst.Value) {
				trueRets = append(trueRets, er)
			}
			continue
		}
		// result of the challenge closure: all its returns must be hasAuth=false
		call, idx := callOf(v)
		ok := false
		if call != nil && idx == 1 {
			if mc, isMC := call.Call.Value.(*ssa.MakeClosure); isMC {
				ok = true
				for _, r2 := range returnsOf(mc.Fn.(*ssa.Function)) {
					cv, isC := w.resolveLoad(r2.Results[1]).(*ssa.Const)
					if !isC || cv.Value == nil || constant.BoolVal(cv.Value) {
						ok = false
					}
				}
			}
		}
		if !ok {
			c.Bad(rule, fname(fn), "hasAuth result", w.instrPos(ret), "a return yields a hasAuth value ("+w.desc(v)+") that is not provably false")
		}
	}
	if len(trueRets) != 1 {
		c.Bad(rule, fname(fn), "hasAuth=true return", pos, fmt.Sprintf("%d returns with hasAuth=true, expected exactly 1", len(trueRets)))
		return
	}
	ret := trueRets[0].ret
	resVals := trueRets[0].vals
	facts := w.factsAt(ret)
	if os.Getenv("TURNCHECK_C03DEBUG") != "" {
		for _, f := range facts {
			fmt.Fprintf(os.Stderr, "C03.3 fact: %s   [X=%T]\n", w.factStr(f), f.X)
		}
	}
	find := func(pred func(f Fact) bool) bool {
		for _, f := range facts {
			if pred(f) {
				return true
			}
		}
		return false
	}
	step := func(name string, ok bool, miss string) {
		c.Anchor(rule, name)
		if ok {
			c.OK(rule, fname(fn), name, w.instrPos(ret), "holds on every path to the hasAuth=true return")
		} else {
			c.Bad(rule, fname(fn), name, w.instrPos(ret), "the hasAuth=true return is reachable without: "+miss, w.factsDesc(ret)...)
		}
	}
	miConst := stunConst(w, "AttrMessageIntegrity")
	step("integrity present", find(func(f Fact) bool {
		if f.Op != "true" || !f.Truth {
			return false
		}
		call, _ := callOf(f.X)
		if call == nil || call.Call.StaticCallee() == nil || call.Call.StaticCallee().Name() != "Contains" {
			return false
		}
		k, ok := constInt(call.Call.Args[1])
		return ok && k == miConst && w.key(call.Call.Args[0]) == msgKey
	}), "stunMsg.Contains(MESSAGE-INTEGRITY)")
	step("auth handler set", find(func(f Fact) bool {
		v, isNil, ok := nilFact(f)
		return ok && !isNil && w.key(v) == reqKey+".AuthHandler"
	}), "req.AuthHandler != nil")
	// getters: X.GetFrom(stunMsg) == nil ; remember the receiver storage of each
	getter := map[string]string{} // type name -> receiver location key
	for _, f := range facts {
		v, isNil, ok := nilFact(f)
		if !ok || !isNil {
			continue
		}
		call, _ := callOf(v)
		if call == nil || call.Call.StaticCallee() == nil || call.Call.StaticCallee().Name() != "GetFrom" || len(call.Call.Args) != 2 {
			continue
		}
		if w.key(call.Call.Args[1]) != msgKey {
			continue
		}
		if n := namedOf(call.Call.Args[0].Type()); n != nil {
			getter[n.Obj().Name()] = w.key(call.Call.Args[0])
		}
	}
	step("nonce decoded", getter["Nonce"] != "", "Nonce.GetFrom(stunMsg) == nil")
	step("realm decoded", getter["Realm"] != "", "Realm.GetFrom(stunMsg) == nil")
	step("username decoded", getter["Username"] != "", "Username.GetFrom(stunMsg) == nil")
	// string of a decoded attribute: call String(*recv)
	var strOf func(v ssa.Value, typ string) bool
	strOf = func(v ssa.Value, typ string) bool {
		if v == nil {
			return false
		}
		// a field of a small value struct the decoding stage hands back (creds.username)
		if fx, isF := under(v).(*ssa.Field); isF {
			if st, _ := fx.X.Type().Underlying().(*types.Struct); st != nil {
				vals, ok := w.flow().structValueField(fx.X, []string{st.Field(fx.Field).Name()}, 0)
				if !ok || len(vals) == 0 {
					return false
				}
				for _, sv := range vals {
					if !strOf(w.resolveLoad(sv), typ) {
						return false
					}
				}
				return true
			}
		}
		if u, isU := under(v).(*ssa.UnOp); isU && u.Op == token.MUL {
			if _, isFA := u.X.(*ssa.FieldAddr); isFA {
				if al, path := allocBase(u.X); al != nil && len(path) > 0 {
					vals, ok := w.flow().localFieldStoresP(al, path)
					if os.Getenv("TURNCHECK_C03DEBUG") != "" {
						fmt.Fprintf(os.Stderr, "   strOf local field %s %v: ok=%v n=%d\n", w.key(al), path, ok, len(vals))
						for _, sv := range vals {
							fmt.Fprintf(os.Stderr, "      val %T %s\n", sv, w.key(sv))
						}
					}
					if !ok || len(vals) == 0 {
						return false
					}
					for _, sv := range vals {
						if !strOf(w.resolveLoad(sv), typ) {
							return false
						}
					}
					return true
				}
			}
		}
		call, _ := callOf(v)
		if call == nil {
			call, _ = callOf(under(v))
		}
		if call == nil || call.Call.StaticCallee() == nil || call.Call.StaticCallee().Name() != "String" || len(call.Call.Args) != 1 {
			return false
		}
		u, ok := under(call.Call.Args[0]).(*ssa.UnOp)
		return ok && u.Op == token.MUL && getter[typ] != "" && (w.key(u.X) == getter[typ] || "&"+strings.TrimPrefix(w.key(call.Call.Args[0]), "*") == getter[typ])
	}
	step("nonce validated", find(func(f Fact) bool {
		v, isNil, ok := nilFact(f)
		if !ok || !isNil {
			return false
		}
		call, _ := callOf(v)
		return call != nil && call.Call.IsInvoke() && call.Call.Method.Name() == "Validate" &&
			w.key(call.Call.Value) == reqKey+".NonceHash" && strOf(call.Call.Args[0], "Nonce")
	}), "req.NonceHash.Validate(nonce of the message) == nil")
	var hcall *ssa.Call
	step("user known", find(func(f Fact) bool {
		if f.Op != "true" || !f.Truth {
			return false
		}
		call, idx := callOf(f.X)
		if call == nil {
			// the handler called inside a verification stage: the stage's own call
			call, idx = callOf(under(f.X))
		}
		if call == nil || idx != 2 || call.Call.StaticCallee() != nil || call.Call.IsInvoke() || w.key(call.Call.Value) != reqKey+".AuthHandler" {
			return false
		}
		lit := w.literalOf(call.Call.Args[0])
		if os.Getenv("TURNCHECK_C03DEBUG") != "" {
			fmt.Fprintf(os.Stderr, "C03.3 handler call %s value=%s lit=%v\n", w.instrPos(call), w.key(call.Call.Value), lit != nil)
			if lit != nil {
				fmt.Fprintf(os.Stderr, "   Username=%T %s ok=%v; Realm ok=%v\n", lit.fields["Username"], w.key(lit.fields["Username"]), strOf(lit.fields["Username"], "Username"), strOf(lit.fields["Realm"], "Realm"))
			}
		}
		if lit == nil || !strOf(lit.fields["Username"], "Username") || !strOf(lit.fields["Realm"], "Realm") {
			return false
		}
		hcall = call
		return true
	}), "req.AuthHandler({Username, Realm of the message}) ok == true")
	step("integrity verified", hcall != nil && find(func(f Fact) bool {
		v, isNil, ok := nilFact(f)
		if !ok || !isNil {
			return false
		}
		call, _ := callOf(v)
		if call == nil || call.Call.StaticCallee() == nil || call.Call.StaticCallee().Name() != "Check" || len(call.Call.Args) != 2 {
			return false
		}
		kc, ki := callOf(stripConv(call.Call.Args[0]))
		if kc == nil {
			kc, ki = callOf(stripConv(under(stripConv(call.Call.Args[0]))))
		}
		return kc == hcall && ki == 1 && w.key(call.Call.Args[1]) == msgKey
	}), "stun.MessageIntegrity(key returned by that AuthHandler call).Check(stunMsg) == nil")
	if hcall != nil {
		var r0, r2 ssa.Value
		if len(resVals) > 2 {
			r0, r2 = resVals[0], resVals[2]
		}
		if r0 == nil || r2 == nil {
			r0, r2 = ret.Results[0], ret.Results[len(ret.Results)-1]
		}
		kc, ki := callOf(stripConv(w.resolveLoad(r0)))
		uc, ui := callOf(w.resolveLoad(r2))
		if kc != hcall || uc != hcall {
			// handed back by the verification stage: what its successful returns yield
			kv, _, _ := w.originAt(r0, ret)
			uv, _, _ := w.originAt(r2, ret)
			if k2, i2 := callOf(stripConv(under(stripConv(kv)))); k2 == hcall {
				kc, ki = k2, i2
			}
			if u2, i2 := callOf(under(uv)); u2 == hcall {
				uc, ui = u2, i2
			}
		}
		step("results", kc == hcall && ki == 1 && uc == hcall && ui == 0, "returned key/user being results #1/#0 of the AuthHandler call")
	}
}

func stripConv(v ssa.Value) ssa.Value {
	for {
		switch x := v.(type) {
		case *ssa.ChangeType:
			v = x.X
		case *ssa.Convert:
			v = x.X
		case *ssa.MakeInterface:
			v = x.X
		default:
			return v
		}
	}
}

// ---------------------------------------------------------------------------------

func ruleOwnerCheck(c *Ctx, rule string, handlers map[string]*ssa.Function) {
	w := c.W
	c.Rule(rule, "owner check: in Refresh, CreatePermission, ChannelBind, Connect every state effect is dominated by GetAllocationForUserID(mgr, request tuple, user)!=nil, in ConnectionBind by GetTCPConnection(mgr, user, id)!=nil, user being result #2 of the dominating authenticateRequest; both lookups return non-nil only on the userID equality edge", 7)
	byUser := w.Func("allocation", "Manager", "GetAllocationForUserID")
	tcpGet := w.Func("allocation", "Manager", "GetTCPConnection")
	for _, m := range authedMethods[1:] {
		h := handlers[m]
		if h == nil {
			continue
		}
		c.Anchor(rule, fname(h))
		inBody := map[*ssa.Function]bool{}
		for _, f := range w.helpersOf(h) {
			inBody[f] = true
		}
		for _, f := range w.helpersOf(h) {
			w.eachInstr(f, func(in ssa.Instruction) {
				eff := w.effectAt(in)
				if eff == "" {
					return
				}
				if cal := staticCallee(in); cal != nil && inBody[cal] {
					return // a stage of this handler: judged inside
				}
				ac := w.authFact(in)
				if ac == nil {
					return // reported by the auth gate rule
				}
				userOK := func(v ssa.Value) bool {
					uc, ui := callOf(v)
					if uc == ac && ui == 2 {
						return true
					}
					// handed through a thin wrapper (r.authenticate() returning the results of
					// authenticateRequest unchanged): what the wrapper's result stands for
					if o, _, _ := w.originAt(v, in); o != nil && o != v {
						if oc, oi := callOf(o); oc != nil && oi == 2 && (oc == ac || w.key(oc) == w.key(ac)) {
							return true
						}
					}
					return false
				}
				if cal := staticCallee(in); cal == tcpGet || cal == byUser {
					args := in.(ssa.CallInstruction).Common().Args
					ui := 1
					if cal == byUser {
						ui = 2
					}
					if userOK(args[ui]) {
						c.OK(rule, fname(f), effLabel(in), w.instrPos(in), "the owner lookup itself, keyed by the authenticated user (its own definition is checked below)")
					} else {
						c.Bad(rule, fname(f), effLabel(in), w.instrPos(in), "owner lookup is keyed by "+w.key(args[ui])+", not by the user authenticateRequest returned")
					}
					return
				}
				var g *ssa.Call
				if m == "MethodConnectionBind" {
					g = w.guardedBy(in, tcpGet, -1, "nonnil", func(g *ssa.Call) bool {
						return w.key(g.Call.Args[0]) == w.key(h.Params[0])+".AllocationManager" && userOK(g.Call.Args[1])
					})
				} else {
					g = w.guardedBy(in, byUser, -1, "nonnil", func(g *ssa.Call) bool {
						if os.Getenv("TURNCHECK_C03DEBUG") != "" {
							ok2, why := w.requestTuple(g.Call.Args[1], f)
							fmt.Fprintf(os.Stderr, "C03.4 owner guard at %s: mgr=%s want=%s user=%v tuple=%v %s\n", w.instrPos(in), w.key(g.Call.Args[0]), w.key(h.Params[0])+".AllocationManager", userOK(g.Call.Args[2]), ok2, why)
						}
						if w.key(g.Call.Args[0]) != w.key(h.Params[0])+".AllocationManager" || !userOK(g.Call.Args[2]) {
							return false
						}
						ok, _ := w.requestTuple(g.Call.Args[1], f)
						return ok
					})
				}
				if g == nil {
					c.Bad(rule, fname(f), effLabel(in), w.instrPos(in), "state effect ("+eff+") without a dominating owner lookup (GetAllocationForUserID / GetTCPConnection != nil for the authenticated user on the request's own 5-tuple): another user's credentials could act on this allocation", w.factsDesc(in)...)
					return
				}
				c.OK(rule, fname(f), effLabel(in), w.instrPos(in), "dominated by "+g.Call.StaticCallee().Name()+"(…, authenticated user) != nil")
			})
		}
	}
	// definitions
	{
		c.Anchor(rule, "GetAllocationForUserID def")
		uid := w.Field("allocation", "Allocation", "userID")
		bad := ""
		n := 0
		get := w.Func("allocation", "Manager", "GetAllocation")
		for _, ret := range returnsOf(byUser) {
			v := w.resolveLoad(ret.Results[0])
			if isNilConst(v) {
				continue
			}
			n++
			gc, _ := callOf(v)
			if gc == nil || gc.Call.StaticCallee() != get || !w.sameKey(gc.Call.Args[0], byUser.Params[0]) || !w.sameKey(gc.Call.Args[1], byUser.Params[1]) {
				bad = "returns " + w.desc(v) + ", not GetAllocation(m, fiveTuple)"
				continue
			}
			found := false
			for _, f := range w.factsAt(ret) {
				if f.Op == "==" && f.Truth {
					for _, pair := range [][2]ssa.Value{{f.X, f.Y}, {f.Y, f.X}} {
						b, fl, isL := fieldLoad(pair[0])
						if isL && fl == uid && b == v && w.sameKey(pair[1], byUser.Params[2]) {
							found = true
						}
					}
				}
			}
			if !found {
				bad = "returns the allocation at " + w.instrPos(ret) + " without the test allocation.userID == userID"
			}
		}
		if bad == "" && n > 0 {
			c.OK(rule, fname(byUser), "GetAllocationForUserID def", w.pos(byUser.Pos()), "non-nil only for GetAllocation(m, fiveTuple) on the allocation.userID == userID edge")
		} else {
			if bad == "" {
				bad = "never returns an allocation"
			}
			c.Bad(rule, fname(byUser), "GetAllocationForUserID def", w.pos(byUser.Pos()), bad)
		}
	}
	{
		c.Anchor(rule, "GetTCPConnection def")
		uid := w.Field("allocation", "Allocation", "userID")
		bad := ""
		n := 0
		for _, ret := range returnsOf(tcpGet) {
			// (a result variable filled on one branch is judged where it is filled)
			for _, lf := range w.guardedLeaves(ret.Results[0], ret) {
				v := w.resolveLoad(lf.val)
				if isNilConst(stripIface(v)) {
					continue
				}
				n++
				found := false
				for _, f := range lf.facts {
					if f.Op == "==" && f.Truth {
						for _, pair := range [][2]ssa.Value{{f.X, f.Y}, {f.Y, f.X}} {
							_, fl, isL := fieldLoad(pair[0])
							if isL && fl == uid && w.sameKey(pair[1], tcpGet.Params[1]) {
								found = true
							}
						}
					}
				}
				if !found {
					bad = "returns a connection at " + w.instrPos(ret) + " without the test a.userID == userID"
				}
			}
		}
		if bad == "" && n > 0 {
			c.OK(rule, fname(tcpGet), "GetTCPConnection def", w.pos(tcpGet.Pos()), "non-nil only on the a.userID == userID edge")
		} else {
			if bad == "" {
				bad = "never returns a connection"
			}
			c.Bad(rule, fname(tcpGet), "GetTCPConnection def", w.pos(tcpGet.Pos()), bad)
		}
	}
}

// ---------------------------------------------------------------------------------

func ruleChallenge(c *Ctx, rule string) {
	w := c.W
	c.Rule(rule, "challenge: the nonce in a 401/438 challenge is minted by req.NonceHash.Generate() on the same req whose NonceHash validates; Request.NonceHash is assigned only from Server.nonceHash, which is assigned once (in NewServer); the realm of the challenge is req.Realm", 3)
	fn := w.Func("server", "", "authenticateRequest")
	reqKey := w.key(fn.Params[0])
	// the calls of authenticateRequest, of its function literals and of the unexported helpers
	// they use (depth ≤ 2), with values expressed in authenticateRequest's own terms
	type rcall struct {
		call *ssa.Call
		rs   func(ssa.Value) ssa.Value
	}
	var calls []rcall
	for _, f := range w.helpersOf(fn) {
		w.eachCallThrough(f, 2, func(call *ssa.Call, rs func(ssa.Value) ssa.Value) {
			calls = append(calls, rcall{call, rs})
		})
	}
	var gens []rcall
	for _, rc := range calls {
		if rc.call.Call.IsInvoke() && rc.call.Call.Method.Name() == "Generate" {
			gens = append(gens, rc)
		}
	}
	c.Anchor(rule, "Generate")
	if len(gens) == 0 {
		c.Bad(rule, fname(fn), "Generate", w.pos(fn.Pos()), "no nonce is generated in authenticateRequest")
	}
	seenGen := map[*ssa.Call]bool{}
	for _, g := range gens {
		gen := g.call
		if k := w.key(g.rs(gen.Call.Value)); k != reqKey+".NonceHash" {
			c.Bad(rule, fname(gen.Parent()), "Generate", w.instrPos(gen), "challenge nonce minted by "+k+", validation uses req.NonceHash")
			continue
		}
		// the generated nonce and req.Realm go into the challenge
		nn := w.Func("stun", "", "NewNonce")
		nr := w.Func("stun", "", "NewRealm")
		okN, okR := false, false
		for _, rc := range calls {
			if rc.call.Parent() != gen.Parent() {
				continue
			}
			if rc.call.Call.StaticCallee() == nn {
				gc, gi := callOf(rc.call.Call.Args[0])
				if gc == gen && gi == 0 {
					okN = true
				}
			}
			if rc.call.Call.StaticCallee() == nr {
				if w.key(rc.rs(rc.call.Call.Args[0])) == reqKey+".Realm" {
					okR = true
				}
			}
		}
		if okN && okR {
			if seenGen[gen] {
				continue // the same helper reached from another call site: already reported
			}
			seenGen[gen] = true
			c.OK(rule, fname(gen.Parent()), "Generate", w.instrPos(gen), "challenge carries NewNonce(req.NonceHash.Generate()) and NewRealm(req.Realm)")
		} else {
			c.Bad(rule, fname(gen.Parent()), "Generate", w.instrPos(gen), fmt.Sprintf("challenge does not carry the generated nonce (%v) / req.Realm (%v)", okN, okR))
		}
	}
	// writers of Request.NonceHash and Server.nonceHash
	rq := w.Field("server", "Request", "NonceHash")
	sv := w.Field("turn", "Server", "nonceHash")
	c.Anchor(rule, "Request.NonceHash writers")
	for _, f := range w.ModFns {
		w.eachInstr(f, func(in ssa.Instruction) {
			st, ok := in.(*ssa.Store)
			if !ok {
				return
			}
			fa, ok := st.Addr.(*ssa.FieldAddr)
			if !ok {
				return
			}
			switch fieldOf(fa) {
			case rq:
				_, fl, isL := fieldLoad(st.Val)
				if isL && fl == sv {
					c.OK(rule, fname(f), "Request.NonceHash=", w.instrPos(st), "assigned from Server.nonceHash")
				} else {
					c.Bad(rule, fname(f), "Request.NonceHash=", w.instrPos(st), "Request.NonceHash assigned from "+w.key(st.Val)+", not the server's single nonce manager")
				}
			case sv:
				c.Anchor(rule, "Server.nonceHash writers")
				if f.Name() == "NewServer" {
					c.OK(rule, fname(f), "Server.nonceHash=", w.instrPos(st), "assigned in the constructor")
				} else {
					c.Bad(rule, fname(f), "Server.nonceHash=", w.instrPos(st), "the server's nonce manager is replaced after construction: challenges minted before are no longer accepted")
				}
			}
		})
	}
}

// ---------------------------------------------------------------------------------

func ruleNonceValidators(c *Ctx, rule string) {
	w := c.W
	c.Rule(rule, "every implementation of NonceManager: Validate returns nil only (a) on the true edge of hmac.Equal(x, y) where one operand derives from the presented nonce and the other from an HMAC whose key is recv.key and whose input derives from the presented nonce; (b) under a comparison of a constant with a value that depends both on time.Now and on the presented nonce (the age of the nonce is bounded by a constant lifetime)", 2)
	const ruleLen = "C03.12"
	c.Rule(ruleLen, "every implementation of NonceManager: on the accepting path of Validate the number of MAC bytes compared is fixed by the validator (a constant, a field of the receiver, or the whole Sum), never by the presented nonce — no bound of a slice expression the expected MAC passes through on its way to hmac.Equal depends on the nonce argument (hmac.Equal over a prefix whose length the sender chooses makes the MAC guessable: two bytes are 65536 tries)", 2)
	iface := w.Named("server", "NonceManager")
	it := iface.Underlying().(*types.Interface)
	scope := w.tpkg("server").Scope()
	var impls []*types.Named
	for _, name := range scope.Names() {
		tn, ok := scope.Lookup(name).(*types.TypeName)
		if !ok {
			continue
		}
		n, ok := tn.Type().(*types.Named)
		if !ok || types.IsInterface(n) {
			continue
		}
		if types.Implements(types.NewPointer(n), it) || types.Implements(n, it) {
			impls = append(impls, n)
		}
	}
	hmacEqual := w.extFunc("crypto/hmac", "Equal")
	hmacNew := w.extFunc("crypto/hmac", "New")
	timeNow := w.extFunc("time", "Now")
	for _, impl := range impls {
		fn := w.Func("server", impl.Obj().Name(), "Validate")
		c.Anchor(rule, impl.Obj().Name())
		c.Anchor(ruleLen, impl.Obj().Name()) // decided where C03.6 finds the MAC comparison; where it does not, C03.6 reports
		param := fn.Params[1]
		dep := func(v ssa.Value, on func(ssa.Value) bool) bool { return w.dependsOn(v, on, fn) }
		onParam := func(v ssa.Value) bool { return v == ssa.Value(param) }
		onNow := func(v ssa.Value) bool {
			call, ok := v.(*ssa.Call)
			if ok && call.Call.StaticCallee() == timeNow {
				return true
			}
			// time.Since(x) calls Now internally
			return ok && call.Call.StaticCallee() != nil && call.Call.StaticCallee().String() == "time.Since"
		}
		isKeyedMACIn := func(v ssa.Value, stack []*ssa.Call) bool {
			call, ok := v.(*ssa.Call)
			if !ok || call.Call.StaticCallee() != hmacNew {
				return false
			}
			_, fl, isL := fieldLoad(w.resolveInStack(call.Call.Args[1], stack))
			return isL && nm(fl) == "key"
		}
		isKeyedMAC := func(v ssa.Value) bool { return isKeyedMACIn(v, nil) }
		_ = isKeyedMAC
		// the value derives from an HMAC keyed by recv.key whose written input derives from
		// the presented nonce (followed through helper functions)
		keyedMACOverNonce := func(v ssa.Value) bool {
			return w.depWalk(v, nil, func(x ssa.Value, stack []*ssa.Call) bool {
				if !isKeyedMACIn(x, stack) {
					return false
				}
				for _, wr := range w.invokeWrites(x, nil) {
					if w.depWalk(wr, stack, func(y ssa.Value, _ []*ssa.Call) bool { return onParam(y) }) {
						return true
					}
				}
				return false
			})
		}
		for _, ret := range returnsOf(fn) {
			if !isNilConst(w.resolveLoad(ret.Results[0])) {
				continue
			}
			facts := w.factsAt(ret)
			okMAC, okExp := false, false
			var expdV ssa.Value
			lifetimeSec := float64(-1)
			macWhy := "no hmac.Equal on the path"
			for _, f := range facts {
				if f.Op == "true" && f.Truth {
					if call, _ := callOf(f.X); call != nil && call.Call.StaticCallee() == hmacEqual {
						a, b := call.Call.Args[0], call.Call.Args[1]
						for _, pair := range [][2]ssa.Value{{a, b}, {b, a}} {
							recvd, expd := pair[0], pair[1]
							if dep(recvd, onParam) && !w.depWalk(recvd, nil, isKeyedMACIn) && keyedMACOverNonce(expd) {
								okMAC = true
								expdV = expd
							}
						}
						if !okMAC {
							macWhy = "hmac.Equal operands are not (bytes of the presented nonce) vs (HMAC keyed by recv.key over bytes of the presented nonce): " + w.key(a) + " / " + w.key(b)
						}
					}
				}
				// expiry: the nonce's age is bounded by a constant: one side of the comparison is a
				// constant (the lifetime), the other depends both on time.Now and on the presented
				// nonce (now − stamp, time.Since(stamp), …). A mere ordering test between now and
				// the stamp (rejecting future stamps) does not bound the age.
				if f.Op == "<" {
					for _, pair := range [][2]ssa.Value{{f.X, f.Y}, {f.Y, f.X}} {
						if _, isK := pair[0].(*ssa.Const); isK && dep(pair[1], onNow) && dep(pair[1], onParam) {
							okExp = true
						}
					}
					// the same bound in any algebraic arrangement (now > stamp + K, now - stamp > K,
					// Since(stamp) > K, ...): the difference of the two sides is a linear form with
					// a non-zero constant, a clock-dependent atom and a nonce-dependent atom of
					// opposite signs (or one atom depending on both)
					ai := w.absint()
					d := ai.linOf(termOf(f.Y), 4).addScaled(ai.linOf(termOf(f.X), 4), -1)
					if d.ok && d.c != 0 {
						var cNow, cNonce int64
						var nowV ssa.Value
						both := false
						for k, cf := range d.coef {
							at := d.atoms[k]
							if at.Len {
								continue
							}
							dn, dp := dep(at.V, onNow), dep(at.V, onParam)
							switch {
							case dn && dp:
								both, cNow, nowV = true, cf, at.V
							case dn:
								cNow, nowV = cf, at.V
							case dp:
								cNonce = cf
							}
						}
						if both || (cNow != 0 && cNonce != 0 && (cNow > 0) != (cNonce > 0)) {
							okExp = true
							if cNow != 0 && nowV != nil {
								k := d.c
								if k < 0 {
									k = -k
								}
								cn := cNow
								if cn < 0 {
									cn = -cn
								}
								if sp := secondsPerUnit(w, nowV, 0); sp > 0 {
									lifetimeSec = float64(k) / float64(cn) * sp
								}
							}
						}
					}
				}
			}
			if okMAC {
				c.OK(rule, fname(fn), "MAC check", w.instrPos(ret), "nil is returned only on the true edge of hmac.Equal(bytes of the nonce, HMAC(recv.key, bytes of the nonce))")
			} else {
				c.Bad(rule, fname(fn), "MAC check", w.instrPos(ret), "Validate can accept a nonce without an authentic MAC: "+macWhy, w.factsDesc(ret)...)
			}
			if okMAC && expdV != nil {
				// C03.12: the length of the compared MAC is not chosen by the sender
				bad := ""
				v := w.resolveLoad(expdV)
				for d := 0; d < 6 && bad == ""; d++ {
					sl, isSl := v.(*ssa.Slice)
					if !isSl {
						break
					}
					for _, b := range []ssa.Value{sl.Low, sl.High, sl.Max} {
						if b != nil && dep(b, onParam) {
							bad = fmt.Sprintf("the expected MAC is cut at %s (%s), which depends on the presented nonce", w.key(b), w.instrPos(sl))
						}
					}
					v = w.resolveLoad(sl.X)
				}
				if bad == "" {
					c.OK(ruleLen, fname(fn), "MAC length", w.instrPos(ret), "no slice bound of the expected MAC depends on the presented nonce")
				} else {
					c.Bad(ruleLen, fname(fn), "MAC length", w.instrPos(ret), "the sender chooses how many MAC bytes are compared: "+bad+"; a nonce carrying the timestamp and a guessed short MAC prefix is accepted although this server never minted it")
				}
			}
			if okExp && lifetimeSec >= 0 {
				// C03.6e: the bound, converted to seconds through the units of the clock term
				// (Unix() seconds, /60 minutes, UnixMilli, Duration nanoseconds), is one hour
				if lifetimeSec > 3599 && lifetimeSec < 3661 {
					c.OK(rule, fname(fn), "lifetime", w.instrPos(ret), fmt.Sprintf("the age bound is %.0f s in the units of the comparison", lifetimeSec))
				} else {
					c.Bad(rule, fname(fn), "lifetime", w.instrPos(ret), fmt.Sprintf("the expiry comparison bounds the nonce's age to %.3g s, not to one hour: the two sides are in different units (e.g. a count of minutes compared with a time.Duration) or the constant is wrong", lifetimeSec))
				}
			}
			if okExp {
				c.OK(rule, fname(fn), "expiry check", w.instrPos(ret), "nil is returned only under a comparison depending on time.Now and on the nonce's timestamp")
			} else {
				c.Bad(rule, fname(fn), "expiry check", w.instrPos(ret), "Validate can accept a nonce of any age: no comparison depending on both time.Now and the presented nonce dominates the accepting return", w.factsDesc(ret)...)
			}
		}
	}
}

func (w *World) extFunc(pkg, name string) *ssa.Function {
	p := w.AllPkgs[pkg]
	if p == nil {
		failf("anchor unresolved: package %s", pkg)
	}
	obj, _ := p.Types.Scope().Lookup(name).(*types.Func)
	if obj == nil {
		failf("anchor unresolved: %s.%s", pkg, name)
	}
	return w.Prog.FuncValue(obj)
}

// resolveInStack: a parameter of the function entered by the innermost call of an inlining
// stack is the argument passed there (repeatedly).
func (w *World) resolveInStack(v ssa.Value, stack []*ssa.Call) ssa.Value {
	for len(stack) > 0 {
		v = w.resolveLoad(v)
		p, ok := stripIface(v).(*ssa.Parameter)
		if !ok {
			return v
		}
		top := stack[len(stack)-1]
		if top.Call.StaticCallee() != p.Parent() {
			return v
		}
		i := paramIndex(p)
		if i < 0 || i >= len(top.Call.Args) {
			return v
		}
		v = top.Call.Args[i]
		stack = stack[:len(stack)-1]
	}
	return w.resolveLoad(v)
}

// dependsOn: backward data dependence of v reaches a value satisfying pred. Followed:
// operands; loads (to the stores into the same local storage); the contents of slices/arrays
// (stores through IndexAddr, copy, binary.PutUintN into a derived slice); the state of an
// interface value such as hash.Hash (arguments of Write calls on it); calls of module
// functions (into the callee's returned values, with parameters mapped back to the actual
// arguments, depth <= 4).
func (w *World) dependsOn(v ssa.Value, pred func(ssa.Value) bool, _ *ssa.Function) bool {
	return w.depWalk(v, nil, func(x ssa.Value, _ []*ssa.Call) bool { return pred(x) })
}

// depWalk is dependsOn with an explicit inlining stack; pred sees the stack so that it can
// start nested walks (depWalk) in the same calling context.
func (w *World) depWalk(v ssa.Value, stack0 []*ssa.Call, pred func(ssa.Value, []*ssa.Call) bool) bool {
	seen := map[ssa.Value]bool{}
	// the function the question is asked in: its own parameters are the inputs, not to be
	// traced back to callers
	var rootFn *ssa.Function
	switch x := v.(type) {
	case *ssa.Parameter:
		rootFn = x.Parent()
	case ssa.Instruction:
		rootFn = x.Parent()
	}
	if len(stack0) > 0 {
		rootFn = stack0[0].Parent()
	}
	var walk func(v ssa.Value, stack []*ssa.Call) bool
	// structField: walk what field `path` of the struct VALUE sv depends on, keeping the calling
	// context: a helper's struct result is entered with the call pushed, a by-value parameter is
	// replaced by the argument of the frame it belongs to. handled=false when the shape is not
	// understood (the caller then falls back to the operands).
	var structField func(sv ssa.Value, path []string, stack []*ssa.Call, d int) (handled, hit bool)
	var structFieldOfLocal func(al *ssa.Alloc, path []string, stack []*ssa.Call, d int) (handled, hit bool)
	structFieldOfLocal = func(al *ssa.Alloc, path []string, stack []*ssa.Call, d int) (bool, bool) {
		if d > 6 || w.escapes(al) && false {
			return false, false
		}
		found := false
		var visit func(v ssa.Value, p []string) (bool, bool)
		visit = func(v ssa.Value, p []string) (bool, bool) {
			for _, r := range *v.Referrers() {
				switch y := r.(type) {
				case *ssa.FieldAddr:
					name := derefStruct(y.X.Type()).Field(y.Field).Name()
					if ok, hit := visit(y, append(append([]string{}, p...), name)); !ok || hit {
						return ok, hit
					}
				case *ssa.Store:
					if y.Addr != v {
						continue
					}
					switch {
					case samePath(p, path):
						found = true
						if walk(w.resolveLoad(y.Val), stack) {
							return true, true
						}
					case isPrefix(p, path):
						found = true
						ok, hit := structField(y.Val, path[len(p):], stack, d+1)
						if !ok {
							return false, false
						}
						if hit {
							return true, true
						}
					}
				}
			}
			return true, false
		}
		ok, hit := visit(al, nil)
		if !ok {
			return false, false
		}
		_ = found
		return true, hit
	}
	structField = func(sv ssa.Value, path []string, stack []*ssa.Call, d int) (bool, bool) {
		if d > 6 || len(path) == 0 {
			return false, false
		}
		switch y := sv.(type) {
		case *ssa.Const:
			return y.Value == nil, false
		case *ssa.UnOp:
			if y.Op == token.MUL {
				if al, ok := y.X.(*ssa.Alloc); ok {
					return structFieldOfLocal(al, path, stack, d+1)
				}
			}
			return false, false
		case *ssa.Phi:
			for _, e := range y.Edges {
				ok, hit := structField(e, path, stack, d+1)
				if !ok || hit {
					return ok, hit
				}
			}
			return true, false
		case *ssa.Parameter:
			idx := paramIndex(y)
			for i := len(stack) - 1; i >= 0; i-- {
				if stack[i].Call.StaticCallee() == y.Parent() {
					if idx >= 0 && idx < len(stack[i].Call.Args) {
						return structField(stack[i].Call.Args[idx], path, stack[:i], d+1)
					}
					return false, false
				}
			}
			if y.Parent() == rootFn {
				return true, walk(y, stack) // an input of the function the question is asked in
			}
			n := 0
			if node := w.CG.Nodes[y.Parent()]; node != nil {
				for _, e := range node.In {
					if e.Site == nil || e.Site.Common().IsInvoke() || !w.IsMod[e.Caller.Func] {
						continue
					}
					if args := e.Site.Common().Args; idx >= 0 && idx < len(args) {
						n++
						ok, hit := structField(args[idx], path, nil, d+1)
						if !ok || hit {
							return ok, hit
						}
					}
				}
			}
			return n > 0, false
		case *ssa.Call, *ssa.Extract:
			call, idx := callOf(sv)
			if call == nil || call.Call.IsInvoke() {
				return false, false
			}
			h := call.Call.StaticCallee()
			if h == nil || !w.IsMod[h] || len(h.Blocks) == 0 || len(stack) >= 4 {
				return false, false
			}
			if idx < 0 {
				idx = 0
			}
			ns := append(append([]*ssa.Call{}, stack...), call)
			rets := returnsOf(h)
			for _, r := range rets {
				if idx >= len(r.Results) {
					return false, false
				}
				ok, hit := structField(r.Results[idx], path, ns, d+1)
				if !ok {
					return false, false
				}
				if hit {
					return true, true
				}
				if len(rets) > 1 {
					for f := range w.facts(h).in[r.Block()] {
						if (f.X != nil && walk(f.X, ns)) || (f.Y != nil && walk(f.Y, ns)) {
							return true, true
						}
					}
				}
			}
			return true, false
		}
		return false, false
	}
	walk = func(v ssa.Value, stack []*ssa.Call) bool {
		if v == nil || seen[v] {
			return false
		}
		seen[v] = true
		if os.Getenv("TURNCHECK_DEPDEBUG") != "" {
			fmt.Fprintf(os.Stderr, "DEP %d %T %s\n", len(stack), v, w.key(v))
		}
		if pred(v, stack) {
			return true
		}
		var fn *ssa.Function
		if in, ok := v.(ssa.Instruction); ok {
			fn = in.Parent()
		}
		// the pointee of a pointer handed to library calls is whatever those calls were given
		_, isPtr := v.Type().Underlying().(*types.Pointer)
		_, isIface := v.Type().Underlying().(*types.Interface)
		if (isPtr || isIface) && fn != nil && v.Referrers() != nil {
			if _, isAlloc := v.(*ssa.Alloc); !isAlloc {
				// (an interface value — a hash.Hash handed to io.WriteString — likewise, also
				// through its conversions to other interfaces)
				var handed func(x ssa.Value, d int) bool
				handed = func(x ssa.Value, d int) bool {
					if x.Referrers() == nil || d > 2 {
						return false
					}
					for _, r := range *x.Referrers() {
						switch c2 := r.(type) {
						case *ssa.Call:
							if cal := c2.Call.StaticCallee(); cal != nil && !w.IsMod[cal] {
								for _, b := range c2.Call.Args {
									if b != x && walk(b, stack) {
										return true
									}
								}
							}
						case *ssa.ChangeInterface:
							if isIface && handed(c2, d+1) {
								return true
							}
						}
					}
					return false
				}
				if handed(v, 0) {
					return true
				}
			}
		}
		switch x := v.(type) {
		case *ssa.Parameter:
			// map back to the actual argument of the innermost inlined call of this function
			for i := len(stack) - 1; i >= 0; i-- {
				if stack[i].Call.StaticCallee() == x.Parent() {
					idx := paramIndex(x)
					if idx >= 0 && idx < len(stack[i].Call.Args) {
						return walk(stack[i].Call.Args[idx], stack[:i])
					}
				}
			}
			// no inlined frame: the argument at any module call site
			if pfn := x.Parent(); pfn != nil && w.IsMod[pfn] && pfn != rootFn {
				if node := w.CG.Nodes[pfn]; node != nil {
					idx := paramIndex(x)
					for _, e := range node.In {
						if e.Site == nil || e.Site.Common().IsInvoke() || !w.IsMod[e.Caller.Func] {
							continue
						}
						if args := e.Site.Common().Args; idx >= 0 && idx < len(args) && walk(args[idx], nil) {
							return true
						}
					}
				}
			}
			return false
		case *ssa.Field:
			// one field of a struct VALUE (a helper's struct result, a by-value parameter, a
			// local struct variable): only what was put into that field, plus the conditions
			// under which the helper chose the return it came from
			if st, _ := x.X.Type().Underlying().(*types.Struct); st != nil {
				if handled, hit := structField(x.X, []string{st.Field(x.Field).Name()}, stack, 0); handled {
					return hit
				}
			}
		case *ssa.Alloc, *ssa.MakeSlice:
			for _, src := range w.writersInto(x, fn) {
				if walk(src, stack) {
					return true
				}
			}
			if ms, ok := v.(*ssa.MakeSlice); ok {
				return walk(ms.Len, stack)
			}
			return false
		case *ssa.UnOp:
			if x.Op == token.MUL {
				// a field of a local struct variable (go/ssa keeps a struct local in memory when a
				// value-receiver method is called on it): only what was put into that field
				if _, isFA := x.X.(*ssa.FieldAddr); isFA {
					if al, path := allocBase(x.X); al != nil && len(path) > 0 {
						if handled, hit := structFieldOfLocal(al, path, stack, 0); handled {
							return hit
						}
					}
				}
				loc := w.locKey(x.X)
				for _, st := range w.stores[loc] {
					if st.Parent() == fn && walk(st.Val, stack) {
						return true
					}
				}
				return walk(x.X, stack)
			}
		case *ssa.Call:
			if x.Call.IsInvoke() {
				if walk(x.Call.Value, stack) {
					return true
				}
				for _, wr := range w.invokeWrites(x.Call.Value, fn) {
					if walk(wr, stack) {
						return true
					}
				}
			} else if cal := x.Call.StaticCallee(); cal != nil && w.IsMod[cal] && len(stack) < 4 {
				ns := append(append([]*ssa.Call{}, stack...), x)
				for _, ret := range returnsOf(cal) {
					for _, r := range ret.Results {
						if walk(w.resolveLoad(r), ns) {
							return true
						}
					}
					// control dependence: the conditions under which this return is taken
					for f := range w.facts(cal).in[ret.Block()] {
						if f.X != nil && walk(f.X, ns) {
							return true
						}
						if f.Y != nil && walk(f.Y, ns) {
							return true
						}
					}
				}
				return false
			}
		case *ssa.Extract:
			// result #i of a module call: only that result
			if call, ok := x.Tuple.(*ssa.Call); ok && !call.Call.IsInvoke() {
				if cal := call.Call.StaticCallee(); cal != nil && w.IsMod[cal] && len(stack) < 4 {
					ns := append(append([]*ssa.Call{}, stack...), call)
					rets := returnsOf(cal)
					for _, ret := range rets {
						if x.Index < len(ret.Results) && walk(w.resolveLoad(ret.Results[x.Index]), ns) {
							return true
						}
						// control dependence: which return is taken decides the result
						if len(rets) > 1 {
							for f := range w.facts(cal).in[ret.Block()] {
								if (f.X != nil && walk(f.X, ns)) || (f.Y != nil && walk(f.Y, ns)) {
									return true
								}
							}
						}
					}
					return false
				}
			}
		}
		if in, ok := v.(ssa.Instruction); ok {
			for _, op := range in.Operands(nil) {
				if *op != nil && walk(*op, stack) {
					return true
				}
			}
		}
		return false
	}
	return walk(v, stack0)
}

// structOriginControl: the conditions that decide which return of a module helper a struct
// value came from (followed through phis and by-value parameters, depth ≤ 4).
func (w *World) structOriginControl(v ssa.Value, depth int, visit func(ssa.Value) bool) bool {
	if depth > 4 {
		return false
	}
	switch x := v.(type) {
	case *ssa.Call, *ssa.Extract:
		call, _ := callOf(v)
		if call == nil || call.Call.StaticCallee() == nil || !w.IsMod[call.Call.StaticCallee()] {
			return false
		}
		cal := call.Call.StaticCallee()
		rets := returnsOf(cal)
		if len(rets) < 2 {
			return false
		}
		for _, ret := range rets {
			for f := range w.facts(cal).in[ret.Block()] {
				if (f.X != nil && visit(f.X)) || (f.Y != nil && visit(f.Y)) {
					return true
				}
			}
		}
	case *ssa.Phi:
		for _, e := range x.Edges {
			if w.structOriginControl(e, depth+1, visit) {
				return true
			}
		}
	case *ssa.Parameter:
		if node := w.CG.Nodes[x.Parent()]; node != nil {
			idx := paramIndex(x)
			for _, e := range node.In {
				if e.Site == nil || e.Site.Common().IsInvoke() || !w.IsMod[e.Caller.Func] {
					continue
				}
				if args := e.Site.Common().Args; idx >= 0 && idx < len(args) && w.structOriginControl(args[idx], depth+1, visit) {
					return true
				}
			}
		}
	}
	return false
}

// writersInto: values written into the storage of a slice/array allocation within fn:
// stores through IndexAddr, copy(dst, src) with dst derived from it, binary.PutUintN(dst, v).
func (w *World) writersInto(storage ssa.Value, fn *ssa.Function) []ssa.Value {
	var out []ssa.Value
	if fn == nil {
		return nil
	}
	derived := map[ssa.Value]bool{storage: true}
	for changed := true; changed; {
		changed = false
		w.eachInstr(fn, func(in ssa.Instruction) {
			switch x := in.(type) {
			case *ssa.Slice:
				if derived[x.X] && !derived[x] {
					derived[x] = true
					changed = true
				}
			case *ssa.IndexAddr:
				if derived[x.X] && !derived[x] {
					derived[x] = true
					changed = true
				}
			case *ssa.FieldAddr:
				if derived[x.X] && !derived[x] {
					derived[x] = true
					changed = true
				}
			}
		})
	}
	w.eachInstr(fn, func(in ssa.Instruction) {
		switch x := in.(type) {
		case *ssa.Store:
			if derived[x.Addr] {
				out = append(out, x.Val)
			}
		case *ssa.Call:
			if b, ok := x.Call.Value.(*ssa.Builtin); ok && b.Name() == "copy" && derived[x.Call.Args[0]] {
				out = append(out, x.Call.Args[1])
			}
			if cal := x.Call.StaticCallee(); cal != nil && strings.HasPrefix(cal.Name(), "PutUint") && len(x.Call.Args) >= 3 && derived[x.Call.Args[1]] {
				out = append(out, x.Call.Args[2])
			} else if cal != nil && !w.IsMod[cal] {
				// a library call that receives the storage's address may fill it from its
				// other arguments (big.Int.SetString, io.ReadFull, ...)
				for i, a := range x.Call.Args {
					if derived[a] {
						for j, b := range x.Call.Args {
							if j != i {
								out = append(out, b)
							}
						}
						break
					}
				}
			}
		}
	})
	return out
}

// invokeWrites: arguments of Write calls invoked on the same interface value (hash.Hash).
func (w *World) invokeWrites(recv ssa.Value, fn *ssa.Function) []ssa.Value {
	var out []ssa.Value
	if fn == nil {
		if in, ok := recv.(ssa.Instruction); ok {
			fn = in.Parent()
		} else {
			return nil
		}
	}
	w.eachInstr(fn, func(in ssa.Instruction) {
		if call, ok := in.(*ssa.Call); ok && call.Call.IsInvoke() && call.Call.Value == recv && call.Call.Method.Name() == "Write" {
			out = append(out, call.Call.Args...)
		}
	})
	return out
}

// ---------------------------------------------------------------------------------
// C03.6d — the MAC covers the timestamp's significant bytes

// sliceRange normalises a byte-slice value to (base, lo, hi): v == base[lo:hi]. hi == -1
// when unknown.
func sliceRange(v ssa.Value) (ssa.Value, int64, int64) {
	v = stripIface(v)
	if sl, ok := v.(*ssa.Slice); ok {
		base, blo, bhi := sliceRange(sl.X)
		lo, hi := int64(0), int64(-1)
		if sl.Low != nil {
			k, ok := constInt(sl.Low)
			if !ok {
				return v, 0, -1
			}
			lo = k
		}
		if sl.High != nil {
			k, ok := constInt(sl.High)
			if !ok {
				return v, 0, -1
			}
			hi = k
		}
		nlo := blo + lo
		nhi := int64(-1)
		if hi >= 0 {
			nhi = blo + hi
		} else if bhi >= 0 {
			nhi = bhi
		}
		return base, nlo, nhi
	}
	// whole object: length when statically known
	switch x := v.(type) {
	case *ssa.MakeSlice:
		if k, ok := constInt(x.Len); ok {
			return v, 0, k
		}
	case *ssa.Alloc:
		if p, ok := x.Type().Underlying().(*types.Pointer); ok {
			if a, ok := p.Elem().Underlying().(*types.Array); ok {
				return v, 0, a.Len()
			}
		}
	}
	return v, 0, -1
}

func uintWidth(name, prefix string) int64 {
	switch strings.TrimPrefix(name, prefix) {
	case "16":
		return 2
	case "32":
		return 4
	case "64":
		return 8
	}
	return 0
}

func ruleMACCoversTimestamp(c *Ctx, rule string) {
	w := c.W
	c.Rule(rule, "every input written into a nonce HMAC (keyed by recv.key) in Generate/Validate and their helpers is either the very byte range the timestamp is decoded from (binary.BigEndian.UintN over the same base and range), or a range of a buffer filled by PutUintW(buf, t) that includes the least-significant byte and at least 4 bytes — a MAC over other bytes does not bind the timestamp", 4)
	hmacNew := w.extFunc("crypto/hmac", "New")
	for _, tn := range []string{"NonceHash", "ShortNonceHash"} {
		for _, mn := range []string{"Generate", "Validate"} {
			root := w.Func("server", tn, mn)
			// all calls of the method and its helpers (depth ≤ 2), arguments expressed in the
			// method's own terms
			type rcall struct {
				call *ssa.Call
				name string
				full string
				args []ssa.Value
			}
			var calls []rcall
			type macIn struct {
				h      *ssa.Call
				writes []ssa.Value
			}
			var macs []macIn
			w.eachCallThroughX(root, 2, true, func(call *ssa.Call, rs func(ssa.Value) ssa.Value) {
				cal := call.Call.StaticCallee()
				if cal == nil {
					return
				}
				rc := rcall{call: call, name: cal.Name(), full: cal.String()}
				for _, a := range call.Call.Args {
					rc.args = append(rc.args, w.resolveLoad(rs(a)))
				}
				calls = append(calls, rc)
				if cal == hmacNew {
					if _, fl, isL := fieldLoad(rc.args[1]); !isL || nm(fl) != "key" {
						return
					}
					m := macIn{h: call}
					for _, wr := range w.invokeWrites(call, call.Parent()) {
						m.writes = append(m.writes, w.resolveLoad(rs(wr)))
					}
					macs = append(macs, m)
				}
			})
			n := 0
			for _, m := range macs {
				h, f := m.h, m.h.Parent()
				for _, wr := range m.writes {
					n++
					c.Anchor(rule, tn+"."+mn)
					base, lo, hi := sliceRange(wr)
					okWhy := ""
					// (i) same range as a decoded integer
					for _, c2 := range calls {
						if len(c2.args) < 2 {
							continue
						}
						if wd := uintWidth(c2.name, "Uint"); wd > 0 && strings.Contains(c2.full, "encoding/binary") {
							b2, lo2, _ := sliceRange(c2.args[1])
							if b2 == base && lo2 == lo && hi == lo2+wd {
								okWhy = fmt.Sprintf("MAC input [%d:%d] is exactly the range %s decodes the timestamp from", lo, hi, c2.name)
							}
							// the very same slice value is decoded and MACed (whatever its extent:
							// the MAC covers all of it, the decoder reads its first bytes)
							if okWhy == "" && (c2.args[1] == wr || w.sameKey(c2.args[1], wr)) {
								okWhy = fmt.Sprintf("the MAC input is the slice %s decodes the timestamp from", c2.name)
							}
						}
					}
					// (ii) low-order bytes of an encoded integer
					if okWhy == "" {
						for _, c2 := range calls {
							if len(c2.args) < 3 {
								continue
							}
							if wd := uintWidth(c2.name, "PutUint"); wd > 0 {
								b2, lo2, _ := sliceRange(c2.args[1])
								if b2 == base && hi == lo2+wd && hi-lo >= 4 && lo >= lo2 {
									okWhy = fmt.Sprintf("MAC input [%d:%d] holds the %d low-order bytes of the %s-encoded timestamp", lo, hi, hi-lo, c2.name)
								}
							}
							// r = AppendUintW(fresh[:L0], t): r[L0:L0+W] holds the integer
							if wd := uintWidth(c2.name, "AppendUint"); wd > 0 && strings.Contains(c2.full, "encoding/binary") {
								// the appended-to slice: fresh storage of a statically known length L0
								fb, flo, fhi := sliceRange(c2.args[1])
								fresh := false
								switch fb.(type) {
								case *ssa.MakeSlice, *ssa.Alloc:
									fresh = true
								}
								hiE := hi
								if hi < 0 && lo == 0 && stripIface(wr) == ssa.Value(c2.call) && fhi >= 0 {
									hiE = fhi - flo + wd // the whole result: everything up to the appended integer's last byte
								}
								if l0 := fhi - flo; fresh && flo == 0 && fhi >= 0 && stripIface(base) == ssa.Value(c2.call) && hiE == l0+wd && hiE-lo >= 4 && (lo >= l0 || l0 == 0) {
									hi := hiE
									okWhy = fmt.Sprintf("MAC input [%d:%d] holds the %d low-order bytes of the %s-encoded timestamp", lo, hi, hi-lo, c2.name)
								}
							}
						}
					}
					if okWhy != "" {
						c.OK(rule, fname(f), "MAC input", w.instrPos(h), okWhy)
					} else {
						c.Bad(rule, fname(f), "MAC input", w.instrPos(h), fmt.Sprintf("MAC input %s (= %s[%d:%d]) is neither the range the timestamp is decoded from nor the low-order bytes of an encoded timestamp: the MAC does not bind the timestamp, a re-stamped nonce would validate", w.key(wr), w.key(base), lo, hi))
					}
				}
			}
			if n == 0 {
				c.Bad(rule, fname(root), "MAC input", w.pos(root.Pos()), "no keyed HMAC input found in "+mn+" or its helpers: anchor gone")
			}
		}
	}
}

// secondsPerUnit: how many seconds one unit of an integer time value stands for, inferred
// from how it is computed: (time.Time).Unix() counts seconds, UnixMilli/UnixMicro/UnixNano
// and time.Duration values (Since, Sub, Until) count their fractions, x/k counts k times the
// unit of x, x*k a k-th, conversions and additions keep the unit. 0 when unknown.
func secondsPerUnit(w *World, v ssa.Value, depth int) float64 {
	if depth > 8 {
		return 0
	}
	v = w.resolveLoad(v)
	switch x := v.(type) {
	case *ssa.Convert:
		return secondsPerUnit(w, x.X, depth+1)
	case *ssa.ChangeType:
		return secondsPerUnit(w, x.X, depth+1)
	case *ssa.Call:
		cal := x.Call.StaticCallee()
		if cal == nil {
			return 0
		}
		switch cal.String() {
		case "(time.Time).Unix":
			return 1
		case "(time.Time).UnixMilli":
			return 1e-3
		case "(time.Time).UnixMicro":
			return 1e-6
		case "(time.Time).UnixNano", "time.Since", "time.Until", "(time.Time).Sub":
			return 1e-9
		case "(time.Duration).Seconds":
			return 1
		case "(time.Duration).Minutes":
			return 60
		case "(time.Duration).Milliseconds":
			return 1e-3
		}
	case *ssa.BinOp:
		switch x.Op {
		case token.QUO:
			if k, ok := constInt(x.Y); ok && k > 0 {
				if s := secondsPerUnit(w, x.X, depth+1); s > 0 {
					return s * float64(k)
				}
			}
		case token.MUL:
			if k, ok := constInt(x.Y); ok && k > 0 {
				if s := secondsPerUnit(w, x.X, depth+1); s > 0 {
					return s / float64(k)
				}
			}
			if k, ok := constInt(x.X); ok && k > 0 {
				if s := secondsPerUnit(w, x.Y, depth+1); s > 0 {
					return s / float64(k)
				}
			}
		case token.ADD, token.SUB:
			if s := secondsPerUnit(w, x.X, depth+1); s > 0 {
				return s
			}
			return secondsPerUnit(w, x.Y, depth+1)
		}
	}
	return 0
}

// ruleMACNotAliased (C03.6e): hash.Sum(b) APPENDS the digest to b and returns the result; when
// b has spare capacity the digest is written in place. A validator that calls Sum on a slice
// of the presented nonce (nonce[:4], whose capacity is the whole nonce) overwrites the
// presented MAC with the expected one and then compares the buffer with itself: every forged
// nonce with a current timestamp validates. So: in the validators and the helpers they use,
// the argument of Sum is nil or storage made for this call.
func ruleMACNotAliased(c *Ctx, rule string) {
	w := c.W
	c.Rule(rule, "the expected MAC does not alias the presented nonce: every hash.Hash.Sum(b) reachable from (*NonceHash).Validate / (*ShortNonceHash).Validate has b nil or fresh — through helper parameters at the call sites reached from the validator", 2)
	for _, tn := range []string{"NonceHash", "ShortNonceHash"} {
		val := w.Func("server", tn, "Validate")
		c.Anchor(rule, tn+".Validate")
		scope := map[*ssa.Function]bool{}
		for _, f := range w.reachableHelpers(val) {
			scope[f] = true
		}
		var ok func(v ssa.Value, at *ssa.Function, d int) bool
		ok = func(v ssa.Value, at *ssa.Function, d int) bool {
			rv := stripIface(w.resolveLoad(v))
			if isNilConst(rv) || w.freshBytes(rv, 0) {
				return true
			}
			if sl, isS := rv.(*ssa.Slice); isS {
				// a slice of fresh storage is this call's own too
				return ok(sl.X, at, d+1)
			}
			if al, isAl := rv.(*ssa.Alloc); isAl {
				_ = al
				return true // a local array
			}
			p, isP := rv.(*ssa.Parameter)
			if !isP || d > 3 || p.Parent() == val {
				return false
			}
			n := 0
			for _, cs := range w.callsTo(p.Parent()) {
				if !scope[cs.Parent()] {
					continue
				}
				n++
				i := paramIndex(p)
				if i < 0 || i >= len(cs.Common().Args) || !ok(cs.Common().Args[i], cs.Parent(), d+1) {
					return false
				}
			}
			return n > 0
		}
		nSum := 0
		bad := ""
		for _, f := range sortedFns(scope) {
			w.eachInstr(f, func(in ssa.Instruction) {
				call, isC := in.(*ssa.Call)
				if !isC || !call.Call.IsInvoke() || call.Call.Method.Name() != "Sum" || len(call.Call.Args) != 1 {
					return
				}
				nSum++
				if !ok(call.Call.Args[0], f, 0) {
					bad = w.instrPos(in) + " (" + w.desc(call.Call.Args[0]) + ")"
				}
			})
		}
		switch {
		case nSum == 0:
			c.Bad(rule, fname(val), "Sum argument", w.pos(val.Pos()), "no hash.Sum reachable from the validator: anchor gone")
		case bad != "":
			c.Bad(rule, fname(val), "Sum argument", w.pos(val.Pos()), "the expected MAC is appended onto bytes of the presented nonce at "+bad+": Sum writes in place when the slice has room (nonce[:4] has the whole nonce as capacity), the presented MAC is overwritten by the expected one and hmac.Equal compares the buffer with itself — a forged nonce validates")
		default:
			c.OK(rule, fname(val), "Sum argument", w.pos(val.Pos()), fmt.Sprintf("%d Sum call(s), each into nil or fresh storage", nSum))
		}
	}
}
