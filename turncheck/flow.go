package main

// E4 — role flow. Field-based, context-insensitive backward value flow over the module:
// for a value, the set of *leaves* it can originate from:
//
//	cfg:T.F      a struct field that is never assigned inside the module (operator config)
//	const:V      a constant
//	ext:f        the result of a call into a library (e.g. a value decoded from the wire)
//	param:f.p    a parameter of a function with no caller inside the module (API entry)
//
// Arithmetic that merely scales (x * const, x / const) keeps the leaves of x.

import (
	"fmt"
	"go/constant"
	"go/token"
	"go/types"
	"sort"
	"strings"

	"golang.org/x/tools/go/ssa"
)

type flowInfo struct {
	w          *World
	fieldStore map[*types.Var][]ssa.Value // field -> values stored into it anywhere
	memo       map[ssa.Value]map[string]bool
	active     map[ssa.Value]bool
	lpBusy     map[string]bool
}

func (w *World) flow() *flowInfo {
	if w.fl != nil {
		return w.fl
	}
	fi := &flowInfo{w: w, fieldStore: map[*types.Var][]ssa.Value{}, memo: map[ssa.Value]map[string]bool{}, active: map[ssa.Value]bool{}}
	w.fl = fi
	for _, fn := range w.ModFns {
		w.eachInstr(fn, func(in ssa.Instruction) {
			if st, ok := in.(*ssa.Store); ok {
				if fa, ok := st.Addr.(*ssa.FieldAddr); ok {
					f := fieldOf(fa)
					fi.fieldStore[f] = append(fi.fieldStore[f], st.Val)
				}
			}
		})
	}
	return fi
}

func (fi *flowInfo) leaves(v ssa.Value) map[string]bool {
	if m, ok := fi.memo[v]; ok {
		return m
	}
	if fi.active[v] {
		return map[string]bool{}
	}
	fi.active[v] = true
	out := map[string]bool{}
	add := func(m map[string]bool) {
		for k := range m {
			out[k] = true
		}
	}
	w := fi.w
	switch x := v.(type) {
	case *ssa.Const:
		if x.Value != nil {
			out["const:"+x.Value.ExactString()] = true
		} else {
			out["const:nil"] = true
		}
	case *ssa.Parameter:
		fn := x.Parent()
		idx := paramIndex(x)
		n := 0
		if node := w.CG.Nodes[fn]; node != nil {
			for _, e := range node.In {
				if e.Site == nil || !w.IsMod[e.Caller.Func] {
					continue
				}
				args := e.Site.Common().Args
				off := 0
				if e.Site.Common().IsInvoke() {
					off = 1 // receiver is not in Args
				}
				if idx-off >= 0 && idx-off < len(args) {
					n++
					add(fi.leaves(args[idx-off]))
				}
			}
		}
		if n == 0 {
			out["param:"+fname(fn)+"."+x.Name()] = true
		}
	case *ssa.FreeVar:
		if b := w.binding(x); b != nil {
			add(fi.leaves(b))
		} else {
			for _, mc := range w.Closures[x.Parent()] {
				for i, f := range x.Parent().FreeVars {
					if f == x {
						add(fi.leaves(mc.Bindings[i]))
					}
				}
			}
		}
	case *ssa.Phi:
		for _, e := range x.Edges {
			add(fi.leaves(e))
		}
	case *ssa.Convert:
		add(fi.leaves(x.X))
	case *ssa.ChangeType:
		add(fi.leaves(x.X))
	case *ssa.MakeInterface:
		add(fi.leaves(x.X))
	case *ssa.Field:
		f := fieldOf(x)
		// a field of a struct VALUE (helper result, by-value parameter): the field of that value
		if vals, ok := fi.structValueField(x.X, []string{f.Name()}, 0); ok {
			if len(vals) == 0 {
				out["zero"] = true
			}
			for _, sv := range vals {
				add(fi.leaves(sv))
			}
			break
		}
		fi.fieldLeaves(f, out)
	case *ssa.Extract:
		if call, ok := x.Tuple.(*ssa.Call); ok {
			fi.callLeavesAt(call, x.Index, out, x)
		} else {
			out["ext:"+fmt.Sprintf("%T", x.Tuple)] = true
		}
	case *ssa.Call:
		fi.callLeaves(x, 0, out)
	case *ssa.BinOp:
		_, cx := x.X.(*ssa.Const)
		_, cy := x.Y.(*ssa.Const)
		switch {
		case (x.Op == token.MUL || x.Op == token.QUO) && cy && !cx:
			add(fi.leaves(x.X))
		case x.Op == token.MUL && cx && !cy:
			add(fi.leaves(x.Y))
		default:
			add(fi.leaves(x.X))
			add(fi.leaves(x.Y))
		}
	case *ssa.UnOp:
		if x.Op != token.MUL {
			add(fi.leaves(x.X))
			break
		}
		switch a := x.X.(type) {
		case *ssa.FieldAddr:
			if al, ok := rootAddr(a).(*ssa.Alloc); ok {
				// a field of a local object: the stores into that object, here and in the
				// callees that receive its address (one object, not all objects of the type)
				if vals, ok := fi.localFieldStores(al, a); ok {
					if len(vals) == 0 {
						out["zero"] = true
					}
					// an explicit zero in the variable's initialisation (T{F: 0}) is the
					// implicit zero value spelled out
					// (like the implicit one it only shows when nothing else is stored)
					nInit := initZeroStores(al, pathOf(a))
					if nInit >= len(vals) && len(vals) > 0 {
						out["zero"] = true
					}
					for _, sv := range vals {
						if nInit > 0 && isZeroConst(sv) {
							nInit--
							continue
						}
						add(fi.leaves(sv))
					}
					break
				}
			}
			fi.fieldLeaves(fieldOf(a), out)
		case *ssa.Global:
			out["global:"+short(a.String())] = true
		default:
			// local or captured storage: the values stored to that location
			loc := w.locKey(x.X)
			ss := w.stores[loc]
			if len(ss) == 0 {
				out["zero"] = true
			}
			for _, st := range ss {
				add(fi.leaves(st.Val))
			}
		}
	default:
		out[fmt.Sprintf("other:%T", v)] = true
	}
	delete(fi.active, v)
	fi.memo[v] = out
	return out
}

func (fi *flowInfo) fieldLeaves(f *types.Var, out map[string]bool) {
	vals := fi.fieldStore[f]
	if len(vals) == 0 {
		out["cfg:"+fieldOwnerName(fi.w, f)+"."+f.Name()] = true
		return
	}
	for _, v := range vals {
		for k := range fi.leaves(v) {
			out[k] = true
		}
	}
}

func (fi *flowInfo) callLeaves(call *ssa.Call, idx int, out map[string]bool) {
	fi.callLeavesAt(call, idx, out, nil)
}

// callLeavesAt: with ex the Extract through which result idx is used: when every use of ex
// is dominated by "the call's error result == nil", the returns that hand back a non-nil
// error (`return 0, err`) contribute nothing — their value result is never looked at.
func (fi *flowInfo) callLeavesAt(call *ssa.Call, idx int, out map[string]bool, ex *ssa.Extract) {
	w := fi.w
	errIdx := -1
	if ex != nil {
		if res := call.Call.Signature().Results(); res.Len() >= 2 && idx < res.Len()-1 && res.At(res.Len()-1).Type().String() == "error" {
			errIdx = res.Len() - 1
			var errEx ssa.Value
			for _, r := range *call.Referrers() {
				if e2, ok := r.(*ssa.Extract); ok && e2.Index == errIdx {
					errEx = e2
				}
			}
			usesGuarded := errEx != nil && ex.Referrers() != nil && len(*ex.Referrers()) > 0
			if usesGuarded {
				for _, u := range *ex.Referrers() {
					if _, isDbg := u.(*ssa.DebugRef); isDbg {
						continue
					}
					ok := false
					for _, f := range w.factsAt(u) {
						if v, isNil, isNF := nilFact(f); isNF && isNil && v == errEx {
							ok = true
						}
					}
					if !ok {
						usesGuarded = false
					}
				}
			}
			if !usesGuarded {
				errIdx = -1
			}
		}
	}
	if b, isB := call.Call.Value.(*ssa.Builtin); isB && (b.Name() == "min" || b.Name() == "max") {
		// one of the arguments
		for _, e := range call.Call.Args {
			for k := range fi.leaves(e) {
				out[k] = true
			}
		}
		return
	}
	if els := orArgs(call); len(els) > 0 {
		// cmp.Or hands back one of its arguments (or the zero value)
		for _, e := range els {
			for k := range fi.leaves(e) {
				out[k] = true
			}
		}
		return
	}
	var callees []*ssa.Function
	if cal := call.Call.StaticCallee(); cal != nil {
		callees = append(callees, cal)
	} else if n := w.CG.Nodes[call.Parent()]; n != nil {
		for _, e := range n.Out {
			if e.Site == ssa.CallInstruction(call) {
				callees = append(callees, e.Callee.Func)
			}
		}
	}
	n := 0
	for _, cal := range callees {
		if !w.IsMod[cal] {
			out["ext:"+short(cal.String())] = true
			n++
			continue
		}
		for _, ret := range returnsOf(cal) {
			if idx < len(ret.Results) {
				if errIdx >= 0 && errIdx < len(ret.Results) && fi.nonNilAtReturn(ret, errIdx) {
					n++
					continue // an error return: the caller does not look at the value
				}
				n++
				for k := range fi.leaves(w.resolveLoad(ret.Results[idx])) {
					out[k] = true
				}
			}
		}
	}
	if n == 0 {
		out["ext:dynamic"] = true
	}
}

// fieldOwnerName: the named struct type declaring f (searched among module types).
func fieldOwnerName(w *World, f *types.Var) string {
	if f.Pkg() == nil {
		return "?"
	}
	sc := f.Pkg().Scope()
	for _, name := range sc.Names() {
		tn, ok := sc.Lookup(name).(*types.TypeName)
		if !ok {
			continue
		}
		st, ok := tn.Type().Underlying().(*types.Struct)
		if !ok {
			continue
		}
		for i := 0; i < st.NumFields(); i++ {
			if st.Field(i) == f {
				return name
			}
		}
	}
	return "?"
}

func leafList(m map[string]bool) []string {
	var out []string
	for k := range m {
		out = append(out, k)
	}
	sort.Strings(out)
	return out
}

// localFieldStores: the values stored into field path `fa` of the local object `al`: stores
// in the allocating function, and stores through the corresponding parameter in module
// callees that are handed the object's address (depth 2). ok=false when the address escapes
// in a way that is not understood (then the caller falls back to the field-based view).
func (fi *flowInfo) localFieldStores(al *ssa.Alloc, fa *ssa.FieldAddr) ([]ssa.Value, bool) {
	return fi.localFieldStoresP(al, pathOf(fa))
}

func (fi *flowInfo) localFieldStoresP(al *ssa.Alloc, path []string) ([]ssa.Value, bool) {
	w := fi.w
	key := al.Parent().String() + "|" + al.Name() + "|" + fmt.Sprint(path)
	if fi.lpBusy == nil {
		fi.lpBusy = map[string]bool{}
	}
	if fi.lpBusy[key] {
		return nil, true
	}
	fi.lpBusy[key] = true
	defer delete(fi.lpBusy, key)
	var out []ssa.Value
	okAll := true
	var scan func(base ssa.Value, depth int)
	scan = func(base ssa.Value, depth int) {
		var visit func(v ssa.Value, p []string)
		visit = func(v ssa.Value, p []string) {
			for _, r := range *v.Referrers() {
				switch x := r.(type) {
				case *ssa.FieldAddr:
					name := derefStruct(x.X.Type()).Field(x.Field).Name()
					visit(x, append(append([]string{}, p...), name))
				case *ssa.Store:
					if x.Addr == v {
						if samePath(p, path) {
							out = append(out, x.Val)
						} else if isPrefix(p, path) {
							// whole-struct store covering the field: the field of the struct value stored
							if vals, ok := fi.structValueField(x.Val, path[len(p):], 0); ok {
								out = append(out, vals...)
							} else {
								okAll = false
							}
						}
					} else {
						// the address handed on as a value (&lifetime placed in an attribute
						// list): the object can then be read elsewhere, which does not add writers
						// we care about unless a module function writes through it — treated as
						// unknown only when the holder is not a plain slice/interface element
						if !fi.addressOnlyRead(x) {
							okAll = false
						}
					}
				case *ssa.MakeInterface:
					// &local as a stun.Setter (AddTo reads its receiver and writes the message) in an
					// attribute list: readers only; any other interface may decode into the object
					if !strings.HasSuffix(x.Type().String(), "stun/v3.Setter") {
						okAll = false
					}
				case *ssa.UnOp, *ssa.DebugRef:
				case ssa.CallInstruction:
					if len(p) != 0 {
						// address of a sub-field handed to a call: only matters when it is (a prefix of) our path
						if !isPrefix(p, path) {
							continue
						}
					}
					cal := x.Common().StaticCallee()
					if cal == nil || !w.IsMod[cal] || depth >= 2 {
						if cal != nil && !w.IsMod[cal] {
							out = append(out, x.Value()) // filled by a library call: ext leaf via the call value
							if x.Value() == nil {
								okAll = false
							}
							continue
						}
						okAll = false
						continue
					}
					for i, a := range x.Common().Args {
						if a == v && i < len(cal.Params) {
							// inside the callee the parameter points at (base + p)
							sub := &subScan{fi: fi, want: path[len(p):], out: &out, ok: &okAll}
							sub.scan(cal.Params[i], depth+1)
						}
					}
				default:
					okAll = false
				}
			}
		}
		visit(base, nil)
	}
	scan(al, 0)
	return out, okAll
}

type subScan struct {
	fi   *flowInfo
	want []string
	out  *[]ssa.Value
	ok   *bool
}

func (s *subScan) scan(base ssa.Value, depth int) {
	w := s.fi.w
	var visit func(v ssa.Value, p []string)
	visit = func(v ssa.Value, p []string) {
		for _, r := range *v.Referrers() {
			switch x := r.(type) {
			case *ssa.FieldAddr:
				name := derefStruct(x.X.Type()).Field(x.Field).Name()
				visit(x, append(append([]string{}, p...), name))
			case *ssa.Store:
				if x.Addr == v {
					if samePath(p, s.want) {
						*s.out = append(*s.out, x.Val)
					} else if isPrefix(p, s.want) {
						*s.ok = false
					}
				} else {
					*s.ok = false
				}
			case *ssa.UnOp, *ssa.DebugRef, *ssa.ChangeType, *ssa.Convert:
				if cv, ok := r.(ssa.Value); ok {
					if _, isPtr := cv.Type().Underlying().(*types.Pointer); isPtr {
						if _, isU := r.(*ssa.UnOp); !isU {
							visit(cv, p) // pointer conversion keeps pointing at the same object
						}
					}
				}
			case ssa.CallInstruction:
				if !isPrefix(p, s.want) {
					continue
				}
				cal := x.Common().StaticCallee()
				if cal != nil && !w.IsMod[cal] {
					if x.Value() != nil {
						*s.out = append(*s.out, x.Value())
					} else {
						*s.ok = false
					}
					continue
				}
				if cal == nil || depth >= 3 {
					*s.ok = false
					continue
				}
				for i, a := range x.Common().Args {
					if a == v && i < len(cal.Params) {
						sub := &subScan{fi: s.fi, want: s.want[len(p):], out: s.out, ok: s.ok}
						sub.scan(cal.Params[i], depth+1)
					}
				}
			default:
				*s.ok = false
			}
		}
	}
	visit(base, nil)
}

func samePath(a, b []string) bool {
	if len(a) != len(b) {
		return false
	}
	for i := range a {
		if a[i] != b[i] {
			return false
		}
	}
	return true
}

func isPrefix(a, b []string) bool {
	if len(a) > len(b) {
		return false
	}
	for i := range a {
		if a[i] != b[i] {
			return false
		}
	}
	return true
}

// addressOnlyRead: the store puts a local's address into a slice element / interface slot of
// a freshly built attribute list (append([]stun.Setter{..., &x})): such holders are only read.
func (fi *flowInfo) addressOnlyRead(st *ssa.Store) bool {
	switch a := st.Addr.(type) {
	case *ssa.IndexAddr:
		_, isAl := rootAddr(a).(*ssa.Alloc)
		return isAl
	}
	return false
}

// structValueField: the values that field `path` of struct value v can hold: followed through
// loads of local struct variables, helper results, by-value parameters and phis.
func (fi *flowInfo) structValueField(v ssa.Value, path []string, depth int) ([]ssa.Value, bool) {
	w := fi.w
	if depth > 6 || len(path) == 0 {
		return nil, false
	}
	switch x := v.(type) {
	case *ssa.Const:
		if x.Value == nil {
			return nil, true // the zero value of the struct: nothing was put into the field
		}
		return nil, false
	case *ssa.UnOp:
		if x.Op != token.MUL {
			return nil, false
		}
		if al, ok := x.X.(*ssa.Alloc); ok {
			return fi.localPathStores(al, path)
		}
		return nil, false
	case *ssa.Call, *ssa.Extract:
		call, idx := callOf(v)
		if call == nil || call.Call.StaticCallee() == nil || !w.IsMod[call.Call.StaticCallee()] {
			return nil, false
		}
		if idx < 0 {
			idx = 0
		}
		var out []ssa.Value
		for _, r := range returnsOf(call.Call.StaticCallee()) {
			if idx >= len(r.Results) {
				return nil, false
			}
			vals, ok := fi.structValueField(r.Results[idx], path, depth+1)
			if !ok {
				return nil, false
			}
			out = append(out, vals...)
		}
		return out, true
	case *ssa.Phi:
		var out []ssa.Value
		for _, e := range x.Edges {
			vals, ok := fi.structValueField(e, path, depth+1)
			if !ok {
				return nil, false
			}
			out = append(out, vals...)
		}
		return out, true
	case *ssa.Parameter:
		fn := x.Parent()
		idx := paramIndex(x)
		var out []ssa.Value
		n := 0
		if node := w.CG.Nodes[fn]; node != nil {
			for _, e := range node.In {
				if e.Site == nil || !w.IsMod[e.Caller.Func] || e.Site.Common().IsInvoke() {
					continue
				}
				args := e.Site.Common().Args
				if idx < len(args) {
					vals, ok := fi.structValueField(args[idx], path, depth+1)
					if !ok {
						return nil, false
					}
					out = append(out, vals...)
					n++
				}
			}
		}
		if n == 0 {
			return nil, false
		}
		return out, true
	}
	return nil, false
}

// localPathStores: localFieldStores for a field path given by names.
func (fi *flowInfo) localPathStores(al *ssa.Alloc, path []string) ([]ssa.Value, bool) {
	// find (or synthesise the view of) a FieldAddr with that path: reuse the scanner through
	// a path-carrying pseudo address
	return fi.localFieldStoresP(al, path)
}

// nonNilAtReturn: result i of the return is certainly non-nil there (a fresh error value, or
// a value known non-nil by the branch that leads to the return).
func (fi *flowInfo) nonNilAtReturn(ret *ssa.Return, i int) bool {
	w := fi.w
	rv := stripIface(w.resolveLoad(ret.Results[i]))
	if isNilConst(rv) {
		return false
	}
	if w.absint().definitelyNonNil(rv) {
		return true
	}
	for _, f := range w.factsAt(ret) {
		if v, isNil, ok := nilFact(f); ok && !isNil && (v == rv || v == ret.Results[i] || w.sameKey(v, rv)) {
			return true
		}
	}
	return false
}

// isZeroConst: v is the zero value of its type written as a constant.
func isZeroConst(v ssa.Value) bool {
	c, ok := v.(*ssa.Const)
	if !ok {
		return false
	}
	if c.Value == nil {
		return true
	}
	switch c.Value.Kind() {
	case constant.Int, constant.Float:
		return constant.Sign(c.Value) == 0
	case constant.String:
		return constant.StringVal(c.Value) == ""
	case constant.Bool:
		return !constant.BoolVal(c.Value)
	}
	return false
}

// initZeroStores: the stores of a zero constant into field `path` of local object al that
// belong to its initialisation: in the allocating block, before anything but field stores
// touches the object.
func initZeroStores(al *ssa.Alloc, path []string) int {
	b := al.Block()
	if b == nil {
		return 0
	}
	n := 0
	started := false
	for _, in := range b.Instrs {
		if in == ssa.Instruction(al) {
			started = true
			continue
		}
		if !started {
			continue
		}
		switch x := in.(type) {
		case *ssa.FieldAddr, *ssa.DebugRef, *ssa.Alloc, *ssa.IndexAddr:
			continue
		case *ssa.Store:
			if a, p := allocBase(x.Addr); a == al {
				if samePath(p, path) && isZeroConst(x.Val) {
					n++
				}
				continue
			}
			if usesValue(in, al) {
				return n
			}
		default:
			if usesValue(in, al) {
				return n
			}
			// an instruction that could reach the object through a derived address
			for _, op := range in.Operands(nil) {
				if *op == nil {
					continue
				}
				if a, _ := allocBase(*op); a == al {
					return n
				}
			}
		}
	}
	return n
}

func usesValue(in ssa.Instruction, v ssa.Value) bool {
	for _, op := range in.Operands(nil) {
		if *op == v {
			return true
		}
	}
	return false
}
