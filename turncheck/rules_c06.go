package main

import (
	"fmt"
	"go/constant"
	"go/token"
	"go/types"
	"os"
	"strings"

	"golang.org/x/tools/go/ssa"
)

func init() {
	register(&propDef{
		ID:        "C06",
		Title:     "Allocation lifetime, refresh and deletion are exact",
		Technique: "same-value (SSA identity) chains from the LIFETIME attribute to the timer arming call, must-facts on the cap/zero branches, role flow of the default lifetime, release coverage of Close",
		Explanation: "C06.1 the Duration in the LIFETIME attribute, the lifetime argument of CreateAllocation / a.Refresh and the duration that arms (time.AfterFunc) resp. resets (Timer.Reset) Allocation.lifetimeTimer are one value, and that value is the result of allocationLifeTime(req, stunMsg); " +
			"C06.2 allocationLifeTime returns req.AllocationLifetime, or the decoded LIFETIME only on the edge decoded < 1h (constant located by use) after a successful decode; " +
			"C06.3 in Refresh, DeleteAllocation(request tuple) runs exactly on the lifetime==0 edge and a.Refresh(lifetime) exactly on the other; " +
			"C06.4 the expiry closure of the allocation timer calls m.DeleteAllocation(alloc.fiveTuple) for the allocation that owns the timer; " +
			"C06.5 DeleteAllocation deletes the map entry and, on the found path, calls Close, whose release coverage is C15.2; " +
			"C06.5r (=C15.2) Close releases every timer, socket and collection element of the allocation; C06.7 (=C15.7) a failed create leaves no armed timer behind (the expiry deletes by 5-tuple and would hit a later allocation), and the allocation is published before its created-callback runs; C06.8 a relay loop whose socket read fails ends its allocation at once — it never reads again, so a removed allocation's loop cannot end a later allocation of the same 5-tuple; " +
			"C06.6 the only sources of the duration arming an allocation timer are ServerConfig.AllocationLifetime, the 10-minute default that replaces a zero value, and the decoded request LIFETIME. C06.9 (=C04.10) who may end an allocation; C06.10 (=C15.11) the lifetime timer is Reset by Refresh alone. C06.11 (=C18.cb) lifecycle callbacks run outside Manager.lock. C06.12 in the Refresh handler Allocation.Refresh / Manager.DeleteAllocation is passed on every path to the success response (the effect does not hang on the write); C06.9 now admits only the Refresh handler among the request handlers.",
		NotCovered: "wall-clock exactness ('exactly', 'no longer'), behaviour of time.Timer, races between expiry and refresh.",
		Run:        runC06,
	})
}

func runC06(c *Ctx) {
	w := c.W
	afterFunc := timeAfterFunc(w)
	create := w.Func("allocation", "Manager", "CreateAllocation")
	refresh := w.Func("allocation", "Allocation", "Refresh")
	life := w.Func("server", "", "allocationLifeTime")
	lt := w.Field("allocation", "Allocation", "lifetimeTimer")

	// ---- C06.1
	c.Rule("C06.1", "same value: handler LIFETIME.Duration ≡ lifetime argument ≡ allocationLifeTime(req, stunMsg); inside CreateAllocation the lifetime parameter ≡ the duration of the time.AfterFunc stored in lifetimeTimer; inside Refresh the parameter ≡ the argument of lifetimeTimer.Reset", 4)
	for _, hn := range []string{"handleAllocateRequest", "handleRefreshRequest"} {
		h := w.Func("server", "", hn)
		c.Anchor("C06.1", hn)
		var arg ssa.Value
		var at ssa.Instruction
		w.eachInstrDeep(h, func(in ssa.Instruction) {
			call, ok := in.(*ssa.Call)
			if !ok {
				return
			}
			switch call.Call.StaticCallee() {
			case create:
				arg, at = call.Call.Args[5], in
			case refresh:
				arg, at = call.Call.Args[1], in
			}
		})
		if arg == nil {
			c.Bad("C06.1", fname(h), "lifetime argument", w.pos(h.Pos()), "handler no longer arms/resets the allocation timer through CreateAllocation / Refresh")
			continue
		}
		// every value the duration can take is the configured default or the LIFETIME decoded
		// from this very request under decode-ok ∧ < 1h (followed through helpers and struct values)
		if bad, nDec, nDef := w.lifetimeSources(arg, at, h.Params[0], h.Params[1]); bad != "" || nDec == 0 || nDef == 0 {
			if bad == "" {
				bad = fmt.Sprintf("%d decoded / %d default sources", nDec, nDef)
			}
			c.Bad("C06.1", fname(h), "lifetime argument", w.instrPos(at), "the duration handed to the timer ("+w.desc(arg)+") is not the granted lifetime of this request (configured default, or the requested LIFETIME when it decodes and is below one hour): "+bad)
		} else {
			c.OK("C06.1", fname(h), "lifetime argument", w.instrPos(at), fmt.Sprintf("timer duration: %d default and %d guarded decoded source(s) of this request", nDef, nDec))
		}
		// the LIFETIME literal carries the same value
		found, okSame := false, false
		w.eachInstrDeep(h, func(in ssa.Instruction) {
			al, ok := in.(*ssa.Alloc)
			if !ok {
				return
			}
			if n := namedOf(al.Type()); n == nil || n.Obj().Name() != "Lifetime" {
				return
			}
			if d := w.literalOf(al).fields["Duration"]; d != nil {
				found = true
				if w.sameKey(d, arg) {
					okSame = true
				}
			}
		})
		if found && okSame {
			c.OK("C06.1", fname(h), "LIFETIME attribute", w.pos(h.Pos()), "Duration is the very value handed to the timer")
		} else {
			c.Bad("C06.1", fname(h), "LIFETIME attribute", w.pos(h.Pos()), "the LIFETIME reported to the client is not the value handed to the allocation timer")
		}
	}
	{
		c.Anchor("C06.1", "CreateAllocation arm")
		ok := false
		w.eachInstrDeep(create, func(in ssa.Instruction) {
			st, isS := in.(*ssa.Store)
			if !isS {
				return
			}
			fa, isF := st.Addr.(*ssa.FieldAddr)
			if !isF || fieldOf(fa) != lt {
				return
			}
			ac, _ := callOf(st.Val)
			if ac != nil && ac.Call.StaticCallee() == afterFunc && w.sameKey(ac.Call.Args[0], create.Params[5]) {
				ok = true
			}
		})
		if ok {
			c.OK("C06.1", fname(create), "arm", w.pos(create.Pos()), "lifetimeTimer = time.AfterFunc(lifetime parameter, …)")
		} else {
			c.Bad("C06.1", fname(create), "arm", w.pos(create.Pos()), "the allocation timer is not armed with the lifetime parameter")
		}
		c.Anchor("C06.1", "Refresh reset")
		ok = false
		w.eachInstr(refresh, func(in ssa.Instruction) {
			call, isC := in.(*ssa.Call)
			if !isC || call.Call.StaticCallee() == nil || call.Call.StaticCallee().String() != "(*time.Timer).Reset" {
				return
			}
			_, f, isL := fieldLoad(call.Call.Args[0])
			if isL && f == lt && w.sameKey(call.Call.Args[1], refresh.Params[1]) {
				ok = true
			}
		})
		if ok {
			c.OK("C06.1", fname(refresh), "reset", w.pos(refresh.Pos()), "a.lifetimeTimer.Reset(lifetime parameter)")
		} else {
			c.Bad("C06.1", fname(refresh), "reset", w.pos(refresh.Pos()), "Refresh does not reset the allocation timer with its lifetime parameter")
		}
	}

	// ---- C06.2
	c.Rule("C06.2", "allocationLifeTime: every returned value is either req.AllocationLifetime or the Duration decoded by Lifetime.GetFrom(m), the latter only under GetFrom(m)==nil and decoded < C with C the constant one hour", 1)
	{
		c.Anchor("C06.2", "allocationLifeTime")
		bad := ""
		nDec, nDef := 0, 0
		for _, ret := range returnsOf(life) {
			b, d1, d2 := w.lifetimeSources(ret.Results[0], ret, life.Params[0], life.Params[1])
			if b != "" {
				bad = b
			}
			nDec += d1
			nDef += d2
		}
		if bad == "" && nDec >= 1 && nDef >= 1 {
			c.OK("C06.2", fname(life), "granted lifetime", w.pos(life.Pos()), "requested value only under decode-ok ∧ requested < 1h; configured default otherwise")
		} else {
			if bad == "" {
				bad = fmt.Sprintf("shape changed: %d decoded / %d default sources of the returned value", nDec, nDef)
			}
			c.Bad("C06.2", fname(life), "granted lifetime", w.pos(life.Pos()), bad)
		}
	}

	// ---- C06.3
	c.Rule("C06.3", "Refresh with lifetime 0: DeleteAllocation(mgr, request tuple) is called exactly on the edge lifetime == 0 and a.Refresh(lifetime) exactly on the edge lifetime != 0, lifetime being the value of C06.1", 2)
	{
		h := w.Func("server", "", "handleRefreshRequest")
		del := w.Func("allocation", "Manager", "DeleteAllocation")
		// the lifetime of C06.1: the value handed to a.Refresh (wherever in the handler's body,
		// helpers included, that call is made)
		var lifeVal ssa.Value
		w.eachInstrDeep(h, func(in ssa.Instruction) {
			if call, ok := in.(*ssa.Call); ok && call.Call.StaticCallee() == refresh {
				lifeVal = call.Call.Args[1]
			}
		})
		zeroFact := func(at ssa.Instruction) int {
			for _, f := range w.factsAt(at) {
				if f.Op != "==" {
					continue
				}
				for _, pair := range [][2]ssa.Value{{f.X, f.Y}, {f.Y, f.X}} {
					if k, ok := constInt(pair[1]); ok && k == 0 && lifeVal != nil && w.sameKey(pair[0], lifeVal) {
						if f.Truth {
							return 1
						}
						return -1
					}
				}
			}
			return 0
		}
		nDel, nRef := 0, 0
		w.eachInstrDeep(h, func(in ssa.Instruction) {
			call, ok := in.(*ssa.Call)
			if !ok {
				return
			}
			switch call.Call.StaticCallee() {
			case del:
				nDel++
				c.Anchor("C06.3", "delete on zero")
				okT, why := w.requestTuple(call.Call.Args[1], h)
				if zeroFact(in) == 1 && okT {
					c.OK("C06.3", fname(h), "DeleteAllocation", w.instrPos(in), "on the lifetime == 0 edge, for the request's own tuple")
				} else {
					c.Bad("C06.3", fname(h), "DeleteAllocation", w.instrPos(in), "DeleteAllocation is not confined to the lifetime == 0 edge of this request's tuple ("+why+")")
				}
			case refresh:
				nRef++
				c.Anchor("C06.3", "refresh on non-zero")
				if zeroFact(in) == -1 {
					c.OK("C06.3", fname(h), "Refresh", w.instrPos(in), "on the lifetime != 0 edge")
				} else {
					c.Bad("C06.3", fname(h), "Refresh", w.instrPos(in), "a.Refresh is reachable with lifetime 0 (Timer.Reset(0) fires at once but the entry stays until then), or is not tied to the lifetime test")
				}
			}
		})
		if nDel == 0 {
			c.Bad("C06.3", fname(h), "DeleteAllocation", w.pos(h.Pos()), "a Refresh with lifetime 0 no longer deletes the allocation")
		}
		if nRef == 0 {
			c.Bad("C06.3", fname(h), "Refresh", w.pos(h.Pos()), "a Refresh with non-zero lifetime no longer resets the timer")
		}
	}

	// ---- C06.4
	c.Rule("C06.4", "expiry: the function literal armed as Allocation.lifetimeTimer unconditionally calls m.DeleteAllocation(alloc.fiveTuple) with m the manager and alloc the allocation whose lifetimeTimer it is", 1)
	{
		del := w.Func("allocation", "Manager", "DeleteAllocation")
		c.Anchor("C06.4", "expiry closure")
		ok := false
		why := "no store of time.AfterFunc(…) into lifetimeTimer found"
		w.eachInstrDeep(create, func(in ssa.Instruction) {
			st, isS := in.(*ssa.Store)
			if !isS {
				return
			}
			fa, isF := st.Addr.(*ssa.FieldAddr)
			if !isF || fieldOf(fa) != lt {
				return
			}
			ac, _ := callOf(st.Val)
			if ac == nil || ac.Call.StaticCallee() != afterFunc {
				return
			}
			mc, isMC := ac.Call.Args[1].(*ssa.MakeClosure)
			if !isMC {
				why = "timer callback is not a function literal"
				return
			}
			cl := w.closureBody(mc)
			owner := fa.X // the allocation whose timer is set
			good := func(in2 ssa.Instruction) bool {
				call, isC := in2.(*ssa.Call)
				if !isC || call.Call.StaticCallee() != del {
					return false
				}
				b, f, isL := fieldLoad(call.Call.Args[1])
				return isL && nm(f) == "fiveTuple" && w.sameKey(b, owner) && w.sameKey(call.Call.Args[0], create.Params[0])
			}
			w.eachInstrDeep(cl, func(in2 ssa.Instruction) {
				if call, isC := in2.(*ssa.Call); isC && call.Call.StaticCallee() == del && !good(in2) {
					why = "expiry deletes " + w.key(call.Call.Args[1]) + ", not the owner's fiveTuple"
				}
			})
			// unconditionally: every path through the callback (and the helpers it delegates to)
			if must, _ := mustPassBefore(cl.Blocks[0], w.deepHit(good), func(*ssa.BasicBlock) bool { return false }); must {
				ok = true
			}
			if !ok && strings.HasPrefix(why, "no store of") {
				why = "the expiry closure stored into lifetimeTimer does not call DeleteAllocation(owner's fiveTuple) on every path"
			}
		})
		if ok {
			c.OK("C06.4", fname(create), "expiry closure", w.pos(create.Pos()), "calls m.DeleteAllocation(alloc.fiveTuple) in its entry block")
		} else {
			c.Bad("C06.4", fname(create), "expiry closure", w.pos(create.Pos()), why)
		}
	}

	// ---- C06.5
	ruleDeleteAllocation(c, "C06.5")
	ruleReleaseCoverage(c, "C06.5r")
	ruleArmThenPublish(c, "C06.7")
	ruleRelayLoopGivesUpAtOnce(c, "C06.8")
	ruleWhoMayDeleteAllocation(c, "C06.9")
	ruleLifetimeTimerResetByRefresh(c, "C06.10")
	ruleRefreshEffectBeforeResponse(c, "C06.12", c.W.authedHandlers(nil, "C06.12"))
	ruleCallbacksOutsideManagerLock(c, "C06.11")

	// ---- C06.6
	c.Rule("C06.6", "role flow: every duration that arms or resets Allocation.lifetimeTimer originates only from ServerConfig.AllocationLifetime, a constant equal to 10 minutes (the replacement of a zero configuration), or the LIFETIME decoded from the request; API entry parameters of the manager are tolerated as test/embedding entry points", 2)
	{
		fi := w.flow()
		tenMin := constant.MakeInt64(int64(600e9)).ExactString()
		check := func(fn *ssa.Function, v ssa.Value, at ssa.Instruction, what string) {
			c.Anchor("C06.6", what)
			lv := fi.leaves(v)
			var bad []string
			for _, l := range leafList(lv) {
				switch {
				case l == "cfg:ServerConfig.AllocationLifetime", l == "const:"+tenMin:
				case strings.HasPrefix(l, "ext:") && strings.Contains(l, "Uint32"):
				case strings.HasPrefix(l, "param:") && strings.Contains(l, "allocation.Manager).CreateAllocation"):
				case strings.HasPrefix(l, "param:") && strings.Contains(l, "allocation.Allocation).Refresh"):
				default:
					bad = append(bad, l)
				}
			}
			if len(bad) == 0 {
				c.OK("C06.6", fname(fn), what, w.instrPos(at), "sources: "+strings.Join(leafList(lv), ", "))
			} else {
				c.Bad("C06.6", fname(fn), what, w.instrPos(at), "the allocation timer can be armed from a source of another role: "+strings.Join(bad, ", ")+" (all sources: "+strings.Join(leafList(lv), ", ")+")")
			}
		}
		w.eachInstrDeep(create, func(in ssa.Instruction) {
			if call, ok := in.(*ssa.Call); ok && call.Call.StaticCallee() == afterFunc {
				check(create, call.Call.Args[0], in, "arm duration")
			}
		})
		w.eachInstr(refresh, func(in ssa.Instruction) {
			if call, ok := in.(*ssa.Call); ok && call.Call.StaticCallee() != nil && call.Call.StaticCallee().String() == "(*time.Timer).Reset" {
				check(refresh, call.Call.Args[1], in, "reset duration")
			}
		})
	}
}

// fieldLoadAddrOfLoad: v = *(&X.f) where X is an address (local struct); returns X, f.
func fieldLoadAddrOfLoad(v ssa.Value) (ssa.Value, *types.Var, bool) {
	u, ok := stripIface(under(v)).(*ssa.UnOp)
	if !ok || u.Op != token.MUL {
		return nil, nil, false
	}
	fa, ok := u.X.(*ssa.FieldAddr)
	if !ok {
		return nil, nil, false
	}
	// embedded time.Duration inside proto.Lifetime: &t.Duration
	return fa.X, fieldOf(fa), true
}

func ruleDeleteAllocation(c *Ctx, rule string) {
	w := c.W
	c.Rule(rule, "DeleteAllocation: unconditionally deletes key fiveTuple.Fingerprint() from Manager.allocations; on the path where an allocation was found it calls that allocation's Close() (with Manager.lock held) and the OnAllocationDeleted callback is on that path only", 2)
	del := w.Func("allocation", "Manager", "DeleteAllocation")
	closeFn := w.Func("allocation", "Allocation", "Close")
	fld := w.Field("allocation", "Manager", "allocations")
	li := w.lockInfo()
	c.Anchor(rule, "map delete")
	// every path through DeleteAllocation (and the helpers it is split into) deletes from the table
	isDelete := func(in ssa.Instruction) bool {
		x, ok := in.(*ssa.Call)
		if !ok {
			return false
		}
		if b, ok := x.Call.Value.(*ssa.Builtin); ok && b.Name() == "delete" {
			if _, f, isL := fieldLoad(x.Call.Args[0]); isL && f == fld {
				return true
			}
		}
		return false
	}
	okDel, _ := mustPassBefore(del.Blocks[0], w.deepHit(isDelete), func(*ssa.BasicBlock) bool { return false })
	if !okDel {
		// "delete only when present" removes as much as an unconditional delete: every
		// delete of the table in DeleteAllocation's body is guarded by nothing but the
		// presence of an entry under that very key
		nDel, onlyPresence := 0, true
		var delKey ssa.Value
		w.eachInstrDeep(del, func(in ssa.Instruction) {
			if !isDelete(in) {
				return
			}
			nDel++
			call := in.(*ssa.Call)
			if in.Parent() == del {
				delKey = call.Call.Args[1]
			}
			for _, f := range w.factsAt(in) {
				fine := false
				var v ssa.Value
				if f.Op == "true" && f.Truth {
					v = f.X // comma-ok
				} else if x, isNil, ok := nilFact(f); ok && !isNil {
					v = x
				}
				if v != nil {
					if ex, isE := stripIface(w.resolveLoad(v)).(*ssa.Extract); isE {
						if lk, isL := ex.Tuple.(*ssa.Lookup); isL {
							if _, lf, isFL := fieldLoad(lk.X); isFL && lf == fld && w.sameKey(lk.Index, call.Call.Args[1]) {
								fine = true
							}
						}
					}
					if lk, isL := stripIface(w.resolveLoad(v)).(*ssa.Lookup); isL {
						if _, lf, isFL := fieldLoad(lk.X); isFL && lf == fld && w.sameKey(lk.Index, call.Call.Args[1]) {
							fine = true
						}
					}
				}
				if !fine && in.Parent() != del {
					// facts inherited from the call site of the helper are not conditions of the delete
					site := w.singleSiteCI(in.Parent())
					if site != nil {
						for _, sf := range w.factsAt(site) {
							if w.factStr(sf) == w.factStr(f) {
								fine = true
							}
						}
					}
				}
				if !fine {
					if os.Getenv("TURNCHECK_C06DEBUG") != "" {
						fmt.Fprintf(os.Stderr, "C06.5 delete at %s: condition %s is not the presence of the entry\n", w.instrPos(in), w.factStr(f))
					}
					onlyPresence = false
				}
			}
		})
		// and the function that holds it is entered on every path
		if nDel > 0 && onlyPresence {
			reach, _ := mustPassBefore(del.Blocks[0], func(in ssa.Instruction) bool {
				if isDelete(in) {
					return true
				}
				call, ok := in.(*ssa.Call)
				if !ok || call.Call.StaticCallee() == nil {
					return false
				}
				has := false
				w.eachInstrDeep(call.Call.StaticCallee(), func(in2 ssa.Instruction) {
					if isDelete(in2) {
						has = true
					}
				})
				return has && w.singleSiteCI(call.Call.StaticCallee()) == ssa.CallInstruction(call)
			}, func(*ssa.BasicBlock) bool { return false })
			okDel = reach
			if !okDel && delKey != nil {
				// ... or directly in the body: every path passes the delete or runs under the
				// fact that the table holds nothing under that key
				isLookup := func(v ssa.Value) bool {
					v = stripIface(w.resolveLoad(v))
					if ex, isE := v.(*ssa.Extract); isE {
						v = ex.Tuple
					}
					lk, isL := v.(*ssa.Lookup)
					if !isL {
						return false
					}
					_, lf, isFL := fieldLoad(lk.X)
					return isFL && lf == fld && w.sameKey(lk.Index, delKey)
				}
				absent := func(b *ssa.BasicBlock) bool {
					for _, f := range w.factsAt(b.Instrs[0]) {
						if f.Op == "true" && !f.Truth && isLookup(f.X) {
							return true
						}
						if x, isNil, ok := nilFact(f); ok && isNil && isLookup(x) {
							return true
						}
					}
					return false
				}
				seen := map[*ssa.BasicBlock]bool{}
				var visit func(b *ssa.BasicBlock) bool
				visit = func(b *ssa.BasicBlock) bool {
					if seen[b] {
						return true
					}
					seen[b] = true
					if absent(b) {
						return true
					}
					for _, in := range b.Instrs {
						if isDelete(in) {
							return true
						}
					}
					if len(b.Succs) == 0 {
						return false
					}
					for _, s := range liveSuccs(b) {
						if !visit(s) {
							return false
						}
					}
					return true
				}
				okDel = visit(del.Blocks[0])
			}
		}
	}
	if okDel {
		c.OK(rule, fname(del), "map delete", w.pos(del.Pos()), "delete(m.allocations, fingerprint) on every path")
	} else {
		c.Bad(rule, fname(del), "map delete", w.pos(del.Pos()), "the allocation is not unconditionally removed from the table")
	}
	c.Anchor(rule, "Close on found path")
	okClose := false
	why := "Close is not called"
	w.eachInstrDeep(del, func(in ssa.Instruction) {
		call, ok := in.(*ssa.Call)
		if !ok || call.Call.StaticCallee() != closeFn {
			return
		}
		recvOK := derivesFromTable(w, call.Call.Args[0], fld)
		nonNil := false
		for _, f := range w.factsAt(in) {
			if v, isNil, ok := nilFact(f); ok && !isNil && w.sameKey(v, call.Call.Args[0]) {
				nonNil = true
			}
		}
		held := holds(li.mustAt(in), "allocation.Manager.lock", true)
		if recvOK && nonNil && held {
			okClose = true
		} else {
			why = fmt.Sprintf("Close call: receiver is the looked-up allocation=%v, on the non-nil path=%v, Manager.lock held=%v", recvOK, nonNil, held)
		}
	})
	// every path from entry to a return on the found path passes Close: the found path is the
	// fallthrough of `allocation == nil`
	if okClose {
		c.OK(rule, fname(del), "Close", w.pos(del.Pos()), "the removed allocation is closed on the found path with Manager.lock held")
	} else {
		c.Bad(rule, fname(del), "Close", w.pos(del.Pos()), why)
	}
}

// lifetimeSources classifies every source of a granted-lifetime value (C06.1/C06.2): the
// configured default (field AllocationLifetime of the request context req), or the Duration
// of a local proto.Lifetime that GetFrom(msg) may have written, under GetFrom(...) == nil and
// value < one hour. Returns a complaint, and the number of decoded / default sources.
func (w *World) lifetimeSources(v ssa.Value, at ssa.Instruction, req, msg *ssa.Parameter) (bad string, nDec, nDef int) {
	hour := int64(3600e9)
	leaves, complete := w.sources(v, at, nil)
	if !complete {
		bad = "the value could not be followed to its sources"
	}
	for i := range leaves {
		l := &leaves[i]
		// configured default: field AllocationLifetime of the request context
		if p, isP := l.val.(*ssa.Parameter); isP && (p == req || w.key(p) == w.key(req)) && len(l.sel) == 1 && len(l.frames) == 0 {
			if st, ok := derefType(p.Type()).Underlying().(*types.Struct); ok && l.sel[0] < st.NumFields() && st.Field(l.sel[0]).Name() == "AllocationLifetime" {
				nDef++
				continue
			}
		}
		// the request context copied as a whole (a stage object's embedded Request): the same
		// struct value, with the field still to be selected
		if len(l.sel) == 1 && len(l.frames) == 0 && l.mem == nil && w.key(l.val) == w.key(req) {
			if st, ok := derefType(l.val.Type()).Underlying().(*types.Struct); ok && l.sel[0] < st.NumFields() && st.Field(l.sel[0]).Name() == "AllocationLifetime" {
				nDef++
				continue
			}
		}
		if len(l.sel) == 0 && l.mem == nil && w.key(l.outer(w, l.val)) == w.key(req)+".AllocationLifetime" {
			nDef++
			continue
		}
		if os.Getenv("TURNCHECK_SRCDEBUG") != "" {
			fmt.Fprintf(os.Stderr, "LIFESRC val=%T %s sel=%v frames=%d mem=%v\n", l.val, w.key(l.val), l.sel, len(l.frames), l.mem != nil)
		}
		if l.mem == nil || l.field == nil || l.field.Name() != "Duration" || l.clobber == nil {
			bad = "a source is " + w.desc(l.val) + " (" + l.where + "), neither the configured default nor the decoded LIFETIME"
			continue
		}
		gc, _ := l.clobber.(*ssa.Call)
		if gc == nil || gc.Call.StaticCallee() == nil || gc.Call.StaticCallee().Name() != "GetFrom" || len(gc.Call.Args) != 2 || gc.Call.Args[0] != ssa.Value(l.mem) {
			bad = "the LIFETIME variable read at " + l.where + " may have been written by something other than Lifetime.GetFrom"
			continue
		}
		if om := l.outer(w, gc.Call.Args[1]); !(om == ssa.Value(msg) || w.sameKey(om, msg)) {
			bad = "the LIFETIME is decoded from " + w.desc(om) + ", not from this request"
			continue
		}
		nDec++
		okDecode, okCap := false, false
		for _, fct := range l.facts {
			if x, isNil, isNF := nilFact(fct); isNF && isNil {
				if c2, _ := callOf(x); c2 == gc {
					okDecode = true
				}
			}
			if fct.Op == "<" && fct.Truth && l.isAlias(w, fct.X) {
				if k, isC := constInt(fct.Y); isC && k == hour {
					okCap = true
				}
			}
		}
		if !okDecode {
			bad = "the decoded LIFETIME is used without Lifetime.GetFrom(m) having succeeded"
		} else if !okCap {
			bad = "the requested LIFETIME is granted without the test requested < 1h (3600 s)"
		}
	}
	return bad, nDec, nDef
}

// ruleRelayLoopGivesUpAtOnce (C06.8). The relay goroutine of an allocation ends the allocation
// by KEY (DeleteAllocation(a.fiveTuple)) when its socket fails. That is sound only if it happens
// at once: after Close the socket fails for good, and a loop that reads again (retries, backs
// off) is the loop of an allocation that may already be gone — when it finally deletes, it
// deletes whichever allocation holds the 5-tuple by then, seconds into a lifetime of minutes.
func ruleRelayLoopGivesUpAtOnce(c *Ctx, rule string) {
	w := c.W
	c.Rule(rule, "the relay loops give up at the first failed read: from the error edge of the relay socket's ReadFrom (packetConnHandler) / Accept (connHandler) the same read is not reachable again", 2)
	for _, k := range []struct{ fn, method string }{{"packetConnHandler", "ReadFrom"}, {"connHandler", "Accept"}} {
		fn := w.Func("allocation", "Allocation", k.fn)
		c.Anchor(rule, k.fn)
		n := 0
		for _, body := range w.helpersOf(fn) {
			w.eachInstr(body, func(in ssa.Instruction) {
				call, ok := in.(*ssa.Call)
				if !ok || !call.Call.IsInvoke() || call.Call.Method.Name() != k.method {
					return
				}
				if _, f, isL := fieldLoad(call.Call.Value); !isL || !strings.HasPrefix(nm(f), "relay") {
					return
				}
				n++
				var errV ssa.Value
				for _, r := range *call.Referrers() {
					if ex, isE := r.(*ssa.Extract); isE && ex.Type().String() == "error" {
						errV = ex
					}
				}
				if errV == nil {
					c.Bad(rule, fname(body), k.method, w.instrPos(in), "the read's error result is not examined")
					return
				}
				bad := ""
				for _, b := range body.Blocks {
					onErr := false
					for f := range w.facts(body).in[b] {
						if v, isNil, ok := nilFact(f); ok && !isNil && v == errV {
							onErr = true
						}
					}
					if !onErr || len(b.Instrs) == 0 {
						continue
					}
					if b == call.Block() || instrReaches(b.Instrs[0], call) {
						bad = w.pos(b.Instrs[0].Pos())
						if bad == "-" || bad == "" {
							bad = "block " + fmt.Sprint(b.Index)
						}
					}
				}
				if bad == "" {
					c.OK(rule, fname(body), k.method, w.instrPos(in), "the error edge leads to the teardown without reading again")
				} else {
					c.Bad(rule, fname(body), k.method, w.instrPos(in), "after a failed "+k.method+" the loop can read again (error edge at "+bad+"): the loop of an allocation that has been removed keeps running and later ends, by key, whichever allocation holds its 5-tuple then — an allocation granted minutes is gone within the retry delay")
				}
			})
		}
		if n == 0 {
			c.Bad(rule, fname(fn), k.method, w.pos(fn.Pos()), "no "+k.method+" on the relay socket found: anchor gone")
		}
	}
}
