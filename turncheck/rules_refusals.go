package main

import (
	"go/token"
	"strings"

	"golang.org/x/tools/go/ssa"
)

// ---- C11.7: Decode refuses only what the property lets it refuse
func ruleDecodeRefusals(c *Ctx, rule string) {
	w := c.W
	c.Rule(rule, "ChannelData.Decode succeeds exactly for buffers with a valid channel number and at least the declared bytes: every branch that takes Decode to an error return is taken because fewer than 4 bytes are there, Number.Valid() is false, or the declared length exceeds the bytes behind the header (closed refusal set, refusals.go)", 1)
	dec := w.Func("proto", "ChannelData", "Decode")
	valid := w.Func("proto", "ChannelNumber", "Valid")
	a := w.absint()
	isDeclared := func(v ssa.Value) bool {
		_, off, k, ok := w.wireField(stripIntConv(w.resolveLoad(stripIntConv(v))))
		return ok && off == 2 && k == 2
	}
	var declared []ssa.Value
	var bufV ssa.Value
	w.eachInstr(dec, func(in ssa.Instruction) {
		if v, isV := in.(ssa.Value); isV && isIntType(v.Type()) && isDeclared(v) {
			declared = append(declared, v)
			if bufV == nil {
				bufV, _, _, _ = w.wireField(stripIntConv(v))
			}
		}
	})
	isDeliver := func(in ssa.Instruction) bool {
		r, ok := in.(*ssa.Return)
		return ok && len(r.Results) == 1 && isNilConst(w.resolveLoad(r.Results[0]))
	}
	sanctioned := func(e refusalEdge) string {
		for _, f := range e.facts {
			if f.Op == "true" && !f.Truth {
				if vc, _ := callOf(f.X); vc != nil && vc.Call.StaticCallee() == valid {
					return "the channel number is out of range"
				}
			}
			if f.Op == "<" && f.Truth {
				// len(buf) < 4
				if t := termOf(f.X); t.Len && !t.Cap {
					if k, isK := constInt(f.Y); isK && k <= 4 {
						return "fewer than 4 bytes"
					}
				}
				// available < declared, in either spelling
				lenSide := func(v ssa.Value) bool {
					if t := termOf(v); t.Len && !t.Cap {
						return true
					}
					if bo, isBO := stripIntConv(v).(*ssa.BinOp); isBO && bo.Op == token.SUB {
						_, isK := constInt(bo.Y)
						return isK && termOf(bo.X).Len
					}
					return false
				}
				if lenSide(f.X) && isDeclared(f.Y) {
					return "declared length exceeds the bytes available"
				}
			}
		}
		if why := w.selfConsistencyCheck(e); why != "" {
			return why
		}
		// by linear reasoning where the target block is entered over this edge only
		if len(e.to.Preds) == 1 && len(e.to.Instrs) > 0 && bufV != nil {
			at := e.to.Instrs[0]
			if r := a.rangeOfTerm(Term{V: bufV, Len: true}, at, 3); r.hi <= 3 {
				return "fewer than 4 bytes"
			}
			for _, d := range declared {
				// len(buf) + 1 ≤ 4 + declared
				if ok, _ := a.proveLinear(Term{V: bufV, Len: true}, termOf(d), at, -3); ok {
					return "declared length exceeds the bytes available"
				}
			}
		}
		return ""
	}
	ruleRefusals(c, rule, dec, "refusals", nil, isDeliver, sanctioned, "a frame with a valid number and its declared bytes is rejected (RFC 5766 §11.5 asks neither for zero padding nor for an exact datagram size), and Decode no longer agrees with IsChannelData")
}

// ---- C05.10 / C07.10: the ChannelData path of the server relays whatever decodes and is bound
func ruleChannelPathRefusals(c *Ctx, rule string) {
	w := c.W
	c.Rule(rule, "the server's ChannelData path refuses only for the reasons the property names: handleDataPacket only when ChannelData.Decode fails; handleChannelData only when the 5-tuple has no allocation or the allocation has no binding for the number; the relay loop drops a peer datagram only on a read error, when it is over-long, when the source has neither a binding nor a permission, or when the indication cannot be built (closed refusal sets)", 3)
	// the functions of package server that take a ChannelData message from decoding to the
	// relay socket: whichever decode it (ChannelData.Decode) and whichever look the channel up
	// (GetChannelByNumber) — one function or several, under whatever names
	{
		srv := w.tpkg("server").Path()
		isRelayWrite := func(in ssa.Instruction) bool {
			call, ok := in.(*ssa.Call)
			if !ok {
				return false
			}
			if h := call.Call.StaticCallee(); h != nil && h.Name() == "WriteTo" && h.Signature.Recv() != nil && strings.Contains(h.Signature.Recv().Type().String(), "Allocation") {
				return true
			}
			return false
		}
		sanction := func(e refusalEdge) string {
			for _, f := range e.facts {
				if w.factNilCall(f, false, func(c *ssa.Call) bool {
					h := c.Call.StaticCallee()
					return h != nil && h.Name() == "Decode" && h.Signature.Recv() != nil && strings.Contains(h.Signature.Recv().Type().String(), "ChannelData")
				}) {
					return "ChannelData.Decode failed"
				}
				if w.factNilCall(f, true, w.calleeOrWrapper("GetAllocation")) {
					return "no allocation on the 5-tuple"
				}
				if w.factNilCall(f, true, w.calleeOrWrapper("GetChannelByNumber")) {
					return "no binding for the channel number"
				}
			}
			return w.selfConsistencyCheck(e)
		}
		n := 0
		for _, fn := range w.ModFns {
			if fnPkgPath(fn) != srv || fn.Parent() != nil {
				continue
			}
			var start ssa.Instruction
			w.eachInstr(fn, func(in ssa.Instruction) {
				call, ok := in.(*ssa.Call)
				if !ok || call.Call.StaticCallee() == nil || start != nil {
					return
				}
				h := call.Call.StaticCallee()
				if (h.Name() == "Decode" && h.Signature.Recv() != nil && strings.Contains(h.Signature.Recv().Type().String(), "ChannelData")) || h.Name() == "GetChannelByNumber" {
					start = in
				}
			})
			if start == nil {
				continue
			}
			// a ChannelBind handler also looks numbers up: only functions on the data path count
			if _, _, _, found := refusalsIn(w, fn, start, isRelayWrite, sanction, 0); !found {
				continue
			}
			n++
			// from the decode / lookup on: what follows either relays or refuses for a named reason
			ruleRefusals(c, rule, fn, "refusals", start, isRelayWrite, sanction,
				"a ChannelData message that decodes and names a bound, unexpired channel is not relayed — over UDP the padding is optional and trailing bytes are ignored, and the binding alone authorises relaying until it expires (it outlives the permission it installed: 10 min against 5)")
		}
		if n == 0 {
			c.Anchor(rule, "ChannelData path")
			c.Bad(rule, "server", "refusals", "-", "no function of package server takes a decoded ChannelData message to the relay socket: anchor gone")
		}
	}
	// the relay loop: peer → client
	{
		fn := w.Func("allocation", "Allocation", "packetConnHandler")
		var read *ssa.Call
		w.eachInstr(fn, func(in ssa.Instruction) {
			if call, ok := in.(*ssa.Call); ok && call.Call.IsInvoke() && call.Call.Method.Name() == "ReadFrom" && read == nil {
				read = call
			}
		})
		if read == nil {
			c.Anchor(rule, fname(fn)+" refusals")
			c.Bad(rule, fname(fn), "refusals", w.pos(fn.Pos()), "the relay loop no longer reads with ReadFrom: anchor gone")
			return
		}
		ruleRefusals(c, rule, fn, "refusals", read,
			func(in ssa.Instruction) bool {
				call, ok := in.(*ssa.Call)
				return ok && call.Call.IsInvoke() && call.Call.Method.Name() == "WriteTo"
			},
			func(e refusalEdge) string {
				chNil, permNil := false, false
				for _, f := range e.facts {
					if w.factNilCall(f, false, func(c *ssa.Call) bool { return c == read }) {
						return "the read failed"
					}
					if w.factNilCall(f, false, w.calleeOrWrapper("Build")) {
						return "the indication could not be built"
					}
					if w.factNilCall(f, true, w.calleeOrWrapper("GetChannelByAddr")) {
						chNil = true
					}
					if w.factNilCall(f, true, w.calleeOrWrapper("GetPermission")) {
						permNil = true
					}
					if f.Op == "<" { // limit < n, or ¬(n < limit)
						big, lim := f.Y, f.X
						if !f.Truth {
							big, lim = f.X, f.Y
						}
						if rc, ri := callOf(stripIntConv(w.resolveLoad(big))); rc == read && ri == 0 {
							if _, isK := constInt(stripIntConv(lim)); isK {
								return "over-long datagram (truncation guard)"
							}
						}
					}
					if f.Op == "true" && !f.Truth {
						if ex, ok := f.X.(*ssa.Extract); ok && ex.Index == 1 {
							if ta, isTA := ex.Tuple.(*ssa.TypeAssert); isTA {
								if rc, ri := callOf(w.resolveLoad(ta.X)); rc == read && ri == 1 {
									return "source address of another kind"
								}
							}
						}
					}
				}
				if chNil && permNil {
					return "neither a binding nor a permission for the source"
				}
				return ""
			}, "a datagram from a peer with a live channel binding is dropped (the binding authorises relaying until it expires, whatever became of the permission)")
	}
}

// ---- C12.11: the response with the request's transaction id completes the transaction
func ruleResponseCompletes(c *Ctx, rule string) {
	w := c.W
	c.Rule(rule, "in Client.handleSTUNMessage, once the message is a response (not a request, not an indication) the only branch that keeps it from Transaction.WriteResult is the transaction id not being in trMap (closed refusal set): a response is not discarded because of where it came from or what it carries", 1)
	fn := w.Func("turn", "Client", "handleSTUNMessage")
	wr := w.Func("client", "Transaction", "WriteResult")
	ruleRefusals(c, rule, fn, "refusals", nil,
		func(in ssa.Instruction) bool {
			call, ok := in.(*ssa.Call)
			return ok && call.Call.StaticCallee() == wr
		},
		func(e refusalEdge) string {
			for _, f := range e.own {
				// the branch itself tests the message class (in whatever form)
				if f.Op == "==" {
					for _, side := range []ssa.Value{f.X, f.Y} {
						if _, fl, ok := fieldLoad(stripConv(w.resolveLoad(side))); ok && fl.Name() == "Class" {
							return "the message is not a response"
						}
					}
				}
			}
			for _, f := range e.facts {
				// an error of the STUN library on this message: it is malformed
				if v, isNil, ok := nilFact(f); ok && !isNil && isErrorType(v.Type()) {
					if call, _ := callOf(w.resolveLoad(v)); call != nil {
						if h := call.Call.StaticCallee(); h != nil && (strings.Contains(h.String(), "pion/stun") || w.calleeOrWrapper("Decode", "GetFrom", "CloneTo")(call)) {
							return "the message is malformed (STUN library error)"
						}
					}
				}
				if f.Op == "true" && !f.Truth {
					if fc, fi := callOf(f.X); fc != nil && fi == 1 && w.calleeOrWrapper("Find")(fc) {
						return "no transaction with that id"
					}
				}
				if w.factNilCall(f, true, w.calleeOrWrapper("Find")) {
					return "no transaction with that id"
				}
			}
			return ""
		}, "the transaction is not completed by the first response that carries its id: the request is retransmitted to exhaustion and fails although the server answered (over TCP/TLS the source is a *net.TCPAddr while the request's destination was resolved as a *net.UDPAddr)")
}

// ---- C13.12: everything the client is handed for the relayed socket reaches the read queue
func ruleInboundDelivered(c *Ctx, rule string) {
	w := c.W
	c.Rule(rule, "UDPConn.HandleInbound queues every payload it is given: the only way not to is the full queue (the default case of the non-blocking send); no test of the permission or binding tables stands in front of it (closed refusal set)", 1)
	fn := w.Func("client", "UDPConn", "HandleInbound")
	var sel *ssa.Select
	w.eachInstr(fn, func(in ssa.Instruction) {
		if s, ok := in.(*ssa.Select); ok {
			sel = s
		}
	})
	if sel == nil {
		// a plain send
		ruleRefusals(c, rule, fn, "refusals", nil,
			func(in ssa.Instruction) bool { _, ok := in.(*ssa.Send); return ok },
			func(e refusalEdge) string { return "" },
			"a relayed payload is dropped before it reaches ReadFrom")
		return
	}
	// the delivering instruction is the select itself; what comes before it must not refuse
	ruleRefusals(c, rule, fn, "refusals", nil,
		func(in ssa.Instruction) bool { return in == ssa.Instruction(sel) },
		func(e refusalEdge) string { return "" },
		"a payload the server relayed is dropped before it reaches ReadFrom (permissions installed through CreatePermissions are not in the local table; the server is the one that enforces permissions)")
}

// ---- C03.8: the verdict on a nonce is a function of the nonce, the key and the clock
func ruleNonceVerdictPure(c *Ctx, rule string) {
	w := c.W
	c.Rule(rule, "NonceHash.Validate / ShortNonceHash.Validate refuse a nonce only for what is in the nonce, the key and the clock: no refusing branch depends on the result of a module function that writes state, or on a field that validations write (closed refusal set) — a nonce the server itself just issued is accepted", 2)
	for _, tn := range []string{"NonceHash", "ShortNonceHash"} {
		fn := w.FuncOpt("server", tn, "Validate")
		if fn == nil {
			continue
		}
		ruleRefusals(c, rule, fn, "refusals", nil,
			func(in ssa.Instruction) bool {
				r, ok := in.(*ssa.Return)
				return ok && len(r.Results) == 1 && isNilConst(w.resolveLoad(r.Results[0]))
			},
			func(e refusalEdge) string {
				iff, ok := e.from.Instrs[len(e.from.Instrs)-1].(*ssa.If)
				if !ok {
					return ""
				}
				stateful := w.dependsOn(iff.Cond, func(v ssa.Value) bool {
					call, isC := v.(*ssa.Call)
					if !isC {
						return false
					}
					h := call.Call.StaticCallee()
					return h != nil && w.IsMod[h] && len(w.storeSet(h)) > 0
				}, fn)
				if stateful {
					return ""
				}
				return "depends on the nonce, the key and the clock only"
			}, "the verdict depends on state that earlier validations changed (a use counter, a seen-table): the 438 challenge hands out a nonce — for ShortNonceHash the same one for the whole minute — that the server then refuses")
	}
}

// selfConsistencyCheck: the branch compares len(x.Data) with x.Length of one ChannelData value —
// a check of the decoder's own outputs against each other (equal after a successful Decode,
// C11.3a), which refuses nothing the decoder accepted.
func (w *World) selfConsistencyCheck(e refusalEdge) string {
	for _, f := range e.own {
		if f.Op != "==" {
			continue
		}
		isLenData := func(v ssa.Value) bool {
			t := termOf(v)
			if !t.Len || t.Cap {
				return false
			}
			_, fl, ok := fieldLoad(w.resolveLoad(t.V))
			if !ok {
				_, fl, ok = fieldLoad(stripIface(t.V))
			}
			return ok && fl.Name() == "Data"
		}
		isLength := func(v ssa.Value) bool {
			_, fl, ok := fieldLoad(stripIntConv(v))
			return ok && fl.Name() == "Length"
		}
		if (isLenData(f.X) && isLength(f.Y)) || (isLenData(f.Y) && isLength(f.X)) {
			return "consistency check of the decoder's own outputs (len(Data) against Length)"
		}
	}
	return ""
}
