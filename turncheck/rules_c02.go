package main

import (
	"fmt"
	"go/token"
	"go/types"
	"sort"
	"strings"

	"golang.org/x/tools/go/ssa"
)

func init() {
	register(&propDef{
		ID:        "C02",
		Title:     "Only peers a client authorised can reach it through its relayed address",
		Technique: "guarded-sink dominance with value identity (source address of the same read/accept), who-may-access on the client socket field, backward dependency slices of the key functions",
		Explanation: "C02.1 every write to Allocation.TurnSocket (all are in package allocation) is dominated by GetChannelByAddr(src)!=nil or GetPermission(src)!=nil on the same allocation, where src is result #1 of the same relay ReadFrom (resp. RemoteAddr() of the same accepted connection); " +
			"C02.2 addTCPConnection in connHandler is guarded likewise for the very connection registered, and on the no-permission edge the connection is closed on every path back to the accept loop; " +
			"C02.3 dependency slices: FingerprintAddr (and the permission table's own key function, if it has one) depends on the IP only and is a canonical form of it (shape evaluation, ipform.go), AddrEqual on IP and Port of both arguments (not the zone), GetChannelByAddr selects by AddrEqual(cb.Peer, addr); " +
			"C02.5 installed addresses do not alias decode storage and C02.6 expiry removes exactly the entry's own key (so an entry is gone after its timeout); " +
			"C02.4 the destination of those writes is the owner's a.fiveTuple.SrcAddr.",
		NotCovered: "timing of expiry; 'silently' is covered only as far as C02.1 enumerates every write to the client socket; interleavings between test and write.",
		Run:        runC02,
	})
}

func runC02(c *Ctx) {
	ruleClientSocketWrites(c, "C02.1", "C02.4")
	ruleConnHandlerGuard(c, "C02.2")
	ruleAddrDeps(c, "C02.3")
	ruleInstalledAddrFresh(c, "C02.5")
	ruleExpiryRemoves(c, "C02.6")
	// a permission that lives as long as a channel admits its peer past the permission timeout
	ruleTimerRoles(c, "C02.7")
}

// srcOfSameInput: v (possibly behind a comma-ok type assertion) is result #1 of an invoke of
// ReadFrom on recv.relayPacketConn, or RemoteAddr() of result #0 of Accept on
// recv.relayListener. Returns the originating call.
func (w *World) srcOfSameInput(v ssa.Value, recv ssa.Value) (*ssa.Call, string) {
	v = stripIface(v)
	// the source may travel in a by-value struct (datagram.from) or a single-store local
	if r := stripIface(w.resolveLoad(v)); r != v {
		if _, isP := r.(*ssa.Parameter); !isP {
			v = r
		}
	}
	for {
		if ex, ok := v.(*ssa.Extract); ok {
			if ta, ok := ex.Tuple.(*ssa.TypeAssert); ok && ex.Index == 0 {
				v = stripIface(ta.X)
				continue
			}
		}
		if ta, ok := v.(*ssa.TypeAssert); ok {
			v = stripIface(ta.X)
			continue
		}
		break
	}
	// a helper that receives the source (and the allocation) as parameters: every caller must
	// pass the source of its own read/accept
	if p, ok := v.(*ssa.Parameter); ok {
		if rp, ok2 := stripIface(recv).(*ssa.Parameter); ok2 && rp.Parent() == p.Parent() && p.Parent().Object() != nil && !p.Parent().Object().Exported() {
			sites := w.callsTo(p.Parent())
			var origin *ssa.Call
			for _, cs := range sites {
				args := cs.Common().Args
				o, why := w.srcOfSameInput(args[paramIndex(p)], args[paramIndex(rp)])
				if o == nil {
					return nil, "caller " + fname(cs.Parent()) + ": " + why
				}
				origin = o
			}
			if origin != nil {
				return origin, ""
			}
		}
	}
	call, idx := callOf(v)
	if call == nil || !call.Call.IsInvoke() {
		return nil, "source " + w.key(v) + " is not a result of the relay read/accept"
	}
	rk := w.key(recv)
	switch nm(call.Call.Method) {
	case "ReadFrom":
		if idx == 1 && w.key(call.Call.Value) == "*@"+rk+".relayPacketConn" {
			return call, ""
		}
	case "RemoteAddr":
		ac, ai := callOf(call.Call.Value)
		if ac != nil && ai == 0 && ac.Call.IsInvoke() && ac.Call.Method.Name() == "Accept" && w.key(ac.Call.Value) == "*@"+rk+".relayListener" {
			return ac, ""
		}
	}
	return nil, "source " + w.desc(v) + " is not result #1 of recv.relayPacketConn.ReadFrom / RemoteAddr() of recv.relayListener.Accept()"
}

func ruleClientSocketWrites(c *Ctx, r1, r4 string) {
	w := c.W
	fld := w.Field("allocation", "Allocation", "TurnSocket")
	c.Rule(r1, "every WriteTo on the value of Allocation.TurnSocket is dominated by recv.GetChannelByAddr(src)!=nil or recv.GetPermission(src)!=nil with src = result #1 of the same recv.relayPacketConn.ReadFrom (or RemoteAddr() of the connection just accepted on recv.relayListener); the field is only assigned in the constructor and its value is not handed elsewhere", 3)
	c.Rule(r4, "the destination of every write on Allocation.TurnSocket is recv.fiveTuple.SrcAddr of the same allocation", 3)
	getPerm := w.Func("allocation", "Allocation", "GetPermission")
	getChanA := w.Func("allocation", "Allocation", "GetChannelByAddr")
	invokes, stores, other := w.fieldUses(fld)
	for _, iv := range invokes {
		if iv.method != "WriteTo" {
			c.Triv(r1, fname(iv.fn), "TurnSocket."+iv.method, w.instrPos(iv.call), "not a send")
			continue
		}
		site := iv.call
		fn := iv.fn
		pos := w.instrPos(site)
		recv, _, _ := fieldLoad(site.Common().Value)
		c.Anchor(r1, fname(fn)+"@"+anchorOrd(c, r1, fname(fn)))
		var g *ssa.Call
		var origin *ssa.Call
		why := ""
		for _, guard := range []*ssa.Function{getChanA, getPerm} {
			g = w.guardedBy(site, guard, -1, "nonnil", func(g *ssa.Call) bool {
				if !w.sameKey(g.Call.Args[0], recv) {
					return false
				}
				o, y := w.srcOfSameInput(g.Call.Args[1], recv)
				if o == nil {
					why = y
					return false
				}
				origin = o
				return true
			})
			if g != nil {
				break
			}
		}
		if g == nil {
			if why == "" {
				why = "no dominating GetChannelByAddr/GetPermission test on this allocation"
			}
			c.Bad(r1, fname(fn), "TurnSocket.WriteTo", pos, "peer traffic is forwarded to the client without authorisation of its source: "+why, w.factsDesc(site)...)
		} else {
			c.OK(r1, fname(fn), "TurnSocket.WriteTo", pos, fmt.Sprintf("dominated by %s(recv, src) != nil at %s, src from %s at %s", g.Call.StaticCallee().Name(), w.instrPos(g), origin.Call.Method.Name(), w.instrPos(origin)))
		}
		// destination
		c.Anchor(r4, fname(fn)+"@"+anchorOrd(c, r4, fname(fn)))
		dst := site.Common().Args[1]
		if w.key(dst) == "*@*@"+w.key(recv)+".fiveTuple.SrcAddr" {
			c.OK(r4, fname(fn), "TurnSocket.WriteTo dst", pos, "destination is recv.fiveTuple.SrcAddr")
		} else {
			c.Bad(r4, fname(fn), "TurnSocket.WriteTo dst", pos, "destination is "+w.key(dst)+", not the owning client's address recv.fiveTuple.SrcAddr")
		}
	}
	ctor := w.Func("allocation", "", "NewAllocation")
	for _, st := range stores {
		if st.Parent() == ctor {
			c.Triv(r1, fname(st.Parent()), "TurnSocket=", w.instrPos(st), "constructor")
		} else {
			c.Bad(r1, fname(st.Parent()), "TurnSocket=", w.instrPos(st), "the client socket of an allocation is reassigned outside the constructor")
		}
	}
	for _, o := range other {
		c.Bad(r1, fname(o.Parent()), "TurnSocket escapes", w.instrPos(o), fmt.Sprintf("client socket value used other than by a method call (%T): writes through the alias are not checked", o))
	}
}

// anchorOrd gives successive write sites in one function distinct anchor names.
func anchorOrd(c *Ctx, rule, fn string) string {
	n := 0
	for _, a := range c.Rules[rule].Anchors {
		if strings.HasPrefix(a, fn+"@") {
			n++
		}
	}
	return fmt.Sprint(n)
}

func ruleConnHandlerGuard(c *Ctx, rule string) {
	w := c.W
	c.Rule(rule, "in connHandler, addTCPConnection(manager, a, conn) is dominated by a.GetPermission(assert(conn.RemoteAddr()))!=nil for the same conn, and on the no-permission edge conn.Close() is called on every path before the loop continues", 2)
	fn := w.Func("allocation", "Allocation", "connHandler")
	add := w.Func("allocation", "Manager", "addTCPConnection")
	getPerm := w.Func("allocation", "Allocation", "GetPermission")
	recv := fn.Params[0]
	n := 0
	w.eachInstrDeep(fn, func(in ssa.Instruction) {
		call, ok := in.(*ssa.Call)
		if !ok || call.Call.StaticCallee() != add {
			return
		}
		n++
		hfn := call.Parent() // connHandler, or the single-call-site helper holding the loop body
		c.Anchor(rule, "addTCPConnection")
		conn := call.Call.Args[2]
		g := w.guardedBy(call, getPerm, -1, "nonnil", func(g *ssa.Call) bool {
			if !w.sameKey(g.Call.Args[0], recv) || !w.sameKey(call.Call.Args[1], recv) {
				return false
			}
			o, _ := w.srcOfSameInput(g.Call.Args[1], recv)
			if o == nil {
				return false
			}
			// the accepted conn is the one registered
			cc, ci := callOf(conn)
			return cc == o && ci == 0
		})
		if g == nil {
			c.Bad(rule, fname(fn), "addTCPConnection", w.instrPos(call), "inbound peer connection is registered (and announced) without a permission test on the remote address of that same connection", w.factsDesc(call)...)
			return
		}
		c.OK(rule, fname(fn), "addTCPConnection", w.instrPos(call), "dominated by GetPermission(a, assert(conn.RemoteAddr())) != nil for the accepted conn")
		// failing edge closes conn
		var iff *ssa.If
		var nilSucc *ssa.BasicBlock
		for _, b := range hfn.Blocks {
			i, ok := b.Instrs[len(b.Instrs)-1].(*ssa.If)
			if !ok {
				continue
			}
			for _, f := range normCond(i.Cond, true) {
				if v, isNil, ok := nilFact(f); ok {
					gc, _ := callOf(v)
					if gc == nil {
						gc = w.asAccessorCall(v, getPerm)
					}
					if gc == g {
						iff = i
						if isNil {
							nilSucc = b.Succs[0]
						} else {
							nilSucc = b.Succs[1]
						}
					}
				}
			}
		}
		if iff == nil {
			c.Undecided(rule, fname(fn), "no-permission edge", w.instrPos(g), "cannot locate the branch on the permission test")
			return
		}
		c.Anchor(rule, "no-permission edge")
		okAll, trail := mustPassBefore(nilSucc, func(in ssa.Instruction) bool {
			ci, ok := in.(ssa.CallInstruction)
			return ok && ci.Common().IsInvoke() && ci.Common().Method.Name() == "Close" && w.sameKey(ci.Common().Value, conn)
		}, func(b *ssa.BasicBlock) bool { return b.Dominates(iff.Block()) })
		if okAll {
			c.OK(rule, fname(fn), "no-permission edge", w.instrPos(iff), "conn.Close() on every path from the no-permission edge back to the accept loop")
		} else {
			c.Bad(rule, fname(fn), "no-permission edge", w.instrPos(iff), "an unauthorised inbound connection can stay open: a path from the no-permission edge reaches the loop head without conn.Close()", trail...)
		}
	})
	if n == 0 {
		c.Bad(rule, fname(fn), "addTCPConnection", w.pos(fn.Pos()), "connHandler no longer registers connections through addTCPConnection: anchor gone")
	}
}

// mustPassBefore: every path from start to a stop block (or a function exit) contains an
// instruction satisfying hit. Returns the offending block trail otherwise.
func mustPassBefore(start *ssa.BasicBlock, hit func(ssa.Instruction) bool, stop func(*ssa.BasicBlock) bool) (bool, []string) {
	return mustPassBeforeX(start, hit, stop, false)
}

// mustPassBeforeX: with exitOK, paths that leave the function are acceptable.
func mustPassBeforeX(start *ssa.BasicBlock, hit func(ssa.Instruction) bool, stop func(*ssa.BasicBlock) bool, exitOK bool) (bool, []string) {
	seen := map[*ssa.BasicBlock]bool{}
	var trail []string
	var visit func(b *ssa.BasicBlock) bool
	visit = func(b *ssa.BasicBlock) bool {
		if seen[b] {
			return true
		}
		seen[b] = true
		for _, in := range b.Instrs {
			if hit(in) {
				return true
			}
		}
		if exitOK && len(b.Succs) == 0 && !stop(b) {
			return true
		}
		if stop(b) || len(b.Succs) == 0 {
			trail = append(trail, fmt.Sprintf("block %d (%s) reached without it", b.Index, b.Comment))
			return false
		}
		for _, s := range liveSuccs(b) {
			if !visit(s) {
				trail = append(trail, fmt.Sprintf("via block %d (%s)", b.Index, b.Comment))
				return false
			}
		}
		return true
	}
	ok := visit(start)
	return ok, trail
}

// ---------------------------------------------------------------------------------
// C02.3 dependency slices

// addrFieldDeps: the set of net.UDPAddr/net.TCPAddr fields on which the results of fn depend
// (data dependence from the returned values plus all branch conditions of fn), following
// calls into module functions one level.
func (w *World) addrFieldDeps(fn *ssa.Function) []string {
	fields := map[string]bool{}
	seen := map[ssa.Value]bool{}
	var walk func(v ssa.Value)
	walk = func(v ssa.Value) {
		if v == nil || seen[v] {
			return
		}
		seen[v] = true
		switch x := v.(type) {
		case *ssa.FieldAddr:
			if n := namedOf(x.X.Type()); n != nil && n.Obj().Pkg() != nil && n.Obj().Pkg().Path() == "net" {
				fields[n.Obj().Name()+"."+derefStruct(x.X.Type()).Field(x.Field).Name()] = true
			}
			walk(x.X)
			return
		case *ssa.Field:
			walk(x.X)
			return
		}
		if in, ok := v.(ssa.Instruction); ok {
			for _, op := range in.Operands(nil) {
				if *op != nil {
					walk(*op)
				}
			}
		}
	}
	for _, b := range fn.Blocks {
		switch t := b.Instrs[len(b.Instrs)-1].(type) {
		case *ssa.Return:
			for _, r := range t.Results {
				walk(w.resolveLoad(r))
			}
		case *ssa.If:
			walk(t.Cond)
		}
	}
	var out []string
	for f := range fields {
		out = append(out, f)
	}
	sort.Strings(out)
	return out
}

func namedOf(t types.Type) *types.Named {
	if p, ok := t.Underlying().(*types.Pointer); ok {
		t = p.Elem()
	}
	if p, ok := t.(*types.Pointer); ok {
		t = p.Elem()
	}
	n, _ := t.(*types.Named)
	return n
}

func ruleAddrDeps(c *Ctx, rule string) {
	w := c.W
	c.Rule(rule, "dependency slices: the result of FingerprintAddr depends on exactly the IP field of its argument; the result of AddrEqual on exactly IP and Port (of UDP and TCP addresses), never the zone; GetChannelByAddr returns an element only on the AddrEqual(cb.Peer, addr) edge", 3)
	want := map[string][]string{
		"FingerprintAddr": {"TCPAddr.IP", "UDPAddr.IP"},
		"AddrEqual":       {"TCPAddr.IP", "TCPAddr.Port", "UDPAddr.IP", "UDPAddr.Port"},
	}
	for _, name := range []string{"FingerprintAddr", "AddrEqual"} {
		fn := w.Func("ipnet", "", name)
		c.Anchor(rule, name)
		got := w.addrFieldDeps(fn)
		if name == "FingerprintAddr" {
			// the shape evaluator's view: it ran the function for every shape of address, and
			// a use of the port or the zone would have tainted the key
			if decided, canonical, _ := w.ipKeyVerdict(fn); decided && canonical {
				got = want[name]
			}
		}
		if name == "AddrEqual" {
			// written with net/netip (AddrPort values compared): the netip evaluator's view
			if ok, deps, _, _ := w.netipAddrEqual(fn); ok {
				got = deps
			}
		}
		if strings.Join(got, ",") == strings.Join(want[name], ",") {
			c.OK(rule, fname(fn), name+" deps", w.pos(fn.Pos()), "result depends on exactly {"+strings.Join(got, ", ")+"}")
		} else {
			c.Bad(rule, fname(fn), name+" deps", w.pos(fn.Pos()), "result depends on {"+strings.Join(got, ", ")+"}, expected exactly {"+strings.Join(want[name], ", ")+"}")
		}
	}
	// FingerprintAddr is a KEY: two addresses get the same fingerprint exactly when they are the
	// same IP (4-byte and IPv4-mapped spelling being one). Dependence on the IP alone does not
	// give that — packing the bytes into a fixed array makes a.b.c.d collide with aabb:ccdd::,
	// To4() maps every IPv6 address to nil. Accepted canonical forms: IP.String() of the
	// address's IP, or the bytes of IP.To16().
	{
		fn := w.Func("ipnet", "", "FingerprintAddr")
		bad := ""
		n := 0
		var canon func(v ssa.Value, d int) (bool, string)
		canon = func(v ssa.Value, d int) (bool, string) {
			v = stripIface(w.resolveLoad(v))
			if d > 4 {
				return false, "too deep"
			}
			if k, isC := v.(*ssa.Const); isC {
				if k.Value != nil && k.Value.ExactString() == `""` {
					return true, ""
				}
				return false, "a constant"
			}
			isIPField := func(x ssa.Value) bool {
				_, f, ok := fieldLoad(stripIface(w.resolveLoad(x)))
				if !ok {
					if p, isP := stripIface(w.resolveLoad(x)).(*ssa.Parameter); isP && d > 0 {
						_ = p
						return true // the helper's own parameter: judged at the call (below)
					}
				}
				return ok && f.Name() == "IP"
			}
			switch x := v.(type) {
			case *ssa.Phi:
				for _, e := range x.Edges {
					if ok, why := canon(e, d+1); !ok {
						return false, why
					}
				}
				return true, ""
			case *ssa.Call:
				switch stdCallee(&x.Call) {
				case "(net.IP).String":
					if isIPField(x.Call.Args[0]) {
						return true, ""
					}
					return false, "String() of a transformed address"
				}
				if h := x.Call.StaticCallee(); h != nil && w.IsMod[h] && len(h.Blocks) > 0 && len(x.Call.Args) == 1 && isIPField(x.Call.Args[0]) {
					for _, r := range returnsOf(h) {
						if ok, why := canon(r.Results[0], d+1); !ok {
							return false, why
						}
					}
					return true, ""
				}
				return false, "the result of " + w.desc(v)
			case *ssa.Convert:
				// string(ip.To16())
				if c2, _ := callOf(stripIface(w.resolveLoad(x.X))); c2 != nil && stdCallee(&c2.Call) == "(net.IP).To16" && isIPField(c2.Call.Args[0]) {
					return true, ""
				}
				return false, "a string made of raw bytes that are not the To16() form (" + w.desc(x.X) + ")"
			}
			return false, w.desc(v)
		}
		for _, r := range returnsOf(fn) {
			n++
			if ok, why := canon(r.Results[0], 0); !ok {
				bad = "the fingerprint returned at " + w.instrPos(r) + " is " + why
			}
		}
		// however the key is put together: the function evaluated over the three shapes of
		// an IP (4-byte, IPv4-mapped, genuine IPv6) — see ipform.go; the syntactic forms above
		// decide only where that evaluator does not apply
		if decided, canonical, why := w.ipKeyVerdict(fn); decided {
			if canonical {
				bad = ""
			} else {
				bad = why
			}
		}
		if bad == "" && n > 0 {
			c.OK(rule, fname(fn), "FingerprintAddr canonical", w.pos(fn.Pos()), "the key is IP.String() / the To16() bytes of the address's IP: one key per address")
		} else {
			c.Bad(rule, fname(fn), "FingerprintAddr canonical", w.pos(fn.Pos()), bad+": not a canonical form of the IP — different addresses can share a key (bytes packed into a fixed array make a.b.c.d collide with aabb:ccdd::; To4() is nil for every IPv6 address), so a permission for one peer admits another")
		}
	}
	// the permission table keyed by a function of its own: the same obligation on that function
	if kf := w.permKeyFn(); kf != w.Func("ipnet", "", "FingerprintAddr") {
		decided, canonical, why := w.ipKeyVerdict(kf)
		switch {
		case decided && canonical:
			c.OK(rule, fname(kf), "permission key canonical", w.pos(kf.Pos()), "evaluated over the three shapes of an IP (4-byte, IPv4-mapped, IPv6): one key per address, no two addresses share one, port and zone play no part")
		case decided:
			c.Bad(rule, fname(kf), "permission key canonical", w.pos(kf.Pos()), "the function that keys the permission table is not a canonical form of the peer IP: "+why+" — a permission for one peer admits another, or is not found for its own peer")
		default:
			c.Bad(rule, fname(kf), "permission key canonical", w.pos(kf.Pos()), "cannot show that the function that keys the permission table is a canonical form of the peer IP: "+why)
		}
	}
	// AddrEqual must compare a with b (not a with a): each comparison pairs the two parameters
	{
		fn := w.Func("ipnet", "", "AddrEqual")
		bad := ""
		n := 0
		w.eachInstr(fn, func(in ssa.Instruction) {
			var x, y ssa.Value
			switch t := in.(type) {
			case *ssa.BinOp:
				if t.Op != token.EQL && t.Op != token.NEQ {
					return
				}
				x, y = t.X, t.Y
			case *ssa.Call:
				cal := t.Call.StaticCallee()
				if cal == nil || cal.Name() != "Equal" || len(t.Call.Args) != 2 {
					return
				}
				x, y = t.Call.Args[0], t.Call.Args[1]
			default:
				return
			}
			px, py := paramRoot(w, x), paramRoot(w, y)
			if px == nil || py == nil {
				return
			}
			n++
			if px == py {
				bad = "comparison at " + w.instrPos(in) + " pairs a parameter with itself"
			}
		})
		if ok, _, cross, self := w.netipAddrEqual(fn); ok && n < 4 {
			n = cross
			if self {
				bad = "a comparison pairs a parameter with itself"
			}
		}
		if bad != "" || n < 4 {
			if bad == "" {
				bad = fmt.Sprintf("only %d cross-parameter comparisons (want IP and Port for UDP and TCP)", n)
			}
			c.Bad(rule, fname(fn), "AddrEqual pairs", w.pos(fn.Pos()), bad)
		} else {
			c.OK(rule, fname(fn), "AddrEqual pairs", w.pos(fn.Pos()), fmt.Sprintf("%d comparisons, each between addrA and addrB", n))
		}
	}
	{
		fn := w.Func("allocation", "Allocation", "GetChannelByAddr")
		eq := w.Func("ipnet", "", "AddrEqual")
		c.Anchor(rule, "GetChannelByAddr")
		bad := ""
		n := 0
		for _, ret := range returnsOf(fn) {
			for _, lf := range w.guardedLeaves(ret.Results[0], ret) {
				v := lf.val
				if isNilConst(v) {
					continue
				}
				n++
				okEq := false
				for _, g := range w.guardCallsIn(lf.facts, eq, -1, "true", 2) {
					a0, a1 := g.Call.Args[0], g.Call.Args[1]
					if (w.isFieldLoadOf(a0, v, "Peer") && w.sameKey(a1, fn.Params[1])) || (w.isFieldLoadOf(a1, v, "Peer") && w.sameKey(a0, fn.Params[1])) {
						okEq = true
					}
				}
				if !okEq {
					bad = "returns an element (selected at " + lf.at + ") without AddrEqual(element.Peer, addr) being true"
				}
				if !derivesFromTable(w, v, w.Field("allocation", "Allocation", "channelBindings")) {
					bad = "returns " + w.desc(v) + " at " + w.instrPos(ret) + ", which is not an element read from the live channelBindings table (a remembered binding survives its expiry)"
				}
			}
		}
		if bad == "" && n > 0 {
			c.OK(rule, fname(fn), "GetChannelByAddr", w.pos(fn.Pos()), "non-nil only on the AddrEqual(cb.Peer, addr) edge for the returned element")
		} else {
			if bad == "" {
				bad = "never returns an element"
			}
			c.Bad(rule, fname(fn), "GetChannelByAddr", w.pos(fn.Pos()), bad)
		}
	}
}

// paramRoot: the parameter a value is derived from through type assertions, extracts and
// field loads.
func paramRoot(w *World, v ssa.Value) *ssa.Parameter {
	for i := 0; i < 20; i++ {
		v = stripIface(v)
		switch x := v.(type) {
		case *ssa.Parameter:
			return x
		case *ssa.Extract:
			v = x.Tuple
		case *ssa.TypeAssert:
			v = x.X
		case *ssa.UnOp:
			v = x.X
		case *ssa.FieldAddr:
			v = x.X
		case *ssa.Field:
			v = x.X
		case *ssa.Phi:
			var p *ssa.Parameter
			for _, e := range x.Edges {
				if isNilConst(e) {
					continue
				}
				q := paramRoot(w, e)
				if q == nil || (p != nil && q != p) {
					return nil
				}
				p = q
			}
			return p
		case *ssa.Convert:
			v = x.X
		case *ssa.ChangeType:
			v = x.X
		default:
			return nil
		}
	}
	return nil
}
