package main

import "golang.org/x/tools/go/ssa"

func init() {
	register(&propDef{
		ID:        "C18",
		Technique: "lock-balance path exploration, call-graph entry locksets, lock-order graph, guarded-by and atomic-consistency lints, init-before-publish typestate over go/ssa",
		Title:     "Concurrent use is free of data races, lock-ups and teardown crashes",
		Explanation: "Decides the lock discipline the property depends on, for every function of the module and every control-flow path: " +
			"L1 no function returns with a lock it acquired still held (all paths, deferred unlocks modelled); " +
			"L2 the lock-order graph over lock classes, built with entry locksets propagated over the whole call graph, is acyclic and no class is re-acquired while held; " +
			"L3 every access to a field of the frozen guarded-by table holds its lock (write mode for writes); " +
			"L4 fields accessed with sync/atomic are never accessed plainly; " +
			"E7 timers dereferenced without a nil test are armed before (or within the same critical section as) the store that publishes their owner in a shared table; " +
			"C15.4 Allocation.Close / removeTCPConnection run only with Manager.lock in the entry lockset; every close(ch) is preceded by a closed-test or happens once by construction.",
		NotCovered: "The race detector's verdict and deadlock freedom under every schedule are dynamic; what is decided is the lock discipline (necessary conditions). Check-then-act windows between a guard and its use are not covered.",
		Run:        runC18,
	})
}

func runC18(c *Ctx) {
	ruleL1(c, "C18.L1", 55, nil)
	ruleL2(c, "C18.L2")
	ruleL3(c, "C18.L3", nil)
	ruleL4(c, "C18.L4")
	_ = ssa.Function{}
}
