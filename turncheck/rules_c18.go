package main

import (
	"fmt"
	"go/types"
	"strings"

	"golang.org/x/tools/go/ssa"
)

func init() {
	register(&propDef{
		ID:        "C18",
		Technique: "lock-balance path exploration, call-graph entry locksets, lock-order graph, guarded-by and atomic-consistency lints, init-before-publish typestate over go/ssa",
		Title:     "Concurrent use is free of data races, lock-ups and teardown crashes",
		Explanation: "Decides the lock discipline the property depends on, for every function of the module and every control-flow path: " +
			"L1 no function returns with a lock it acquired still held (all paths, deferred unlocks modelled); " +
			"L2 the lock-order graph over lock classes, built with entry locksets propagated over the whole call graph, is acyclic and no class is re-acquired while held; " +
			"L3 every access to a field of the frozen guarded-by table holds its lock (write mode for writes); " +
			"L4 fields accessed with sync/atomic are never accessed plainly; " +
			"E7 timers dereferenced without a nil test are armed before (or within the same critical section as) the store that publishes their owner in a shared table; " +
			"C15.4 Allocation.Close / removeTCPConnection run only with Manager.lock in the entry lockset; every close(ch) is preceded by a closed-test or happens once by construction; " +
			"cb operator callbacks are not invoked with Manager.lock possibly held (two teardown events are the listed exceptions); " +
			"hash no hash/HMAC state shared through a struct field or captured variable is used without a lock (none exists today). C18.wr (=C12.12) the transaction result is handed over; C18.nm a map field that is inserted into is never assigned nil. fd (=C12.2) Find and Delete of a completed transaction sit inside one hold of Client.mutexTrMap.",
		NotCovered: "The race detector's verdict and deadlock freedom under every schedule are dynamic; what is decided is the lock discipline (necessary conditions). Check-then-act windows between a guard and its use are not covered.",
		Run:        runC18,
	})
}

func runC18(c *Ctx) {
	debugL3(c.W)
	ruleL1(c, "C18.L1", 55, nil)
	ruleL2(c, "C18.L2")
	ruleL3(c, "C18.L3", nil)
	ruleL4(c, "C18.L4")
	ruleInitBeforePublish(c, "C18.E7")
	ruleNoGuardedAlias(c, "C18.L3b")
	ruleCloseUnderLock(c, "C18.C15_4")
	ruleCloseOnce(c, "C18.close")
	ruleCallbacksOutsideManagerLock(c, "C18.cb")
	ruleSharedHashState(c, "C18.hash")
	ruleResultHandOff(c, "C18.wr")
	ruleNoNilMapField(c, "C18.nm")
	ruleCompletionByRemover(c, "C18.fd")
}

// ruleCallbacksOutsideManagerLock: operator-supplied callbacks run without the manager-wide
// lock: a handler that calls back into the manager (AllocationCount, a metrics scrape) would
// deadlock itself, a slow one would stall every other allocation.
func ruleCallbacksOutsideManagerLock(c *Ctx, rule string) {
	w := c.W
	li := w.lockInfo()
	c.Rule(rule, "no operator callback under the manager lock: every dynamic call of a function-typed field of an EventHandler / of a configured handler (fields named On*, PermissionHandler, AuthHandler, QuotaHandler) in package allocation is made with allocation.Manager.lock not possibly held (may-lockset over all callers)", 4)
	const mgr = "allocation.Manager.lock"
	allocPath := w.tpkg("allocation").Path()
	n := 0
	for _, fn := range w.ModFns {
		if fnPkgPath(fn) != allocPath {
			continue
		}
		w.eachInstr(fn, func(in ssa.Instruction) {
			call, ok := in.(*ssa.Call)
			if !ok || call.Call.StaticCallee() != nil || call.Call.IsInvoke() {
				return
			}
			_, f, isL := fieldLoad(call.Call.Value)
			if !isL {
				return
			}
			name := f.Name()
			if !(strings.HasPrefix(name, "On") || strings.HasSuffix(name, "Handler") || strings.HasSuffix(name, "handler")) {
				return
			}
			if _, isSig := f.Type().Underlying().(*types.Signature); !isSig {
				return
			}
			n++
			c.Anchor(rule, name)
			may := li.mayAt(in)
			// confirmed exceptions (read on the reference tree): the per-entry deleted-events of
			// an allocation's teardown — Allocation.Close runs under Manager.lock by design
			// (C15.4: it also guards the allocation's TCP connections), and Close removes every
			// permission and binding through the functions that report them
			if (name == "OnPermissionDeleted" || name == "OnChannelDeleted") && (holds(may, mgr, false) || holds(may, mgr, true)) {
				c.Triv(rule, fname(fn), name, w.instrPos(in), "teardown path: reached from Allocation.Close, which runs under Manager.lock by design (C15.4)")
				return
			}
			if holds(may, mgr, false) || holds(may, mgr, true) {
				c.Bad(rule, fname(fn), name, w.instrPos(in), "the operator callback "+name+" can run with Manager.lock held: a handler that queries the manager deadlocks, a slow handler stalls every allocation of this listener")
			} else {
				c.OK(rule, fname(fn), name, w.instrPos(in), "Manager.lock is not held here")
			}
		})
	}
	if n == 0 {
		c.Bad(rule, "-", "callbacks", "-", "no operator callback invocation found in package allocation: anchor gone")
	}
}

// ruleSharedHashState: a hash.Hash (or cipher/HMAC state) kept in a struct field is shared,
// mutable, not safe for concurrent use; the nonce managers and auth handlers are used from
// every read loop at once.
func ruleSharedHashState(c *Ctx, rule string) {
	w := c.W
	li := w.lockInfo()
	c.Rule(rule, "no unsynchronised shared hash state: a struct field or captured variable of type hash.Hash (an HMAC/MD5/SHA state) that module code invokes Write/Sum/Reset on is used only with a mutex of the same object held; per-call hash.New / hmac.New values (the form used today) are unshared and need nothing. Expected instances today: 0 uses of shared state", 0)
	isHash := func(t types.Type) bool { return t != nil && t.String() == "hash.Hash" }
	n, nLocal := 0, 0
	for _, fn := range w.ModFns {
		if fn.Synthetic != "" {
			continue
		}
		w.eachInstr(fn, func(in ssa.Instruction) {
			call, ok := in.(*ssa.Call)
			if !ok || !call.Call.IsInvoke() || !isHash(call.Call.Value.Type()) {
				return
			}
			switch call.Call.Method.Name() {
			case "Write", "Sum", "Reset":
			default:
				return
			}
			v := w.resolveLoad(call.Call.Value)
			shared := ""
			if base, f, isL := fieldLoad(v); isL {
				shared = "field " + f.Name()
				// a field of an object taken out of a sync.Pool: owned by this invocation until
				// it is put back
				org := map[string]bool{}
				w.ptrOrigins(base, 5, map[ssa.Value]bool{}, org)
				if len(org) == 1 && org["pool"] {
					shared = ""
				}
			} else if fv, isFV := v.(*ssa.FreeVar); isFV {
				shared = "captured variable " + fv.Name()
			} else if u, isU := v.(*ssa.UnOp); isU {
				if fv, isFV := u.X.(*ssa.FreeVar); isFV {
					shared = "captured variable " + fv.Name()
				}
				if g, isG := u.X.(*ssa.Global); isG {
					shared = "global " + g.Name()
				}
			}
			if shared == "" {
				nLocal++
				return
			}
			n++
			c.Anchor(rule, fname(fn))
			if len(li.mustAt(in)) > 0 {
				c.OK(rule, fname(fn), "hash state", w.instrPos(in), "shared hash state ("+shared+") used with a lock held")
			} else {
				c.Bad(rule, fname(fn), "hash state", w.instrPos(in), "the hash state in "+shared+" is shared between concurrent requests and used without a lock: interleaved Reset/Write/Sum produce wrong MACs (spurious rejections) or panic inside the hash")
			}
		})
	}
	if n == 0 {
		c.Triv(rule, "-", "hash state", "-", fmt.Sprintf("no shared hash state in the module (%d uses of per-call hash values)", nLocal))
	}
}

// ---------------------------------------------------------------------------------
// E7 — init-before-publish for timers that are dereferenced without a nil test

type publishSpec struct {
	tablePkg, tableType, tableField string // shared table
	elemType, timerField            string // element type and its pointer-typed timer field
	lockClass                       string
}

var publishTable = []publishSpec{
	{"allocation", "Allocation", "permissions", "Permission", "lifetimeTimer", "allocation.Allocation.permissionsLock"},
	{"allocation", "Allocation", "channelBindings", "ChannelBind", "lifetimeTimer", "allocation.Allocation.channelBindingsLock"},
	{"allocation", "Allocation", "tcpConnections", "tcpConnection", "bindTimer", "allocation.Manager.lock"},
	{"allocation", "Manager", "allocations", "Allocation", "lifetimeTimer", "allocation.Manager.lock"},
}

func ruleInitBeforePublish(c *Ctx, rule string) {
	w := c.W
	li := w.lockInfo()
	c.Rule(rule, "E7 init-before-publish: for each table whose elements own a timer that other code dereferences without a nil test (Permission/ChannelBind.lifetimeTimer, tcpConnection.bindTimer, Allocation.lifetimeTimer), the store that publishes an element in the table is dominated by the assignment of that element's timer, or the table's write lock is held continuously from the publishing store to that assignment (the assignment may be inside a method called on the element)", 4)
	for _, ps := range publishTable {
		tbl := w.Field(ps.tablePkg, ps.tableType, ps.tableField)
		elemN := w.Named("allocation", ps.elemType)
		timer := w.Field("allocation", ps.elemType, ps.timerField)
		// methods of the element type that assign the timer of their receiver
		inits := map[*ssa.Function]bool{}
		for _, fn := range w.ModFns {
			if fn.Signature.Recv() == nil || !isPtrToNamed(fn.Signature.Recv().Type(), elemN) {
				continue
			}
			w.eachInstr(fn, func(in ssa.Instruction) {
				if st, ok := in.(*ssa.Store); ok {
					if fa, ok := st.Addr.(*ssa.FieldAddr); ok && fieldOf(fa) == timer && w.sameKey(fa.X, fn.Params[0]) {
						inits[fn] = true
					}
				}
			})
		}
		name := ps.elemType + "." + ps.timerField + " in " + ps.tableField
		n := 0
		for _, fn := range w.ModFns {
			w.eachInstr(fn, func(in ssa.Instruction) {
				// publishing instruction and the published object
				var obj ssa.Value
				switch x := in.(type) {
				case *ssa.MapUpdate:
					if _, f, ok := fieldLoad(x.Map); ok && f == tbl {
						obj = x.Value
					}
				case *ssa.Store:
					if fa, ok := x.Addr.(*ssa.FieldAddr); ok && fieldOf(fa) == tbl {
						// append(table, obj)
						if call, ok := x.Val.(*ssa.Call); ok {
							if b, isB := call.Call.Value.(*ssa.Builtin); isB && b.Name() == "append" && len(call.Call.Args) == 2 {
								for _, e := range variadicElems(call.Call.Args[1]) {
									if isPtrToNamed(e.Type(), elemN) {
										obj = e
									}
								}
							}
						}
					}
				}
				if obj == nil {
					return
				}
				obj = w.resolveLoad(obj)
				n++
				c.Anchor(rule, name)
				// initialising instructions for this object
				isInit := func(in2 ssa.Instruction) bool {
					switch y := in2.(type) {
					case *ssa.Store:
						if fa, ok := y.Addr.(*ssa.FieldAddr); ok && fieldOf(fa) == timer && !isNilConst(y.Val) && (w.sameKey(w.resolveLoad(fa.X), obj) || w.sameKey(fa.X, obj)) {
							return true
						}
					case *ssa.Call:
						if cal := y.Call.StaticCallee(); cal != nil && inits[cal] && (w.sameKey(w.resolveLoad(y.Call.Args[0]), obj) || w.sameKey(y.Call.Args[0], obj)) {
							return true
						}
					}
					return false
				}
				// the publication may sit in a function literal or helper of the function that
				// arms the timer: an initialisation that dominates it there is as good
				if w.domHit(in, isInit) {
					c.OK(rule, fname(fn), name, w.instrPos(in), "the timer is assigned before the publishing store on every path")
					return
				}
				var initInstrs []ssa.Instruction
				w.eachInstr(fn, func(in2 ssa.Instruction) {
					if isInit(in2) {
						initInstrs = append(initInstrs, in2)
					}
				})
				if len(initInstrs) == 0 {
					c.Bad(rule, fname(fn), name, w.instrPos(in), "an element is published in "+ps.tableField+" and its "+ps.timerField+" is never assigned in the publishing function: readers dereference a nil timer")
					return
				}
				for _, ii := range initInstrs {
					before := (ii.Block() == in.Block() && indexIn(ii) < indexIn(in)) || (ii.Block() != in.Block() && ii.Block().Dominates(in.Block()))
					if before {
						c.OK(rule, fname(fn), name, w.instrPos(in), "the timer is assigned at "+w.instrPos(ii)+", which dominates the publishing store")
						return
					}
				}
				// lock held continuously from publish to init
				for _, ii := range initInstrs {
					after := (ii.Block() == in.Block() && indexIn(in) < indexIn(ii)) || (ii.Block() != in.Block() && in.Block().Dominates(ii.Block()))
					if !after {
						continue
					}
					heldP := holds(li.mustAt(in), ps.lockClass, true)
					heldI := holds(li.mustAt(ii), ps.lockClass, true)
					unlocked := false
					w.eachInstr(fn, func(in3 ssa.Instruction) {
						if call, ok := in3.(*ssa.Call); ok {
							if lo := w.lockOpOf(&call.Call); lo != nil && lo.class == ps.lockClass && lo.op == "Unlock" && instrReaches(in, in3) && instrReaches(in3, ii) {
								unlocked = true
							}
						}
					})
					if heldP && heldI && !unlocked {
						c.OK(rule, fname(fn), name, w.instrPos(in), "published at "+w.instrPos(in)+" and timer assigned at "+w.instrPos(ii)+" within one hold of "+ps.lockClass)
						return
					}
				}
				c.Bad(rule, fname(fn), name, w.instrPos(in), "the element becomes visible in "+ps.tableField+" before its "+ps.timerField+" exists and outside the table's critical section: a concurrent Close/refresh dereferences a nil *time.Timer and crashes the process")
			})
		}
		if n == 0 {
			c.Bad(rule, "-", name, "-", "no publishing store into "+ps.tableField+" found: anchor gone")
		}
	}
}

// ---------------------------------------------------------------------------------
// L3b — guarded storage does not leak out of its critical section

func ruleNoGuardedAlias(c *Ctx, rule string) {
	w := c.W
	c.Rule(rule, "L3b: the slice/map value of a guarded-by field is only indexed, ranged over, measured (len), passed to append as the appended source or as the base that is stored straight back into the field, or passed to delete/copy; it is never returned, stored elsewhere or handed to a call — a reference that escapes the critical section is read without the lock", 4)
	for _, g := range guardedTable {
		f := w.FieldOpt(g.pkg, g.typ, g.field)
		if f == nil {
			continue // the field no longer exists
		}
		switch f.Type().Underlying().(type) {
		case *types.Slice, *types.Map:
		default:
			continue
		}
		name := g.pkg + "." + g.typ + "." + g.field
		if _, isSlice := f.Type().Underlying().(*types.Slice); isSlice && !w.mutatedInPlace(f) {
			// a slice that is only ever replaced wholesale may be handed out: readers keep a
			// consistent old value (e.g. the client's current nonce)
			continue
		}
		for _, fn := range w.ModFns {
			w.eachInstr(fn, func(in ssa.Instruction) {
				fa, ok := in.(*ssa.FieldAddr)
				if !ok || fieldOf(fa) != f {
					return
				}
				for _, r := range *fa.Referrers() {
					ld, ok := r.(*ssa.UnOp)
					if !ok {
						continue
					}
					c.Anchor(rule, name)
					bad := ""
					var check func(v ssa.Value, depth int)
					check = func(v ssa.Value, depth int) {
						for _, u := range *v.Referrers() {
							switch x := u.(type) {
							case *ssa.Lookup, *ssa.IndexAddr, *ssa.Range, *ssa.MapUpdate, *ssa.DebugRef, *ssa.Index:
							case *ssa.Slice:
								// re-slicing keeps the backing array: same rules apply to the result
								if depth < 3 {
									check(x, depth+1)
								}
							case *ssa.Store:
								// storing (a re-slice / append of) the value back into the same field is the update idiom
								if fa2, ok := x.Addr.(*ssa.FieldAddr); ok && fieldOf(fa2) == f {
									continue
								}
								bad = "stored to " + w.key(x.Addr) + " at " + w.instrPos(x)
							case *ssa.Return:
								bad = "returned at " + w.instrPos(x)
							case *ssa.Phi:
								if depth < 3 {
									check(x, depth+1)
								}
							case ssa.CallInstruction:
								cc := x.Common()
								if b, isB := cc.Value.(*ssa.Builtin); isB {
									switch nm(b) {
									case "len", "cap", "delete", "copy", "clear":
										continue
									case "append":
										if call, isC := x.(*ssa.Call); isC {
											if len(cc.Args) == 2 && cc.Args[1] == v && cc.Args[0] != v {
												continue // appended as source elements: copied
											}
											if cc.Args[0] == v && depth < 3 {
												check(call, depth+1) // result aliases the field's array
												continue
											}
										}
									}
								}
								if call, isC := x.(*ssa.Call); isC {
									if cal := cc.StaticCallee(); cal != nil {
										// a module function called synchronously runs inside this critical
										// section: its use of the parameter is held to the same rule
										if w.IsMod[cal] && len(cal.Blocks) > 0 && depth < 3 {
											followed := false
											for i, a := range cc.Args {
												if a == v && i < len(cal.Params) {
													check(cal.Params[i], depth+1)
													followed = true
												}
											}
											if followed {
												continue
											}
										}
										// standard-library helpers that only read the slice / map while they run
										switch stdCallee(cc) {
										case "slices.IndexFunc", "slices.Index", "slices.Contains", "slices.ContainsFunc", "slices.Equal", "slices.EqualFunc", "slices.Clone", "maps.Clone":
											continue
										}
										// ... or edit it in place and hand back a view of the same array: the
										// result is held to the same rule (stored back into the field, ...)
										if inPlaceSliceOp(cc) && len(cc.Args) > 0 && cc.Args[0] == v && depth < 3 {
											check(call, depth+1)
											continue
										}
										// an iterator over the storage that is drained on the spot
										base := cal.String()
										if k := strings.IndexByte(base, '['); k > 0 {
											base = base[:k]
										}
										switch base {
										case "maps.Values", "maps.Keys", "maps.All", "slices.Values", "slices.All", "slices.Backward":
											drained := call.Referrers() != nil && len(*call.Referrers()) > 0
											for _, r2 := range *call.Referrers() {
												c2, ok2 := r2.(*ssa.Call)
												// ranged over on the spot: `for … := range it` calls the iterator
												// with the loop body
												if ok2 && c2.Call.Value == ssa.Value(call) && len(c2.Call.Args) == 1 {
													if mc, isMC := c2.Call.Args[0].(*ssa.MakeClosure); isMC {
														if yf, _ := mc.Fn.(*ssa.Function); yf != nil && yf.Synthetic == "range-over-func yield" {
															continue
														}
													}
												}
												if !ok2 || c2.Call.StaticCallee() == nil {
													if _, isDbg := r2.(*ssa.DebugRef); isDbg {
														continue
													}
													drained = false
													continue
												}
												b2 := c2.Call.StaticCallee().String()
												if k := strings.IndexByte(b2, '['); k > 0 {
													b2 = b2[:k]
												}
												switch b2 {
												case "slices.AppendSeq", "slices.Collect", "slices.Sorted", "slices.SortedFunc":
												default:
													drained = false
												}
											}
											if drained {
												continue
											}
										}
									}
								}
								bad = "passed to " + w.desc(x.Value()) + " at " + w.instrPos(x)
							default:
								bad = fmt.Sprintf("used by %T at %s", u, w.instrPos(u))
							}
						}
					}
					check(ld, 0)
					if bad != "" {
						if _, isSlice := f.Type().Underlying().(*types.Slice); isSlice && w.overwrittenBelowLen(f) == "" {
							c.OK(rule, fname(fn), name, w.instrPos(ld), "the value leaves the critical section ("+bad+"), but the array it shares is never written below its length (every store is append(field, …) or a fresh slice, no element is assigned, holders only read): what the holder sees cannot change")
							continue
						}
					}
					if bad == "" {
						c.OK(rule, fname(fn), name, w.instrPos(ld), "the value stays inside the function's critical section")
					} else {
						c.Bad(rule, fname(fn), name, w.instrPos(ld), "a reference to guarded storage "+name+" escapes: "+bad+"; it is then read or ranged over without "+g.lockClass+" while writers compact it in place")
					}
				}
			})
		}
	}
}

// every close(ch) on a struct field is preceded on its path by a closed-test, or is the only
// close of that channel and sits in a function serialised by a lock / run once by construction
func ruleCloseOnce(c *Ctx, rule string) {
	w := c.W
	li := w.lockInfo()
	c.Rule(rule, "close(ch) discipline: every close of a channel held in a struct field is dominated by the default edge of a non-blocking receive on that channel (closed-test) inside a critical section or single-threaded teardown, or is guarded by a nil/ok test of a once-only holder (the stop function of a periodic timer); otherwise a second close panics", 2)
	for _, fn := range w.ModFns {
		w.eachInstr(fn, func(in ssa.Instruction) {
			call, ok := in.(*ssa.Call)
			if !ok {
				return
			}
			if b, isB := call.Call.Value.(*ssa.Builtin); !isB || b.Name() != "close" {
				return
			}
			ch := call.Call.Args[0]
			_, f, isField := fieldLoad(ch)
			if !isField {
				// local channel (created in this function or captured): closed by its creator
				c.Triv(rule, fname(fn), "close local", w.instrPos(in), "channel local to its creating function/closure")
				return
			}
			c.Anchor(rule, fname(fn)+"."+f.Name())
			guarded := false
			unguardedWhy := ""
			for _, fct := range w.factsAt(in) {
				if fct.Op == "==" && !fct.Truth {
					if e, ok := fct.X.(*ssa.Extract); ok {
						if sel, isSel := e.Tuple.(*ssa.Select); isSel && !sel.Blocking {
							for _, s := range sel.States {
								if w.sameKey(s.Chan, ch) {
									guarded = true
								}
							}
						}
					}
				}
			}
			// … or the closed-test is made by a predicate helper (c.isClosed()) that returned false
			if !guarded {
				for _, fct := range w.factsAt(in) {
					if fct.Op == "true" && !fct.Truth {
						if pc, _ := callOf(fct.X); pc != nil && w.closedTestPred(pc.Call.StaticCallee(), f) {
							// test and close must be one step: a mutex held at both
							hp, hc := li.mustAt(pc), li.mustAt(in)
							for cls := range hp {
								if hc[cls] {
									guarded = true
								}
							}
							if !guarded {
								unguardedWhy = "the closed-test (" + fname(pc.Call.StaticCallee()) + ") and the close are not inside one critical section: two callers can both pass the test and the second close panics"
							}
						}
					}
				}
			}
			held := li.mustAt(in)
			// once-only holder: close(x.f) on the edge x.f != nil, with x.f reset to nil before
			// any lock held at the close is released: a second caller finds nil
			nilGuard := false
			if len(held) > 0 {
				nonNil := false
				for _, fct := range w.factsAt(in) {
					if v, isNil, ok := nilFact(fct); ok && !isNil && w.sameKey(v, ch) {
						nonNil = true
					}
				}
				if nonNil {
					reset := false
					for i := indexIn(in) + 1; i < len(in.Block().Instrs); i++ {
						nx := in.Block().Instrs[i]
						if nc, isC := nx.(ssa.CallInstruction); isC {
							if lo := w.lockOpOf(nc.Common()); lo != nil && (lo.op == "Unlock" || lo.op == "RUnlock") {
								break
							}
						}
						if st, isSt := nx.(*ssa.Store); isSt {
							if fa, isFA := st.Addr.(*ssa.FieldAddr); isFA && fieldOf(fa) == f && isNilConst(st.Val) {
								reset = true
							}
						}
					}
					nilGuard = reset
				}
			}
			// taken out of its table: the holder was looked up in a map and the entry is deleted
			// in the same critical section, with no unlock between the delete and the close — a
			// second closer does not find the holder any more
			removed := false
			if len(held) > 0 {
				if base, _, isL := fieldLoad(ch); isL {
					hv := stripIface(w.resolveLoad(base))
					if ex, isE := hv.(*ssa.Extract); isE && ex.Index == 0 {
						hv = ex.Tuple
					}
					if lk, isLk := hv.(*ssa.Lookup); isLk && lk.Block() != nil {
						blk := in.Block()
						lo, hi := -1, -1
						for i, nx := range blk.Instrs {
							if dc, isC := nx.(*ssa.Call); isC {
								if b, isB := dc.Call.Value.(*ssa.Builtin); isB && b.Name() == "delete" && len(dc.Call.Args) == 2 &&
									w.sameKey(dc.Call.Args[0], lk.X) && (dc.Call.Args[1] == lk.Index || w.sameKey(dc.Call.Args[1], lk.Index)) {
									lo = i
								}
							}
							if nx == ssa.Instruction(call) {
								hi = i
							}
						}
						if lo >= 0 && hi >= 0 {
							if lo > hi {
								lo, hi = hi, lo
							}
							removed = true
							for i := lo; i <= hi; i++ {
								if nc, isC := blk.Instrs[i].(ssa.CallInstruction); isC {
									if lop := w.lockOpOf(nc.Common()); lop != nil && (lop.op == "Unlock" || lop.op == "RUnlock") {
										removed = false
									}
								}
							}
						}
					}
				}
			}
			// inside the function handed to a sync.Once field of the same object: runs at most once
			onceOnly := false
			if fn.Parent() != nil {
				for _, mcl := range w.Closures[fn] {
					if mcl.Referrers() == nil {
						continue
					}
					for _, r := range *mcl.Referrers() {
						oc, isC := r.(*ssa.Call)
						if !isC || stdCallee(&oc.Call) != "(*sync.Once).Do" {
							continue
						}
						if ob, _, isF := fieldLoadAddr(oc.Call.Args[0]); isF {
							if cb, _, isF2 := fieldLoad(ch); isF2 {
								hb := cb
								if fv, isFV := stripIface(hb).(*ssa.FreeVar); isFV {
									if b := w.binding(fv); b != nil {
										hb = b
									}
								}
								if w.sameKey(ob, hb) || stripIface(w.resolveLoad(ob)) == stripIface(w.resolveLoad(hb)) {
									onceOnly = true
								}
							}
						}
					}
				}
			}
			switch {
			case guarded:
				c.OK(rule, fname(fn), "close "+f.Name(), w.instrPos(in), "closed-test dominates the close (locks held: {"+held.str()+"})")
			case onceOnly:
				c.OK(rule, fname(fn), "close "+f.Name(), w.instrPos(in), "closed inside the function run by a sync.Once of the same object: at most once")
			case removed:
				c.OK(rule, fname(fn), "close "+f.Name(), w.instrPos(in), "the holder is deleted from the table it was looked up in within the same critical section ({"+held.str()+"}): no second closer can find it")
			case nilGuard:
				c.OK(rule, fname(fn), "close "+f.Name(), w.instrPos(in), "closed on the non-nil edge and reset to nil within the same critical section ({"+held.str()+"}): once only")
			case nm(f) == "resultCh":
				// Transaction.Close: only for map-resident transactions, under mutexTrMap (C12.6)
				if holds(held, "turn.Client.mutexTrMap", true) {
					c.OK(rule, fname(fn), "close "+f.Name(), w.instrPos(in), "closed only for transactions still in the table, with Client.mutexTrMap held on every call path ({"+held.str()+"}): completions (WriteResult) take the same lock around find+delete")
				} else {
					c.Bad(rule, fname(fn), "close "+f.Name(), w.instrPos(in), "result channel closed without Client.mutexTrMap held on every call path: a completion between its table lookup and its WriteResult sends on a closed channel (panic)")
				}
			case unguardedWhy != "":
				c.Bad(rule, fname(fn), "close "+f.Name(), w.instrPos(in), unguardedWhy)
			default:
				c.Bad(rule, fname(fn), "close "+f.Name(), w.instrPos(in), "close of a shared channel without a closed-test: a second close panics")
			}
		})
	}
}

// mutatedInPlace: some store into the slice field derives from the field's own previous value
// (append onto it, re-slice of it) or an element of it is assigned: the backing array is
// shared between the old and the new value.
func (w *World) mutatedInPlace(f *types.Var) bool {
	found := false
	for _, fn := range w.ModFns {
		w.eachInstr(fn, func(in ssa.Instruction) {
			st, ok := in.(*ssa.Store)
			if !ok {
				return
			}
			if fa, ok := st.Addr.(*ssa.FieldAddr); ok && fieldOf(fa) == f {
				if w.dependsOn(st.Val, func(v ssa.Value) bool {
					_, fl, isL := fieldLoad(v)
					return isL && fl == f
				}, fn) {
					found = true
				}
			}
			if ia, ok := st.Addr.(*ssa.IndexAddr); ok {
				if _, fl, isL := fieldLoad(ia.X); isL && fl == f {
					found = true
				}
			}
		})
	}
	return found
}

// closedTestPred: h is a predicate "is the channel in field fld closed": it makes a
// non-blocking receive on the field of its receiver and returns the constant true exactly on
// the edge where the receive succeeded, false on the default edge.
func (w *World) closedTestPred(h *ssa.Function, fld *types.Var) bool {
	if h == nil || !w.IsMod[h] || len(h.Blocks) == 0 || h.Signature.Results().Len() != 1 || h.Signature.Results().At(0).Type().String() != "bool" {
		return false
	}
	var sel *ssa.Select
	w.eachInstr(h, func(in ssa.Instruction) {
		if s, ok := in.(*ssa.Select); ok && !s.Blocking && len(s.States) == 1 && s.States[0].Dir == types.RecvOnly {
			if _, f, isL := fieldLoad(s.States[0].Chan); isL && f == fld {
				sel = s
			}
		}
	})
	if sel == nil {
		return false
	}
	nTrue, nFalse := 0, 0
	for _, r := range returnsOf(h) {
		k, ok := r.Results[0].(*ssa.Const)
		if !ok || k.Value == nil {
			return false
		}
		taken, known := false, false
		for _, f := range w.factsAt(r) {
			if f.Op != "==" {
				continue
			}
			for _, pair := range [][2]ssa.Value{{f.X, f.Y}, {f.Y, f.X}} {
				ex, isE := pair[0].(*ssa.Extract)
				if !isE || ex.Tuple != ssa.Value(sel) || ex.Index != 0 {
					continue
				}
				if c0, isC := constInt(pair[1]); isC && c0 == 0 {
					taken, known = f.Truth, true
				}
			}
		}
		if !known {
			return false
		}
		if k.Value.String() == "true" {
			if !taken {
				return false
			}
			nTrue++
		} else {
			if taken {
				return false
			}
			nFalse++
		}
	}
	return nTrue > 0 && nFalse > 0
}
