package main

// Rename tolerance.
//
// The rules locate their anchors by name (functions, methods, fields, constants, package
// variables, types of the module). Renaming an UNEXPORTED member is a behaviour-preserving
// edit; it must not stop the check. refnames.json (generated with -refnames from the tree the
// rules were written against, embedded in the binary) records for every unexported module
// member a structural fingerprint. When a reference name is missing from the analysed tree,
// the member it was renamed to is inferred: the candidates are the members of the same
// package (same receiver / struct) that are NOT in the reference inventory and have the same
// kind and type (signature, field type, constant type and value); a function candidate must
// also resemble the reference in the set of functions it calls. The inference is accepted
// only when it is unique; otherwise the anchor stays unresolved (exit 2, no verdict).
// A wrong guess cannot make a rule pass by accident in any way a rename could not: the rule
// is then evaluated on that member exactly as if it carried the old name.

import (
	_ "embed"
	"encoding/json"
	"go/types"
	"os"
	"sort"
	"strings"

	"golang.org/x/tools/go/ssa"
)

//go:embed refnames.json
var refnamesJSON []byte

type refFunc struct {
	Sig     string   `json:"sig"`
	Callees []string `json:"callees"`
}
type refField struct {
	Type  string `json:"type"`
	Index int    `json:"index"`
}
type refConst struct {
	Type  string `json:"type"`
	Value string `json:"value"`
}
type refType struct {
	Fields  []string `json:"fields"`
	Methods []string `json:"methods"`
	Under   string   `json:"under"`
}
type refInventory struct {
	Funcs  map[string]refFunc  `json:"funcs"`  // pkg|recv|name
	Fields map[string]refField `json:"fields"` // pkg|Type|field
	Consts map[string]refConst `json:"consts"` // pkg|name
	Vars   map[string]string   `json:"vars"`   // pkg|name -> type
	Types  map[string]refType  `json:"types"`  // pkg|name
}

type renames struct {
	alias map[types.Object]string // current object -> reference (short) name
	byRef map[string]types.Object // inventory key -> current object
	notes []string
}

func recvName(f *types.Func) string {
	sig := f.Type().(*types.Signature)
	if sig.Recv() == nil {
		return ""
	}
	t := sig.Recv().Type()
	if p, ok := t.(*types.Pointer); ok {
		t = p.Elem()
	}
	if n, ok := t.(*types.Named); ok {
		return n.Obj().Name()
	}
	return "?"
}

func sigString(f *types.Func, qual types.Qualifier) string {
	sig := f.Type().(*types.Signature)
	var ps, rs []string
	for i := 0; i < sig.Params().Len(); i++ {
		ps = append(ps, types.TypeString(sig.Params().At(i).Type(), qual))
	}
	for i := 0; i < sig.Results().Len(); i++ {
		rs = append(rs, types.TypeString(sig.Results().At(i).Type(), qual))
	}
	v := ""
	if sig.Variadic() {
		v = "..."
	}
	ptr := ""
	if sig.Recv() != nil {
		if _, ok := sig.Recv().Type().(*types.Pointer); ok {
			ptr = "*"
		}
	}
	return ptr + "(" + strings.Join(ps, ",") + v + ")(" + strings.Join(rs, ",") + ")"
}

func (w *World) modTypesPkgs() []*types.Package {
	var out []*types.Package
	for path, p := range w.AllPkgs {
		if strings.HasPrefix(path, modPath) && p.Types != nil {
			out = append(out, p.Types)
		}
	}
	sort.Slice(out, func(i, j int) bool { return out[i].Path() < out[j].Path() })
	return out
}

// calleeNames: names of the functions statically called by fn and its literals (module
// members by their short name, others by full name).
func (w *World) calleeNames(fn *ssa.Function, nameOf func(*ssa.Function) string) []string {
	set := map[string]bool{}
	for _, f := range withAnon(fn) {
		w.eachInstr(f, func(in ssa.Instruction) {
			if ci, ok := in.(ssa.CallInstruction); ok {
				cc := ci.Common()
				if cal := cc.StaticCallee(); cal != nil {
					set[nameOf(cal)] = true
				} else if cc.IsInvoke() {
					set["invoke "+cc.Method.Name()] = true
				}
			}
		})
	}
	var out []string
	for k := range set {
		out = append(out, k)
	}
	sort.Strings(out)
	return out
}

func (w *World) inventory(nameOf func(*ssa.Function) string) *refInventory {
	inv := &refInventory{Funcs: map[string]refFunc{}, Fields: map[string]refField{}, Consts: map[string]refConst{}, Vars: map[string]string{}, Types: map[string]refType{}}
	for _, tp := range w.modTypesPkgs() {
		qual := types.RelativeTo(tp)
		sc := tp.Scope()
		addFunc := func(f *types.Func) {
			fn := w.Prog.FuncValue(f)
			if fn == nil || len(fn.Blocks) == 0 {
				return
			}
			inv.Funcs[tp.Path()+"|"+recvName(f)+"|"+f.Name()] = refFunc{Sig: sigString(f, qual), Callees: w.calleeNames(fn, nameOf)}
		}
		for _, name := range sc.Names() {
			switch o := sc.Lookup(name).(type) {
			case *types.Func:
				addFunc(o)
			case *types.Const:
				inv.Consts[tp.Path()+"|"+name] = refConst{Type: types.TypeString(o.Type(), qual), Value: o.Val().ExactString()}
			case *types.Var:
				inv.Vars[tp.Path()+"|"+name] = types.TypeString(o.Type(), qual)
			case *types.TypeName:
				n, ok := o.Type().(*types.Named)
				if !ok {
					continue
				}
				rt := refType{Under: strings.SplitN(types.TypeString(n.Underlying(), qual), "{", 2)[0]}
				if st, ok := n.Underlying().(*types.Struct); ok {
					for i := 0; i < st.NumFields(); i++ {
						fl := st.Field(i)
						rt.Fields = append(rt.Fields, fl.Name())
						inv.Fields[tp.Path()+"|"+name+"|"+fl.Name()] = refField{Type: types.TypeString(fl.Type(), qual), Index: i}
					}
				}
				for i := 0; i < n.NumMethods(); i++ {
					rt.Methods = append(rt.Methods, n.Method(i).Name())
					addFunc(n.Method(i))
				}
				sort.Strings(rt.Methods)
				inv.Types[tp.Path()+"|"+name] = rt
			}
		}
	}
	return inv
}

func plainName(f *ssa.Function) string {
	if f.Object() != nil && f.Object().Pkg() != nil && strings.HasPrefix(f.Object().Pkg().Path(), modPath) {
		if fo, ok := f.Object().(*types.Func); ok {
			return recvName(fo) + "." + fo.Name()
		}
	}
	return f.String()
}

// writeRefnames regenerates refnames.json from the loaded tree.
func writeRefnames(w *World, path string) error {
	inv := w.inventory(plainName)
	b, err := json.MarshalIndent(inv, "", " ")
	if err != nil {
		return err
	}
	return os.WriteFile(path, append(b, '\n'), 0o644)
}

func jaccard(a, b []string) float64 {
	if len(a) == 0 && len(b) == 0 {
		return 1
	}
	set := map[string]int{}
	for _, x := range a {
		set[x] |= 1
	}
	for _, x := range b {
		set[x] |= 2
	}
	inter := 0
	for _, v := range set {
		if v == 3 {
			inter++
		}
	}
	return float64(inter) / float64(len(set))
}

// inferRenames compares the analysed tree with the reference inventory.
func (w *World) inferRenames() {
	r := &renames{alias: map[types.Object]string{}, byRef: map[string]types.Object{}}
	w.ren = r
	var ref refInventory
	if len(refnamesJSON) == 0 || json.Unmarshal(refnamesJSON, &ref) != nil {
		return
	}
	exported := func(name string) bool { return name != "" && name[0] >= 'A' && name[0] <= 'Z' }
	// callee names normalised through the aliases found so far
	nameOf := func(f *ssa.Function) string {
		if f.Object() != nil {
			if a, ok := r.alias[f.Object()]; ok {
				if fo, ok := f.Object().(*types.Func); ok {
					return w.refRecv(fo) + "." + a
				}
			}
			if fo, ok := f.Object().(*types.Func); ok && fo.Pkg() != nil && strings.HasPrefix(fo.Pkg().Path(), modPath) {
				return w.refRecv(fo) + "." + fo.Name()
			}
		}
		return f.String()
	}
	for pass := 0; pass < 3; pass++ {
		cur := w.inventory(nameOf)
		progress := false
		// ---- types
		for key, rt := range ref.Types {
			parts := strings.Split(key, "|")
			if _, ok := cur.Types[key]; ok || r.byRef["type|"+key] != nil || exported(parts[1]) {
				continue
			}
			var cands []string
			for ck, ct := range cur.Types {
				cp := strings.Split(ck, "|")
				if cp[0] != parts[0] || exported(cp[1]) {
					continue
				}
				if _, known := ref.Types[ck]; known {
					continue
				}
				if ct.Under == rt.Under && (len(rt.Fields) > 0 && strings.Join(ct.Fields, ",") == strings.Join(rt.Fields, ",") || len(rt.Fields) == 0 && strings.Join(ct.Methods, ",") == strings.Join(rt.Methods, ",")) {
					cands = append(cands, cp[1])
				}
			}
			if len(cands) == 1 {
				if tn, ok := w.AllPkgs[parts[0]].Types.Scope().Lookup(cands[0]).(*types.TypeName); ok {
					r.alias[tn] = parts[1]
					r.byRef["type|"+key] = tn
					r.notes = append(r.notes, "type "+parts[1]+" is now "+cands[0])
					progress = true
				}
			}
		}
		// current type name -> reference type name
		refTypeName := func(pkg, curName string) string {
			if tn, ok := w.AllPkgs[pkg].Types.Scope().Lookup(curName).(*types.TypeName); ok {
				if a, ok := r.alias[tn]; ok {
					return a
				}
			}
			return curName
		}
		// ---- fields
		for key, rf := range ref.Fields {
			parts := strings.Split(key, "|")
			if r.byRef["field|"+key] != nil || exported(parts[2]) {
				continue
			}
			var cands []string
			var candT string
			present := false
			for ck, cf := range cur.Fields {
				cp := strings.Split(ck, "|")
				if cp[0] != parts[0] || refTypeName(cp[0], cp[1]) != parts[1] {
					continue
				}
				if cp[2] == parts[2] {
					present = true
					break
				}
				if _, known := ref.Fields[cp[0]+"|"+parts[1]+"|"+cp[2]]; known || exported(cp[2]) {
					continue
				}
				if cf.Type == rf.Type {
					cands = append(cands, cp[2])
					candT = cp[1]
				}
			}
			if present || len(cands) != 1 {
				continue
			}
			if tn, ok := w.AllPkgs[parts[0]].Types.Scope().Lookup(candT).(*types.TypeName); ok {
				if st, ok := tn.Type().Underlying().(*types.Struct); ok {
					for i := 0; i < st.NumFields(); i++ {
						if st.Field(i).Name() == cands[0] {
							r.alias[st.Field(i)] = parts[2]
							r.byRef["field|"+key] = st.Field(i)
							r.notes = append(r.notes, "field "+parts[1]+"."+parts[2]+" is now "+cands[0])
							progress = true
						}
					}
				}
			}
		}
		// ---- constants and variables
		for key, rc := range ref.Consts {
			parts := strings.Split(key, "|")
			if _, ok := cur.Consts[key]; ok || r.byRef["const|"+key] != nil || exported(parts[1]) {
				continue
			}
			var cands []string
			for ck, cc := range cur.Consts {
				cp := strings.Split(ck, "|")
				if cp[0] != parts[0] || exported(cp[1]) {
					continue
				}
				if _, known := ref.Consts[ck]; known {
					continue
				}
				if cc == rc {
					cands = append(cands, cp[1])
				}
			}
			if len(cands) == 1 {
				if o := w.AllPkgs[parts[0]].Types.Scope().Lookup(cands[0]); o != nil {
					r.alias[o] = parts[1]
					r.byRef["const|"+key] = o
					r.notes = append(r.notes, "const "+parts[1]+" is now "+cands[0])
					progress = true
				}
			}
		}
		for key, rv := range ref.Vars {
			parts := strings.Split(key, "|")
			if _, ok := cur.Vars[key]; ok || r.byRef["var|"+key] != nil || exported(parts[1]) {
				continue
			}
			var cands []string
			for ck, cv := range cur.Vars {
				cp := strings.Split(ck, "|")
				if cp[0] != parts[0] || exported(cp[1]) {
					continue
				}
				if _, known := ref.Vars[ck]; known {
					continue
				}
				if cv == rv {
					cands = append(cands, cp[1])
				}
			}
			if len(cands) == 1 {
				if o := w.AllPkgs[parts[0]].Types.Scope().Lookup(cands[0]); o != nil {
					r.alias[o] = parts[1]
					r.byRef["var|"+key] = o
					r.notes = append(r.notes, "var "+parts[1]+" is now "+cands[0])
					progress = true
				}
			}
		}
		// ---- functions and methods
		for key, rf := range ref.Funcs {
			parts := strings.Split(key, "|")
			if r.byRef["func|"+key] != nil || exported(parts[2]) {
				continue
			}
			type cand struct {
				name, recv string
				score      float64
			}
			var cands []cand
			present := false
			for ck, cf := range cur.Funcs {
				cp := strings.Split(ck, "|")
				if cp[0] != parts[0] || refTypeName(cp[0], cp[1]) != parts[1] {
					continue
				}
				if cp[2] == parts[2] {
					present = true
					break
				}
				if _, known := ref.Funcs[cp[0]+"|"+parts[1]+"|"+cp[2]]; known || exported(cp[2]) {
					continue
				}
				if cf.Sig != rf.Sig {
					continue
				}
				cands = append(cands, cand{cp[2], cp[1], jaccard(rf.Callees, cf.Callees)})
			}
			if present || len(cands) == 0 {
				continue
			}
			sort.Slice(cands, func(i, j int) bool { return cands[i].score > cands[j].score })
			if cands[0].score < 0.5 || len(cands) > 1 && cands[1].score > cands[0].score-0.25 {
				continue
			}
			var obj types.Object
			sc := w.AllPkgs[parts[0]].Types.Scope()
			if cands[0].recv == "" {
				obj = sc.Lookup(cands[0].name)
			} else if tn, ok := sc.Lookup(cands[0].recv).(*types.TypeName); ok {
				if n, ok := tn.Type().(*types.Named); ok {
					for i := 0; i < n.NumMethods(); i++ {
						if n.Method(i).Name() == cands[0].name {
							obj = n.Method(i)
						}
					}
				}
			}
			if obj != nil {
				r.alias[obj] = parts[2]
				r.byRef["func|"+key] = obj
				r.notes = append(r.notes, "func "+parts[1]+"."+parts[2]+" is now "+cands[0].name)
				progress = true
			}
		}
		if !progress {
			break
		}
	}
	sort.Strings(r.notes)
}

// refRecv: the receiver type name of f as the reference tree calls it.
func (w *World) refRecv(f *types.Func) string {
	sig := f.Type().(*types.Signature)
	if sig.Recv() == nil {
		return ""
	}
	t := sig.Recv().Type()
	if p, ok := t.(*types.Pointer); ok {
		t = p.Elem()
	}
	if n, ok := t.(*types.Named); ok {
		if w.ren != nil {
			if a, ok := w.ren.alias[n.Obj()]; ok {
				return a
			}
		}
		return n.Obj().Name()
	}
	return "?"
}

// nm: the name the rules know a member by (its reference name when it has been renamed).
func nm(o interface{ Name() string }) string {
	if o == nil {
		return ""
	}
	if theWorld != nil && theWorld.ren != nil {
		switch x := o.(type) {
		case types.Object:
			if a, ok := theWorld.ren.alias[x]; ok {
				return a
			}
		case *ssa.Function:
			if x != nil && x.Object() != nil {
				if a, ok := theWorld.ren.alias[x.Object()]; ok {
					return a
				}
			}
		case *ssa.Global:
			if x != nil && x.Object() != nil {
				if a, ok := theWorld.ren.alias[x.Object()]; ok {
					return a
				}
			}
		}
	}
	return o.Name()
}
