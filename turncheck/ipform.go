package main

// An abstract interpreter for key functions over IP addresses.
//
// A table keyed by a function K of a peer address (the permission table: FingerprintAddr, or a
// key function of the allocation package) is right only if K gives one address one key however
// it is spelled — net.IP holds an IPv4 address in 4 bytes or, IPv4-mapped, in 16 — and gives
// different addresses different keys. That is a statement about all addresses, but K's code
// only ever distinguishes three shapes of its input, so it is decided by evaluating K once per
// shape over symbolic bytes:
//
//	V4     a 4-byte IP            b0 b1 b2 b3
//	MAPPED a 16-byte IP           00×10 ff ff b0 b1 b2 b3
//	V6     a 16-byte IP           a0 … a15, not of the mapped pattern
//
// (for *net.UDPAddr and for *net.TCPAddr arguments). Values are: byte strings over constants
// and the symbols bi / ai, the canonical text IP.String() of an address, netip.Addr values
// (4-byte / 16-byte, with the same symbolic bytes), integers, booleans, nil. The evaluator
// follows the one path the shape determines; a branch it cannot decide, a construct it does
// not model, or a use of the port or the zone makes the verdict "unknown" (the callers then
// fall back to their syntactic rule). The verdict "canonical" needs:
//
//	K(V4 b) = K(MAPPED b) as terms; every bi occurs in it (injective in b); every ai occurs in
//	K(V6 a); and K(V4 b) can equal K(V6 a) for no b and a — different kinds or lengths of
//	term, or 16 bytes whose constant positions are the mapped pattern, which V6 excludes.

import (
	"fmt"
	"go/constant"
	"go/token"
	"go/types"
	"strings"

	"golang.org/x/tools/go/ssa"
)

const (
	ipNil = iota
	ipBytes
	ipStr
	ipCanon
	ipNetip
	ipInt
	ipBool
	ipAddrPtr
	ipTuple
	ipRef   // pointer to a memory cell (or to one byte of it)
	ipField // address of a field of the analysed address
	ipUnknown
)

// bt: one symbolic byte. k=0: constant c; k=1: bi (IPv4 address byte i); k=2: ai.
type bt struct {
	k int
	c byte
	i int
}

func (b bt) String() string {
	switch b.k {
	case 1:
		return fmt.Sprintf("b%d", b.i)
	case 2:
		return fmt.Sprintf("a%d", b.i)
	}
	return fmt.Sprintf("%02x", b.c)
}

type ipCell struct {
	bytes []bt   // a byte array / the backing store of a byte slice
	val   *ipVal // any other local variable
}

type ipVal struct {
	kind  int
	bytes []bt // ipBytes (snapshot is taken through cell when cell != nil), ipStr, ipCanon (address bytes), ipNetip
	cell  *ipCell
	off   int // ipBytes view / ipRef byte index (-1: the whole cell)
	n     int // ipBytes view length; ipInt value; ipNetip: 4 or 16 (0 invalid)
	b     bool
	elems []ipVal
	name  string // ipField: field name; ipUnknown: why
	taint bool   // depends on port or zone
}

func (v ipVal) view() []bt {
	if v.cell != nil {
		return v.cell.bytes[v.off : v.off+v.n]
	}
	return v.bytes
}

func ipUnk(why string) ipVal { return ipVal{kind: ipUnknown, name: why} }

type ipRun struct {
	w      *World
	cls    int    // 0 V4, 1 MAPPED, 2 V6
	typ    string // "UDPAddr" / "TCPAddr"
	fail   string
	budget int
}

func (r *ipRun) classIP() ipVal {
	var bs []bt
	switch r.cls {
	case 0:
		for i := 0; i < 4; i++ {
			bs = append(bs, bt{k: 1, i: i})
		}
	case 1:
		for i := 0; i < 10; i++ {
			bs = append(bs, bt{})
		}
		bs = append(bs, bt{c: 0xff}, bt{c: 0xff})
		for i := 0; i < 4; i++ {
			bs = append(bs, bt{k: 1, i: i})
		}
	default:
		for i := 0; i < 16; i++ {
			bs = append(bs, bt{k: 2, i: i})
		}
	}
	return ipVal{kind: ipBytes, bytes: bs, n: len(bs)}
}

// to4 / to16 of a symbolic IP (by its shape: 4 symbolic v4 bytes, mapped, or v6)
func ipTo4(bs []bt) ([]bt, bool) {
	if len(bs) == 4 {
		return bs, true
	}
	if len(bs) == 16 && ipIsMapped(bs) {
		return bs[12:], true
	}
	return nil, true
}

func ipIsMapped(bs []bt) bool {
	if len(bs) != 16 {
		return false
	}
	for i := 0; i < 10; i++ {
		if bs[i].k != 0 || bs[i].c != 0 {
			return false
		}
	}
	return bs[10].k == 0 && bs[10].c == 0xff && bs[11].k == 0 && bs[11].c == 0xff
}

// definitelyNotMapped: the genuine-IPv6 shape (symbols ai in place: the class excludes the pattern)
func ipIsV6(bs []bt) bool {
	if len(bs) != 16 {
		return false
	}
	for i, b := range bs {
		if b.k != 2 || b.i != i {
			return false
		}
	}
	return true
}

func ipMapped(b4 []bt) []bt {
	var bs []bt
	for i := 0; i < 10; i++ {
		bs = append(bs, bt{})
	}
	bs = append(bs, bt{c: 0xff}, bt{c: 0xff})
	return append(bs, b4...)
}

func (r *ipRun) call(fn *ssa.Function, args []ipVal, depth int) ipVal {
	if depth > 5 || len(fn.Blocks) == 0 {
		return ipUnk("call depth / no body: " + fn.String())
	}
	vals := map[ssa.Value]ipVal{}
	for i, p := range fn.Params {
		if i < len(args) {
			vals[p] = args[i]
		}
	}
	get := func(v ssa.Value) ipVal {
		switch x := v.(type) {
		case *ssa.Const:
			if x.Value == nil {
				return ipVal{kind: ipNil}
			}
			switch x.Value.Kind() {
			case constant.Bool:
				return ipVal{kind: ipBool, b: constant.BoolVal(x.Value)}
			case constant.Int:
				if n, ok := constant.Int64Val(x.Value); ok {
					return ipVal{kind: ipInt, n: int(n)}
				}
			case constant.String:
				var bs []bt
				for _, c := range []byte(constant.StringVal(x.Value)) {
					bs = append(bs, bt{c: c})
				}
				return ipVal{kind: ipStr, bytes: bs}
			}
			return ipUnk("constant")
		case *ssa.Function, *ssa.Global, *ssa.Builtin:
			return ipUnk("function/global value")
		}
		if r, ok := vals[v]; ok {
			return r
		}
		return ipUnk("value not computed: " + v.Name())
	}
	b, prev := fn.Blocks[0], (*ssa.BasicBlock)(nil)
	for {
		r.budget--
		if r.budget < 0 {
			return ipUnk("budget")
		}
		var next *ssa.BasicBlock
		// phis first, simultaneously
		idx := -1
		for i, p := range b.Preds {
			if p == prev {
				idx = i
			}
		}
		var phiVals []ipVal
		var phis []*ssa.Phi
		for _, in := range b.Instrs {
			p, ok := in.(*ssa.Phi)
			if !ok {
				break
			}
			phis = append(phis, p)
			if idx < 0 {
				phiVals = append(phiVals, ipUnk("phi without predecessor"))
			} else {
				phiVals = append(phiVals, get(p.Edges[idx]))
			}
		}
		for i, p := range phis {
			vals[p] = phiVals[i]
		}
		for _, in := range b.Instrs[len(phis):] {
			switch x := in.(type) {
			case *ssa.DebugRef:
			case *ssa.Alloc:
				cell := &ipCell{}
				if arr, ok := x.Type().Underlying().(*types.Pointer).Elem().Underlying().(*types.Array); ok {
					if bb, isB := arr.Elem().Underlying().(*types.Basic); isB && bb.Kind() == types.Uint8 {
						cell.bytes = make([]bt, arr.Len())
					}
				}
				vals[x] = ipVal{kind: ipRef, cell: cell, off: -1}
			case *ssa.MakeSlice:
				n := get(x.Len)
				if n.kind != ipInt {
					vals[x] = ipUnk("make with unknown length")
					break
				}
				cell := &ipCell{bytes: make([]bt, n.n)}
				vals[x] = ipVal{kind: ipBytes, cell: cell, n: n.n}
			case *ssa.FieldAddr:
				base := get(x.X)
				if base.kind == ipAddrPtr {
					vals[x] = ipVal{kind: ipField, name: derefStruct(x.X.Type()).Field(x.Field).Name()}
				} else {
					vals[x] = ipUnk("field of " + x.X.Name())
				}
			case *ssa.IndexAddr:
				base, ix := get(x.X), get(x.Index)
				switch {
				case ix.kind != ipInt:
					vals[x] = ipUnk("index not constant")
				case base.kind == ipRef && base.off == -1 && base.cell.bytes != nil && ix.n >= 0 && ix.n < len(base.cell.bytes):
					vals[x] = ipVal{kind: ipRef, cell: base.cell, off: ix.n}
				case base.kind == ipBytes && base.cell != nil && ix.n >= 0 && ix.n < base.n:
					vals[x] = ipVal{kind: ipRef, cell: base.cell, off: base.off + ix.n}
				default:
					vals[x] = ipUnk("index address")
				}
			case *ssa.Store:
				addr, val := get(x.Addr), get(x.Val)
				if addr.kind != ipRef {
					if addr.kind == ipField {
						r.fail = "writes the address it is given"
					}
					break // a store into memory the evaluator does not follow
				}
				if addr.off >= 0 {
					switch {
					case val.kind == ipInt:
						addr.cell.bytes[addr.off] = bt{c: byte(val.n)}
					case val.kind == ipBytes && len(val.view()) == 1: // a byte loaded from a slice
						addr.cell.bytes[addr.off] = val.view()[0]
					default:
						return ipUnk("stores a byte it cannot name")
					}
					break
				}
				if addr.cell.bytes != nil {
					if val.kind == ipBytes && len(val.view()) == len(addr.cell.bytes) {
						copy(addr.cell.bytes, val.view())
						break
					}
					return ipUnk("array store")
				}
				v2 := val
				addr.cell.val = &v2
			case *ssa.UnOp:
				o := get(x.X)
				switch x.Op {
				case token.MUL:
					switch o.kind {
					case ipField:
						switch o.name {
						case "IP":
							vals[x] = r.classIP()
						default:
							v := ipUnk(o.name + " of the address")
							v.taint = true
							vals[x] = v
						}
					case ipRef:
						switch {
						case o.off >= 0:
							vals[x] = ipVal{kind: ipBytes, bytes: []bt{o.cell.bytes[o.off]}, n: 1}
						case o.cell.bytes != nil:
							vals[x] = ipVal{kind: ipBytes, bytes: append([]bt{}, o.cell.bytes...), n: len(o.cell.bytes)}
						case o.cell.val != nil:
							vals[x] = *o.cell.val
						default:
							// zero value
							switch t := x.Type().Underlying().(type) {
							case *types.Slice, *types.Pointer, *types.Interface, *types.Map:
								vals[x] = ipVal{kind: ipNil}
							case *types.Basic:
								switch {
								case t.Info()&types.IsInteger != 0:
									vals[x] = ipVal{kind: ipInt}
								case t.Info()&types.IsBoolean != 0:
									vals[x] = ipVal{kind: ipBool}
								case t.Info()&types.IsString != 0:
									vals[x] = ipVal{kind: ipStr}
								default:
									vals[x] = ipUnk("zero value")
								}
							default:
								if x.Type().String() == "net/netip.Addr" {
									vals[x] = ipVal{kind: ipNetip}
								} else {
									vals[x] = ipUnk("zero value of " + x.Type().String())
								}
							}
						}
					default:
						vals[x] = ipUnk("load")
					}
				case token.NOT:
					if o.kind == ipBool {
						vals[x] = ipVal{kind: ipBool, b: !o.b}
					} else {
						vals[x] = ipUnk("!unknown")
					}
				default:
					vals[x] = ipUnk("unary " + x.Op.String())
				}
			case *ssa.BinOp:
				vals[x] = r.binop(x, get(x.X), get(x.Y))
			case *ssa.Slice:
				base := get(x.X)
				lo, hi := 0, -1
				if x.Low != nil {
					l := get(x.Low)
					if l.kind != ipInt {
						vals[x] = ipUnk("slice bound")
						break
					}
					lo = l.n
				}
				if x.High != nil {
					h := get(x.High)
					if h.kind != ipInt {
						vals[x] = ipUnk("slice bound")
						break
					}
					hi = h.n
				}
				switch {
				case base.kind == ipRef && base.off == -1 && base.cell.bytes != nil:
					if hi < 0 {
						hi = len(base.cell.bytes)
					}
					if lo < 0 || hi > len(base.cell.bytes) || lo > hi {
						return ipUnk("slice out of range")
					}
					vals[x] = ipVal{kind: ipBytes, cell: base.cell, off: lo, n: hi - lo}
				case base.kind == ipBytes:
					bs := base.view()
					if hi < 0 {
						hi = len(bs)
					}
					if lo < 0 || hi > len(bs) || lo > hi {
						return ipUnk("slice out of range")
					}
					if base.cell != nil {
						vals[x] = ipVal{kind: ipBytes, cell: base.cell, off: base.off + lo, n: hi - lo}
					} else {
						vals[x] = ipVal{kind: ipBytes, bytes: bs[lo:hi], n: hi - lo}
					}
				case base.kind == ipNil && lo == 0 && hi <= 0:
					vals[x] = ipVal{kind: ipNil}
				default:
					vals[x] = ipUnk("slice of " + x.X.Name())
				}
			case *ssa.Convert:
				o := get(x.X)
				_, toStr := x.Type().Underlying().(*types.Basic)
				switch {
				case o.kind == ipBytes && toStr && x.Type().Underlying().(*types.Basic).Info()&types.IsString != 0:
					vals[x] = ipVal{kind: ipStr, bytes: append([]bt{}, o.view()...), taint: o.taint}
				case o.kind == ipNil && toStr && x.Type().Underlying().(*types.Basic).Info()&types.IsString != 0:
					vals[x] = ipVal{kind: ipStr}
				case o.kind == ipStr && !toStr:
					vals[x] = ipVal{kind: ipBytes, bytes: append([]bt{}, o.bytes...), n: len(o.bytes), taint: o.taint}
				default:
					vals[x] = o // integer conversions, named types
				}
			case *ssa.ChangeType:
				vals[x] = get(x.X)
			case *ssa.ChangeInterface:
				vals[x] = get(x.X)
			case *ssa.MakeInterface:
				vals[x] = get(x.X)
			case *ssa.TypeAssert:
				o := get(x.X)
				var res ipVal
				match := false
				switch {
				case o.kind == ipAddrPtr:
					match = strings.HasSuffix(x.AssertedType.String(), "net."+r.typ) && strings.HasPrefix(x.AssertedType.String(), "*")
					if _, isI := x.AssertedType.Underlying().(*types.Interface); isI {
						match = true // net.Addr, fmt.Stringer: both address types have the methods of net.Addr
					}
					res = o
				case o.kind == ipNil:
					res = ipVal{kind: ipNil}
				default:
					res = ipUnk("type assertion on " + x.X.Name())
				}
				if x.CommaOk {
					if res.kind == ipUnknown {
						vals[x] = res
						break
					}
					if !match {
						res = ipVal{kind: ipNil}
					}
					vals[x] = ipVal{kind: ipTuple, elems: []ipVal{res, {kind: ipBool, b: match}}}
				} else if match {
					vals[x] = res
				} else {
					return ipUnk("failing type assertion")
				}
			case *ssa.Extract:
				t := get(x.Tuple)
				if t.kind == ipTuple && x.Index < len(t.elems) {
					vals[x] = t.elems[x.Index]
				} else {
					vals[x] = ipUnk("extract of " + x.Tuple.Name())
				}
			case *ssa.Call:
				var as []ipVal
				for _, a := range x.Call.Args {
					as = append(as, get(a))
				}
				vals[x] = r.doCall(x, as, depth)
			case *ssa.If:
				cnd := get(x.Cond)
				if cnd.kind != ipBool {
					why := "a branch the address shape does not decide"
					if cnd.kind == ipUnknown && cnd.name != "" {
						why += " (" + cnd.name + ")"
					}
					u := ipUnk(why)
					u.taint = cnd.taint
					return u
				}
				if cnd.b {
					next = b.Succs[0]
				} else {
					next = b.Succs[1]
				}
			case *ssa.Jump:
				next = b.Succs[0]
			case *ssa.Return:
				if len(x.Results) == 1 {
					return get(x.Results[0])
				}
				t := ipVal{kind: ipTuple}
				for _, rv := range x.Results {
					t.elems = append(t.elems, get(rv))
				}
				return t
			case *ssa.Panic:
				return ipUnk("panics")
			case *ssa.Defer, *ssa.RunDefers, *ssa.Go, *ssa.Send, *ssa.MapUpdate:
				return ipUnk("effect: " + in.String())
			default:
				if v, ok := in.(ssa.Value); ok {
					vals[v] = ipUnk(fmt.Sprintf("%T", in))
				}
			}
		}
		if next == nil {
			return ipUnk("fell off a block")
		}
		prev, b = b, next
	}
}

func (r *ipRun) binop(x *ssa.BinOp, l, rr ipVal) ipVal {
	taint := l.taint || rr.taint
	unk := func(s string) ipVal { u := ipUnk(s); u.taint = taint; return u }
	isNilable := func(v ipVal) (known, isNil bool) {
		switch v.kind {
		case ipNil:
			return true, true
		case ipBytes, ipAddrPtr, ipRef:
			return true, false
		}
		return false, false
	}
	switch x.Op {
	case token.EQL, token.NEQ:
		eq, known := false, false
		switch {
		case l.kind == ipInt && rr.kind == ipInt:
			eq, known = l.n == rr.n, true
		case l.kind == ipBool && rr.kind == ipBool:
			eq, known = l.b == rr.b, true
		case l.kind == ipNil || rr.kind == ipNil:
			lk, ln := isNilable(l)
			rk, rn := isNilable(rr)
			if lk && rk {
				eq, known = ln == rn, true
			}
		}
		if !known {
			return unk("comparison")
		}
		return ipVal{kind: ipBool, b: eq == (x.Op == token.EQL)}
	case token.LSS, token.LEQ, token.GTR, token.GEQ:
		if l.kind == ipInt && rr.kind == ipInt {
			var res bool
			switch x.Op {
			case token.LSS:
				res = l.n < rr.n
			case token.LEQ:
				res = l.n <= rr.n
			case token.GTR:
				res = l.n > rr.n
			default:
				res = l.n >= rr.n
			}
			return ipVal{kind: ipBool, b: res}
		}
	case token.ADD, token.SUB:
		if l.kind == ipInt && rr.kind == ipInt {
			if x.Op == token.ADD {
				return ipVal{kind: ipInt, n: l.n + rr.n}
			}
			return ipVal{kind: ipInt, n: l.n - rr.n}
		}
		if x.Op == token.ADD && l.kind == ipStr && rr.kind == ipStr {
			return ipVal{kind: ipStr, bytes: append(append([]bt{}, l.bytes...), rr.bytes...), taint: taint}
		}
	}
	return unk("operator " + x.Op.String())
}

func (r *ipRun) doCall(x *ssa.Call, as []ipVal, depth int) ipVal {
	taint := false
	for _, a := range as {
		taint = taint || a.taint
	}
	unk := func(s string) ipVal { u := ipUnk(s); u.taint = taint; return u }
	if bi, ok := x.Call.Value.(*ssa.Builtin); ok {
		switch bi.Name() {
		case "len":
			switch as[0].kind {
			case ipBytes:
				return ipVal{kind: ipInt, n: len(as[0].view())}
			case ipStr:
				return ipVal{kind: ipInt, n: len(as[0].bytes)}
			case ipNil:
				return ipVal{kind: ipInt}
			}
		case "copy":
			if as[0].kind == ipBytes && as[0].cell != nil && (as[1].kind == ipBytes || as[1].kind == ipStr) {
				src := as[1].bytes
				if as[1].kind == ipBytes {
					src = append([]bt{}, as[1].view()...)
				}
				n := copy(as[0].view(), src)
				return ipVal{kind: ipInt, n: n}
			}
			if as[1].kind == ipNil {
				return ipVal{kind: ipInt}
			}
		case "append":
			if len(as) == 2 && (as[0].kind == ipBytes || as[0].kind == ipNil) && (as[1].kind == ipBytes || as[1].kind == ipStr || as[1].kind == ipNil) {
				var bs []bt
				if as[0].kind == ipBytes {
					bs = append(bs, as[0].view()...)
				}
				switch as[1].kind {
				case ipBytes:
					bs = append(bs, as[1].view()...)
				case ipStr:
					bs = append(bs, as[1].bytes...)
				}
				cell := &ipCell{bytes: bs}
				return ipVal{kind: ipBytes, cell: cell, n: len(bs)}
			}
		}
		return unk("builtin " + bi.Name())
	}
	name := stdCallee(&x.Call)
	switch name {
	case "(net.IP).To4":
		if as[0].kind == ipNil {
			return ipVal{kind: ipNil}
		}
		if as[0].kind == ipBytes {
			if bs, ok := ipTo4(as[0].view()); ok {
				if bs == nil {
					if ipIsV6(as[0].view()) || (len(as[0].view()) != 16 && len(as[0].view()) != 4) {
						return ipVal{kind: ipNil}
					}
					return unk("To4 of bytes of unknown shape")
				}
				return ipVal{kind: ipBytes, bytes: append([]bt{}, bs...), n: 4}
			}
		}
		return unk("To4")
	case "(net.IP).To16":
		if as[0].kind == ipNil {
			return ipVal{kind: ipNil}
		}
		if as[0].kind == ipBytes {
			bs := as[0].view()
			switch len(bs) {
			case 4:
				return ipVal{kind: ipBytes, bytes: ipMapped(bs), n: 16}
			case 16:
				return ipVal{kind: ipBytes, bytes: append([]bt{}, bs...), n: 16}
			default:
				return ipVal{kind: ipNil}
			}
		}
		return unk("To16")
	case "(net.IP).String":
		if as[0].kind == ipBytes {
			bs := as[0].view()
			if b4, _ := ipTo4(bs); b4 != nil {
				return ipVal{kind: ipCanon, bytes: append([]bt{}, b4...)}
			}
			if ipIsV6(bs) {
				return ipVal{kind: ipCanon, bytes: append([]bt{}, bs...)}
			}
		}
		return unk("String() of bytes of unknown shape")
	case "net/netip.AddrFromSlice":
		if as[0].kind == ipBytes {
			bs := as[0].view()
			if len(bs) == 4 || len(bs) == 16 {
				return ipVal{kind: ipTuple, elems: []ipVal{{kind: ipNetip, bytes: append([]bt{}, bs...), n: len(bs)}, {kind: ipBool, b: true}}}
			}
			return ipVal{kind: ipTuple, elems: []ipVal{{kind: ipNetip}, {kind: ipBool, b: false}}}
		}
		if as[0].kind == ipNil {
			return ipVal{kind: ipTuple, elems: []ipVal{{kind: ipNetip}, {kind: ipBool, b: false}}}
		}
		return unk("AddrFromSlice")
	case "(net/netip.Addr).Unmap":
		if as[0].kind == ipNetip {
			if as[0].n == 16 && ipIsMapped(as[0].bytes) {
				return ipVal{kind: ipNetip, bytes: as[0].bytes[12:], n: 4, taint: as[0].taint}
			}
			if as[0].n == 4 || as[0].n == 0 || ipIsV6(as[0].bytes) {
				return as[0]
			}
		}
		return unk("Unmap")
	case "(net/netip.Addr).WithZone":
		if as[0].kind == ipNetip && as[1].kind == ipStr && len(as[1].bytes) == 0 {
			v := as[0]
			v.taint = false
			return v
		}
		return unk("WithZone")
	case "(net/netip.Addr).IsValid":
		if as[0].kind == ipNetip {
			return ipVal{kind: ipBool, b: as[0].n != 0}
		}
	case "(net/netip.Addr).Is4":
		if as[0].kind == ipNetip {
			return ipVal{kind: ipBool, b: as[0].n == 4}
		}
	case "(net/netip.Addr).Is4In6":
		if as[0].kind == ipNetip {
			return ipVal{kind: ipBool, b: as[0].n == 16 && ipIsMapped(as[0].bytes)}
		}
	case "(net/netip.Addr).As16":
		if as[0].kind == ipNetip && as[0].n != 0 {
			bs := as[0].bytes
			if as[0].n == 4 {
				bs = ipMapped(bs)
			}
			return ipVal{kind: ipBytes, bytes: append([]bt{}, bs...), n: 16, taint: as[0].taint}
		}
	case "(net/netip.Addr).AsSlice":
		if as[0].kind == ipNetip && as[0].n != 0 {
			return ipVal{kind: ipBytes, bytes: append([]bt{}, as[0].bytes...), n: as[0].n, taint: as[0].taint}
		}
	case "(*net.UDPAddr).AddrPort", "(*net.TCPAddr).AddrPort":
		if as[0].kind == ipAddrPtr {
			ip := r.classIP()
			return ipVal{kind: ipTuple, name: "AddrPort", elems: []ipVal{{kind: ipNetip, bytes: ip.bytes, n: len(ip.bytes), taint: true}, {kind: ipUnknown, name: "port", taint: true}}}
		}
	case "(net/netip.AddrPort).Addr":
		if as[0].kind == ipTuple && as[0].name == "AddrPort" {
			return as[0].elems[0]
		}
	case "(net/netip.AddrPort).Port":
		return ipVal{kind: ipUnknown, name: "port", taint: true}
	case "bytes.Clone", "slices.Clone":
		if as[0].kind == ipBytes {
			return ipVal{kind: ipBytes, bytes: append([]bt{}, as[0].view()...), n: len(as[0].view()), taint: as[0].taint}
		}
		if as[0].kind == ipNil {
			return as[0]
		}
	}
	if h := x.Call.StaticCallee(); h != nil && r.w.IsMod[h] && len(h.Blocks) > 0 {
		return r.call(h, as, depth+1)
	}
	if name == "" && x.Call.StaticCallee() != nil {
		name = x.Call.StaticCallee().String()
	}
	return unk("call of " + name)
}

func btsString(bs []bt) string {
	var ss []string
	for _, b := range bs {
		ss = append(ss, b.String())
	}
	return strings.Join(ss, " ")
}

func (v ipVal) String() string {
	switch v.kind {
	case ipNil:
		return "nil"
	case ipBytes:
		return "bytes[" + btsString(v.view()) + "]"
	case ipStr:
		return "string[" + btsString(v.bytes) + "]"
	case ipCanon:
		return "IP.String() of [" + btsString(v.bytes) + "]"
	case ipNetip:
		if v.n == 0 {
			return "netip.Addr{}"
		}
		return fmt.Sprintf("netip.Addr(%d bytes)[%s]", v.n, btsString(v.bytes))
	case ipUnknown:
		return "unknown (" + v.name + ")"
	}
	return fmt.Sprintf("value kind %d", v.kind)
}

func sameBts(a, b []bt) bool {
	if len(a) != len(b) {
		return false
	}
	for i := range a {
		if a[i] != b[i] {
			return false
		}
	}
	return true
}

func hasAllSyms(bs []bt, k, n int) bool {
	seen := map[int]bool{}
	for _, b := range bs {
		if b.k == k {
			seen[b.i] = true
		}
	}
	return len(seen) == n
}

// ipKeyVerdict: is fn (one net.Addr parameter, one result) a canonical key of the address's IP?
// decided=false: the evaluator does not apply (why says what stopped it).
func (w *World) ipKeyVerdict(fn *ssa.Function) (decided, canonical bool, why string) {
	if len(fn.Params) != 1 || fn.Signature.Results().Len() != 1 {
		return false, false, "not a one-argument key function"
	}
	for _, typ := range []string{"UDPAddr", "TCPAddr"} {
		var ks [3]ipVal
		for cls := 0; cls < 3; cls++ {
			r := &ipRun{w: w, cls: cls, typ: typ, budget: 5000}
			k := r.call(fn, []ipVal{{kind: ipAddrPtr}}, 0)
			if r.fail != "" {
				return true, false, r.fail
			}
			if k.taint {
				return true, false, "the key of a *net." + typ + " depends on more than its IP (the port or the zone): " + k.String()
			}
			switch k.kind {
			case ipStr, ipCanon, ipNetip, ipBytes:
			default:
				return false, false, "for a *net." + typ + " of shape " + []string{"4-byte IPv4", "IPv4-mapped", "IPv6"}[cls] + " the key is " + k.String()
			}
			if k.kind == ipBytes {
				k = ipVal{kind: ipBytes, bytes: append([]bt{}, k.view()...), n: len(k.view())}
			}
			ks[cls] = k
		}
		a, m, v6 := ks[0], ks[1], ks[2]
		if a.kind != m.kind || a.n != m.n || !sameBts(a.bytes, m.bytes) {
			return true, false, "one IPv4 address has two keys: " + a.String() + " when it is held in 4 bytes, " + m.String() + " when it is held in 16 (net.ParseIP, dual-stack sockets and decoded attributes produce both)"
		}
		if !hasAllSyms(a.bytes, 1, 4) {
			return true, false, "different IPv4 addresses share a key: " + a.String() + " does not contain every byte of the address"
		}
		if !hasAllSyms(v6.bytes, 2, 16) {
			return true, false, "different IPv6 addresses share a key: " + v6.String() + " does not contain every byte of the address"
		}
		// can an IPv4 address and a genuine IPv6 address collide?
		switch {
		case a.kind != v6.kind:
		case a.kind == ipCanon:
			// IP.String() of an IPv4 address is dotted, of a genuine IPv6 address is not
		case a.kind == ipNetip && a.n != v6.n:
		case len(a.bytes) != len(v6.bytes):
		case len(a.bytes) == 16 && ipIsV6(v6.bytes) && ipIsMapped(a.bytes):
			// the 16 bytes of the IPv4 key are of the mapped pattern, which the IPv6 shape excludes
		default:
			return true, false, "an IPv4 and an IPv6 address can share a key: " + a.String() + " for a.b.c.d equals " + v6.String() + " for a suitable IPv6 address (e.g. a.b.c.d packed into the head of a zeroed 16-byte array is the key of aabb:ccdd::)"
		}
	}
	return true, true, ""
}
