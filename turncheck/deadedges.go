package main

// Semantically dead branch edges.
//
// Defensive code that cannot trigger (`if existed == nil { return }` after a comma-ok hit in
// a map that never holds nil; `else if x != nil` after `if x == nil`; `if n > len(buf)` after
// n ≤ mtu < len(buf)) adds branches to the CFG that no execution takes. Rules that demand
// something of every path would report them. An edge is marked dead when the condition it
// stands for contradicts what is known on arrival at the branch:
//   - the opposite atom is a must-fact at the branch,
//   - it claims nil of a value that is definitely non-nil (allocation, constructor result,
//     a found entry of a map that never holds nil),
//   - it claims X < Y (resp. X ≥ Y) while Y ≤ X (resp. X < Y) is provable from intervals and
//     facts at the branch.
// The marking is computed once per load from the first-phase facts (all edges live); facts
// are then recomputed without the dead edges. Every walker asks deadEdge().

import (
	"go/token"
	"os"
	"strconv"

	"golang.org/x/tools/go/ssa"
)

type edgeKey struct{ p, s *ssa.BasicBlock }

func (w *World) computeDeadEdges() {
	if os.Getenv("TURNCHECK_NODEAD") != "" {
		return
	}
	dead := map[edgeKey]bool{}
	a := w.absint()
	for _, fn := range w.ModFns {
		for _, b := range fn.Blocks {
			if len(b.Instrs) == 0 {
				continue
			}
			iff, ok := b.Instrs[len(b.Instrs)-1].(*ssa.If)
			if !ok || len(b.Succs) != 2 || b.Succs[0] == b.Succs[1] {
				continue
			}
			if _, folded := constFoldIf(iff); folded {
				continue
			}
			known := w.factsAt(iff)
			for i, s := range b.Succs {
				if w.edgeContradicted(a, iff, normCond(iff.Cond, i == 0), known) {
					dead[edgeKey{b, s}] = true
				}
			}
			// never kill both edges of one branch (would mean the branch itself is unreachable
			// or our reasoning is off): keep both
			if dead[edgeKey{b, b.Succs[0]}] && dead[edgeKey{b, b.Succs[1]}] {
				delete(dead, edgeKey{b, b.Succs[0]})
				delete(dead, edgeKey{b, b.Succs[1]})
			}
		}
	}
	// second phase: forget everything derived in the first one (facts with all edges live, and
	// every memo that may have been filled in the middle of another computation)
	w.factMemo = map[*ssa.Function]*funcFacts{}
	w.synth = nil
	w.ai = nil
	w.fl = nil
	w.synthPos = nil
	if os.Getenv("TURNCHECK_KEYDIFF") != "" {
		debugOldKeys = w.keyMemo
	}
	w.keyMemo = map[ssa.Value]string{}
	w.escMemo = map[ssa.Value]bool{}
	w.stableMemo = map[string]bool{}
	w.storeSets = nil
	if len(dead) == 0 {
		return
	}
	w.dead = dead
	if os.Getenv("TURNCHECK_DEADDEBUG") != "" {
		for k := range dead {
			last := k.p.Instrs[len(k.p.Instrs)-1]
			os.Stderr.WriteString("DEAD " + fname(k.p.Parent()) + " " + w.instrPos(last) + " -> block " + k.s.String() + "\n")
		}
	}
}

// edgeContradicted: one of the atoms the edge asserts is refuted by what is known at the branch.
func (w *World) edgeContradicted(a *absint, at ssa.Instruction, asserted []Fact, known []Fact) bool {
	for _, f := range asserted {
		// the opposite atom is already a must-fact
		for _, k := range known {
			if k.Op == f.Op && k.Truth != f.Truth && sameAtomSides(w, k, f) {
				return true
			}
		}
		if v, isNil, ok := nilFact(f); ok && isNil {
			rv := stripIface(w.resolveLoad(v))
			if _, isIface := v.Type().Underlying().(interface{ NumMethods() int }); !isIface || true {
				if a.definitelyNonNil(rv) || w.presentEntryOfNonNilTable(rv, known) || w.rangeValueOfNonNilMap(rv) || w.lookupOfRangedKey(rv) {
					return true
				}
			}
		}
		// x % k != 0 claimed of a value that is always a multiple of k
		if f.Op == "==" && !f.Truth {
			for _, pair := range [][2]ssa.Value{{f.X, f.Y}, {f.Y, f.X}} {
				if z, isZ := constInt(pair[1]); isZ && z == 0 {
					if bo, isBO := stripIntConv(pair[0]).(*ssa.BinOp); isBO && bo.Op == token.REM {
						if k, isK := constInt(bo.Y); isK && w.multipleOf(bo.X, k, 0, map[ssa.Value]bool{}) {
							return true
						}
					}
				}
			}
		}
		// X == c claimed of a value whose range excludes c; X != c of a value that can only be c
		if f.Op == "==" && f.X != nil && f.Y != nil && isIntType(f.X.Type()) {
			for _, pair := range [][2]ssa.Value{{f.X, f.Y}, {f.Y, f.X}} {
				if cst, isC := constInt(pair[1]); isC {
					if _, isC2 := constInt(pair[0]); isC2 {
						continue
					}
					r := a.rangeOfTerm(termOf(pair[0]), at, 3)
					if os.Getenv("TURNCHECK_DEADDEBUG") != "" {
						os.Stderr.WriteString("EQRANGE " + w.instrPos(at) + " " + w.key(pair[0]) + " truth=" + map[bool]string{true: "T", false: "F"}[f.Truth] + " c=" + strconv.Itoa(int(cst)) + " range=" + r.String() + "\n")
					}
					if r.empty() {
						continue
					}
					if f.Truth && (cst < r.lo || cst > r.hi) {
						return true
					}
					if !f.Truth && r.lo == cst && r.hi == cst {
						return true
					}
				}
			}
		}
		if f.Op == "<" && isIntType(f.X.Type()) && isIntType(f.Y.Type()) {
			if f.Truth {
				if ok, _ := a.proveLE(termOf(f.Y), termOf(f.X), at); ok {
					return true
				}
			} else {
				if ok, _ := a.proveLT(termOf(f.X), termOf(f.Y), at); ok {
					return true
				}
			}
		}
	}
	return false
}

func sameAtomSides(w *World, a, b Fact) bool {
	same := func(x, y ssa.Value) bool {
		if x == nil || y == nil {
			return x == y
		}
		return x == y || w.sameKey(x, y)
	}
	if same(a.X, b.X) && same(a.Y, b.Y) {
		return true
	}
	return a.Op == "==" && same(a.X, b.Y) && same(a.Y, b.X)
}

// semDead: the edge was found dead by computeDeadEdges.
func semDead(pred, succ *ssa.BasicBlock) bool {
	return theWorld != nil && theWorld.dead != nil && theWorld.dead[edgeKey{pred, succ}]
}

var debugOldKeys map[ssa.Value]string

// debugKeyDiff: keys that differ between the first phase and now (development aid).
func debugKeyDiff(w *World) {
	if debugOldKeys == nil {
		return
	}
	n := 0
	for v, k := range debugOldKeys {
		if w.isSynthetic(v) {
			continue
		}
		if _, isV := v.(*virtVal); isV {
			continue
		}
		if k2 := w.key(v); k2 != k && n < 40 {
			n++
			pos := "-"
			if in, ok := v.(ssa.Instruction); ok && in.Block() != nil {
				pos = w.instrPos(in)
			}
			os.Stderr.WriteString("KEYDIFF " + pos + " phase1=" + k + " now=" + k2 + "\n")
		}
	}
}

// liveSuccs: the successors of b over edges that can be taken.
func liveSuccs(b *ssa.BasicBlock) []*ssa.BasicBlock {
	if theWorld == nil || theWorld.dead == nil || len(b.Succs) < 2 {
		return b.Succs
	}
	var out []*ssa.BasicBlock
	for _, s := range b.Succs {
		if !deadEdge(b, s) {
			out = append(out, s)
		}
	}
	return out
}

// liveBlock: b can be reached from its function's entry over live edges.
func (w *World) liveBlock(b *ssa.BasicBlock) bool {
	if w.dead == nil || b.Parent() == nil {
		return true
	}
	fn := b.Parent()
	if w.liveMemo == nil {
		w.liveMemo = map[*ssa.Function]map[*ssa.BasicBlock]bool{}
	}
	m, ok := w.liveMemo[fn]
	if !ok {
		m = map[*ssa.BasicBlock]bool{}
		if len(fn.Blocks) > 0 {
			stack := []*ssa.BasicBlock{fn.Blocks[0]}
			for len(stack) > 0 {
				x := stack[len(stack)-1]
				stack = stack[:len(stack)-1]
				if m[x] {
					continue
				}
				m[x] = true
				stack = append(stack, liveSuccs(x)...)
			}
			if fn.Recover != nil {
				m[fn.Recover] = true
			}
		}
		w.liveMemo[fn] = m
	}
	return m[b]
}

// multipleOf: the integer value is always a multiple of k (k ≥ 2): constants, products with a
// multiple, sums/differences of multiples, phis of multiples, results of module functions all
// of whose returns are multiples (nearestPaddedValueLength), conversions.
func (w *World) multipleOf(v ssa.Value, k int64, depth int, seen map[ssa.Value]bool) bool {
	if depth > 10 || k < 2 {
		return false
	}
	if seen[v] {
		return true // loop-carried: decided by the other operands
	}
	seen[v] = true
	defer delete(seen, v)
	v = w.resolveLoad(v)
	if c, ok := constInt(v); ok {
		return c%k == 0
	}
	switch x := v.(type) {
	case *ssa.Convert:
		return isIntType(x.X.Type()) && w.multipleOf(x.X, k, depth+1, seen)
	case *ssa.ChangeType:
		return w.multipleOf(x.X, k, depth+1, seen)
	case *ssa.BinOp:
		switch x.Op {
		case token.MUL:
			return w.multipleOf(x.X, k, depth+1, seen) || w.multipleOf(x.Y, k, depth+1, seen)
		case token.ADD, token.SUB:
			if w.multipleOf(x.X, k, depth+1, seen) && w.multipleOf(x.Y, k, depth+1, seen) {
				return true
			}
			// rounding: a - a%k, a + (K - a%k) with K a multiple of k
			isRemOf := func(r, a ssa.Value) bool {
				bo, ok := stripIntConv(w.resolveLoad(r)).(*ssa.BinOp)
				if !ok || bo.Op != token.REM {
					return false
				}
				kk, isK := constInt(bo.Y)
				return isK && kk == k && (bo.X == a || w.sameKey(bo.X, a))
			}
			if x.Op == token.SUB && isRemOf(x.Y, x.X) {
				return true
			}
			if x.Op == token.ADD {
				for _, pr := range [][2]ssa.Value{{x.X, x.Y}, {x.Y, x.X}} {
					if sb, ok := stripIntConv(w.resolveLoad(pr[1])).(*ssa.BinOp); ok && sb.Op == token.SUB {
						if kk, isK := constInt(sb.X); isK && kk%k == 0 && isRemOf(sb.Y, pr[0]) {
							return true
						}
					}
				}
			}
			return false
		case token.SHL:
			if s, ok := constInt(x.Y); ok && s > 0 && s < 32 && (int64(1)<<uint(s))%k == 0 {
				return true
			}
		case token.AND_NOT:
			// x &^ (k-1) for k a power of two
			if m, ok := constInt(x.Y); ok && k&(k-1) == 0 && m&(k-1) == k-1 {
				return true
			}
		}
	case *ssa.Phi:
		for i, e := range x.Edges {
			if w.multipleOf(e, k, depth+1, seen) {
				continue
			}
			// selected on an edge where e % k == 0 was observed
			okEdge := false
			pred := x.Block().Preds[i]
			var fs []Fact
			if len(pred.Instrs) > 0 {
				fs = append(fs, w.factsAt(pred.Instrs[0])...)
			}
			fs = append(fs, edgeFacts(pred, x.Block())...)
			for _, f := range fs {
				if f.Op != "==" || !f.Truth {
					continue
				}
				for _, pair := range [][2]ssa.Value{{f.X, f.Y}, {f.Y, f.X}} {
					if z, isZ := constInt(pair[1]); isZ && z == 0 {
						if bo, isBO := stripIntConv(pair[0]).(*ssa.BinOp); isBO && bo.Op == token.REM {
							if kk, isK := constInt(bo.Y); isK && kk == k && (bo.X == e || w.sameKey(bo.X, e)) {
								okEdge = true
							}
						}
					}
				}
			}
			if !okEdge {
				return false
			}
		}
		return true
	case *ssa.Call:
		h := x.Call.StaticCallee()
		if h == nil || !w.IsMod[h] || len(h.Blocks) == 0 || h.Signature.Results().Len() != 1 {
			return false
		}
		for _, r := range returnsOf(h) {
			if !w.multipleOf(r.Results[0], k, depth+1, seen) {
				return false
			}
		}
		return true
	}
	return false
}
