package main

import (
	"fmt"
	"go/constant"
	"go/token"
	"go/types"
	"sort"
	"strings"

	"golang.org/x/tools/go/ssa"
)

func init() {
	register(&propDef{
		ID:        "C13",
		Title:     "The client's relayed socket honours the PacketConn contract over TURN",
		Technique: "guarded-sink dominance with infeasible-edge pruning and phi-leaf resolution (retry loops), typestate over the binding state constants derived from binding.ok(), field-invariant induction, provenance of inbound (payload, peer) pairs, channel-operation inventory",
		Explanation: "C13.1 in UDPConn.WriteTo every emission (Send indication, ChannelData) is dominated by err==nil where every live source of err is createPermission(perm, addr) for the very addr written to; createPermission returns nil only after CreatePermissions(addr)==nil or when the permission was already in the permitted state (observed under the permission's mutex), and marks it permitted only after that success; " +
			"C13.2 ChannelData is sent only on the bound.ok() edge, with bound.number of the binding found or created for the same addr; " +
			"C13.3 typestate: with OK the set of states for which binding.ok() returns true (derived from its body), every setState(K), K ∈ OK, is dominated by a successful bind() of that binding or occurs where the start state is known to be in OK; " +
			"C13.4 channel numbers: binding.number has one writer fed by a counter that stays in [0x4000,0x7FFF] (induction); bindings are created and looked up under the manager's lock; " +
			"C13.5 inbound provenance: the (payload, peer) pair handed to UDPConn.HandleInbound is (DATA, XOR-PEER-ADDRESS) of one message, resp. (decoded ChannelData payload, address bound to the decoded number); ReadFrom's select has the data, deadline and close cases; " +
			"C13.6 the inbound path never blocks on a channel (C09.4); " +
			"C13.7 (=C05.5) what is queued for ReadFrom is a private copy of the inbound payload, never a slice of the reusable socket read buffer; " +
			"C13.8 (=C14.8) a binding is marked refreshed only after a confirmed bind; the read-deadline timer is never replaced.; " +
			"C13.9 the peer address of an inbound indication is decoded into storage of that one message (a local), never into a pooled or remembered object whose bytes a later message rewrites; " +
			"C13.10 table keys made from net/netip values are unmapped first, so one peer spelled as 1.2.3.4 and as ::ffff:1.2.3.4 is one key (no instance while the module does not use net/netip); " +
			"C13.11 UDPConn.Close closes the conn's closeCh on every path except the already-closed one: a failure to send the de-allocating Refresh does not leave blocked readers waiting. C13.12 HandleInbound queues every payload (nothing in front of the non-blocking send); C13.13 nothing deletes a binding. C13.14 the inbound path takes no lock that is held across a transaction; C13.15 OnDeallocated is reported once. C13.16 FindAddrByChannelNumber fails only for a number that is not in the binding table (closed refusal set).",
		NotCovered: "uniqueness of channel numbers beyond 16384 live peers (the counter wraps), deadline timing, what the server answers.",
		Run:        runC13,
	})
}

// constFoldIf: an If whose condition is a comparison of two constants; returns the value.
func constFoldIf(iff *ssa.If) (bool, bool) {
	switch x := iff.Cond.(type) {
	case *ssa.Const:
		if x.Value != nil && x.Value.Kind() == constant.Bool {
			return constant.BoolVal(x.Value), true
		}
	case *ssa.BinOp:
		cx, ok1 := x.X.(*ssa.Const)
		cy, ok2 := x.Y.(*ssa.Const)
		if ok1 && ok2 && cx.Value != nil && cy.Value != nil {
			switch x.Op {
			case token.LSS, token.LEQ, token.GTR, token.GEQ, token.EQL, token.NEQ:
				return constant.Compare(cx.Value, x.Op, cy.Value), true
			}
		}
	}
	return false, false
}

// deadEdge: pred→succ can never be taken (pred ends in an If that folds to the other edge).
func deadEdge(pred, succ *ssa.BasicBlock) bool {
	if semDead(pred, succ) {
		return true
	}
	iff, ok := pred.Instrs[len(pred.Instrs)-1].(*ssa.If)
	if !ok || pred.Succs[0] == pred.Succs[1] {
		return false
	}
	v, ok := constFoldIf(iff)
	if !ok {
		return false
	}
	if v {
		return succ == pred.Succs[1]
	}
	return succ == pred.Succs[0]
}

// liveLeaves: the non-phi values a phi can take along feasible edges.
func liveLeaves(v ssa.Value) []ssa.Value {
	seen := map[ssa.Value]bool{}
	var out []ssa.Value
	var walk func(v ssa.Value)
	walk = func(v ssa.Value) {
		if seen[v] {
			return
		}
		seen[v] = true
		phi, ok := v.(*ssa.Phi)
		if !ok {
			out = append(out, v)
			return
		}
		for i, e := range phi.Edges {
			if deadEdge(phi.Block().Preds[i], phi.Block()) {
				continue
			}
			// a loop-header phi seen from after the loop: the value it has on first arrival is
			// only visible there if the loop can exit without running its body once
			if entryEdgeInvisibleAfterLoop(phi, i) {
				continue
			}
			walk(e)
		}
	}
	walk(v)
	return out
}

func runC13(c *Ctx) {
	w := c.W
	writeTo := w.Func("client", "UDPConn", "WriteTo")
	createPerm := w.Func("client", "allocation", "createPermission")
	createPerms := w.Func("client", "allocation", "CreatePermissions")
	sendCD := w.Func("client", "UDPConn", "sendChannelData")
	okFn := w.Func("client", "binding", "ok")
	findByAddr := w.Func("client", "bindingManager", "findByAddr")
	create := w.Func("client", "bindingManager", "create")
	bindFn := w.Func("client", "UDPConn", "bind")
	addr := writeTo.Params[2]

	// ---- C13.1
	c.Rule("C13.1", "permission before data: every emission in UDPConn.WriteTo (invoke WriteTo on the client, call of sendChannelData) is dominated by v == nil where every live phi-leaf of v is a call createPermission(_, perm, addr) with addr the method's own addr parameter; every nil return of createPermission is under CreatePermissions(addr)==nil or under perm.state() != idle; setState(permitted) is dominated by CreatePermissions(addr)==nil; the state test and the transition happen with perm.mutex write-held", 4)
	{
		n := 0
		w.eachInstrDeep(writeTo, func(in ssa.Instruction) {
			call, ok := in.(*ssa.Call)
			if !ok {
				return
			}
			isEmit := call.Call.StaticCallee() == sendCD || (call.Call.IsInvoke() && call.Call.Method.Name() == "WriteTo")
			if !isEmit {
				return
			}
			n++
			c.Anchor("C13.1", "emission "+fmt.Sprint(n))
			good := false
			why := "no dominating err == nil test"
			for _, f := range w.factsAt(in) {
				v, isNil, ok := nilFact(f)
				if !ok || !isNil {
					continue
				}
				// the leaves may be results of a helper that wraps createPermission (find or
				// insert the permission, retry on a stale nonce): look at what that helper returns
				var leaves []ssa.Value
				for _, l0 := range liveLeaves(v) {
					hc, _ := callOf(l0)
					if hc != nil && hc.Call.StaticCallee() != createPerm && hc.Call.StaticCallee() != nil && w.IsMod[hc.Call.StaticCallee()] && len(hc.Call.StaticCallee().Blocks) > 0 {
						h := hc.Call.StaticCallee()
						expanded := false
						for _, r := range returnsOf(h) {
							if len(r.Results) == 0 {
								continue
							}
							for _, l1 := range liveLeaves(w.resolveLoad(r.Results[len(r.Results)-1])) {
								if ic, _ := callOf(l1); ic != nil && ic.Call.StaticCallee() == createPerm {
									leaves = append(leaves, w.translate(ic, h, hc))
									expanded = true
								} else {
									leaves = append(leaves, l1)
									expanded = true
								}
							}
						}
						if expanded {
							continue
						}
					}
					leaves = append(leaves, l0)
				}
				all := len(leaves) > 0
				for _, l := range leaves {
					lc, _ := callOf(l)
					if lc == nil || lc.Call.StaticCallee() != createPerm || !w.sameKey(lc.Call.Args[2], addr) {
						all = false
						if _, isC := l.(*ssa.Const); isC {
							why = "err can still hold its initial nil on a feasible path (the permission step may be skipped)"
						} else {
							why = "err is not (only) the result of createPermission(perm, addr): " + w.desc(l)
						}
					}
				}
				if all {
					good = true
				}
			}
			if good {
				c.OK("C13.1", fname(writeTo), "emission", w.instrPos(in), "dominated by createPermission(perm, addr) == nil on every feasible path (retry loop pruned by constant folding of its bound)")
			} else {
				c.Bad("C13.1", fname(writeTo), "emission", w.instrPos(in), "data can be sent toward the peer before a CreatePermission for it has succeeded: "+why, w.factsDesc(in)...)
			}
		})
		if n < 2 {
			c.Bad("C13.1", fname(writeTo), "emission", w.pos(writeTo.Pos()), fmt.Sprintf("only %d emission sites in WriteTo (Send indication and ChannelData expected)", n))
		}
		// createPermission definition
		li := w.lockInfo()
		c.Anchor("C13.1", "createPermission returns")
		stateFn := w.Func("client", "permission", "state")
		idle := w.ConstInt("client", "permStateIdle")
		permitted := w.ConstInt("client", "permStatePermitted")
		bad := ""
		nNil := 0
		isCP := func(f Fact) bool {
			if v, isNil, ok := nilFact(f); ok && isNil {
				if cc, _ := callOf(v); cc != nil && cc.Call.StaticCallee() == createPerms {
					if es := variadicElems(cc.Call.Args[1]); len(es) == 1 && w.sameKey(es[0], createPerm.Params[2]) {
						return true
					}
				}
			}
			return false
		}
		isNotIdle := func(f Fact) bool {
			if f.Op == "==" && !f.Truth {
				if sc, _ := callOf(f.X); sc != nil && sc.Call.StaticCallee() == stateFn && w.sameKey(sc.Call.Args[0], createPerm.Params[1]) {
					if k, isK := constInt(f.Y); isK && k == idle && holds(li.mustAt(sc), "client.permission.mutex", true) {
						return true
					}
				}
			}
			return false
		}
		// the permitted state is only ever entered after a successful CreatePermissions (the
		// transition is checked below), so seeing it — with or without the mutex — means the
		// permission exists; "not idle" is the weaker observation and needs the mutex
		isPermitted := func(f Fact) bool {
			if f.Op == "==" && f.Truth {
				for _, pair := range [][2]ssa.Value{{f.X, f.Y}, {f.Y, f.X}} {
					if sc, _ := callOf(pair[0]); sc != nil && sc.Call.StaticCallee() == stateFn && w.sameKey(sc.Call.Args[0], createPerm.Params[1]) {
						if k, isK := constInt(pair[1]); isK && k == permitted {
							return true
						}
					}
				}
			}
			return false
		}
		for _, r := range returnsOf(createPerm) {
			if !isNilConst(w.resolveLoad(r.Results[0])) {
				continue
			}
			nNil++
			if ok, trail := everyPathHas(createPerm, r, func(f Fact) bool { return isCP(f) || isNotIdle(f) || isPermitted(f) }); !ok {
				bad = "createPermission returns nil at " + w.instrPos(r) + " on a path (" + trail + ") where neither CreatePermissions(addr) succeeded nor the permission was observed (under its mutex) to be already permitted: a concurrent writer sends before the in-flight CreatePermission is answered"
			}
		}
		if bad == "" && nNil > 0 {
			c.OK("C13.1", fname(createPerm), "nil returns", w.pos(createPerm.Pos()), "nil only after CreatePermissions(addr)==nil or with state != idle observed under perm.mutex")
		} else {
			if bad == "" {
				bad = "never succeeds"
			}
			c.Bad("C13.1", fname(createPerm), "nil returns", w.pos(createPerm.Pos()), bad)
		}
		c.Anchor("C13.1", "setState(permitted)")
		nSet := 0
		setState := w.Func("client", "permission", "setState")
		for _, cs := range w.callsTo(setState) {
			if k, isK := constInt(cs.Common().Args[1]); !isK || k != permitted {
				continue
			}
			nSet++
			g := w.guardedBy(cs, createPerms, -1, "nil", nil)
			if g != nil && holds(li.mustAt(cs), "client.permission.mutex", true) {
				c.OK("C13.1", fname(cs.Parent()), "setState(permitted)", w.instrPos(cs), "after CreatePermissions == nil, under perm.mutex")
			} else {
				c.Bad("C13.1", fname(cs.Parent()), "setState(permitted)", w.instrPos(cs), "a permission is marked permitted without a successful CreatePermission (or outside its mutex)")
			}
		}
		if nSet == 0 {
			c.Bad("C13.1", fname(createPerm), "setState(permitted)", w.pos(createPerm.Pos()), "no transition to the permitted state: anchor gone")
		}
	}

	// ---- C13.2
	c.Rule("C13.2", "ChannelData only when confirmed: every sendChannelData call is on the true edge of (*binding).ok() of a binding whose live leaves are findByAddr(mgr, addr)#0 / create(mgr, addr) for the method's addr, and passes that binding's number field", 1)
	for _, cs := range w.callsTo(sendCD) {
		fn := cs.Parent()
		c.Anchor("C13.2", fname(fn))
		num := cs.Common().Args[2]
		nb, nf, isL := fieldLoad(num)
		g := w.guardedBy(cs, okFn, -1, "true", func(g *ssa.Call) bool {
			if !isL || nm(nf) != "number" {
				return false
			}
			if w.sameKey(g.Call.Args[0], nb) {
				return true
			}
			// the binding may be result #0 of a helper (route()) whose own value was tested
			ob, _, _ := w.originAt(nb, cs)
			return ob != nb && (ob == g.Call.Args[0] || w.key(ob) == w.key(g.Call.Args[0]))
		})
		if g == nil {
			c.Bad("C13.2", fname(fn), "sendChannelData", w.instrPos(cs), "ChannelData is sent without the binding being confirmed (bound.ok()) for the number used", w.factsDesc(cs)...)
			continue
		}
		okSrc := true
		isAddr := func(v ssa.Value, at ssa.Instruction) bool {
			if w.sameKey(v, addr) {
				return true
			}
			// through a by-value context struct (udpWrite{peer: addr}): every source is addr
			ls, complete := w.sources(v, at, nil)
			if !complete || len(ls) == 0 {
				return false
			}
			for i := range ls {
				if len(ls[i].sel) > 0 || ls[i].mem != nil || !(ls[i].val == ssa.Value(addr) || w.sameKey(ls[i].outer(w, ls[i].val), addr)) {
					return false
				}
			}
			return true
		}
		leaves, complete := w.deepLeaves(nb, func(h *ssa.Function) bool { return h == findByAddr || h == create }, 3)
		if !complete || len(leaves) == 0 {
			okSrc = false
		}
		for _, l := range leaves {
			lc, _ := callOf(l)
			if lc == nil || !(lc.Call.StaticCallee() == findByAddr || lc.Call.StaticCallee() == create) || !isAddr(lc.Call.Args[1], lc) {
				okSrc = false
			}
		}
		if okSrc {
			c.OK("C13.2", fname(fn), "sendChannelData", w.instrPos(cs), "on bound.ok(), with the number of the binding looked up/created for addr")
		} else {
			c.Bad("C13.2", fname(fn), "sendChannelData", w.instrPos(cs), "the channel used is not the one bound to the destination address")
		}
	}

	// ---- C13.3
	c.Rule("C13.3", "binding typestate: OK = {K : binding.ok() compares the state with K}; every (*binding).setState(K) with K ∈ OK is (a) dominated by v == nil with all live leaves of v being bind(bound) results, or (b) dominated by a fact that the start state is in OK: bindingStateWasReady(start) == true, or start == K' with K' ∈ OK", 3)
	{
		// derive OK from binding.ok()
		okSet := map[int64]bool{}
		w.eachInstr(okFn, func(in ssa.Instruction) {
			if bo, isBO := in.(*ssa.BinOp); isBO && bo.Op == token.EQL {
				if k, isK := constInt(bo.Y); isK {
					okSet[k] = true
				}
			}
		})
		var ks []string
		for k := range okSet {
			ks = append(ks, fmt.Sprint(k))
		}
		sort.Strings(ks)
		c.Notes = append(c.Notes, "C13.3: states for which binding.ok() is true: {"+strings.Join(ks, ",")+"}")
		if len(okSet) == 0 {
			c.Bad("C13.3", fname(okFn), "OK set", w.pos(okFn.Pos()), "cannot derive the set of states accepted by binding.ok()")
		}
		wasReady := w.Func("client", "", "bindingStateWasReady")
		// summary of bindingStateWasReady: constants it accepts must be ⊆ OK
		wrSet := map[int64]bool{}
		w.eachInstr(wasReady, func(in ssa.Instruction) {
			if bo, isBO := in.(*ssa.BinOp); isBO && bo.Op == token.EQL {
				if k, isK := constInt(bo.Y); isK {
					wrSet[k] = true
				}
			}
		})
		wrOK := len(wrSet) > 0
		for k := range wrSet {
			if !okSet[k] {
				wrOK = false
			}
		}
		setState := w.Func("client", "binding", "setState")
		stateFn := w.Func("client", "binding", "state")
		n := 0
		for _, cs := range w.callsTo(setState) {
			// the state is a constant, or a phi of constants (`next := A; if c { next = B };
			// setState(next)`): each constant is then judged under the facts of the edge it
			// arrives on (the end of the predecessor block)
			type cand struct {
				k  int64
				at ssa.Instruction
			}
			var cands []cand
			if k0, isK := constInt(cs.Common().Args[1]); isK {
				cands = append(cands, cand{k0, cs})
			} else if phi, isPhi := cs.Common().Args[1].(*ssa.Phi); isPhi {
				for i, e := range phi.Edges {
					ke, isKe := constInt(e)
					pb := phi.Block().Preds[i]
					if !isKe || len(pb.Instrs) == 0 {
						cands = nil
						break
					}
					cands = append(cands, cand{ke, pb.Instrs[len(pb.Instrs)-1]})
				}
			}
			if len(cands) == 0 {
				c.Undecided("C13.3", fname(cs.Parent()), "setState", w.instrPos(cs), "state argument is not a constant")
				continue
			}
			for _, cd := range cands {
				k, at := cd.k, cd.at
				if !okSet[k] {
					continue
				}
				n++
				fn := cs.Parent()
				c.Anchor("C13.3", fname(fn))
				good, how := false, ""
				if w.afterSuccessfulBind(cs, bindFn) {
					good, how = true, "after bind(bound) == nil"
				}
				for _, f := range w.factsAt(at) {
					// (b) start state known in OK
					if f.Op == "true" && f.Truth {
						if wc, _ := callOf(f.X); wc != nil && wc.Call.StaticCallee() == wasReady && wrOK {
							good, how = true, "start state was ready (bindingStateWasReady ⊆ OK)"
						}
					}
					if f.Op == "==" && f.Truth {
						for _, pair := range [][2]ssa.Value{{f.X, f.Y}, {f.Y, f.X}} {
							if k2, isK2 := constInt(pair[1]); isK2 && okSet[k2] {
								if sc, _ := callOf(pair[0]); sc != nil && sc.Call.StaticCallee() == stateFn {
									good, how = true, fmt.Sprintf("start state == %d ∈ OK", k2)
								}
							}
						}
					}
				}
				if !good {
					// the start-state tests may be alternatives of one `||`: every path to the
					// transition takes an edge on which the start state is known to be in OK
					if ok, _ := everyPathToBlock(fn, at.Block(), func(f Fact) bool {
						if f.Op == "true" && f.Truth {
							if wc, _ := callOf(f.X); wc != nil && wc.Call.StaticCallee() == wasReady && wrOK {
								return true
							}
						}
						if f.Op == "==" && f.Truth {
							for _, pair := range [][2]ssa.Value{{f.X, f.Y}, {f.Y, f.X}} {
								if k2, isK2 := constInt(pair[1]); isK2 && okSet[k2] {
									if sc, _ := callOf(w.resolveLoad(pair[0])); sc != nil && sc.Call.StaticCallee() == stateFn {
										return true
									}
								}
							}
						}
						return false
					}); ok {
						good, how = true, "on every path the start state is known to be in OK"
					}
				}
				if good {
					c.OK("C13.3", fname(fn), fmt.Sprintf("setState(%d)", k), w.instrPos(cs), how)
				} else {
					c.Bad("C13.3", fname(fn), fmt.Sprintf("setState(%d)", k), w.instrPos(cs), "the binding is put into a state in which ChannelData is used although the server has not confirmed the binding on this path", w.factsDesc(at)...)
				}
			}
		}
		if n < 3 {
			c.Bad("C13.3", fname(setState), "setState sites", w.pos(setState.Pos()), fmt.Sprintf("only %d transitions into an OK state found", n))
		}
	}

	// ---- C13.4
	ruleClientNumbers(c, "C13.4")

	// ---- C13.5
	c.Rule("C13.5", "inbound provenance: in Client.handleSTUNMessage the arguments of relayedConn.HandleInbound are the proto.Data decoded from msg and a *net.UDPAddr literal built from the proto.PeerAddress decoded from the same msg; in Client.handleChannelData they are chData.Data and the address result of FindAddrByChannelNumber(uint16(chData.Number)) on its ok edge, with chData decoded from the inbound bytes; UDPConn.ReadFrom returns the queued (data, from) pair and its select covers readCh, the read timer and closeCh", 3)
	{
		hi := w.Func("client", "UDPConn", "HandleInbound")
		hs := w.Func("turn", "Client", "handleSTUNMessage")
		hc := w.Func("turn", "Client", "handleChannelData")
		findAddr := w.Func("client", "UDPConn", "FindAddrByChannelNumber")
		// (a stage that is part of the handler's body — a helper with one call site — is judged
		// where the call is, on the real values)
		inHS := func(f *ssa.Function) bool { return f == hs || w.partOf(f, hs) }
		inHC := func(f *ssa.Function) bool { return f == hc || w.partOf(f, hc) }
		for _, lc := range w.liftCalls(hi, func(f *ssa.Function) bool { return inHS(f) || inHC(f) }, 3) {
			cs, fn := lc.at, lc.fn
			data, from := lc.args[1], lc.args[2]
			switch {
			case inHS(fn):
				fn = hs
				c.Anchor("C13.5", "Data indication")
				// data: load of local proto.Data filled by GetFrom(msg)==nil ; from: literal with IP/Port of local PeerAddress filled by GetFrom(msg)==nil
				var msgVal ssa.Value
				okData := false
				if u, ok := stripIface(data).(*ssa.UnOp); ok {
					for _, f := range w.factsAt(cs) {
						if x, isNil, isNF := nilFact(f); isNF && isNil {
							if gc, _ := callOf(x); gc != nil && gc.Call.StaticCallee() != nil && gc.Call.StaticCallee().Name() == "GetFrom" && gc.Call.Args[0] == u.X {
								okData = true
								msgVal = gc.Call.Args[1]
							}
						}
					}
				}
				okFrom := false
				if lit := w.literalOf(from); lit != nil && msgVal != nil {
					ipV := lit.fields["IP"]
					if src := w.copiedFrom(ipV); src != nil {
						ipV = src // a private copy of the decoded IP
					}
					ib, ifl, ok1 := fieldLoad(ipV)
					pb, pfl, ok2 := fieldLoad(lit.fields["Port"])
					// built by a by-value helper (peerAddr.UDPAddr()): the storage the copy was made from
					if hc2, _ := callOf(w.resolveLoad(from)); hc2 != nil && ok1 && ok2 {
						if a1, isA := rootAddr(ib).(*ssa.Alloc); isA {
							if o := w.byValueOrigin(a1, hc2); o != nil {
								ib = o
							}
						}
						if a2, isA := rootAddr(pb).(*ssa.Alloc); isA {
							if o := w.byValueOrigin(a2, hc2); o != nil {
								pb = o
							}
						}
					}
					if ok1 && ok2 && ifl.Name() == "IP" && pfl.Name() == "Port" && ib == pb {
						for _, f := range w.factsAt(cs) {
							if x, isNil, isNF := nilFact(f); isNF && isNil {
								if gc, _ := callOf(x); gc != nil && gc.Call.StaticCallee() != nil && gc.Call.StaticCallee().Name() == "GetFrom" && gc.Call.Args[0] == ib && w.sameKey(gc.Call.Args[1], msgVal) {
									if n := namedOf(ib.Type()); n != nil && n.Obj().Name() == "PeerAddress" {
										okFrom = true
									}
								}
							}
						}
					}
				}
				if okData && okFrom {
					c.OK("C13.5", fname(fn), "HandleInbound args", w.instrPos(cs), "(DATA, XOR-PEER-ADDRESS) decoded from one message")
				} else {
					c.Bad("C13.5", fname(fn), "HandleInbound args", w.instrPos(cs), fmt.Sprintf("the payload/peer pair delivered to the application is not (DATA, XOR-PEER-ADDRESS) of the same indication (data ok=%v, peer ok=%v)", okData, okFrom))
				}
			case inHC(fn):
				fn = hc
				c.Anchor("C13.5", "ChannelData")
				db, df, ok1 := fieldLoad(data)
				okData := ok1 && df.Name() == "Data"
				// the address may come through a thin lookup helper
				if oc, _ := callOf(w.resolveLoad(from)); oc == nil || oc.Call.StaticCallee() != findAddr {
					if o, _, _ := w.originAt(from, cs); o != nil {
						from = o
					}
				}
				fc, fi := callOf(from)
				okFrom := false
				if fc != nil && fc.Call.StaticCallee() == findAddr && fi == 0 && okData {
					nb, nf, ok2 := fieldLoad(stripConv(fc.Call.Args[1]))
					if ok2 && nf.Name() == "Number" && w.sameKey(nb, db) {
						for _, f := range w.factsAt(cs) {
							if f.Op == "true" && f.Truth {
								if oc, oi := callOf(f.X); oc == fc && oi == 1 {
									okFrom = true
								}
							}
						}
					}
				}
				// chData decoded: Decode()==nil on db
				okDec := false
				for _, f := range w.factsAt(cs) {
					if x, isNil, isNF := nilFact(f); isNF && isNil {
						if gc, _ := callOf(x); gc != nil && gc.Call.StaticCallee() != nil && gc.Call.StaticCallee().Name() == "Decode" && okData && w.sameKey(gc.Call.Args[0], db) {
							okDec = true
						}
					}
				}
				if okData && okFrom && okDec {
					c.OK("C13.5", fname(fn), "HandleInbound args", w.instrPos(cs), "(chData.Data, address bound to chData.Number) of the decoded frame")
				} else {
					c.Bad("C13.5", fname(fn), "HandleInbound args", w.instrPos(cs), fmt.Sprintf("the payload/peer pair is not (decoded payload, peer bound to the decoded channel number) (data=%v peer=%v decoded=%v)", okData, okFrom, okDec))
				}
			default:
				c.Bad("C13.5", fname(fn), "HandleInbound caller", w.instrPos(cs), "unexpected caller of UDPConn.HandleInbound")
			}
		}
		rf := w.Func("client", "UDPConn", "ReadFrom")
		c.Anchor("C13.5", "ReadFrom select")
		okSel := false
		w.eachInstr(rf, func(in ssa.Instruction) {
			sel, ok := in.(*ssa.Select)
			if !ok || !sel.Blocking {
				return
			}
			seen := map[string]bool{}
			for _, s := range sel.States {
				if s.Dir == types.RecvOnly {
					seen[w.chanClass(s.Chan)] = true
				}
			}
			hasRead, hasClose, hasTimer := false, false, false
			for k := range seen {
				if strings.Contains(k, "readCh") {
					hasRead = true
				}
				if strings.Contains(k, "closeCh") {
					hasClose = true
				}
				if strings.Contains(k, "Timer") || strings.Contains(k, ".C") {
					hasTimer = true
				}
			}
			if hasRead && hasClose && hasTimer {
				okSel = true
			}
		})
		// returns (n, ibData.from)
		okRet := false
		for _, r := range returnsOf(rf) {
			if _, f, isL := fieldLoad(w.resolveLoad(r.Results[1])); isL && nm(f) == "from" {
				okRet = true
			}
		}
		if okSel && okRet {
			c.OK("C13.5", fname(rf), "ReadFrom", w.pos(rf.Pos()), "select over readCh / readTimer / closeCh; returns the queued datagram's own peer address")
		} else {
			c.Bad("C13.5", fname(rf), "ReadFrom", w.pos(rf.Pos()), fmt.Sprintf("ReadFrom does not wait on data, deadline and close together (%v) or does not return the queued pair (%v)", okSel, okRet))
		}
	}

	// ---- C13.6
	ruleInboundNonBlocking(c, "C13.6")

	// ---- C13.7
	ruleInboundCopy(c, "C13.7")
	// ---- C13.8
	ruleBindingFreshness(c, "C13.8")
	ruleInboundAddrStorageFresh(c, "C13.9")
	ruleNetipUnmapped(c, "C13.10", "client", "turn")
	ruleCloseAlwaysCloses(c, "C13.11")
	ruleInboundDelivered(c, "C13.12")
	ruleNoBindingDeletion(c, "C13.13")
	ruleInboundLocksNotHeldAcrossTransactions(c, "C13.14")
	ruleDeallocatedOnce(c, "C13.15")
	ruleFindAddrRefusals(c, "C13.16")
}

// ruleClientNumbers: shared by C08.4 and C13.4.
func ruleClientNumbers(c *Ctx, rule string) {
	w := c.W
	a := w.absint()
	li := w.lockInfo()
	c.Rule(rule, "client channel numbers: binding.number has exactly one writer (bindingManager.create ← assignChannelNumber()); bindingManager.next ∈ [0x4000,0x7FFF] by induction over all its stores; create inserts into chanMap and addrMap with bindingManager.mutex write-held and assignChannelNumber is only entered with it held", 3)
	num := w.Field("client", "binding", "number")
	next := w.Field("client", "bindingManager", "next")
	assign := w.Func("client", "bindingManager", "assignChannelNumber")
	create := w.Func("client", "bindingManager", "create")
	c.Anchor(rule, "binding.number writers")
	nW := 0
	bad := ""
	for _, fn := range w.ModFns {
		w.eachInstr(fn, func(in ssa.Instruction) {
			st, ok := in.(*ssa.Store)
			if !ok {
				return
			}
			fa, ok := st.Addr.(*ssa.FieldAddr)
			if !ok || fieldOf(fa) != num {
				return
			}
			nW++
			ac, _ := callOf(st.Val)
			if !w.partOf(fn, create) || ac == nil || ac.Call.StaticCallee() != assign {
				bad = "binding.number is written at " + w.instrPos(in) + " from " + w.desc(st.Val)
			}
		})
	}
	if nW == 1 && bad == "" {
		c.OK(rule, fname(create), "binding.number", w.pos(create.Pos()), "single writer: create() ← assignChannelNumber()")
	} else {
		if bad == "" {
			bad = fmt.Sprintf("%d writers of binding.number", nW)
		}
		c.Bad(rule, fname(create), "binding.number", w.pos(create.Pos()), bad)
	}
	c.Anchor(rule, "next invariant")
	r := a.fieldRange(next)
	if r != nil && r.lo >= 0x4000 && r.hi <= 0x7FFF {
		c.OK(rule, fname(assign), "bindingManager.next", w.pos(assign.Pos()), fmt.Sprintf("inductive invariant next ∈ [%#x,%#x]", r.lo, r.hi))
	} else {
		got := "unknown"
		if r != nil {
			got = r.String()
		}
		c.Bad(rule, fname(assign), "bindingManager.next", w.pos(assign.Pos()), "the client's channel counter can leave 0x4000–0x7FFF: invariant over its stores is "+got)
	}
	c.Anchor(rule, "manager lock")
	em := li.entryMust[assign]
	okLock := !em["TOP"] && em["client.bindingManager.mutex/W"]
	w.eachInstr(create, func(in ssa.Instruction) {
		if mu, ok := in.(*ssa.MapUpdate); ok {
			if !holds(li.mustAt(mu), "client.bindingManager.mutex", true) {
				okLock = false
			}
		}
	})
	if okLock {
		c.OK(rule, fname(create), "manager lock", w.pos(create.Pos()), "number assignment and both map inserts happen under bindingManager.mutex (write)")
	} else {
		c.Bad(rule, fname(create), "manager lock", w.pos(create.Pos()), "channel numbers are assigned or registered without bindingManager.mutex: two peers can get one number")
	}
}

// everyPathHas: every CFG path from the function entry to ret takes at least one edge whose
// condition satisfies pred (path-sensitive; loops are cut by the visited set per state).
func everyPathHas(fn *ssa.Function, ret *ssa.Return, pred func(Fact) bool) (bool, string) {
	return everyPathToBlock(fn, ret.Block(), pred)
}

// everyPathToBlock: every CFG path from the function entry to block target takes at least
// one edge whose condition satisfies pred (a disjunction `a || b` guarding the block is two
// paths, each with its own edge).
func everyPathToBlock(fn *ssa.Function, target *ssa.BasicBlock, pred func(Fact) bool) (bool, string) {
	// Paths are explored with the phis resolved by the predecessor taken and boolean
	// conditions remembered (paths.go), so the compiled form of `a || (b && c)` — a phi of
	// constants tested by a second branch — does not create infeasible paths.
	type vkey struct{ b, p *ssa.BasicBlock }
	okAll := true
	trail := ""
	budget := 50000
	var walk func(b, from *ssa.BasicBlock, hit bool, env *pathEnv, onPath map[vkey]int, path []int)
	walk = func(b, from *ssa.BasicBlock, hit bool, env *pathEnv, onPath map[vkey]int, path []int) {
		if !okAll {
			return
		}
		budget--
		if budget < 0 {
			okAll = false
			trail = "path budget exhausted"
			return
		}
		k := vkey{b, from}
		if onPath[k] >= 2 {
			return
		}
		onPath[k]++
		defer func() { onPath[k]-- }()
		path = append(path, b.Index)
		if b == target {
			if !hit {
				okAll = false
				trail = fmt.Sprint("blocks ", path)
			}
			return
		}
		env = env.clone()
		idx := -1
		for i, p := range b.Preds {
			if p == from {
				idx = i
			}
		}
		if idx >= 0 {
			type upd struct {
				p *ssa.Phi
				v ssa.Value
			}
			var us []upd
			for _, in := range b.Instrs {
				p, ok := in.(*ssa.Phi)
				if !ok {
					break
				}
				us = append(us, upd{p, env.resolve(p.Edges[idx])})
			}
			for _, u := range us {
				env.phi[u.p] = u.v
			}
			for _, in := range b.Instrs {
				if v, ok := in.(ssa.Value); ok {
					if _, isPhi := in.(*ssa.Phi); !isPhi {
						delete(env.truth, v)
					}
				}
			}
		}
		iff, isIf := b.Instrs[len(b.Instrs)-1].(*ssa.If)
		for i, s := range b.Succs {
			if deadEdge(b, s) {
				continue
			}
			h := hit
			e2 := env
			if isIf && b.Succs[0] != b.Succs[1] {
				if known, t := env.eval(iff.Cond, 0); known && t != (i == 0) {
					continue // infeasible on this path
				}
				e2 = env.clone()
				e2.learn(iff.Cond, i == 0)
				// the edge's facts, with phis resolved as on this path
				for _, f := range normCond(env.resolve(iff.Cond), i == 0) {
					if pred(f) {
						h = true
					}
				}
			}
			for _, f := range edgeFacts(b, s) {
				if pred(f) {
					h = true
				}
			}
			walk(s, b, h, e2, onPath, path)
		}
	}
	walk(fn.Blocks[0], nil, false, &pathEnv{phi: map[*ssa.Phi]ssa.Value{}, truth: map[ssa.Value]bool{}}, map[vkey]int{}, nil)
	return okAll, trail
}

// entryEdgeInvisibleAfterLoop: phi sits in a loop header H whose terminator is `if cond` with
// one successor inside the loop and one outside; edge i enters H from outside the loop. If
// cond, evaluated with every phi of H replaced by its operand on that entry edge, folds to
// "stay in the loop", then the loop body runs at least once after entering through edge i,
// so a use of the phi *outside* the loop never observes operand i directly (it observes a
// later value). Only valid for uses dominated by the exit successor; callers use it for
// values consumed after the loop.
func entryEdgeInvisibleAfterLoop(phi *ssa.Phi, i int) bool {
	h := phi.Block()
	pred := h.Preds[i]
	if h.Dominates(pred) {
		return false // a back edge, not an entry edge
	}
	isHeader := false
	for _, p := range h.Preds {
		if h.Dominates(p) {
			isHeader = true
		}
	}
	if !isHeader {
		return false
	}
	iff, ok := h.Instrs[len(h.Instrs)-1].(*ssa.If)
	if !ok {
		return false
	}
	// which successor stays in the loop? the one from which h is reachable again
	stayTrue := blockReaches(h.Succs[0], h) || h.Succs[0] == h
	stayFalse := blockReaches(h.Succs[1], h) || h.Succs[1] == h
	if stayTrue == stayFalse {
		return false
	}
	subst := func(v ssa.Value) ssa.Value {
		if p, ok := v.(*ssa.Phi); ok && p.Block() == h {
			return p.Edges[i]
		}
		return v
	}
	bo, ok := iff.Cond.(*ssa.BinOp)
	if !ok {
		return false
	}
	cx, ok1 := subst(bo.X).(*ssa.Const)
	cy, ok2 := subst(bo.Y).(*ssa.Const)
	if !ok1 || !ok2 || cx.Value == nil || cy.Value == nil {
		return false
	}
	switch bo.Op {
	case token.LSS, token.LEQ, token.GTR, token.GEQ, token.EQL, token.NEQ:
		val := constant.Compare(cx.Value, bo.Op, cy.Value)
		return val == stayTrue
	}
	return false
}

// afterSuccessfulBind: instruction at is dominated by v == nil where every value v can take
// is the error result of (*UDPConn).bind — the server has confirmed the ChannelBind.
func (w *World) afterSuccessfulBind(at ssa.Instruction, bindFn *ssa.Function) bool {
	for _, f := range w.factsAt(at) {
		if v, isNil, ok := nilFact(f); ok && isNil {
			ls, all := w.deepLeaves(v, func(h *ssa.Function) bool { return h == bindFn }, 3)
			for _, l := range ls {
				lc, _ := callOf(l)
				if lc == nil || lc.Call.StaticCallee() != bindFn {
					all = false
				}
			}
			if all && len(ls) > 0 {
				return true
			}
		}
	}
	return false
}

// ruleBindingFreshness (C13.8 / C14.8): the timestamp that decides when a binding is
// refreshed moves only when the server confirmed a ChannelBind (or at creation); the read
// deadline timer a blocked ReadFrom selects on is never replaced.
func ruleBindingFreshness(c *Ctx, rule string) {
	w := c.W
	c.Rule(rule, "binding freshness: (*binding).setRefreshedAt is called only after a successful bind() of that binding (and binding._refreshedAt is otherwise written only while the binding is constructed) — traffic does not postpone the periodic re-bind; the read-deadline timer of the relayed conn is assigned only at construction (a blocked ReadFrom keeps selecting on the same timer)", 2)
	bindFn := w.Func("client", "UDPConn", "bind")
	setRef := w.Func("client", "binding", "setRefreshedAt")
	c.Anchor(rule, "setRefreshedAt callers")
	bad := ""
	n := 0
	for _, cs := range w.callsTo(setRef) {
		if cs.Parent().Synthetic != "" {
			continue
		}
		n++
		if !w.afterSuccessfulBind(cs, bindFn) {
			bad = "setRefreshedAt is called at " + w.instrPos(cs) + " in " + fname(cs.Parent()) + " without a successful bind() dominating it: the binding looks fresh although the server has not renewed it, so the 5-minute re-bind is postponed until the server's binding expires"
		}
	}
	if bad == "" && n >= 1 {
		c.OK(rule, fname(setRef), "setRefreshedAt callers", w.pos(setRef.Pos()), fmt.Sprintf("%d call(s), each after bind(bound) == nil", n))
	} else {
		if bad == "" {
			bad = "setRefreshedAt is never called: bindings are never marked refreshed"
		}
		c.Bad(rule, fname(setRef), "setRefreshedAt callers", w.pos(setRef.Pos()), bad)
	}
	// _refreshedAt written only by setRefreshedAt and construction
	c.Anchor(rule, "_refreshedAt writers")
	rf := w.Field("client", "binding", "_refreshedAt")
	badW := ""
	for _, fn := range w.ModFns {
		w.eachInstr(fn, func(in ssa.Instruction) {
			st, ok := in.(*ssa.Store)
			if !ok {
				return
			}
			fa, ok := st.Addr.(*ssa.FieldAddr)
			if !ok || fieldOf(fa) != rf {
				return
			}
			if fn == setRef {
				return
			}
			if al, isAl := rootAddr(fa).(*ssa.Alloc); isAl && freshUnescapedAt(al, st) {
				return
			}
			badW = "binding._refreshedAt is written at " + w.instrPos(in) + " outside setRefreshedAt and construction"
		})
	}
	if badW == "" {
		c.OK(rule, fname(setRef), "_refreshedAt writers", w.pos(setRef.Pos()), "written by setRefreshedAt and at construction only")
	} else {
		c.Bad(rule, fname(setRef), "_refreshedAt writers", w.pos(setRef.Pos()), badW)
	}
	// read deadline timer
	c.Anchor(rule, "readTimer")
	rt := w.Field("client", "allocation", "readTimer")
	if w.immutableField(rt) {
		c.OK(rule, "client.allocation", "readTimer", "-", "assigned only while the conn is constructed; SetReadDeadline resets the same timer")
	} else {
		c.Bad(rule, "client.allocation", "readTimer", "-", "the read-deadline timer is replaced after construction: a ReadFrom that is already blocked selects on the old timer's channel and never sees the new deadline")
	}
}

// ruleInboundAddrStorageFresh (C13.9): the source address ReadFrom reports for a relayed
// datagram is built from the XOR-PEER-ADDRESS decoded from the Data indication. The decoder
// (stun's GetFromAs) re-uses the IP slice of its target in place. So the IP that goes into a
// net.UDPAddr / net.TCPAddr built on the inbound path either is a private copy, or is read
// from a PeerAddress that is storage of this one message (a local of the handler) — never
// the bytes of a pooled or otherwise re-used decode target: the next indication would
// rewrite the address of a datagram that is still queued (or already returned to the
// application).
func ruleInboundAddrStorageFresh(c *Ctx, rule string) {
	w := c.W
	c.Rule(rule, "inbound address storage: the IP of every net.UDPAddr / net.TCPAddr literal built on the client's inbound path (handleSTUNMessage and its helpers) is a fresh copy, or the IP field of a proto.PeerAddress that is a local variable of that invocation — not of a pooled or remembered object", 1)
	handle := w.Func("turn", "Client", "handleSTUNMessage")
	n := 0
	isNetAddr := func(t types.Type) bool {
		nmd := namedOf(t)
		return nmd != nil && nmd.Obj().Pkg() != nil && nmd.Obj().Pkg().Path() == "net" && (nmd.Obj().Name() == "UDPAddr" || nmd.Obj().Name() == "TCPAddr")
	}
	// judge: an address literal; via: the call (in the inbound body) of the small helper that
	// builds it from a by-value copy of the decoded PeerAddress (peer.UDPAddr()), nil when the
	// literal is in the body itself
	judge := func(al *ssa.Alloc, via *ssa.Call) {
		if !isNetAddr(al.Type()) {
			return
		}
		lit := w.literalOf(al)
		if lit == nil || lit.fields["IP"] == nil {
			return
		}
		n++
		c.Anchor(rule, "peer address")
		ip := lit.fields["IP"]
		if w.freshBytes(ip, 0) {
			c.OK(rule, fname(al.Parent()), "peer address", w.instrPos(al), "the IP is a private copy")
			return
		}
		base, _, isL := fieldLoadAddrOfLoad(ip)
		if !isL {
			c.Bad(rule, fname(al.Parent()), "peer address", w.instrPos(al), "cannot identify the storage the address's IP is read from: "+w.key(ip))
			return
		}
		if b, isAl := base.(*ssa.Alloc); isAl && via != nil {
			if o := w.byValueOrigin(b, via); o != nil {
				base = rootAddr(o)
			} else {
				c.Bad(rule, fname(al.Parent()), "peer address", w.instrPos(al), "cannot identify the value the helper's address is built from at "+w.instrPos(via))
				return
			}
		}
		org := map[string]bool{}
		w.ptrOrigins(base, 5, map[ssa.Value]bool{}, org)
		var bad []string
		for k := range org {
			if k != "fresh" {
				bad = append(bad, k)
			}
		}
		sort.Strings(bad)
		if len(bad) == 0 && org["fresh"] {
			c.OK(rule, fname(al.Parent()), "peer address", w.instrPos(al), "the IP is read from a PeerAddress local to this invocation")
		} else {
			c.Bad(rule, fname(al.Parent()), "peer address", w.instrPos(al), fmt.Sprintf("the IP of the peer address handed on shares its bytes with decode storage that outlives the message (%v): the decoder rewrites them in place, so the source address of a datagram still queued for ReadFrom — or already returned by it — changes to that of a later datagram's peer", bad))
		}
	}
	w.eachInstrDeep(handle, func(in ssa.Instruction) {
		switch x := in.(type) {
		case *ssa.Alloc:
			judge(x, nil)
		case *ssa.Call:
			h := x.Call.StaticCallee()
			if h == nil || !w.IsMod[h] || len(h.Blocks) == 0 || w.singleSiteCI(h) == ssa.CallInstruction(x) {
				return
			}
			if res := h.Signature.Results(); res.Len() != 1 || !isNetAddr(res.At(0).Type()) {
				return
			}
			w.eachInstr(h, func(in2 ssa.Instruction) {
				if al, ok := in2.(*ssa.Alloc); ok {
					judge(al, x)
				}
			})
		}
	})
	if n == 0 {
		c.Anchor(rule, "peer address")
		c.Bad(rule, fname(handle), "peer address", w.pos(handle.Pos()), "no peer address is built on the inbound path: anchor gone")
	}
}

// ruleNetipUnmapped (C13.10 / C08.8): a peer is one peer however its IPv4 address is spelled
// (4-byte form, or 16-byte IPv4-mapped form as net.ParseIP and net.ResolveUDPAddr produce).
// The tables of this module were keyed by texts that print both spellings alike; a
// netip.Addr / netip.AddrPort taken from a net.IP, *net.UDPAddr or *net.TCPAddr keeps the
// spelling apart unless Unmap() is applied. Every such value must therefore go through
// Unmap() before anything else is done with its address part — otherwise one peer gets two
// keys: two channel numbers, two permissions, a duplicate the conflict test cannot see.
// (The rule has no instance on a tree that does not use net/netip.)
func ruleNetipUnmapped(c *Ctx, rule string, pkgs ...string) {
	w := c.W
	c.Rule(rule, "spelling-independent peer keys: every netip.Addr obtained from (*net.UDPAddr).AddrPort, (*net.TCPAddr).AddrPort or netip.AddrFromSlice in the packages concerned is only ever passed to Unmap() (its port may be read); it is not compared, stored, returned or used as a key in mapped form", 0)
	inPkg := map[string]bool{}
	for _, p := range pkgs {
		inPkg[w.tpkg(p).Path()] = true
	}
	var useOK func(v ssa.Value, isAddrPort bool, depth int) (bool, ssa.Instruction)
	useOK = func(v ssa.Value, isAddrPort bool, depth int) (bool, ssa.Instruction) {
		if v.Referrers() == nil || depth > 4 {
			return true, nil
		}
		for _, r := range *v.Referrers() {
			switch x := r.(type) {
			case *ssa.DebugRef:
				continue
			case *ssa.Extract:
				if x.Index == 0 {
					if ok, at := useOK(x, isAddrPort, depth+1); !ok {
						return false, at
					}
				}
				continue
			case *ssa.Phi:
				// merged with the other ways of obtaining the address: what happens to the merge
				if ok, at := useOK(x, isAddrPort, depth+1); !ok {
					return false, at
				}
				continue
			case *ssa.Store:
				// kept in a local variable: every load of it
				if al, isAl := x.Addr.(*ssa.Alloc); isAl && x.Val == v && !w.escapesToWriters(al) {
					bad := false
					var where ssa.Instruction
					for _, r2 := range *al.Referrers() {
						if ld, isLd := r2.(*ssa.UnOp); isLd {
							if ok, at := useOK(ld, isAddrPort, depth+1); !ok {
								bad, where = true, at
							}
						}
					}
					if bad {
						return false, where
					}
					continue
				}
				return false, r
			case *ssa.Call:
				switch stdCallee(&x.Call) {
				case "(net/netip.Addr).Unmap":
					continue
				case "(net/netip.AddrPort).Port", "(net/netip.AddrPort).IsValid", "(net/netip.Addr).IsValid", "(net/netip.Addr).Is4In6", "(net/netip.Addr).Is4", "(net/netip.Addr).Is6":
					continue
				case "(net/netip.AddrPort).Addr":
					if ok, at := useOK(x, false, depth+1); !ok {
						return false, at
					}
					continue
				}
				// handed to a module helper: what the helper does with that parameter
				if h := x.Call.StaticCallee(); h != nil && w.IsMod[h] && len(h.Blocks) > 0 {
					okAll := true
					var where ssa.Instruction
					for j, a := range x.Call.Args {
						if a == v && j < len(h.Params) {
							if ok, at := useOK(h.Params[j], isAddrPort, depth+1); !ok {
								okAll, where = false, at
							}
						}
					}
					if okAll {
						continue
					}
					return false, where
				}
				return false, r
			default:
				return false, r
			}
		}
		return true, nil
	}
	for _, fn := range w.ModFns {
		if !inPkg[fnPkgPath(fn)] || fn.Synthetic != "" {
			continue
		}
		w.eachInstr(fn, func(in ssa.Instruction) {
			call, ok := in.(*ssa.Call)
			if !ok {
				return
			}
			isAP := false
			switch stdCallee(&call.Call) {
			case "(*net.UDPAddr).AddrPort", "(*net.TCPAddr).AddrPort":
				isAP = true
			case "net/netip.AddrFromSlice":
			default:
				return
			}
			c.Anchor(rule, fname(fn))
			if ok, at := useOK(call, isAP, 0); ok {
				c.OK(rule, fname(fn), "netip value", w.instrPos(in), "only ever unmapped")
			} else {
				c.Bad(rule, fname(fn), "netip value", w.instrPos(in), "the netip address taken from a net.IP / net.UDPAddr here is used at "+w.instrPos(at)+" without Unmap(): 1.2.3.4 and ::ffff:1.2.3.4 (the same peer as net.ParseIP or a resolver spells it) become two different keys — one peer is bound or permitted twice, and conflict tests do not see the duplicate")
			}
		})
	}
}

// ruleCloseAlwaysCloses (C13.11): "ReadFrom honours Close" rests on closeCh being closed by
// Close — whatever else Close attempts (the de-allocating Refresh may fail to be sent). Every
// return of UDPConn.Close that is not the already-closed refusal is reached only through
// close(c.closeCh).
func ruleCloseAlwaysCloses(c *Ctx, rule string) {
	w := c.W
	c.Rule(rule, "Close always closes: every return of (*UDPConn).Close other than `return errAlreadyClosed` is preceded on all paths by close(c.closeCh) (helpers of Close included)", 1)
	fn := w.Func("client", "UDPConn", "Close")
	fld := w.Field("client", "UDPConn", "closeCh")
	c.Anchor(rule, "UDPConn.Close")
	isClose := func(in ssa.Instruction) bool {
		call, ok := in.(ssa.CallInstruction)
		if !ok {
			return false
		}
		if b, isB := call.Common().Value.(*ssa.Builtin); isB && b.Name() == "close" {
			if _, f, isL := fieldLoad(call.Common().Args[0]); isL && f == fld {
				return true
			}
		}
		return false
	}
	may := w.mayContain(isClose)
	bad := ""
	n := 0
	cfg := &ipCfg[bool]{w: w}
	cfg.Inline = func(_ ssa.CallInstruction, h *ssa.Function) bool { return w.IsMod[h] && may(h) }
	cfg.Step = func(in ssa.Instruction, closed bool, _ *pathEnv, _ []ssa.CallInstruction) bool {
		if isClose(in) {
			return true
		}
		if ci, ok := in.(*ssa.Call); ok && !closed {
			if body := w.syncCallbackBody(ci); body != nil {
				w.eachInstr(body, func(i3 ssa.Instruction) {
					if isClose(i3) {
						closed = true
					}
				})
			}
		}
		return closed
	}
	cfg.Return = func(r *ssa.Return, closed bool, env *pathEnv) {
		n++
		if closed {
			return
		}
		if len(r.Results) == 1 {
			if g := globalLoad(env.resolve(w.resolveLoad(r.Results[0]))); g != nil && g.Name() == "errAlreadyClosed" {
				return
			}
		}
		// the path learned that the conn was closed already (c.isClosed() returned true)
		for cond, t := range env.truth {
			if pc, _ := callOf(cond); pc != nil && t && w.closedTestPred(pc.Call.StaticCallee(), fld) {
				return
			}
		}
		bad = w.instrPos(r)
	}
	explorePaths(cfg, fn, false)
	if cfg.Exhausted {
		bad = "(undecided: path exploration exceeded its budget)"
	}
	switch {
	case n == 0:
		c.Bad(rule, fname(fn), "closeCh", w.pos(fn.Pos()), "Close has no return: anchor gone")
	case bad != "":
		c.Bad(rule, fname(fn), "closeCh", w.pos(fn.Pos()), "Close can return at "+bad+" without having closed closeCh: the conn stays open to its readers — a ReadFrom blocked without a deadline is never released, later ones block, WriteTo keeps emitting — although the caller was told to treat it as closed (or told nothing)")
	default:
		c.OK(rule, fname(fn), "closeCh", w.pos(fn.Pos()), fmt.Sprintf("%d returns: each is the already-closed refusal or passes close(c.closeCh)", n))
	}
}
