package main

import (
	"fmt"
	"go/types"
	"os"
	"sort"

	"golang.org/x/tools/go/ssa"
)

// debugL3: for every struct field of the module, how its accesses relate to the mutexes of
// its own struct (development aid: TURNCHECK_L3STATS=1).
func debugL3(w *World) {
	if os.Getenv("TURNCHECK_L3STATS") == "" {
		return
	}
	li := w.lockInfo()
	type acc struct {
		total, locked, writes, lockedWrites int
		classes                             map[string]int
	}
	stats := map[*types.Var]*acc{}
	for _, fn := range w.ModFns {
		w.eachInstr(fn, func(in ssa.Instruction) {
			fa, ok := in.(*ssa.FieldAddr)
			if !ok {
				return
			}
			f := fieldOf(fa)
			if al, ok := rootAddr(fa.X).(*ssa.Alloc); ok && freshUnescapedAt(al, in) {
				return
			}
			a := stats[f]
			if a == nil {
				a = &acc{classes: map[string]int{}}
				stats[f] = a
			}
			a.total++
			wr := fieldAddrIsWritten(fa)
			if wr {
				a.writes++
			}
			held := li.mustAt(in)
			if len(held) > 0 {
				a.locked++
				if wr {
					a.lockedWrites++
				}
				for k := range held {
					a.classes[k]++
				}
			}
		})
	}
	var rows []string
	for f, a := range stats {
		if a.locked == 0 || a.writes == 0 {
			continue
		}
		rows = append(rows, fmt.Sprintf("%s.%s total=%d locked=%d writes=%d lockedWrites=%d classes=%v", fieldOwnerName(w, f), f.Name(), a.total, a.locked, a.writes, a.lockedWrites, a.classes))
	}
	sort.Strings(rows)
	for _, r := range rows {
		fmt.Fprintln(os.Stderr, "L3STAT", r)
	}
}
