package main

// Write-once fields of a local context object.
//
// A refactoring often gathers a handler's state in a small struct (&installer{req: req,
// alloc: alloc}) whose method is then passed as a callback. The fields that are assigned
// exactly once — in the initialisation, before the object leaves the function — are just
// other names for the values stored there. woStore finds that store; loadKey and
// resolveLoad use it so that p.alloc, p.req.SrcAddr inside the method are the handler's
// alloc, req.SrcAddr.
//
// Conditions (all checked, else no resolution):
//   - the object is an Alloc (local or new) of function F;
//   - in the whole module exactly one Store is keyed to the field's location or to an
//     enclosing location, none to a nested one, and it lies in F;
//   - the address of that field (or of an enclosing/nested part) is only loaded from or stored
//     to — never passed on, sliced, or converted;
//   - the object pointer itself is only used as the base of field addresses, as the bound
//     receiver of a method value made once, or as an argument of single-call-site helpers
//     (whose parameters are keyed to it); it is not stored, returned, boxed or merged;
//   - the store dominates every instruction of F through which the object leaves F.

import (
	"fmt"
	"go/token"
	"go/types"
	"os"
	"regexp"
	"strings"

	"golang.org/x/tools/go/ssa"
)

type woResult struct {
	st     *ssa.Store
	suffix string // path below the stored location (".SrcAddr" when a whole struct was stored)
}

func (w *World) allocByLoc(loc string) *ssa.Alloc {
	st := w.ss()
	if st.allocs == nil {
		st.allocs = map[string]*ssa.Alloc{}
		for _, fn := range w.ModFns {
			w.eachInstr(fn, func(in ssa.Instruction) {
				if al, ok := in.(*ssa.Alloc); ok {
					st.allocs[w.locKey(al)] = al
				}
			})
		}
	}
	// "alloc:<function>:<name><path>": the function name may contain dots, the name does not
	root := loc
	if strings.HasPrefix(loc, "alloc:") {
		rest := loc[len("alloc:"):]
		if i := strings.Index(rest, ":"); i >= 0 {
			tail := rest[i+1:]
			if j := strings.IndexAny(tail, ".["); j >= 0 {
				root = loc[:len("alloc:")+i+1+j]
			}
		}
	}
	return st.allocs[root]
}

// woStore: the single initialising store behind a load of loc, or nil.
func (w *World) woStore(loc string) *woResult {
	st := w.ss()
	if st.wo == nil {
		st.wo = map[string]*woResult{}
	}
	if r, ok := st.wo[loc]; ok {
		return r
	}
	st.wo[loc] = nil
	al := w.allocByLoc(loc)
	if al == nil || !strings.HasPrefix(loc, "alloc:") {
		return nil
	}
	// 1. stores: one at loc or an ancestor, none below
	var hit *ssa.Store
	hitKey := ""
	n := 0
	for k, ss := range w.stores {
		switch {
		case k == loc, strings.HasPrefix(loc, k+"."):
			n += len(ss)
			if len(ss) == 1 {
				hit, hitKey = ss[0], k
			}
		case strings.HasPrefix(k, loc+"."), strings.HasPrefix(k, loc+"["):
			return nil
		}
	}
	if os.Getenv("TURNCHECK_WODEBUG") != "" {
		fmt.Fprintf(os.Stderr, "WO %s: n=%d hit=%v\n", loc, n, hit != nil)
	}
	if n != 1 || hit == nil || hit.Parent() != al.Parent() {
		return nil
	}
	// "written once" is per object: a store inside a loop that the variable was declared
	// outside of runs once per iteration on ONE variable (var conn net.Conn; for { conn = … ;
	// go func() { … conn … }() }) — every closure made in the loop then reads whatever the
	// latest iteration stored
	if storeRepeatsPerObject(hit, al) {
		return nil
	}
	if hitKey == w.locKey(al) {
		return nil // the whole object assigned: not the pattern
	}
	// 2./3./4. uses of the object and of the field addresses, across the functions it is bound into
	related := func(k string) bool {
		return k == loc || strings.HasPrefix(loc, k+".") || strings.HasPrefix(k, loc+".") || strings.HasPrefix(k, loc+"[")
	}
	var leaves []ssa.Instruction // instructions of F through which the object leaves F
	ok := true
	seen := map[ssa.Value]bool{}
	var objUses func(v ssa.Value)
	var addrUses func(v ssa.Value)
	addrUses = func(v ssa.Value) {
		if v.Referrers() == nil {
			return
		}
		for _, r := range *v.Referrers() {
			switch x := r.(type) {
			case *ssa.UnOp, *ssa.DebugRef:
			case *ssa.Store:
				if x.Addr != v {
					ok = false // the address itself stored somewhere
				}
			case *ssa.FieldAddr:
				if related(w.locKey(x)) {
					addrUses(x)
				}
			case *ssa.IndexAddr:
				if related(w.locKey(x)) {
					addrUses(x)
				}
			default:
				ok = false
			}
		}
	}
	objUses = func(v ssa.Value) {
		if seen[v] || v.Referrers() == nil {
			return
		}
		seen[v] = true
		for _, r := range *v.Referrers() {
			switch x := r.(type) {
			case *ssa.DebugRef:
			case *ssa.FieldAddr:
				if x.X == v && related(w.locKey(x)) {
					addrUses(x)
				}
			case *ssa.IndexAddr:
				if related(w.locKey(x)) {
					ok = false
				}
			case *ssa.UnOp: // load of the whole object (a copy): harmless
			case *ssa.MakeClosure:
				body := w.closureBody(x)
				if body == nil {
					ok = false
					continue
				}
				if ssa.Value(body) != x.Fn {
					// method value: the receiver parameter is the object
					if w.singleSiteCI(body) == nil || len(body.Params) == 0 {
						ok = false
						continue
					}
					objUses(body.Params[0])
				} else {
					// captured by a function literal created once
					if len(w.Closures[body]) != 1 {
						ok = false
						continue
					}
					for i, b := range x.Bindings {
						if b == v && i < len(body.FreeVars) {
							objUses(body.FreeVars[i])
						}
					}
				}
				if in, isIn := r.(ssa.Instruction); isIn && in.Parent() == al.Parent() {
					leaves = append(leaves, in)
				}
			case ssa.CallInstruction:
				cc := x.Common()
				cal := cc.StaticCallee()
				if cal == nil {
					ok = false
					continue
				}
				if w.singleSiteCI(cal) != x {
					// several call sites, every one handing in this object for that parameter
					for i, a := range cc.Args {
						if a == v && (i >= len(cal.Params) || w.uniformArgOf(cal.Params[i]) == nil) {
							ok = false
						}
					}
					if !ok {
						continue
					}
				}
				for i, a := range cc.Args {
					if a == v && i < len(cal.Params) {
						objUses(cal.Params[i])
					}
				}
				if x.Parent() == al.Parent() {
					leaves = append(leaves, x)
				}
			default:
				ok = false
			}
		}
	}
	objUses(al)
	if os.Getenv("TURNCHECK_WODEBUG") != "" {
		fmt.Fprintf(os.Stderr, "WO %s: uses ok=%v leaves=%d\n", loc, ok, len(leaves))
	}
	if !ok {
		return nil
	}
	for _, in := range leaves {
		if !instrDominates(hit, in) {
			return nil
		}
	}
	res := &woResult{st: hit, suffix: strings.TrimPrefix(loc, hitKey)}
	st.wo[loc] = res
	return res
}

// Constructor objects.
//
// `newTurnRequest(req, msg, method).refresh()`: the per-request context object is built by a
// small constructor and its stages are methods. A field of such an object that is only ever
// written while its object is under construction (immutableField) is another name for the
// value the constructor stored there, expressed at the constructor's call site.

type ctorInfo struct {
	alloc  *ssa.Alloc
	stores map[string]*ssa.Store // field path (".a.b") -> the one store; nil entry when written twice
}

func (w *World) ctorOf(h *ssa.Function, idx int) *ctorInfo {
	type key struct {
		h   *ssa.Function
		idx int
	}
	st := w.ss()
	if st.ctors == nil {
		st.ctors = map[interface{}]*ctorInfo{}
	}
	k := key{h, idx}
	if r, ok := st.ctors[k]; ok {
		return r
	}
	st.ctors[k] = nil
	if h == nil || !w.IsMod[h] || len(h.Blocks) == 0 {
		return nil
	}
	var al *ssa.Alloc
	rets := returnsOf(h)
	if len(rets) == 0 {
		return nil
	}
	for _, r := range rets {
		if idx >= len(r.Results) {
			return nil
		}
		rv := stripIface(w.resolveLoad(r.Results[idx]))
		if isNilConst(rv) {
			continue
		}
		a, ok := rv.(*ssa.Alloc)
		if !ok || !a.Heap || (al != nil && al != a) || !freshUnescapedAt(a, r) {
			return nil
		}
		al = a
	}
	if al == nil {
		return nil
	}
	info := &ctorInfo{alloc: al, stores: map[string]*ssa.Store{}}
	bad := false
	var visit func(v ssa.Value, path string)
	visit = func(v ssa.Value, path string) {
		for _, r := range *v.Referrers() {
			switch x := r.(type) {
			case *ssa.FieldAddr:
				visit(x, path+"."+derefStruct(x.X.Type()).Field(x.Field).Name())
			case *ssa.Store:
				if x.Addr == v {
					if _, dup := info.stores[path]; dup {
						info.stores[path] = nil
					} else {
						info.stores[path] = x
					}
				} else if path != "" {
					bad = true // a field's address stored away
				}
			case *ssa.UnOp, *ssa.DebugRef, *ssa.Return:
			default:
				if path != "" {
					bad = true
				}
			}
		}
	}
	visit(al, "")
	if bad {
		return nil
	}
	st.ctors[k] = info
	return info
}

// ctorField: ld loads field path P of an object that is the result of a constructor call
// (reached through receivers/parameters that are bound to one argument): the value stored by
// the constructor into P (or into a prefix of P — then suffix names the rest), in the terms of
// the constructor's call site.
func (w *World) ctorField(ld *ssa.UnOp) (ssa.Value, string, bool) {
	if ld.Op != token.MUL {
		return nil, "", false
	}
	if _, isFA := ld.X.(*ssa.FieldAddr); !isFA {
		return nil, "", false
	}
	path := pathOf(ld.X)
	root := rootAddr(ld.X)
	for i := 0; i < 6; i++ {
		switch x := root.(type) {
		case *ssa.Parameter:
			a, ok := argOfParam(x)
			if !ok {
				return nil, "", false
			}
			root = a
			continue
		case *ssa.UnOp:
			r := w.resolveLoadLocal(x)
			if r == ssa.Value(x) {
				return nil, "", false
			}
			root = r
			continue
		case *ssa.FreeVar:
			b := w.binding(x)
			if b == nil {
				return nil, "", false
			}
			root = b
			continue
		}
		break
	}
	call, idx := callOf(root)
	if os.Getenv("TURNCHECK_WODEBUG") != "" {
		fmt.Fprintf(os.Stderr, "CTOR %s path=%v root=%T call=%v\n", w.instrPos(ld), path, root, call != nil)
	}
	if call == nil {
		return nil, "", false
	}
	if _, isP := root.(*ssa.Parameter); isP {
		return nil, "", false
	}
	// a per-request context object: the constructed object does not outlive the function
	// that called the constructor (not stored, returned, captured or handed to a goroutine)
	if !w.confinedToCaller(root) {
		return nil, "", false
	}
	if idx < 0 {
		idx = 0
	}
	h := call.Call.StaticCallee()
	info := w.ctorOf(h, idx)
	if info == nil || len(path) == 0 {
		return nil, "", false
	}
	// the first field of the path must be immutable after construction
	stt := derefStruct(info.alloc.Type())
	if stt == nil {
		return nil, "", false
	}
	var f0 *types.Var
	for i := 0; i < stt.NumFields(); i++ {
		if stt.Field(i).Name() == path[0] {
			f0 = stt.Field(i)
		}
	}
	if f0 == nil || !w.immutableField(f0) {
		return nil, "", false
	}
	for n := len(path); n >= 1; n-- {
		p := "." + strings.Join(path[:n], ".")
		st, ok := info.stores[p]
		if !ok {
			continue
		}
		if st == nil {
			return nil, "", false
		}
		suffix := ""
		if n < len(path) {
			suffix = "." + strings.Join(path[n:], ".")
		}
		return w.translate(st.Val, h, call), suffix, true
	}
	return nil, "", false
}

// confinedToCaller: the object v (a call result) is only used, in the function that obtained
// it, as the base of field addresses and as an argument/receiver of synchronous static calls
// of module functions (which in turn only do the same with the parameter).
func (w *World) confinedToCaller(v ssa.Value) bool {
	seen := map[ssa.Value]bool{}
	var ok func(v ssa.Value, depth int) bool
	ok = func(v ssa.Value, depth int) bool {
		if seen[v] || v.Referrers() == nil {
			return true
		}
		seen[v] = true
		if depth > 5 {
			return false
		}
		for _, r := range *v.Referrers() {
			switch x := r.(type) {
			case *ssa.DebugRef, *ssa.FieldAddr:
			case *ssa.UnOp:
				// *obj: a copy of the struct value — harmless
			case *ssa.BinOp:
				if x.Op != token.EQL && x.Op != token.NEQ {
					return false
				}
			case *ssa.If:
			case *ssa.Call:
				h := x.Call.StaticCallee()
				if h == nil || !w.IsMod[h] || len(h.Blocks) == 0 {
					return false
				}
				for i, a := range x.Call.Args {
					if a == v {
						if i >= len(h.Params) || !ok(h.Params[i], depth+1) {
							return false
						}
					}
				}
			case *ssa.Extract:
				if !ok(x, depth) {
					return false
				}
			default:
				return false
			}
		}
		return true
	}
	return ok(v, 0)
}

var ctorKeyRe = regexp.MustCompile(`\*@(call:[^: ]+:t\d+)((?:\.[A-Za-z_][A-Za-z0-9_]*)+)`)

// normCtorKey rewrites, inside a key built by substitution (a helper's value expressed at its
// call site), loads of immutable fields of constructor-built context objects into the value
// the constructor stored: "*@call:handleRefresh:t0.Request.SrcAddr" becomes
// "param:handleRefresh:req.SrcAddr".
var localStructKeyRe = regexp.MustCompile(`\*(alloc:[^: ]+:t\d+)@(t\d+)((?:\.[A-Za-z_][A-Za-z0-9_]*)+)`)

// normLocalStructKey rewrites "(*local-struct as loaded at tM).path" — what substituting a
// by-value struct argument into a helper's key produces — into the key of that field.
func (w *World) normLocalStructKey(k string) string {
	if !strings.Contains(k, "*alloc:") || !strings.Contains(k, "@t") {
		return k
	}
	return localStructKeyRe.ReplaceAllStringFunc(k, func(m string) string {
		sub := localStructKeyRe.FindStringSubmatch(m)
		al := w.allocByLoc(sub[1])
		if al == nil {
			return m
		}
		var ld *ssa.UnOp
		w.eachInstr(al.Parent(), func(in ssa.Instruction) {
			if u, ok := in.(*ssa.UnOp); ok && u.Op == token.MUL && u.X == ssa.Value(al) && u.Name() == sub[2] {
				ld = u
			}
		})
		if ld == nil {
			return m
		}
		path := strings.Split(strings.TrimPrefix(sub[3], "."), ".")
		r := w.structFieldKey(ld, path, 0)
		if r == w.key(ld)+"."+strings.Join(path, ".") {
			return m
		}
		return r
	})
}

func (w *World) normCtorKey(k string) string {
	k = w.normLocalStructKey(k)
	if !strings.Contains(k, "*@call:") {
		return k
	}
	st := w.ss()
	if st.ctorCalls == nil {
		st.ctorCalls = map[string]*ssa.Call{}
		for _, fn := range w.ModFns {
			w.eachInstr(fn, func(in ssa.Instruction) {
				call, ok := in.(*ssa.Call)
				if !ok {
					return
				}
				h := call.Call.StaticCallee()
				if h == nil || !w.IsMod[h] || w.ctorOf(h, 0) == nil || !w.confinedToCaller(call) {
					return
				}
				st.ctorCalls["call:"+fname(fn)+":"+call.Name()] = call
			})
		}
	}
	for iter := 0; iter < 6; iter++ {
		changed := false
		k = ctorKeyRe.ReplaceAllStringFunc(k, func(m string) string {
			sub := ctorKeyRe.FindStringSubmatch(m)
			call := st.ctorCalls[sub[1]]
			if call == nil {
				return m
			}
			h := call.Call.StaticCallee()
			info := w.ctorOf(h, 0)
			path := strings.Split(strings.TrimPrefix(sub[2], "."), ".")
			stt := derefStruct(info.alloc.Type())
			var f0 *types.Var
			for i := 0; stt != nil && i < stt.NumFields(); i++ {
				if stt.Field(i).Name() == path[0] {
					f0 = stt.Field(i)
				}
			}
			if f0 == nil || !w.immutableField(f0) {
				return m
			}
			for n := len(path); n >= 1; n-- {
				s2, ok := info.stores["."+strings.Join(path[:n], ".")]
				if !ok {
					continue
				}
				if s2 == nil {
					return m
				}
				suffix := ""
				if n < len(path) {
					suffix = "." + strings.Join(path[n:], ".")
				}
				changed = true
				return w.key(w.translate(s2.Val, h, call)) + suffix
			}
			return m
		})
		if !changed {
			break
		}
	}
	return k
}

// Struct values.
//
// structFieldValue: the one value field `path` of the struct VALUE sv holds — through by-value
// parameters (bound to one argument), whole-struct loads of local variables, copies, and
// struct results of module helpers all of whose non-zero returns agree — or nil. A zero-valued
// alternative (the `return T{}, false, err` of a helper) is ignored: the answer reads "that
// value, or the zero value".
func (w *World) structFieldValue(sv ssa.Value, path []string, depth int) ssa.Value {
	if depth > 8 || len(path) == 0 || sv == nil {
		return nil
	}
	st := w.ss()
	if st.sfvBusy == nil {
		st.sfvBusy = map[ssa.Value]bool{}
	}
	if st.sfvBusy[sv] {
		return nil
	}
	st.sfvBusy[sv] = true
	defer delete(st.sfvBusy, sv)
	switch x := sv.(type) {
	case *ssa.Parameter:
		a, ok := argOfParam(x)
		if !ok {
			return nil
		}
		return w.structFieldValue(a, path, depth+1)
	case *ssa.FreeVar:
		if b := w.binding(x); b != nil {
			return w.structFieldValue(b, path, depth+1)
		}
		return nil
	case *ssa.Phi:
		var one ssa.Value
		for _, e := range x.Edges {
			r := w.structFieldValue(e, path, depth+1)
			if r == nil {
				return nil
			}
			if one != nil && !(one == r || w.sameKey(one, r)) {
				return nil
			}
			one = r
		}
		return one
	case *ssa.UnOp:
		if x.Op != token.MUL {
			return nil
		}
		al, isAl := x.X.(*ssa.Alloc)
		if !isAl || w.escapesToWriters(al) {
			return nil
		}
		return w.localStructField(al, path, x, depth)
	case *ssa.Call, *ssa.Extract:
		call, idx := callOf(sv)
		if call == nil || call.Call.IsInvoke() {
			return nil
		}
		if _, isP := sv.(*ssa.Parameter); isP {
			return nil
		}
		h := call.Call.StaticCallee()
		if h == nil || !w.IsMod[h] || len(h.Blocks) == 0 {
			return nil
		}
		if idx < 0 {
			idx = 0
		}
		var one ssa.Value
		for _, r := range returnsOf(h) {
			if idx >= len(r.Results) {
				return nil
			}
			rv := r.Results[idx]
			if c, isC := rv.(*ssa.Const); isC && c.Value == nil {
				continue // the zero struct of an error / not-found return
			}
			inner := w.structFieldValue(rv, path, depth+1)
			if inner == nil {
				// a literal none of whose stores touches the field: zero there too
				if u, isU := rv.(*ssa.UnOp); isU && u.Op == token.MUL {
					if al, isAl := u.X.(*ssa.Alloc); isAl && !w.escapesToWriters(al) && w.noStoreAt(al, path) {
						continue
					}
				}
				return nil
			}
			tv := w.translate(inner, h, call)
			if one != nil && !(one == tv || w.sameKey(one, tv)) {
				return nil
			}
			one = tv
		}
		return one
	}
	return nil
}

// localStructField: the value of field path of local struct variable al as read at `at`.
func (w *World) localStructField(al *ssa.Alloc, path []string, at ssa.Instruction, depth int) ssa.Value {
	loc := w.locKey(al)
	full := loc + "." + strings.Join(path, ".")
	if os.Getenv("TURNCHECK_WODEBUG") != "" {
		fmt.Fprintf(os.Stderr, "LSF %s path=%v stores=%d under=%d whole=%d\n", loc, path, len(w.stores[full]), len(w.storesUnder(full)), len(w.stores[loc]))
	}
	if ss := w.stores[full]; len(ss) == 1 && len(w.storesUnder(full)) == 0 {
		// no whole-struct store may overwrite it afterwards
		for n := len(path) - 1; n >= 0; n-- {
			p := loc
			if n > 0 {
				p += "." + strings.Join(path[:n], ".")
			}
			if len(w.stores[p]) > 0 {
				return nil
			}
		}
		if ss[0].Parent() == at.Parent() && !instrDominates(ss[0], at) {
			return nil
		}
		return ss[0].Val
	} else if len(ss) > 1 {
		return nil
	}
	// a whole-struct store covering the field (a copy of another struct value)
	for n := len(path) - 1; n >= 0; n-- {
		p := loc
		if n > 0 {
			p += "." + strings.Join(path[:n], ".")
		}
		ss := w.stores[p]
		if len(ss) == 0 {
			continue
		}
		if len(ss) != 1 || len(w.storesUnder(p)) != 0 {
			return nil
		}
		if ss[0].Parent() == at.Parent() && !instrDominates(ss[0], at) {
			return nil
		}
		return w.structFieldValue(ss[0].Val, path[n:], depth+1)
	}
	return nil
}

// noStoreAt: nothing is ever stored at (or above, or below) field path of local al.
func (w *World) noStoreAt(al *ssa.Alloc, path []string) bool {
	loc := w.locKey(al)
	full := loc + "." + strings.Join(path, ".")
	if len(w.stores[full]) > 0 || len(w.storesUnder(full)) > 0 || len(w.stores[loc]) > 0 {
		return false
	}
	for n := 1; n < len(path); n++ {
		if len(w.stores[loc+"."+strings.Join(path[:n], ".")]) > 0 {
			return false
		}
	}
	return true
}

// escapesToWriters: the address of local al (or of one of its fields) is handed to something
// that may write through it: anything but field addressing, loads, stores to it, and calls of
// module methods with a VALUE receiver (which get a copy).
func (w *World) escapesToWriters(al *ssa.Alloc) bool {
	var visit func(v ssa.Value) bool
	visit = func(v ssa.Value) bool {
		for _, r := range *v.Referrers() {
			switch x := r.(type) {
			case *ssa.FieldAddr:
				if visit(x) {
					return true
				}
			case *ssa.UnOp, *ssa.DebugRef:
			case *ssa.Store:
				if x.Addr != v {
					return true
				}
			default:
				return true
			}
		}
		return false
	}
	return visit(al)
}

// structFieldKey: the key of field `path` of struct value sv: the key of the value it holds
// when that is unique (structFieldValue), else the key of the outermost struct value the field
// can be traced to, followed by the remaining path ("param:authenticateRequest:req.Conn" for
// a.req.Conn with a := authAttempt{req: req, …} handed on by value).
func (w *World) structFieldKey(sv ssa.Value, path []string, depth int) string {
	if r := w.structFieldValue(sv, path, 0); r != nil {
		return w.key(r)
	}
	fallback := func() string { return w.key(sv) + "." + strings.Join(path, ".") }
	if depth > 8 || len(path) == 0 {
		return fallback()
	}
	switch x := sv.(type) {
	case *ssa.Parameter:
		if a, ok := argOfParam(x); ok {
			return w.structFieldKey(a, path, depth+1)
		}
	case *ssa.UnOp:
		if x.Op != token.MUL {
			break
		}
		al, isAl := x.X.(*ssa.Alloc)
		if !isAl || w.escapesToWriters(al) {
			break
		}
		loc := w.locKey(al)
		for n := len(path); n >= 0; n-- {
			p := loc
			if n > 0 {
				p += "." + strings.Join(path[:n], ".")
			}
			ss := w.stores[p]
			if len(ss) == 0 {
				continue
			}
			if len(ss) != 1 || len(w.storesUnder(p)) != 0 || (ss[0].Parent() == x.Parent() && !instrDominates(ss[0], x)) {
				break
			}
			if n == len(path) {
				return w.key(ss[0].Val)
			}
			return w.structFieldKey(ss[0].Val, path[n:], depth+1)
		}
	}
	return fallback()
}

// expRet: one way a function can return, with its results followed into the struct value
// they are fields of: `res := a.run(); return res.key, res.ok, res.user, res.err` has as
// many of these as the helpers that build the result struct have returns. ret is the
// innermost return instruction (its facts are the conditions of that outcome); vals[i] is the
// value of result i there (nil: the zero value).
type expRet struct {
	ret  *ssa.Return
	vals []ssa.Value
}

func (w *World) expandStructReturns(fn *ssa.Function) []expRet {
	var out []expRet
	for _, r := range returnsOf(fn) {
		// are all results fields of one struct value?
		var sv ssa.Value
		names := make([]string, len(r.Results))
		ok := len(r.Results) > 0
		for i, res := range r.Results {
			s, f := w.fieldOfStructValue(res)
			if s == nil || (sv != nil && s != sv) {
				ok = false
				break
			}
			sv, names[i] = s, f
		}
		var leaves []structLeaf
		if ok {
			leaves, ok = w.structLeaves(sv, 0)
		}
		if !ok {
			vals := make([]ssa.Value, len(r.Results))
			for i, res := range r.Results {
				vals[i] = w.resolveLoad(res)
			}
			out = append(out, expRet{r, vals})
			continue
		}
		for _, lf := range leaves {
			vals := make([]ssa.Value, len(names))
			for i, f := range names {
				if lf.alloc == nil {
					continue
				}
				ss := w.stores[w.locKey(lf.alloc)+"."+f]
				if len(ss) == 1 {
					vals[i] = w.resolveLoad(ss[0].Val)
				} else if len(ss) > 1 {
					vals[i] = ss[len(ss)-1].Val
				}
			}
			ret := lf.ret
			if ret == nil {
				ret = r
			}
			out = append(out, expRet{ret, vals})
		}
	}
	return out
}

type structLeaf struct {
	ret   *ssa.Return // the return that yields this struct (nil: in the asking function)
	alloc *ssa.Alloc  // the literal (nil: the zero struct)
}

// fieldOfStructValue: v is field f of struct value s (a Field instruction, or a load of the
// field of a local that was assigned s as a whole).
func (w *World) fieldOfStructValue(v ssa.Value) (ssa.Value, string) {
	switch x := v.(type) {
	case *ssa.Field:
		if st, _ := x.X.Type().Underlying().(*types.Struct); st != nil {
			return x.X, st.Field(x.Field).Name()
		}
	case *ssa.UnOp:
		if x.Op != token.MUL {
			return nil, ""
		}
		fa, ok := x.X.(*ssa.FieldAddr)
		if !ok {
			return nil, ""
		}
		al, ok := fa.X.(*ssa.Alloc)
		if !ok || w.escapesToWriters(al) {
			return nil, ""
		}
		loc := w.locKey(al)
		if ss := w.stores[loc]; len(ss) == 1 && len(w.storesUnder(loc)) == 0 {
			return ss[0].Val, fieldOf(fa).Name()
		}
	}
	return nil, ""
}

// structLeaves: the struct literals (or zero structs) a struct value can be, followed through
// the results of module helpers, with the return that yields each.
func (w *World) structLeaves(v ssa.Value, depth int) ([]structLeaf, bool) {
	if depth > 6 {
		return nil, false
	}
	switch x := v.(type) {
	case *ssa.Const:
		if x.Value == nil {
			return []structLeaf{{nil, nil}}, true
		}
	case *ssa.UnOp:
		if x.Op == token.MUL {
			if al, ok := x.X.(*ssa.Alloc); ok && !w.escapesToWriters(al) {
				if ss := w.stores[w.locKey(al)]; len(ss) == 1 && len(w.storesUnder(w.locKey(al))) == 0 {
					return w.structLeaves(ss[0].Val, depth+1) // a copy of another struct value
				} else if len(ss) == 0 {
					return []structLeaf{{nil, al}}, true
				}
			}
		}
	case *ssa.Phi:
		var out []structLeaf
		for _, e := range x.Edges {
			ls, ok := w.structLeaves(e, depth+1)
			if !ok {
				return nil, false
			}
			out = append(out, ls...)
		}
		return out, true
	case *ssa.Call, *ssa.Extract:
		call, idx := callOf(v)
		if call == nil || call.Call.IsInvoke() {
			return nil, false
		}
		if _, isP := v.(*ssa.Parameter); isP {
			return nil, false
		}
		h := call.Call.StaticCallee()
		if h == nil || !w.IsMod[h] || len(h.Blocks) == 0 {
			return nil, false
		}
		if idx < 0 {
			idx = 0
		}
		var out []structLeaf
		for _, r := range returnsOf(h) {
			if idx >= len(r.Results) {
				return nil, false
			}
			ls, ok := w.structLeaves(r.Results[idx], depth+1)
			if !ok {
				return nil, false
			}
			for _, l := range ls {
				if l.ret == nil {
					l.ret = r
				}
				out = append(out, l)
			}
		}
		return out, true
	}
	return nil, false
}

// storeRepeatsPerObject: the store can execute again without the variable having been
// allocated anew in between — it sits on a cycle of the control-flow graph that does not pass
// through the allocation.
func storeRepeatsPerObject(st *ssa.Store, al *ssa.Alloc) bool {
	sb, ab := st.Block(), al.Block()
	if sb == nil || ab == nil || st.Parent() != al.Parent() {
		return false
	}
	if sb == ab {
		// same block: a repetition of the block repeats the allocation too (the alloc comes first)
		return false
	}
	seen := map[*ssa.BasicBlock]bool{ab: true}
	stack := append([]*ssa.BasicBlock{}, liveSuccs(sb)...)
	for len(stack) > 0 {
		x := stack[len(stack)-1]
		stack = stack[:len(stack)-1]
		if seen[x] {
			continue
		}
		seen[x] = true
		if x == sb {
			return true
		}
		stack = append(stack, liveSuccs(x)...)
	}
	return false
}
