package main

// Write-once fields of a local context object.
//
// A refactoring often gathers a handler's state in a small struct (&installer{req: req,
// alloc: alloc}) whose method is then passed as a callback. The fields that are assigned
// exactly once — in the initialisation, before the object leaves the function — are just
// other names for the values stored there. woStore finds that store; loadKey and
// resolveLoad use it so that p.alloc, p.req.SrcAddr inside the method are the handler's
// alloc, req.SrcAddr.
//
// Conditions (all checked, else no resolution):
//   - the object is an Alloc (local or new) of function F;
//   - in the whole module exactly one Store is keyed to the field's location or to an
//     enclosing location, none to a nested one, and it lies in F;
//   - the address of that field (or of an enclosing/nested part) is only loaded from or stored
//     to — never passed on, sliced, or converted;
//   - the object pointer itself is only used as the base of field addresses, as the bound
//     receiver of a method value made once, or as an argument of single-call-site helpers
//     (whose parameters are keyed to it); it is not stored, returned, boxed or merged;
//   - the store dominates every instruction of F through which the object leaves F.

import (
	"fmt"
	"os"
	"strings"

	"golang.org/x/tools/go/ssa"
)

type woResult struct {
	st     *ssa.Store
	suffix string // path below the stored location (".SrcAddr" when a whole struct was stored)
}

func (w *World) allocByLoc(loc string) *ssa.Alloc {
	st := w.ss()
	if st.allocs == nil {
		st.allocs = map[string]*ssa.Alloc{}
		for _, fn := range w.ModFns {
			w.eachInstr(fn, func(in ssa.Instruction) {
				if al, ok := in.(*ssa.Alloc); ok {
					st.allocs[w.locKey(al)] = al
				}
			})
		}
	}
	// "alloc:<function>:<name><path>": the function name may contain dots, the name does not
	root := loc
	if strings.HasPrefix(loc, "alloc:") {
		rest := loc[len("alloc:"):]
		if i := strings.Index(rest, ":"); i >= 0 {
			tail := rest[i+1:]
			if j := strings.IndexAny(tail, ".["); j >= 0 {
				root = loc[:len("alloc:")+i+1+j]
			}
		}
	}
	return st.allocs[root]
}

// woStore: the single initialising store behind a load of loc, or nil.
func (w *World) woStore(loc string) *woResult {
	st := w.ss()
	if st.wo == nil {
		st.wo = map[string]*woResult{}
	}
	if r, ok := st.wo[loc]; ok {
		return r
	}
	st.wo[loc] = nil
	al := w.allocByLoc(loc)
	if al == nil || !strings.HasPrefix(loc, "alloc:") {
		return nil
	}
	// 1. stores: one at loc or an ancestor, none below
	var hit *ssa.Store
	hitKey := ""
	n := 0
	for k, ss := range w.stores {
		switch {
		case k == loc, strings.HasPrefix(loc, k+"."):
			n += len(ss)
			if len(ss) == 1 {
				hit, hitKey = ss[0], k
			}
		case strings.HasPrefix(k, loc+"."), strings.HasPrefix(k, loc+"["):
			return nil
		}
	}
	if os.Getenv("TURNCHECK_WODEBUG") != "" {
		fmt.Fprintf(os.Stderr, "WO %s: n=%d hit=%v\n", loc, n, hit != nil)
	}
	if n != 1 || hit == nil || hit.Parent() != al.Parent() {
		return nil
	}
	if hitKey == w.locKey(al) {
		return nil // the whole object assigned: not the pattern
	}
	// 2./3./4. uses of the object and of the field addresses, across the functions it is bound into
	related := func(k string) bool {
		return k == loc || strings.HasPrefix(loc, k+".") || strings.HasPrefix(k, loc+".") || strings.HasPrefix(k, loc+"[")
	}
	var leaves []ssa.Instruction // instructions of F through which the object leaves F
	ok := true
	seen := map[ssa.Value]bool{}
	var objUses func(v ssa.Value)
	var addrUses func(v ssa.Value)
	addrUses = func(v ssa.Value) {
		if v.Referrers() == nil {
			return
		}
		for _, r := range *v.Referrers() {
			switch x := r.(type) {
			case *ssa.UnOp, *ssa.DebugRef:
			case *ssa.Store:
				if x.Addr != v {
					ok = false // the address itself stored somewhere
				}
			case *ssa.FieldAddr:
				if related(w.locKey(x)) {
					addrUses(x)
				}
			case *ssa.IndexAddr:
				if related(w.locKey(x)) {
					addrUses(x)
				}
			default:
				ok = false
			}
		}
	}
	objUses = func(v ssa.Value) {
		if seen[v] || v.Referrers() == nil {
			return
		}
		seen[v] = true
		for _, r := range *v.Referrers() {
			switch x := r.(type) {
			case *ssa.DebugRef:
			case *ssa.FieldAddr:
				if x.X == v && related(w.locKey(x)) {
					addrUses(x)
				}
			case *ssa.IndexAddr:
				if related(w.locKey(x)) {
					ok = false
				}
			case *ssa.UnOp: // load of the whole object (a copy): harmless
			case *ssa.MakeClosure:
				body := w.closureBody(x)
				if body == nil {
					ok = false
					continue
				}
				if ssa.Value(body) != x.Fn {
					// method value: the receiver parameter is the object
					if w.singleSiteCI(body) == nil || len(body.Params) == 0 {
						ok = false
						continue
					}
					objUses(body.Params[0])
				} else {
					// captured by a function literal created once
					if len(w.Closures[body]) != 1 {
						ok = false
						continue
					}
					for i, b := range x.Bindings {
						if b == v && i < len(body.FreeVars) {
							objUses(body.FreeVars[i])
						}
					}
				}
				if in, isIn := r.(ssa.Instruction); isIn && in.Parent() == al.Parent() {
					leaves = append(leaves, in)
				}
			case ssa.CallInstruction:
				cc := x.Common()
				cal := cc.StaticCallee()
				if cal == nil {
					ok = false
					continue
				}
				if w.singleSiteCI(cal) != x {
					// several call sites, every one handing in this object for that parameter
					for i, a := range cc.Args {
						if a == v && (i >= len(cal.Params) || w.uniformArgOf(cal.Params[i]) == nil) {
							ok = false
						}
					}
					if !ok {
						continue
					}
				}
				for i, a := range cc.Args {
					if a == v && i < len(cal.Params) {
						objUses(cal.Params[i])
					}
				}
				if x.Parent() == al.Parent() {
					leaves = append(leaves, x)
				}
			default:
				ok = false
			}
		}
	}
	objUses(al)
	if os.Getenv("TURNCHECK_WODEBUG") != "" {
		fmt.Fprintf(os.Stderr, "WO %s: uses ok=%v leaves=%d\n", loc, ok, len(leaves))
	}
	if !ok {
		return nil
	}
	for _, in := range leaves {
		if !instrDominates(hit, in) {
			return nil
		}
	}
	res := &woResult{st: hit, suffix: strings.TrimPrefix(loc, hitKey)}
	st.wo[loc] = res
	return res
}
