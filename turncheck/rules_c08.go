package main

import (
	"fmt"
	"strings"

	"golang.org/x/tools/go/ssa"
)

func init() {
	register(&propDef{
		ID:        "C08",
		Title:     "Channel bindings form a one-to-one map within the valid number range",
		Technique: "guard dominance with a predicate summary of the range test, conflict-test dominance and effect-freedom of the rejecting paths, field-invariant induction (interval domain) on the client's channel counter, sibling agreement of the range predicate's users",
		Explanation: "C08.1 the channel number handed to NewChannelBind/AddChannelBind by the ChannelBind handler is the value on which ChannelNumber.Valid() returned true (dominating), and Valid's summary is 0x4000 ≤ n ≤ 0x7FFF; " +
			"C08.2 in AddChannelBind the store that appends to channelBindings is on the byNumber==nil edge and is dominated by both conflict tests, whose rejecting returns (same peer/other number: byAddr!=nil ∧ byAddr.Number≠n; same number/other peer: byNumber!=nil ∧ ¬AddrEqual) lie on effect-free paths; " +
			"C08.3 the rejection is answered with error code 400; " +
			"C08.4 numbers emitted by the client are binding.number, written once from assignChannelNumber, and bindingManager.next stays in [0x4000,0x7FFF] by induction over all its stores; " +
			"C08.6 (=C02.3) AddrEqual compares IP (net.IP.Equal, so 4- and 16-byte spellings agree) and port of both arguments, and the by-address / by-number lookups return only elements read from the live table; " +
			"C08.8 (=C13.10) keys made from net/netip values are unmapped first, so one peer spelled in 4-byte and in IPv4-mapped form is one key for the conflict tests; C08.9 (=C11.3) the channel number written into a ChannelData header is the binding's number in its own 16 bits (no wider combined write that lets the length spill into it); " +
			"C08.7 (=C02.1/C02.4) every write toward the client is guarded by a lookup made for the source of the very read that produced the datagram, on the owning allocation's socket and address; " +
			"C08.5 IsChannelData, ChannelData.Decode, consumeSingleTURNFrame and ChannelNumber.Valid all decide through the one predicate isChannelNumberValid whose bounds are the constants 0x4000 and 0x7FFF. C08.10 handleChannelBindRequest reaches AddChannelBind unless one of the named refusals applies (a capacity refusal only for a request that would create a binding). C08.11 (=C07.8) a binding is reported and removed in one step.",
		NotCovered: "the bijection over histories with expiry (dynamic); concurrent ChannelBind requests on one allocation (serialised by the listener goroutine, not checked here).",
		Run:        runC08,
	})
}

func runC08(c *Ctx) {
	w := c.W
	a := w.absint()
	valid := w.Func("proto", "ChannelNumber", "Valid")
	isValid := w.FuncOpt("proto", "", "isChannelNumberValid") // optional: Valid may hold the comparison itself
	predFn := isValid
	if predFn == nil {
		predFn = valid
	}
	minCh, maxCh := w.ConstInt("proto", "MinChannelNumber"), w.ConstInt("proto", "MaxChannelNumber")

	// ---- C08.1
	c.Rule("C08.1", "range guard: every NewChannelBind call in package server passes a number that is value-identical to the receiver of a dominating ChannelNumber.Valid()==true; the summary of Valid (through isChannelNumberValid) is exactly MinChannelNumber ≤ n ≤ MaxChannelNumber with the constants 0x4000 and 0x7FFF", 2)
	{
		newBind := w.Func("allocation", "", "NewChannelBind")
		n := 0
		for _, cs := range w.callsTo(newBind) {
			if fnPkgPath(cs.Parent()) != w.tpkg("server").Path() {
				continue
			}
			n++
			c.Anchor("C08.1", "handler guard")
			num := cs.Common().Args[0]
			// the number may come out of a helper that decodes and checks it: compare with
			// what that helper returns on the path taken here
			numOrigin, _, _ := w.originAt(num, cs)
			g := w.guardedBy(cs, valid, -1, "true", func(g *ssa.Call) bool {
				return w.sameKey(g.Call.Args[0], num) || w.key(g.Call.Args[0]) == w.key(numOrigin)
			})
			if g != nil {
				c.OK("C08.1", fname(cs.Parent()), "NewChannelBind number", w.instrPos(cs), "dominated by "+w.key(num)+".Valid() == true")
			} else {
				c.Bad("C08.1", fname(cs.Parent()), "NewChannelBind number", w.instrPos(cs), "a channel number is bound without the range test 0x4000–0x7FFF: e.g. 0x0001 would be accepted and the ChannelData the server then emits looks like a STUN header", w.factsDesc(cs)...)
			}
		}
		if n == 0 {
			c.Bad("C08.1", "-", "NewChannelBind number", "-", "the ChannelBind handler no longer creates bindings through NewChannelBind: anchor gone")
		}
		c.Anchor("C08.1", "Valid summary")
		// summary of Valid (through whatever helper it forwards to): true ⇒ min ≤ n ≤ max
		lo, hi := int64(-1), int64(-1)
		first := true
		for _, r := range returnsOf(valid) {
			rv := w.resolveLoad(r.Results[0])
			if cst, isC := rv.(*ssa.Const); isC && cst.Value != nil && cst.Value.String() == "false" {
				continue
			}
			rlo, rhi := int64(-1), int64(-1)
			facts := append(w.factsAt(r), normCond(rv, true)...)
			for _, f := range w.importFacts(facts) {
				if f.Op != "<" || f.Truth {
					continue
				}
				// !(n < K)  => n >= K ;  !(K < n) => n <= K
				if w.sameKey(stripIntConv(f.X), valid.Params[0]) {
					if k, ok := constInt(f.Y); ok && k > rlo {
						rlo = k
					}
				}
				if w.sameKey(stripIntConv(f.Y), valid.Params[0]) {
					if k, ok := constInt(f.X); ok && (rhi < 0 || k < rhi) {
						rhi = k
					}
				}
			}
			if first {
				lo, hi, first = rlo, rhi, false
			} else {
				if rlo < lo {
					lo = rlo
				}
				if rhi < 0 || hi >= 0 && rhi > hi {
					hi = rhi
				}
			}
		}
		if lo == minCh && hi == maxCh && minCh == 0x4000 && maxCh == 0x7FFF {
			c.OK("C08.1", fname(predFn), "range predicate", w.pos(predFn.Pos()), "Valid() == true ⇒ 0x4000 ≤ n ≤ 0x7FFF")
		} else {
			c.Bad("C08.1", fname(predFn), "range predicate", w.pos(predFn.Pos()), fmt.Sprintf("the range predicate accepts [%#x,%#x] (constants Min=%#x Max=%#x), expected [0x4000,0x7fff]", lo, hi, minCh, maxCh))
		}
	}

	// ---- C08.2
	c.Rule("C08.2", "conflict tests: in AddChannelBind the rejecting return of ErrSamePeerDifferentChannel is on the edge byAddr != nil ∧ byAddr.Number != chanBind.Number, that of ErrSameChannelDifferentPeer on byNumber != nil ∧ AddrEqual(byNumber.Peer, chanBind.Peer) == false, with byNumber/byAddr the lookups of chanBind.Number / chanBind.Peer on the receiver; no state effect can precede either return; the branch blocks of both tests dominate the store that appends to channelBindings, which lies on the byNumber == nil edge", 3)
	{
		acb := w.Func("allocation", "Allocation", "AddChannelBind")
		byNum := w.Func("allocation", "Allocation", "GetChannelByNumber")
		byAddr := w.Func("allocation", "Allocation", "GetChannelByAddr")
		addrEq := w.Func("ipnet", "", "AddrEqual")
		cbs := w.Field("allocation", "Allocation", "channelBindings")
		var appendStore *ssa.Store
		w.eachInstrDeep(acb, func(in ssa.Instruction) {
			if st, ok := in.(*ssa.Store); ok {
				if fa, ok := st.Addr.(*ssa.FieldAddr); ok && fieldOf(fa) == cbs {
					appendStore = st
				}
			}
		})
		// lookupIs: v is the binding of this allocation found by the requested number / peer —
		// through GetChannelByNumber / GetChannelByAddr or any helper that selects from the
		// table by the same key test
		_, _ = byNum, byAddr
		lookupIs := func(v ssa.Value, kind string) bool {
			k, key, recv, ok := w.tableLookup(v, cbs, addrEq, 3)
			return ok && k == kind && w.sameKey(recv, acb.Params[0]) && w.isFieldLoadOf(w.resolveLoad(key), acb.Params[1], kind)
		}
		type conflict struct{ errName, desc string }
		found := map[string]*ssa.Return{}
		var bodyRets []*ssa.Return
		for _, bf := range w.helpersOf(acb) {
			if bf.Parent() != nil {
				continue
			}
			bodyRets = append(bodyRets, returnsOf(bf)...)
		}
		for _, r := range bodyRets {
			// the error result (last result) names the conflict
			if len(r.Results) == 0 {
				continue
			}
			g := globalLoad(w.resolveLoad(r.Results[len(r.Results)-1]))
			if g == nil {
				continue
			}
			facts := w.factsAt(r)
			switch nm(g) {
			case "ErrSamePeerDifferentChannel":
				c.Anchor("C08.2", g.Name())
				var ba ssa.Value
				okNil, okNum := false, false
				for _, f := range facts {
					if v, isNil, ok := nilFact(f); ok && !isNil {
						if lookupIs(v, "Peer") {
							ba, okNil = v, true
						}
					}
				}
				for _, f := range facts {
					if f.Op == "==" && !f.Truth && ba != nil {
						for _, pair := range [][2]ssa.Value{{f.X, f.Y}, {f.Y, f.X}} {
							if w.isFieldLoadOf(pair[0], ba, "Number") && w.isFieldLoadOf(pair[1], acb.Params[1], "Number") {
								okNum = true
							}
						}
					}
				}
				if okNil && okNum {
					found[g.Name()] = r
					c.OK("C08.2", fname(acb), g.Name(), w.instrPos(r), "rejected exactly when the peer is bound to another number")
				} else {
					c.Bad("C08.2", fname(acb), g.Name(), w.instrPos(r), "the same-peer/other-number rejection is not on the edge byAddr != nil ∧ byAddr.Number != requested number", w.factsDesc(r)...)
				}
			case "ErrSameChannelDifferentPeer":
				c.Anchor("C08.2", g.Name())
				var bn ssa.Value
				okNil, okPeer := false, false
				for _, f := range facts {
					if v, isNil, ok := nilFact(f); ok && !isNil {
						if lookupIs(v, "Number") {
							bn, okNil = v, true
						}
					}
				}
				for _, f := range facts {
					if f.Op == "true" && !f.Truth && bn != nil {
						if ec, _ := callOf(f.X); ec != nil && ec.Call.StaticCallee() == addrEq {
							x, y := ec.Call.Args[0], ec.Call.Args[1]
							if (w.isFieldLoadOf(x, bn, "Peer") && w.isFieldLoadOf(y, acb.Params[1], "Peer")) || (w.isFieldLoadOf(y, bn, "Peer") && w.isFieldLoadOf(x, acb.Params[1], "Peer")) {
								okPeer = true
							}
						}
					}
				}
				if okNil && okPeer {
					found[g.Name()] = r
					c.OK("C08.2", fname(acb), g.Name(), w.instrPos(r), "rejected exactly when the number is bound to another peer")
				} else {
					c.Bad("C08.2", fname(acb), g.Name(), w.instrPos(r), "the same-number/other-peer rejection is not on the edge byNumber != nil ∧ !AddrEqual(byNumber.Peer, requested peer)", w.factsDesc(r)...)
				}
			}
		}
		for _, name := range []string{"ErrSamePeerDifferentChannel", "ErrSameChannelDifferentPeer"} {
			if found[name] == nil {
				if _, seen := c.ord["C08.2|"+fname(acb)+"|"+name]; !seen {
					c.Bad("C08.2", fname(acb), name, w.pos(acb.Pos()), "AddChannelBind no longer rejects this conflict")
				}
			}
		}
		c.Anchor("C08.2", "append")
		if appendStore == nil {
			c.Bad("C08.2", fname(acb), "append", w.pos(acb.Pos()), "AddChannelBind no longer appends to channelBindings: anchor gone")
		} else {
			bad := ""
			// on the byNumber == nil edge
			okEdge := false
			for _, f := range w.factsAt(appendStore) {
				if v, isNil, ok := nilFact(f); ok && isNil {
					if lookupIs(v, "Number") {
						okEdge = true
					}
				}
			}
			if !okEdge {
				bad = "the append is not confined to the edge where no binding with that number exists"
			}
			// the test blocks dominate the append; no effect reaches a rejecting return
			for name, r := range found {
				rf := r.Parent()
				// positions in AddChannelBind itself: the rejection (or the call of the helper
				// that contains it) and the append (or the call that leads to it)
				rTop, aTop := w.topOf(r, acb), w.topOf(appendStore, acb)
				switch {
				case rTop == nil || aTop == nil:
					bad = "cannot relate the " + name + " test to the append"
				case rf == acb:
					// the branch that guards the rejection dominates the append's position
					var testBlock *ssa.BasicBlock
					b := r.Block()
					for len(b.Preds) == 1 {
						p := b.Preds[0]
						if _, isIf := p.Instrs[len(p.Instrs)-1].(*ssa.If); isIf {
							testBlock = p
						}
						b = p
						if len(p.Preds) != 1 {
							break
						}
					}
					if testBlock == nil || !(testBlock == aTop.Block() || testBlock.Dominates(aTop.Block())) {
						bad = "the " + name + " test does not dominate the append"
					}
				default:
					// the rejection sits in a helper: its call dominates the append's position,
					// and the append is on the edge where that call reported no error
					okNoErr := false
					if hc, isCall := rTop.(*ssa.Call); isCall && instrDominates(rTop, aTop) {
						for _, f := range w.factsAt(appendStore) {
							if v, isNil, ok := nilFact(f); ok && isNil {
								if fc, fi := callOf(w.resolveLoad(v)); fc == hc && (fi == hc.Call.Signature().Results().Len()-1 || fi < 0) {
									okNoErr = true
								}
							}
						}
					}
					if !okNoErr {
						bad = "the " + name + " test (in " + fname(rf) + ") does not dominate the append on its no-error edge"
					}
				}
				w.eachInstr(rf, func(in ssa.Instruction) {
					if eff := w.effectAt(in); eff != "" && instrReaches(in, r) {
						bad = "a state effect (" + eff + " at " + w.instrPos(in) + ") can precede the rejection " + name + ": a refused ChannelBind changes state"
					}
				})
				// effects of the callers before the helper is entered
				for site := w.singleSiteCI(rf); site != nil; site = w.singleSiteCI(site.Parent()) {
					w.eachInstr(site.Parent(), func(in ssa.Instruction) {
						if eff := w.effectAt(in); eff != "" && in != ssa.Instruction(site) && instrReaches(in, site) {
							bad = "a state effect (" + eff + " at " + w.instrPos(in) + ") can precede the rejection " + name + ": a refused ChannelBind changes state"
						}
					})
				}
			}
			if bad == "" && len(found) == 2 {
				c.OK("C08.2", fname(acb), "append", w.instrPos(appendStore), "on the byNumber == nil edge, dominated by both conflict tests; rejecting paths are effect-free")
			} else {
				if bad == "" {
					bad = "a conflict test is missing"
				}
				c.Bad("C08.2", fname(acb), "append", w.instrPos(appendStore), bad)
			}
		}
	}

	// ---- C08.3
	c.Rule("C08.3", "in handleChannelBindRequest the error returned by AddChannelBind is answered by buildAndSendErr with a message whose ErrorCodeAttribute is the constant 400 (CodeBadRequest), on the err != nil edge of that call", 1)
	{
		h := w.Func("server", "", "handleChannelBindRequest")
		acb := w.Func("allocation", "Allocation", "AddChannelBind")
		base := w.Func("server", "", "buildAndSendErr")
		c.Anchor("C08.3", "400")
		ok := false
		w.eachInstr(h, func(in ssa.Instruction) {
			call, isC := in.(*ssa.Call)
			if !isC || call.Call.StaticCallee() != base {
				return
			}
			onErr := false
			for _, f := range w.factsAt(in) {
				if v, isNil, isNF := nilFact(f); isNF && !isNil {
					if ac, _ := callOf(v); ac != nil && ac.Call.StaticCallee() == acb {
						onErr = true
					}
				}
			}
			if !onErr {
				return
			}
			if w.msgHasErrorCode(call.Call.Args[3], stunConst(w, "CodeBadRequest"), 0) {
				ok = true
			}
		})
		if ok {
			c.OK("C08.3", fname(h), "conflict answer", w.pos(h.Pos()), "a refused ChannelBind is answered 400")
		} else {
			c.Bad("C08.3", fname(h), "conflict answer", w.pos(h.Pos()), "a ChannelBind refused by AddChannelBind is not answered with error code 400")
		}
	}

	// ---- C08.4
	c.Rule("C08.4", "client numbers: binding.number has exactly one writer (bindingManager.create, from assignChannelNumber under the manager's write lock); assignChannelNumber returns a load of bindingManager.next; the invariant next ∈ [0x4000,0x7FFF] holds by induction over every store to next (interval domain with the != boundary refinement)", 3)
	{
		num := w.Field("client", "binding", "number")
		next := w.Field("client", "bindingManager", "next")
		assign := w.Func("client", "bindingManager", "assignChannelNumber")
		create := w.Func("client", "bindingManager", "create")
		c.Anchor("C08.4", "binding.number writers")
		nW := 0
		bad := ""
		for _, fn := range w.ModFns {
			w.eachInstr(fn, func(in ssa.Instruction) {
				st, ok := in.(*ssa.Store)
				if !ok {
					return
				}
				fa, ok := st.Addr.(*ssa.FieldAddr)
				if !ok || fieldOf(fa) != num {
					return
				}
				nW++
				ac, _ := callOf(st.Val)
				if !w.partOf(fn, create) || ac == nil || ac.Call.StaticCallee() != assign {
					bad = "binding.number is written at " + w.instrPos(in) + " from " + w.desc(st.Val) + ", not from assignChannelNumber in create"
				}
			})
		}
		if nW == 1 && bad == "" {
			c.OK("C08.4", fname(create), "binding.number", w.pos(create.Pos()), "single writer: create() ← assignChannelNumber()")
		} else {
			if bad == "" {
				bad = fmt.Sprintf("%d writers of binding.number", nW)
			}
			c.Bad("C08.4", fname(create), "binding.number", w.pos(create.Pos()), bad)
		}
		c.Anchor("C08.4", "next invariant")
		r := a.fieldRange(next)
		if r != nil && r.lo >= 0x4000 && r.hi <= 0x7FFF {
			c.OK("C08.4", fname(assign), "bindingManager.next", w.pos(assign.Pos()), fmt.Sprintf("inductive invariant next ∈ [%#x,%#x]", r.lo, r.hi))
		} else {
			got := "unknown"
			if r != nil {
				got = r.String()
			}
			c.Bad("C08.4", fname(assign), "bindingManager.next", w.pos(assign.Pos()), "the client's channel counter can leave 0x4000–0x7FFF: invariant over its stores is "+got)
		}
		c.Anchor("C08.4", "assign returns next")
		okRet := true
		for _, ret := range returnsOf(assign) {
			if _, f, isL := fieldLoad(w.resolveLoad(ret.Results[0])); !isL || f != next {
				okRet = false
			}
		}
		if okRet {
			c.OK("C08.4", fname(assign), "result", w.pos(assign.Pos()), "returns the value of next read before it is advanced")
		} else {
			c.Bad("C08.4", fname(assign), "result", w.pos(assign.Pos()), "assignChannelNumber does not return bindingManager.next")
		}
	}

	// ---- C08.6: the peer comparison the bijection relies on
	ruleAddrDeps(c, "C08.6")
	// ---- C08.7: a number is emitted toward the client only for the binding found for this
	// very datagram's source (a binding remembered from an earlier iteration may have expired
	// and its number may belong to another peer by now)
	ruleClientSocketWrites(c, "C08.7", "C08.7d")
	ruleNetipUnmapped(c, "C08.8", "allocation", "ipnet", "server")
	ruleChannelBindRefusals(c, "C08.10")
	ruleReportWithRemoval(c, "C08.11")
	// the number on the wire is the number bound (=C11.3, header clause)
	c.Rule("C08.9", "the ChannelData header written by WriteHeader carries uint16(Number) in Raw[0:2] and uint16(len(Data)) in Raw[2:4], each by its own 16-bit write (=C11.3 b)", 1)
	ruleChannelHeaderWritten(c, "C08.9")

	// ---- C08.5
	c.Rule("C08.5", "one range predicate: IsChannelData, (*ChannelData).Decode, consumeSingleTURNFrame and ChannelNumber.Valid each reach isChannelNumberValid (statically, depth ≤ 2) — or decide on the buffer's first byte with comparisons that all sit on the boundaries 0x3F|0x40 and 0x7F|0x80, the first bytes of exactly the valid numbers — and contain no other comparison of a channel number with constants", 4)
	{
		users := []*ssa.Function{w.Func("proto", "", "IsChannelData"), w.Func("proto", "ChannelData", "Decode"), w.Func("proto", "", "consumeSingleTURNFrame"), valid}
		for _, u := range users {
			c.Anchor("C08.5", fname(u))
			if u == predFn {
				c.OK("C08.5", fname(u), "range test", w.pos(u.Pos()), "is the shared range predicate itself")
				continue
			}
			reached := false
			var visit func(fn *ssa.Function, d int)
			visit = func(fn *ssa.Function, d int) {
				w.eachInstr(fn, func(in ssa.Instruction) {
					if cal := staticCallee(in); cal != nil {
						if cal == predFn || cal == valid {
							reached = true
						} else if w.IsMod[cal] && d < 2 {
							visit(cal, d+1)
						}
					}
				})
			}
			visit(u, 0)
			if !reached {
				// ... or decides by the first byte on exactly the boundaries of the predicate's
				// range (0x4000..0x7FFF are the numbers whose first byte is 0x40..0x7F)
				if lo, up, other := firstByteClass(w, u); lo && up && other == "" {
					reached = true
				}
			}
			// no private re-implementation: comparisons with 0x4000 / 0x7fff constants
			private := ""
			w.eachInstr(u, func(in ssa.Instruction) {
				if bo, ok := in.(*ssa.BinOp); ok {
					for _, o := range []ssa.Value{bo.X, bo.Y} {
						if k, isC := constInt(o); isC && (k == 0x4000 || k == 0x7FFF || k == 0x3FFF || k == 0x8000) && strings.Contains("< <= > >= == !=", bo.Op.String()) {
							private = w.instrPos(in)
						}
					}
				}
			})
			if reached && private == "" {
				c.OK("C08.5", fname(u), "range test", w.pos(u.Pos()), "decides through isChannelNumberValid")
			} else if !reached {
				c.Bad("C08.5", fname(u), "range test", w.pos(u.Pos()), "does not use the shared channel-number range predicate: framer, decoder and demultiplexer may disagree on which numbers are channels")
			} else {
				c.Bad("C08.5", fname(u), "range test", w.pos(u.Pos()), "contains its own comparison with a range constant at "+private+" next to the shared predicate")
			}
		}
	}
}
