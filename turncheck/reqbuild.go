package main

// Who may build a server.Request. The rules about the Request (C04.2/C15.8: it carries the conn,
// source and bytes of ONE read; C07.4: its timeouts come from the Server's configuration) were
// stated on the literal handed to server.HandleRequest inside readLoop. A server that hands the
// request to a worker (a goroutine per client, a queue) still builds it in readLoop; what
// reaches HandleRequest is then a copy that travelled through parameters, channels or maps.
// Go gives a struct value exactly three origins — a composite literal, the zero value, a copy of
// another value of the type — so the statement "every Request handled was built by readLoop
// from one read" follows from (a) every Request literal of the root package is built in readLoop
// (or a helper only it uses) and is judged there, (b) outside literals no field of a Request is
// written, except Buff being replaced by a copy of itself, (c) HandleRequest is called from the
// root package only, on a path that starts in readLoop.

import (
	"go/token"

	"golang.org/x/tools/go/ssa"
)

type reqBuild struct {
	lits     []*literal          // Request literals built by readLoop (and helpers)
	problems []string            // violations of (a)–(c), each with a position
	handles  []*ssa.Call         // HandleRequest calls reached from readLoop
	at       map[*literal]string // position of each literal
}

func (w *World) requestBuild() *reqBuild {
	if w.reqBuildMemo != nil {
		return w.reqBuildMemo
	}
	rb := &reqBuild{at: map[*literal]string{}}
	w.reqBuildMemo = rb
	reqT := w.Named("server", "Request")
	rl := w.Func("turn", "Server", "readLoop")
	handle := w.Func("server", "", "HandleRequest")
	rootPath := fnPkgPath(rl)
	// functions reached from readLoop inside the root package: calls, go, defer, literals
	reach := map[*ssa.Function]bool{}
	var visit func(f *ssa.Function)
	visit = func(f *ssa.Function) {
		if f == nil || reach[f] || len(f.Blocks) == 0 || fnPkgPath(f) != rootPath {
			return
		}
		reach[f] = true
		for _, a := range f.AnonFuncs {
			visit(a)
		}
		w.eachInstr(f, func(in ssa.Instruction) {
			if ci, ok := in.(ssa.CallInstruction); ok {
				visit(ci.Common().StaticCallee())
			}
		})
	}
	visit(rl)
	isReq := func(v ssa.Value) bool {
		n := namedOf(v.Type())
		return n != nil && n == reqT
	}
	for _, fn := range w.ModFns {
		if fnPkgPath(fn) != rootPath {
			continue
		}
		w.eachInstr(fn, func(in ssa.Instruction) {
			switch x := in.(type) {
			case *ssa.Call:
				if x.Call.StaticCallee() == handle {
					if reach[fn] {
						rb.handles = append(rb.handles, x)
					} else {
						rb.problems = append(rb.problems, "server.HandleRequest is called at "+w.instrPos(x)+" on a path that does not start in readLoop")
					}
				}
			case *ssa.Alloc:
				if !isReq(x) || x.Referrers() == nil {
					return
				}
				whole, fields := false, 0
				var fieldStores []*ssa.Store
				for _, r := range *x.Referrers() {
					switch y := r.(type) {
					case *ssa.Store:
						if y.Addr == ssa.Value(x) {
							if c, isC := y.Val.(*ssa.Const); !isC || c.Value != nil {
								whole = true
							}
						}
					case *ssa.FieldAddr:
						for _, r2 := range *y.Referrers() {
							if st, ok := r2.(*ssa.Store); ok && st.Addr == ssa.Value(y) {
								fields++
								fieldStores = append(fieldStores, st)
							}
						}
					}
				}
				switch {
				case fields == 0:
				case !whole:
					// a literal (or a zero value filled in field by field)
					if !reach[fn] {
						rb.problems = append(rb.problems, "a server.Request is built at "+w.instrPos(x)+" outside the read loop")
						return
					}
					lit := w.literalOf(x)
					if lit == nil {
						return
					}
					// a field assigned again after the literal (req.Buff = append([]byte(nil),
					// req.Buff...)): the literal's own initialiser is the store that dominates
					// the others; the later ones are rewrites, judged as such
					byField := map[int][]*ssa.Store{}
					for _, st := range fieldStores {
						fa := st.Addr.(*ssa.FieldAddr)
						byField[fa.Field] = append(byField[fa.Field], st)
					}
					for fi, sts := range byField {
						if len(sts) < 2 {
							continue
						}
						name := derefStruct(x.Type()).Field(fi).Name()
						var first *ssa.Store
						for _, a := range sts {
							dom := true
							for _, b := range sts {
								if a != b && !instrDominates(a, b) {
									dom = false
								}
							}
							if dom {
								first = a
							}
						}
						if first == nil {
							rb.problems = append(rb.problems, "field "+name+" of the server.Request built at "+w.instrPos(x)+" has no single initialiser")
							continue
						}
						lit.fields[name] = first.Val
						for _, st := range sts {
							if st == first {
								continue
							}
							okCopy := false
							if name == "Buff" {
								if src := w.copiedFrom(st.Val); src != nil {
									if u, isLd := stripIface(src).(*ssa.UnOp); isLd && u.Op == token.MUL {
										if fa2, isFA := u.X.(*ssa.FieldAddr); isFA && fa2.X == ssa.Value(x) && fa2.Field == fi {
											okCopy = true
										}
									}
								}
							}
							if !okCopy {
								rb.problems = append(rb.problems, "field "+name+" of the server.Request is rewritten at "+w.instrPos(st)+": what is handled is no longer what one read delivered")
							}
						}
					}
					rb.lits = append(rb.lits, lit)
					rb.at[lit] = w.instrPos(x)
				default:
					// a copy of another Request with fields rewritten
					for _, st := range fieldStores {
						fa := st.Addr.(*ssa.FieldAddr)
						name := derefStruct(fa.X.Type()).Field(fa.Field).Name()
						okCopy := false
						if name == "Buff" {
							if src := w.copiedFrom(st.Val); src != nil {
								if u, isLd := stripIface(src).(*ssa.UnOp); isLd && u.Op == token.MUL {
									if fa2, isFA := u.X.(*ssa.FieldAddr); isFA && fa2.X == fa.X && fa2.Field == fa.Field {
										okCopy = true
									}
								}
							}
						}
						if !okCopy {
							rb.problems = append(rb.problems, "field "+name+" of a copied server.Request is rewritten at "+w.instrPos(st)+": what is handled is no longer what one read delivered")
						}
					}
				}
			}
		})
	}
	if len(rb.handles) == 0 {
		rb.problems = append(rb.problems, "readLoop no longer reaches a call of server.HandleRequest: anchor gone")
	}
	if len(rb.lits) == 0 {
		rb.problems = append(rb.problems, "no server.Request is built by readLoop: anchor gone")
	}
	return rb
}
