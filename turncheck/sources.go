package main

// Value sources through helpers and struct values.
//
// "Which values can this duration be, and under which conditions?" — asked of the argument
// that arms a timer, of the LIFETIME attribute sent back, of a returned key. guardedLeaves
// answers it for phis and multi-store locals of one function. sources answers it across
//   - module helpers: the result of h(...) is what h returns (each return with the must-facts
//     holding there), h's parameters are the arguments of that call;
//   - struct VALUES: field f of a struct-typed local is what was last stored into that field
//     (or into the whole variable) on a path to the read; a struct returned by a helper or
//     passed by value carries its fields along; a field that was possibly written through the
//     variable's address (lifetime.GetFrom(m)) is reported as a memory leaf naming the variable,
//     the field and the call that may have written it.
// Each leaf carries the must-facts collected on the way (in the terms of the functions they
// were found in) and the chain of values that are equal to it (aliases: the helper's
// parameter, the field read, the phi), so a fact "requested < max" about a helper's parameter
// is a fact about the leaf it was bound to. Anything the walk cannot follow ends in a leaf
// holding the value where it stopped: the answer over-approximates the set of sources.

import (
	"fmt"
	"go/constant"
	"go/token"
	"go/types"
	"os"
	"sort"

	"golang.org/x/tools/go/ssa"
)

type srcFrame struct {
	h    *ssa.Function
	site *ssa.Call
}

type srcLeaf struct {
	val   ssa.Value
	facts []Fact
	alias []ssa.Value
	where string
	// memory leaf: field `field` of local struct variable mem, possibly written by clobber
	mem     *ssa.Alloc
	field   *types.Var
	clobber ssa.Instruction
	frames  []srcFrame // the helper invocations the leaf was found in (outermost first)
	// sel: the leaf is the (nested) field sel of val (val a parameter or another value that
	// cannot be opened further)
	sel []int
}

// outer expresses a value of the leaf's function in the outermost caller's terms
// (parameters become the arguments of the recorded call sites).
func (l *srcLeaf) outer(w *World, v ssa.Value) ssa.Value {
	for i := len(l.frames) - 1; i >= 0; i-- {
		fr := l.frames[i]
		if p := rawParamOf(v, fr.h); p != nil {
			if j := paramIndex(p); j >= 0 && j < len(fr.site.Call.Args) {
				v = fr.site.Call.Args[j]
				continue
			}
		}
		v = w.translate(v, fr.h, fr.site)
	}
	return v
}

// isAlias: v is the leaf's value or one of the values equal to it on the way.
func (l *srcLeaf) isAlias(w *World, v ssa.Value) bool {
	v = stripIntConv(v)
	if v == l.val || (l.val != nil && w.sameKey(v, l.val)) {
		return true
	}
	for _, a := range l.alias {
		if a == v || w.sameKey(a, v) {
			return true
		}
	}
	return false
}

type srcQuery struct {
	w        *World
	stop     func(*ssa.Function) bool
	out      []srcLeaf
	complete bool
	budget   int
	seenPhi  map[*ssa.Phi]bool
	noRefute bool
}

// sources: the leaves of v as read at instruction at.
func (w *World) sources(v ssa.Value, at ssa.Instruction, stop func(*ssa.Function) bool) ([]srcLeaf, bool) {
	return w.sourcesIn(v, at, nil, nil, stop)
}

// sourcesIn: v is a value of a helper invocation described by frames (outermost first);
// facts are must-facts already known (in whatever terms).
func (w *World) sourcesIn(v ssa.Value, at ssa.Instruction, frames []srcFrame, facts []Fact, stop func(*ssa.Function) bool) ([]srcLeaf, bool) {
	q := &srcQuery{w: w, stop: stop, complete: true, budget: 4000, seenPhi: map[*ssa.Phi]bool{}}
	if at != nil {
		facts = addFacts(facts, w.factsAt(at))
	}
	where := "-"
	if at != nil {
		where = w.instrPos(at)
	}
	q.walk(v, nil, facts, nil, frames, where, 0)
	if os.Getenv("TURNCHECK_SRCDEBUG") != "" {
		fmt.Fprintf(os.Stderr, "SOURCES of %s (frames %d): complete=%v budget=%d\n", w.key(v), len(frames), q.complete, q.budget)
		for _, l := range q.out {
			fmt.Fprintf(os.Stderr, "   leaf %s sel=%v mem=%v where=%s frames=%d\n", w.key(l.val), l.sel, l.mem != nil, l.where, len(l.frames))
		}
	}
	return q.out, q.complete && q.budget > 0
}

// framesOfVirtual: the helper invocation a translated (virtual or synthetic) value belongs
// to, and the helper-side value it stands for.
func (w *World) framesOfVirtual(v ssa.Value) (ssa.Value, []srcFrame, bool) {
	var frames []srcFrame
	cur := v
	for i := 0; i < 6; i++ {
		var site *ssa.Call
		var orig ssa.Value
		if vv, ok := cur.(*virtVal); ok && vv.site != nil && vv.orig != nil {
			site, orig = vv.site, vv.orig
		} else if s2 := w.ss().synSite[cur]; s2 != nil {
			site, orig = s2, w.ss().synOrigin[cur]
		}
		if site == nil || orig == nil || site.Call.StaticCallee() == nil {
			break
		}
		frames = append([]srcFrame{{site.Call.StaticCallee(), site}}, frames...)
		cur = orig
		// the site itself may be a translated call of an outer helper
		if !w.isSynthetic(site) {
			return cur, frames, true
		}
		// nested: continue with the site (its own origin gives the outer frame)
		outerSite := w.ss().synSite[site]
		if outerSite == nil {
			return cur, frames, true
		}
		frames[0].site = w.realOf(site).(*ssa.Call)
		frames = append([]srcFrame{{outerSite.Call.StaticCallee(), outerSite}}, frames...)
		return cur, frames, !w.isSynthetic(outerSite)
	}
	return v, nil, false
}

func (q *srcQuery) leaf(l srcLeaf) { q.out = append(q.out, l) }

func addFacts(a []Fact, b []Fact) []Fact {
	if len(b) == 0 {
		return a
	}
	out := make([]Fact, 0, len(a)+len(b))
	out = append(out, a...)
	seen := map[Fact]bool{}
	for _, f := range a {
		seen[f] = true
	}
	for _, f := range b {
		if !seen[f] {
			out = append(out, f)
		}
	}
	return out
}

func addAlias(a []ssa.Value, v ssa.Value) []ssa.Value {
	out := make([]ssa.Value, 0, len(a)+1)
	out = append(out, a...)
	return append(out, v)
}

// walk: path selects a (nested) field of the struct value v.
func (q *srcQuery) walk(v ssa.Value, path []int, facts []Fact, alias []ssa.Value, frames []srcFrame, where string, depth int) {
	w := q.w
	q.budget--
	if q.budget < 0 || depth > 40 {
		q.why("budget/depth")
		q.complete = false
		q.leaf(srcLeaf{val: v, facts: facts, alias: alias, where: where, frames: frames})
		return
	}
	if _, isParam := v.(*ssa.Parameter); len(path) == 0 && !isParam {
		// (parameters are followed below, so that the frame they belong to is popped)
		if r := w.resolveLoadLocal(v); r != v {
			alias = addAlias(alias, v)
			v = r
		}
	}
	switch x := v.(type) {
	case *ssa.Phi:
		if q.seenPhi[x] {
			return
		}
		q.seenPhi[x] = true
		defer func() { delete(q.seenPhi, x) }()
		for i, e := range x.Edges {
			pred := x.Block().Preds[i]
			if deadEdge(pred, x.Block()) || e == ssa.Value(x) {
				continue
			}
			var fs []Fact
			if len(pred.Instrs) > 0 {
				fs = append(fs, w.factsAt(pred.Instrs[0])...)
			}
			fs = append(fs, edgeFacts(pred, x.Block())...)
			fs = w.importFacts(fs)
			if q.refuted(fs, frames, facts) {
				continue // the edge cannot be taken in this context
			}
			q.walk(e, path, addFacts(facts, fs), addAlias(alias, x), frames, w.instrPos(pred.Instrs[len(pred.Instrs)-1]), depth+1)
		}
		return
	case *ssa.ChangeType:
		q.walk(x.X, path, facts, addAlias(alias, x), frames, where, depth+1)
		return
	case *ssa.Convert:
		// integer width/sign conversions of a duration keep its identity for our purposes
		if isIntType(x.Type()) && isIntType(x.X.Type()) && len(path) == 0 {
			q.walk(x.X, path, facts, addAlias(alias, x), frames, where, depth+1)
			return
		}
	case *ssa.Field:
		q.walk(x.X, append([]int{x.Field}, path...), facts, addAlias(alias, x), frames, where, depth+1)
		return
	case *ssa.Extract:
		if call, ok := x.Tuple.(*ssa.Call); ok {
			if q.intoCall(call, x.Index, path, facts, addAlias(alias, x), frames, where, depth) {
				return
			}
		}
	case *ssa.Call:
		if q.intoCall(x, 0, path, facts, addAlias(alias, x), frames, where, depth) {
			return
		}
	case *ssa.Parameter:
		if n := len(frames); n > 0 && frames[n-1].h == x.Parent() {
			if j := paramIndex(x); j >= 0 && j < len(frames[n-1].site.Call.Args) {
				site := frames[n-1].site
				q.walk(site.Call.Args[j], path, addFacts(facts, w.factsAt(site)), addAlias(alias, x), frames[:n-1], w.instrPos(site), depth+1)
				return
			}
		}
		// a parameter of a single-call-site helper is the argument passed there
		if a, ok := argOfParam(x); ok && len(frames) == 0 {
			site := w.singleSiteCI(x.Parent())
			q.walk(a, path, addFacts(facts, w.factsAt(site)), addAlias(alias, x), frames, w.instrPos(site), depth+1)
			return
		}
	case *ssa.UnOp:
		if x.Op == token.MUL {
			// load of a field of a local struct variable, or of the whole variable
			if fa, ok := x.X.(*ssa.FieldAddr); ok {
				if al, isAl := fa.X.(*ssa.Alloc); isAl && q.localStruct(al) {
					q.reaching(al, append([]int{fa.Field}, path...), x, facts, addAlias(alias, x), frames, depth)
					return
				}
			}
			if al, ok := x.X.(*ssa.Alloc); ok && len(path) > 0 {
				// a variable assigned once and only read afterwards (a by-value parameter that a
				// function literal captures lives in such a cell): the value assigned
				if ss := w.stores[w.locKey(al)]; len(ss) == 1 && ss[0].Addr == ssa.Value(al) && len(w.storesUnder(w.locKey(al))) == 0 &&
					instrDominates(ss[0], x) && !inLoopWith(ss[0], x) && onlyReadByClosures(al) {
					q.walk(ss[0].Val, path, facts, addAlias(alias, x), frames, where, depth+1)
					return
				}
				q.reaching(al, path, x, facts, addAlias(alias, x), frames, depth)
				return
			}
			// a field of a per-request context object built by a constructor and immutable
			// afterwards: what the constructor stored there
			if _, isFA := x.X.(*ssa.FieldAddr); isFA && len(frames) == 0 {
				if cv, suffix, ok := w.ctorField(x); ok && suffix == "" && cv != ssa.Value(x) {
					q.walk(cv, path, facts, addAlias(alias, x), frames, where, depth+1)
					return
				}
			}
		}
	}
	if len(path) > 0 {
		// a field of something we cannot open: precise when that something is a parameter of
		// the outermost function (the source is "field sel of that parameter")
		if _, isParam := v.(*ssa.Parameter); !isParam || len(frames) > 0 {
			q.why(fmt.Sprintf("field %v of unopened %T %s", path, v, w.key(v)))
			q.complete = false
		}
	}
	q.leaf(srcLeaf{val: v, facts: facts, alias: alias, where: where, frames: frames, sel: append([]int{}, path...)})
}

// intoCall: the result idx of a call of a module helper is what the helper returns.
func (q *srcQuery) intoCall(call *ssa.Call, idx int, path []int, facts []Fact, alias []ssa.Value, frames []srcFrame, where string, depth int) bool {
	w := q.w
	h := call.Call.StaticCallee()
	if h == nil || !w.IsMod[h] || len(h.Blocks) == 0 || (q.stop != nil && q.stop(h)) || len(frames) > 4 {
		return false
	}
	for _, fr := range frames {
		if fr.h == h {
			return false
		}
	}
	rets := returnsOf(h)
	if len(rets) == 0 {
		return false
	}
	fr2 := append(append([]srcFrame{}, frames...), srcFrame{h, call})
	for _, r := range rets {
		if idx >= len(r.Results) {
			return false
		}
	}
	// what is already known about this call's other results (err == nil, ok == true)
	type oc struct {
		idx  int
		want string
	}
	var known []oc
	for _, f := range facts {
		x, outcome := factOutcome(f)
		if x == nil {
			continue
		}
		if fc, fi := callOf(w.resolveLoad(x)); fc == call {
			if fi < 0 {
				fi = 0
			}
			known = append(known, oc{fi, outcome})
		}
	}
	for _, r := range rets {
		compatible := true
		for _, k := range known {
			if k.idx >= len(r.Results) || k.idx == idx {
				continue
			}
			rv := stripIface(w.resolveLoad(r.Results[k.idx]))
			switch k.want {
			case "nil", "nonnil":
				if cst, isC := rv.(*ssa.Const); isC {
					if isNilConst(cst) != (k.want == "nil") {
						compatible = false
					}
				} else if w.absint().definitelyNonNil(rv) && k.want == "nil" {
					compatible = false
				} else {
					for _, rf := range w.factsAt(r) {
						if fv, isNil, ok := nilFact(rf); ok && (fv == rv || w.sameKey(fv, rv)) && isNil != (k.want == "nil") {
							compatible = false
						}
					}
				}
			case "true", "false":
				if cst, isC := rv.(*ssa.Const); isC && cst.Value != nil && isBoolType(cst.Type()) {
					if (cst.Value.String() == "true") != (k.want == "true") {
						compatible = false
					}
				}
			}
		}
		if !compatible {
			continue
		}
		rf := w.factsAt(r)
		if q.refuted(rf, fr2, facts) {
			continue
		}
		q.walk(r.Results[idx], path, addFacts(facts, rf), alias, fr2, w.instrPos(r), depth+1)
	}
	return true
}

// refuted: one of the conditions fs (must-facts of an edge or a return, in the terms of the
// innermost frame) is false in this context: both sides reduce to constants that disagree
// with it, or it says a string is empty whose only source is a string that was successfully
// parsed as a decimal number (directly, or as the first field of its split).
func (q *srcQuery) refuted(fs []Fact, frames []srcFrame, ctx []Fact) bool {
	if q.noRefute || len(frames) == 0 {
		return false
	}
	for _, f := range fs {
		switch f.Op {
		case "true":
			if c, ok := q.constOf(f.X, frames, ctx); ok && c.Value != nil && isBoolType(c.Type()) {
				if (c.Value.String() == "true") != f.Truth {
					return true
				}
			}
		case "==":
			cy, okY := q.constOf(f.Y, frames, ctx)
			if !okY {
				continue
			}
			if cx, okX := q.constOf(f.X, frames, ctx); okX {
				eq := constEqual(cx, cy)
				if eq != f.Truth {
					return true
				}
				continue
			}
			// X == "" where X's only source was parsed as a number
			if f.Truth && cy.Value != nil && cy.Value.ExactString() == `""` {
				if q.parsedNonEmpty(f.X, frames, ctx) {
					return true
				}
			}
		}
	}
	return false
}

func constEqual(a, b *ssa.Const) bool {
	if a.Value == nil || b.Value == nil {
		return a.Value == nil && b.Value == nil
	}
	return a.Value.ExactString() == b.Value.ExactString()
}

// constOf: every source of v in this context is the same constant.
func (q *srcQuery) constOf(v ssa.Value, frames []srcFrame, ctx []Fact) (*ssa.Const, bool) {
	if c, ok := v.(*ssa.Const); ok {
		return c, true
	}
	if v == nil {
		return nil, false
	}
	sub := &srcQuery{w: q.w, stop: q.stop, complete: true, budget: 300, seenPhi: map[*ssa.Phi]bool{}, noRefute: true}
	sub.walk(v, nil, ctx, nil, frames, "-", 0)
	if os.Getenv("TURNCHECK_SRCDEBUG") != "" {
		fmt.Fprintf(os.Stderr, "  constOf %s frames=%d: complete=%v leaves=%d\n", q.w.key(v), len(frames), sub.complete, len(sub.out))
		for _, l := range sub.out {
			fmt.Fprintf(os.Stderr, "     leaf %s (%T) frames=%d\n", q.w.key(l.val), l.val, len(l.frames))
		}
	}
	if !sub.complete || sub.budget <= 0 || len(sub.out) == 0 {
		return nil, false
	}
	var c0 *ssa.Const
	for i := range sub.out {
		l := &sub.out[i]
		c, ok := l.val.(*ssa.Const)
		if !ok && len(l.sel) == 0 && l.mem == nil {
			// a comparison of values that are themselves constant in this context
			if bo, isBO := l.val.(*ssa.BinOp); isBO && (bo.Op == token.EQL || bo.Op == token.NEQ) {
				if cx, okx := q.constOf(bo.X, l.frames, l.facts); okx {
					if cy, oky := q.constOf(bo.Y, l.frames, l.facts); oky {
						eq := constEqual(cx, cy)
						c, ok = ssa.NewConst(constant.MakeBool(eq == (bo.Op == token.EQL)), types.Typ[types.Bool]), true
					}
				}
			}
		}
		if !ok || len(l.sel) > 0 || l.mem != nil {
			return nil, false
		}
		if c0 == nil {
			c0 = c
		} else if !constEqual(c0, c) {
			return nil, false
		}
	}
	return c0, c0 != nil
}

// parsedNonEmpty: the string v has, in this context, a single source L, and on the way a
// decimal parse (Atoi / ParseInt base 10) of L — or of element 0 of strings.Split(L, sep) —
// is known to have succeeded: L is not empty.
func (q *srcQuery) parsedNonEmpty(v ssa.Value, frames []srcFrame, ctx []Fact) bool {
	w := q.w
	sub := &srcQuery{w: w, stop: q.stop, complete: true, budget: 300, seenPhi: map[*ssa.Phi]bool{}, noRefute: true}
	sub.walk(v, nil, ctx, nil, frames, "-", 0)
	if !sub.complete || len(sub.out) != 1 {
		return false
	}
	l := &sub.out[0]
	if l.mem != nil || len(l.sel) > 0 {
		return false
	}
	for _, f := range l.facts {
		x, isNil, ok := nilFact(f)
		if !ok || !isNil {
			continue
		}
		pc, pi := callOf(x)
		if pc == nil || pi != 1 || !isDecimalParse(pc) {
			continue
		}
		arg := w.resolveLoad(pc.Call.Args[0])
		if l.isAlias(w, arg) {
			return true
		}
		if whole := leadingFieldOf(arg); whole != nil && l.isAlias(w, w.resolveLoad(whole)) {
			return true
		}
	}
	return false
}

// localStruct: a struct-typed local whose address does not leave the function other than as
// the receiver/argument of calls (which are treated as possible writers).
func (q *srcQuery) localStruct(al *ssa.Alloc) bool {
	_, ok := derefType(al.Type()).Underlying().(*types.Struct)
	return ok
}

func derefType(t types.Type) types.Type {
	if p, ok := t.Underlying().(*types.Pointer); ok {
		return p.Elem()
	}
	return t
}

// memEvent: something that defines (kills) or may define (clobbers) the selected field.
type memEvent struct {
	in      ssa.Instruction
	val     ssa.Value // stored value (nil for a clobber or the zero initialisation)
	whole   bool      // val is a whole-struct value: select path from it
	clobber bool
	zero    bool
}

// reaching: the definitions of field path[0] (…) of local al that reach the read at ld.
func (q *srcQuery) reaching(al *ssa.Alloc, path []int, ld ssa.Instruction, facts []Fact, alias []ssa.Value, frames []srcFrame, depth int) {
	w := q.w
	fn := al.Parent()
	st, ok := derefType(al.Type()).Underlying().(*types.Struct)
	if !ok || len(path) == 0 || path[0] >= st.NumFields() || ld.Parent() != fn {
		q.why("reaching: not a struct local / foreign load")
		q.complete = false
		q.leaf(srcLeaf{val: ld.(ssa.Value), facts: facts, alias: alias, where: w.instrPos(ld), frames: frames})
		return
	}
	fld := st.Field(path[0])
	events := map[ssa.Instruction]*memEvent{}
	escaped := false
	var scan func(addr ssa.Value, sel []int)
	scan = func(addr ssa.Value, sel []int) {
		if addr.Referrers() == nil {
			return
		}
		for _, r := range *addr.Referrers() {
			switch x := r.(type) {
			case *ssa.Store:
				if x.Addr == addr {
					switch {
					case len(sel) == 0:
						events[x] = &memEvent{in: x, val: x.Val, whole: true}
					case len(sel) == 1 && sel[0] == path[0]:
						events[x] = &memEvent{in: x, val: x.Val}
					}
				} else if x.Val == addr {
					escaped = true
				}
			case *ssa.UnOp: // load
			case *ssa.FieldAddr:
				if len(sel) == 0 {
					scan(x, []int{x.Field})
				} else if sel[0] == path[0] {
					// a nested field of the selected field: any write there changes it
					scan(x, append(append([]int{}, sel...), x.Field))
				}
			case *ssa.DebugRef:
			case ssa.CallInstruction:
				if len(sel) == 0 || sel[0] == path[0] {
					if _, isGo := r.(*ssa.Go); isGo {
						escaped = true
					} else if _, isDefer := r.(*ssa.Defer); isDefer {
						escaped = true
					} else {
						events[r] = &memEvent{in: r, clobber: true}
					}
				}
			case *ssa.MakeInterface, *ssa.ChangeType, *ssa.Convert, *ssa.Phi, *ssa.MakeClosure, *ssa.Slice, *ssa.IndexAddr, *ssa.Return:
				if len(sel) == 0 || sel[0] == path[0] {
					escaped = true
				}
			default:
				if len(sel) == 0 || sel[0] == path[0] {
					escaped = true
				}
			}
		}
	}
	scan(al, nil)
	// the address handed to a stun attribute list (&lifetime as a Setter) after the last
	// write is an escape that does not matter for reads BEFORE it; we only need: no escape
	// can reach ld. Conservative: an escape anywhere makes every read after it opaque. To
	// keep it simple, an escaped variable is opaque unless the escape cannot reach ld.
	if escaped && q.escapeReaches(al, path[0], ld) {
		q.leaf(srcLeaf{val: ld.(ssa.Value), facts: facts, alias: alias, where: w.instrPos(ld), frames: frames, mem: al, field: fld})
		return
	}
	events[al] = &memEvent{in: al, zero: true}
	// which events reach ld without passing another event
	var evs []*memEvent
	for _, ev := range events {
		evs = append(evs, ev)
	}
	sort.Slice(evs, func(i, j int) bool {
		bi, bj := -1, -1
		if b := evs[i].in.Block(); b != nil {
			bi = b.Index
		}
		if b := evs[j].in.Block(); b != nil {
			bj = b.Index
		}
		if bi != bj {
			return bi < bj
		}
		return indexIn(evs[i].in) < indexIn(evs[j].in)
	})
	for _, ev := range evs {
		blocks, reaches := q.barrierFree(ev.in, ld, events)
		if !reaches {
			continue
		}
		pf := q.pathFacts(ev.in, ld, blocks)
		fs := addFacts(addFacts(facts, w.factsAt(ev.in)), pf)
		switch {
		case ev.zero:
			var zv ssa.Value
			ft := fld.Type()
			for _, i := range path[1:] {
				if s2, ok := ft.Underlying().(*types.Struct); ok && i < s2.NumFields() {
					ft = s2.Field(i).Type()
				}
			}
			zv = zeroConstAny(ft)
			if zv == nil {
				q.why("no zero constant for " + ft.String())
				q.complete = false
				continue
			}
			q.leaf(srcLeaf{val: zv, facts: fs, alias: alias, where: "zero value of " + al.Comment, frames: frames})
		case ev.clobber:
			q.leaf(srcLeaf{val: ld.(ssa.Value), facts: fs, alias: alias, where: w.instrPos(ev.in), frames: frames, mem: al, field: fld, clobber: ev.in})
		case ev.whole:
			q.walk(ev.val, path, fs, alias, frames, w.instrPos(ev.in), depth+1)
		default:
			q.walk(ev.val, path[1:], fs, alias, frames, w.instrPos(ev.in), depth+1)
		}
	}
}

// escapeReaches: some use that lets the address of the selected field out of our sight
// (stored, converted to an interface, captured) can execute before ld.
func (q *srcQuery) escapeReaches(al *ssa.Alloc, field int, ld ssa.Instruction) bool {
	found := false
	var scan func(addr ssa.Value, sel []int)
	scan = func(addr ssa.Value, sel []int) {
		if addr.Referrers() == nil {
			return
		}
		for _, r := range *addr.Referrers() {
			rel := len(sel) == 0 || sel[0] == field
			switch x := r.(type) {
			case *ssa.Store:
				if x.Val == addr && rel && instrReaches(x, ld) {
					found = true
				}
			case *ssa.UnOp, *ssa.DebugRef:
			case *ssa.FieldAddr:
				if len(sel) == 0 {
					scan(x, []int{x.Field})
				} else if rel {
					scan(x, sel)
				}
			case *ssa.Call:
			default:
				if in, ok := r.(ssa.Instruction); ok && rel && instrReaches(in, ld) {
					found = true
				}
			}
		}
	}
	scan(al, nil)
	return found
}

// barrierFree: the blocks on paths from just after `from` to `to` that pass no other event;
// reaches reports whether such a path exists.
func (q *srcQuery) barrierFree(from, to ssa.Instruction, events map[ssa.Instruction]*memEvent) (map[*ssa.BasicBlock]bool, bool) {
	if from.Parent() != to.Parent() || from.Block() == nil || to.Block() == nil {
		return nil, false
	}
	// forward from `from`
	fwd := map[*ssa.BasicBlock]bool{}
	through := map[*ssa.BasicBlock]bool{} // control runs from the block's entry (or from `from`) to its end without an event
	reached := false
	// scanBlock from index i: returns true when the end of the block is reached without event
	scanBlock := func(b *ssa.BasicBlock, i int) bool {
		for ; i < len(b.Instrs); i++ {
			in := b.Instrs[i]
			if in == to {
				reached = true
				return false
			}
			if _, isEv := events[in]; isEv {
				return false
			}
		}
		return true
	}
	var visit func(b *ssa.BasicBlock)
	visit = func(b *ssa.BasicBlock) {
		if fwd[b] {
			return
		}
		fwd[b] = true
		if scanBlock(b, 0) {
			through[b] = true
			for _, s := range liveSuccs(b) {
				visit(s)
			}
		}
	}
	start := from.Block()
	idx := 0
	if _, isAlloc := from.(*ssa.Alloc); isAlloc && indexIn(from) < 0 {
		idx = 0 // function-level local (not in a block's instruction list): from the entry
		start = from.Parent().Blocks[0]
	} else {
		idx = indexIn(from) + 1
	}
	if scanBlock(start, idx) {
		startThrough := true
		for _, s := range liveSuccs(start) {
			visit(s)
		}
		// (visit may have re-entered start through a loop: keep the from-point semantics)
		through[start] = startThrough
	}
	// the key nil marks nothing; blocks entered are fwd, blocks passed completely are through
	res := map[*ssa.BasicBlock]bool{}
	for b := range fwd {
		res[b] = through[b]
	}
	if _, ok := res[start]; !ok {
		res[start] = through[start]
	}
	return res, reached
}

// pathFacts: the conditions that hold on every event-free path from `from` to `to`: the
// forward intersection of edge conditions over the blocks such paths run through.
func (q *srcQuery) pathFacts(from, to ssa.Instruction, blocks map[*ssa.BasicBlock]bool) []Fact {
	if blocks == nil {
		return nil
	}
	start := from.Block()
	if start == nil || indexIn(from) < 0 {
		start = from.Parent().Blocks[0]
	}
	target := to.Block()
	if start == target && instrReachesStraight(from, to) {
		return nil
	}
	in := map[*ssa.BasicBlock]map[Fact]bool{}
	top := map[*ssa.BasicBlock]bool{}
	for b := range blocks {
		top[b] = true
	}
	if _, ok := blocks[target]; !ok {
		return nil
	}
	in[start] = map[Fact]bool{}
	top[start] = false
	for changed, n := true, 0; changed && n < 50; n++ {
		changed = false
		for b := range blocks {
			if b == start {
				continue
			}
			var acc map[Fact]bool
			have := false
			for _, p := range b.Preds {
				if through, entered := blocks[p]; !entered || !through || top[p] {
					continue
				}
				// the predecessor must let control through to its end (no event after entry is
				// guaranteed by construction of blocks, except for the start and target blocks)
				set := map[Fact]bool{}
				for f := range in[p] {
					set[f] = true
				}
				for _, f := range edgeFacts(p, b) {
					set[f] = true
				}
				if !have {
					acc, have = set, true
				} else {
					for f := range acc {
						if !set[f] {
							delete(acc, f)
						}
					}
				}
			}
			if !have {
				continue
			}
			if top[b] || len(acc) != len(in[b]) {
				top[b] = false
				in[b] = acc
				changed = true
			}
		}
	}
	if top[target] {
		return nil
	}
	var out []Fact
	for f := range in[target] {
		out = append(out, f)
	}
	return q.w.importFacts(out)
}

// instrReachesStraight: a and b are in one block, a before b.
func instrReachesStraight(a, b ssa.Instruction) bool {
	return a.Block() == b.Block() && indexIn(a) >= 0 && indexIn(a) < indexIn(b)
}

func (q *srcQuery) why(msg string) {
	if os.Getenv("TURNCHECK_SRCDEBUG") != "" {
		fmt.Fprintf(os.Stderr, "   incomplete: %s\n", msg)
	}
}

// onlyReadByClosures: the cell is stored to directly, loaded, and captured by function literals
// that only load it (or fields of it): nothing but the stores in its own function writes it.
func onlyReadByClosures(al *ssa.Alloc) bool {
	var ok func(v ssa.Value, inClosure bool, d int) bool
	ok = func(v ssa.Value, inClosure bool, d int) bool {
		if v.Referrers() == nil || d > 4 {
			return d <= 4
		}
		for _, r := range *v.Referrers() {
			switch x := r.(type) {
			case *ssa.UnOp, *ssa.DebugRef:
			case *ssa.Store:
				if x.Addr != v || inClosure {
					return false
				}
			case *ssa.FieldAddr:
				if !ok(x, true, d+1) { // a field address: loads only, wherever it is
					return false
				}
			case *ssa.MakeClosure:
				fn, _ := x.Fn.(*ssa.Function)
				if fn == nil {
					return false
				}
				for i, b := range x.Bindings {
					if b == v && i < len(fn.FreeVars) && !ok(fn.FreeVars[i], true, d+1) {
						return false
					}
				}
			default:
				return false
			}
		}
		return true
	}
	return ok(al, false, 0)
}
