package main

// Helpers for guarded-sink rules.

import (
	"fmt"
	"go/token"
	"go/types"
	"strings"

	"golang.org/x/tools/go/ssa"
)

// guardedBy returns a call c to `callee` such that "result idx of c is <want>" is a must-fact
// at `at` and pred(c) holds. want: nonnil | nil | true | false.
func (w *World) guardedBy(at ssa.Instruction, callee *ssa.Function, idx int, want string, pred func(c *ssa.Call) bool) *ssa.Call {
	for _, c := range w.guardCalls(at, callee, idx, want) {
		if pred == nil || pred(c) {
			return c
		}
	}
	return nil
}

func (w *World) sameKey(a, b ssa.Value) bool {
	ka, kb := w.key(a), w.key(b)
	return ka == kb && !strings.Contains(ka, "rec:") && w.loadsAgree(a, b)
}

// fieldLoadOf: v is a load of field `name` of the object held in value base (pointer):
//
//	v = *(&base.name)
func (w *World) isFieldLoadOf(v ssa.Value, base ssa.Value, name string) bool {
	if vv, isV := stripIface(v).(*virtVal); isV {
		// a helper's value expressed in the caller's terms: the key says which load it is
		return vv.k == "*@"+w.key(base)+"."+name && !strings.Contains(vv.k, "rec:")
	}
	v = stripIface(under(v))
	u, ok := v.(*ssa.UnOp)
	if !ok || u.Op != token.MUL {
		// a value expressed in the caller's terms through a helper: its key is that of the load
		if _, isV := v.(*virtVal); isV || w.isSynthetic(v) {
			return w.key(v) == "*@"+w.key(base)+"."+name
		}
		return false
	}
	fa, ok := u.X.(*ssa.FieldAddr)
	if !ok {
		return false
	}
	if derefStruct(fa.X.Type()).Field(fa.Field).Name() != name {
		return false
	}
	if w.sameKey(fa.X, base) || fa.X == base {
		return true
	}
	// expressed in the caller's terms through a helper (synthetic): which load it is is a
	// matter of the key alone
	return w.isSynthetic(v) && w.key(fa.X) == w.key(base) && !strings.Contains(w.key(base), "rec:")
}

// fieldLoad decomposes v = *(&X.f) and returns X and f.
func fieldLoad(v ssa.Value) (base ssa.Value, field *types.Var, ok bool) {
	v = stripIface(under(v))
	u, isU := v.(*ssa.UnOp)
	if !isU || u.Op != token.MUL {
		// struct value field
		if f, isF := v.(*ssa.Field); isF {
			return f.X, fieldOf(f), true
		}
		return nil, nil, false
	}
	fa, isFA := u.X.(*ssa.FieldAddr)
	if !isFA {
		return nil, nil, false
	}
	return fa.X, fieldOf(fa), true
}

// noStoreBetween: no store into the object allocated by al (any field) can execute after
// `from` and before `to`.
func (w *World) noStoreBetween(al *ssa.Alloc, from, to ssa.Instruction) (bool, string) {
	bad := ""
	var visit func(v ssa.Value)
	visit = func(v ssa.Value) {
		for _, r := range *v.Referrers() {
			switch x := r.(type) {
			case *ssa.FieldAddr:
				visit(x)
			case *ssa.IndexAddr:
				visit(x)
			case *ssa.Store:
				if x.Val == v {
					continue
				}
				if instrReaches(from, x) && instrReaches(x, to) {
					bad = w.instrPos(x)
				}
			}
		}
	}
	visit(al)
	return bad == "", bad
}

// ipOfInstalledAddr returns the value that supplies the IP of the address value v:
//   - v is (a pointer to) a literal net.UDPAddr/net.TCPAddr{IP: x, ...}  => x
//   - v is a struct value with an IP field (proto.PeerAddress) loaded from storage => the
//     location-key of that field (as key string)
func (w *World) ipKeyOfAddr(v ssa.Value) (string, bool) {
	v = stripIface(v)
	if lit := w.literalOf(v); lit != nil {
		if ip := lit.fields["IP"]; ip != nil {
			return w.key(ip), true
		}
	}
	// struct value loaded whole from a local:  *t  => key "*loc"; its IP is "*loc.IP"
	if u, ok := v.(*ssa.UnOp); ok && u.Op == token.MUL {
		if st, ok := u.Type().Underlying().(*types.Struct); ok {
			for i := 0; i < st.NumFields(); i++ {
				if st.Field(i).Name() == "IP" {
					return "*" + w.locKey(u.X) + ".IP", true
				}
			}
		}
	}
	return "", false
}

func (w *World) argDesc(args []ssa.Value) string {
	var s []string
	for _, a := range args {
		s = append(s, w.key(a))
	}
	return strings.Join(s, ", ")
}

func (w *World) factsDesc(at ssa.Instruction) []string {
	var out []string
	for _, f := range w.factsAt(at) {
		out = append(out, "fact: "+w.factStr(f))
	}
	return out
}

// invokesOn lists the interface method calls (invoke mode) made on the value loaded from a
// given struct field anywhere in the module.
type fieldInvoke struct {
	call   ssa.CallInstruction
	method string
	fn     *ssa.Function
}

func (w *World) fieldUses(fld *types.Var) (invokes []fieldInvoke, stores []*ssa.Store, other []ssa.Instruction) {
	for _, fn := range w.ModFns {
		w.eachInstr(fn, func(in ssa.Instruction) {
			fa, ok := in.(*ssa.FieldAddr)
			if !ok || fieldOf(fa) != fld {
				return
			}
			for _, r := range *fa.Referrers() {
				switch x := r.(type) {
				case *ssa.Store:
					if x.Addr == ssa.Value(fa) {
						stores = append(stores, x)
					} else {
						other = append(other, x)
					}
				case *ssa.UnOp:
					if x.Op != token.MUL {
						other = append(other, x)
						continue
					}
					for _, r2 := range *x.Referrers() {
						switch y := r2.(type) {
						case ssa.CallInstruction:
							cc := y.Common()
							if cc.IsInvoke() && cc.Value == ssa.Value(x) {
								invokes = append(invokes, fieldInvoke{y, cc.Method.Name(), fn})
							} else {
								other = append(other, r2)
							}
						case *ssa.BinOp:
							if !(isNilConst(y.X) || isNilConst(y.Y)) {
								other = append(other, r2)
							}
						case *ssa.DebugRef:
						case *ssa.TypeAssert:
							// `_, ok := x.f.(T)` with only the verdict used: a question about the
							// dynamic type, no alias of the value
							onlyVerdict := y.CommaOk
							for _, r3 := range *y.Referrers() {
								if ex, isEx := r3.(*ssa.Extract); isEx && ex.Index == 1 {
									continue
								}
								if ex, isEx := r3.(*ssa.Extract); isEx && ex.Index == 0 && (ex.Referrers() == nil || len(*ex.Referrers()) == 0) {
									continue
								}
								if _, isD := r3.(*ssa.DebugRef); isD {
									continue
								}
								onlyVerdict = false
							}
							if !onlyVerdict {
								other = append(other, r2)
							}
						default:
							other = append(other, r2)
						}
					}
				case *ssa.DebugRef:
				default:
					other = append(other, r)
				}
			}
		})
	}
	return
}

func posList(w *World, ins []ssa.Instruction) string {
	var s []string
	for _, in := range ins {
		s = append(s, fmt.Sprintf("%s in %s", w.instrPos(in), fname(in.Parent())))
	}
	return strings.Join(s, "; ")
}
