package main

import (
	"fmt"
	"go/token"
	"go/types"
	"strings"

	"golang.org/x/tools/go/ssa"
)

func init() {
	register(&propDef{
		ID:        "C16",
		Title:     "TCP relay: peer connections bind once, to their owner, and pipe bytes intact",
		Technique: "lock-balance path exploration on Manager methods, must-facts on the single-use/owner gate and its ordering, dominance of the id-uniqueness scan under one lock hold, typestate of the bind timer, provenance of the two copy directions",
		Explanation: "C16.1 no Manager or Allocation method returns with Manager.lock held (all paths); " +
			"C16.2 GetTCPConnection returns a connection only on the edge a.userID == userID ∧ isBound.Swap(true) == false, and the Swap (which consumes the single use) is itself dominated by the user test; " +
			"C16.3 the store into tcpConnections is dominated by the completed scan of all allocations for that id, with Manager.lock held continuously from scan to store; " +
			"C16.4 every stored connection gets a bind timer armed with m.tcpConnectionBindTimeout (default constant 30 s) whose closure removes that connection unless isBound; the timer is armed inside the critical section that publishes the connection (typestate E7); " +
			"C16.5 (=C02.2) inbound connections are registered only for permitted peers; " +
			"C16.6 the two copies (io.Copy, or a hand-written relay loop shown to be a faithful copier: reads its source only, writes exactly buf[:n] of the read of the same iteration, and writes them before it looks at the read error) connect the peer connection obtained from GetTCPConnection and the client's data connection in opposite directions, each in its own goroutine, and both connections are closed after the first copy ends; " +
			"C16.7 ErrDupeTCPConnection is answered 446 and ErrTCPConnectionTimeoutOrFailure 447; " +
			"C16.8 isDupeTCPConnection compares the remote address of every registered connection of the allocation (no iteration is skipped; by net.IP.Equal, ipnet.AddrEqual or equality of netip values); " +
			"C16.9 (=C10.4) the client reads the ConnectionBind reply exactly, so that the first peer byte after it is the first byte the user reads; " +
			"C16.10 (=C08.8 over the allocation package) a netip address taken from a net address is unmapped before it is compared, so the duplicate test sees one peer however its IPv4 address is spelled. C16.11 GetTCPConnection neither removes nor closes; C16.12 (=C09.12) deadline sites. C16.13 bind timer stopped only for the owner; no Reset of a bindTimer, no write of false into isBound; C16.14 the peer connection is dialled from Allocation.RelayAddr.",
		NotCovered: "byte-stream integrity of io.Copy; the timing of the 30 s deadline; what the relay generator's AllocateConn does.",
		Run:        runC16,
	})
}

func runC16(c *Ctx) {
	w := c.W
	mgr := w.Named("allocation", "Manager")
	alloc := w.Named("allocation", "Allocation")
	ruleL1(c, "C16.1", 10, func(fn *ssa.Function) bool {
		r := fn.Signature.Recv()
		if fn.Parent() != nil {
			p := fn
			for p.Parent() != nil {
				p = p.Parent()
			}
			r = p.Signature.Recv()
		}
		return r != nil && (isPtrToNamed(r.Type(), mgr) || isPtrToNamed(r.Type(), alloc))
	})

	// ---- C16.2
	ruleSingleUseOwner(c, "C16.2")

	// ---- C16.3 / C16.4
	add := w.Func("allocation", "Manager", "addTCPConnection")
	tc := w.Field("allocation", "Allocation", "tcpConnections")
	allocs := w.Field("allocation", "Manager", "allocations")
	li := w.lockInfo()
	c.Rule("C16.3", "unique ids: the MapUpdate on tcpConnections is dominated by the exit of a range over Manager.allocations whose body looks the same id up in each allocation's tcpConnections and returns on a hit; Manager.lock is write-held at the scan and at the store with no Unlock of it between", 1)
	c.Rule("C16.4", "bind deadline: the stored tcpConnection's bindTimer is assigned time.AfterFunc(m.tcpConnectionBindTimeout, f) after the store and inside the same hold of Manager.lock; f calls allocation.RemoveTCPConnection(m, that id) only on the isBound.Load()==false edge; NewManager replaces a zero timeout by a constant equal to 30 s", 3)
	var store *ssa.MapUpdate
	w.eachInstr(add, func(in ssa.Instruction) {
		if mu, ok := in.(*ssa.MapUpdate); ok {
			if _, f, isL := fieldLoad(mu.Map); isL && f == tc {
				store = mu
			}
		}
	})
	// any other writer of tcpConnections (insert)?
	for _, fn := range w.ModFns {
		w.eachInstr(fn, func(in ssa.Instruction) {
			if mu, ok := in.(*ssa.MapUpdate); ok && fn != add {
				if _, f, isL := fieldLoad(mu.Map); isL && f == tc {
					c.Bad("C16.3", fname(fn), "tcpConnections insert", w.instrPos(in), "a peer connection is registered outside addTCPConnection (no id-uniqueness scan, no bind timer)")
				}
			}
		})
	}
	if store == nil {
		c.Bad("C16.3", fname(add), "tcpConnections insert", w.pos(add.Pos()), "addTCPConnection no longer stores into tcpConnections: anchor gone")
	} else {
		c.Anchor("C16.3", "scan then store")
		loops := w.rangeLoops(add, func(coll ssa.Value) bool { _, f, ok := fieldLoad(coll); return ok && f == allocs })
		okScan := false
		why := "no range over Manager.allocations before the store"
		for _, lp := range loops {
			// body: lookup of the same key in elem.tcpConnections; hit -> return
			// (anywhere in the loop body, provided every iteration passes it)
			var lk *ssa.Lookup
			isScan := func(in ssa.Instruction) bool {
				l, ok := in.(*ssa.Lookup)
				if !ok {
					return false
				}
				b, f, isL := fieldLoad(l.X)
				return isL && f == tc && lp.isElem(b) && w.sameKey(l.Index, store.Key)
			}
			w.eachInstr(add, func(in ssa.Instruction) {
				if isScan(in) {
					lk = in.(*ssa.Lookup)
				}
			})
			if lk != nil {
				if ok, _ := mustPassBefore(lp.body, isScan, func(b *ssa.BasicBlock) bool { return b == lp.header }); !ok {
					lk = nil
				}
			}
			if lk == nil {
				why = "the scan does not look the new id up in each allocation's tcpConnections"
				continue
			}
			// done block dominates the store
			done := lp.header.Succs[1]
			if !(done == store.Block() || done.Dominates(store.Block())) {
				why = "the store is not dominated by the end of the scan"
				continue
			}
			// on a hit the function returns (the body's true edge reaches a return without reaching the store)
			hitEdgeReturns := true
			// the branch on the lookup's ok result (in whichever block of the body it sits)
			var okBlock *ssa.BasicBlock
			var okTrue *ssa.BasicBlock
			for _, b := range add.Blocks {
				iff, isIf := b.Instrs[len(b.Instrs)-1].(*ssa.If)
				if !isIf || len(b.Succs) != 2 {
					continue
				}
				for i, sb := range b.Succs {
					for _, f := range normCond(iff.Cond, i == 0) {
						if f.Op == "true" && f.Truth {
							if e, isE := f.X.(*ssa.Extract); isE && e.Tuple == ssa.Value(lk) && e.Index == 1 {
								okBlock, okTrue = b, sb
							}
						}
					}
				}
			}
			if okBlock != nil {
				// feasibly: a hit may set a flag, leave the loop and return on the flag
				if okTrue == store.Block() || feasibleReach(okBlock, okTrue, nil, store.Block()) {
					hitEdgeReturns = false
				}
			} else {
				hitEdgeReturns = false
			}
			if !hitEdgeReturns {
				why = "a hit in the scan does not prevent the store"
				continue
			}
			// lock continuity
			rangeInstr := lp.header.Instrs[0]
			heldScan := holds(li.mustAt(rangeInstr), "allocation.Manager.lock", true)
			heldStore := holds(li.mustAt(store), "allocation.Manager.lock", true)
			unlocked := false
			w.eachInstr(add, func(in ssa.Instruction) {
				if call, ok := in.(*ssa.Call); ok {
					if lo := w.lockOpOf(&call.Call); lo != nil && lo.class == "allocation.Manager.lock" && (lo.op == "Unlock") && instrReaches(rangeInstr, in) && instrReaches(in, store) {
						unlocked = true
					}
				}
			})
			if heldScan && heldStore && !unlocked {
				okScan = true
			} else {
				why = fmt.Sprintf("Manager.lock is not held continuously from the scan to the store (held at scan=%v, at store=%v, unlock between=%v)", heldScan, heldStore, unlocked)
			}
		}
		// the scan may be a lookup helper: a function that ranges over Manager.allocations,
		// looks its key parameter up in each allocation's tcpConnections, returns the entry on
		// a hit and nil after the complete loop. The store must then be on the edge where the
		// helper (called with the new id, before the store, in the same hold of the lock)
		// returned nil.
		if !okScan {
			w.eachInstr(add, func(in ssa.Instruction) {
				hc, ok := in.(*ssa.Call)
				if !ok || okScan {
					return
				}
				h := hc.Call.StaticCallee()
				if h == nil || !w.IsMod[h] || len(h.Blocks) == 0 || !instrDominates(hc, store) {
					return
				}
				for _, lp := range w.rangeLoops(h, func(coll ssa.Value) bool { _, f, ok := fieldLoad(coll); return ok && f == allocs }) {
					var lk *ssa.Lookup
					for _, in2 := range lp.body.Instrs {
						if l, ok := in2.(*ssa.Lookup); ok {
							if b, f, isL := fieldLoad(l.X); isL && f == tc && lp.isElem(b) {
								if p := rawParamOf(l.Index, h); p != nil && paramIndex(p) < len(hc.Call.Args) && w.sameKey(hc.Call.Args[paramIndex(p)], store.Key) {
									lk = l
								}
							}
						}
					}
					if lk == nil {
						continue
					}
					// which result carries the entry? one whose every non-nil leaf is the looked-up value
					for j := 0; j < h.Signature.Results().Len(); j++ {
						entry := true
						nNil, nHit := 0, 0
						for _, r := range returnsOf(h) {
							for _, lf := range w.guardedLeaves(r.Results[j], r) {
								v := stripIface(w.resolveLoad(lf.val))
								if isNilConst(v) {
									nNil++
									// the nil return is only reached after the loop has run to its end
									if !(lp.header.Succs[1] == r.Block() || lp.header.Succs[1].Dominates(r.Block())) {
										entry = false
									}
									continue
								}
								if ex, isEx := v.(*ssa.Extract); isEx && ex.Tuple == ssa.Value(lk) && ex.Index == 0 {
									nHit++
									continue
								}
								// ... or the allocation in which the id was found, returned on the
								// hit edge (it was dereferenced for the lookup: not nil)
								if lp.isElem(v) {
									hit := false
									for _, f := range lf.facts {
										if f.Op == "true" && f.Truth {
											if e, isE := f.X.(*ssa.Extract); isE && e.Tuple == ssa.Value(lk) && e.Index == 1 {
												hit = true
											}
										}
									}
									if hit {
										nHit++
										continue
									}
								}
								entry = false
							}
						}
						if !entry || nNil == 0 || nHit == 0 {
							continue
						}
						// the store is on the helper-returned-nil edge
						onNil := false
						for _, f := range w.factsAt(store) {
							if v, isNil, ok := nilFact(f); ok && isNil {
								if fc, fi := callOf(w.resolveLoad(v)); fc == hc && (fi == j || (fi < 0 && j == 0)) {
									onNil = true
								}
							}
						}
						if !onNil {
							why = "the store is not confined to the edge where the lookup of the new id found nothing"
							continue
						}
						heldScan := holds(li.mustAt(hc), "allocation.Manager.lock", true)
						heldStore := holds(li.mustAt(store), "allocation.Manager.lock", true)
						unlocked := false
						w.eachInstr(add, func(in3 ssa.Instruction) {
							if call, ok := in3.(*ssa.Call); ok {
								if lo := w.lockOpOf(&call.Call); lo != nil && lo.class == "allocation.Manager.lock" && (lo.op == "Unlock") && instrReaches(hc, in3) && instrReaches(in3, store) {
									unlocked = true
								}
							}
						})
						if heldScan && heldStore && !unlocked {
							okScan = true
						} else {
							why = fmt.Sprintf("Manager.lock is not held continuously from the scan to the store (held at scan=%v, at store=%v, unlock between=%v)", heldScan, heldStore, unlocked)
						}
					}
				}
			})
		}
		if okScan {
			c.OK("C16.3", fname(add), "scan then store", w.instrPos(store), "store dominated by a completed scan of all allocations for the id, under one hold of Manager.lock")
		} else {
			c.Bad("C16.3", fname(add), "scan then store", w.instrPos(store), "connection ids may collide: "+why)
		}

		// ---- C16.4
		c.Anchor("C16.4", "arm bind timer")
		afterFunc := timeAfterFunc(w)
		obj := w.resolveLoad(store.Value)
		okArm := false
		whyArm := "no store of time.AfterFunc(…) into the new connection's bindTimer"
		w.eachInstr(add, func(in ssa.Instruction) {
			st, ok := in.(*ssa.Store)
			if !ok {
				return
			}
			fa, ok := st.Addr.(*ssa.FieldAddr)
			if !ok || nm(fieldOf(fa)) != "bindTimer" {
				return
			}
			ac, _ := callOf(st.Val)
			if ac == nil || ac.Call.StaticCallee() != afterFunc {
				return
			}
			if !w.sameKey(w.resolveLoad(fa.X), obj) && !w.sameKey(fa.X, obj) {
				whyArm = "the armed timer belongs to another object than the stored connection"
				return
			}
			_, df, isL := fieldLoad(ac.Call.Args[0])
			if !isL || nm(df) != "tcpConnectionBindTimeout" {
				whyArm = "the timer is armed with " + w.key(ac.Call.Args[0]) + ", not m.tcpConnectionBindTimeout"
				return
			}
			if !(store.Block() == st.Block() && indexIn(store) < indexIn(st) || store.Block().Dominates(st.Block())) || !holds(li.mustAt(st), "allocation.Manager.lock", true) {
				whyArm = "the timer is not armed after the store within the same hold of Manager.lock"
				return
			}
			// closure
			mc, isMC := ac.Call.Args[1].(*ssa.MakeClosure)
			if !isMC {
				whyArm = "timer callback is not a function literal"
				return
			}
			cl := w.closureBody(mc)
			// the removal: a call (whatever its name) that reaches delete(x.tcpConnections, id)
			// and is handed this connection's id
			tcpTbl := w.Field("allocation", "Allocation", "tcpConnections")
			removes := w.mayContain(func(i3 ssa.Instruction) bool {
				dc, ok := i3.(*ssa.Call)
				if !ok {
					return false
				}
				b, isB := dc.Call.Value.(*ssa.Builtin)
				if !isB || b.Name() != "delete" {
					return false
				}
				_, f, isL := fieldLoad(dc.Call.Args[0])
				return isL && f == tcpTbl
			})
			okCl := false
			w.eachInstrDeep(cl, func(in2 ssa.Instruction) {
				call, ok := in2.(*ssa.Call)
				if !ok || call.Call.StaticCallee() == nil || !w.IsMod[call.Call.StaticCallee()] || !removes(call.Call.StaticCallee()) {
					return
				}
				hasKey := false
				for _, a := range call.Call.Args {
					if w.sameKey(a, store.Key) {
						hasKey = true
					}
				}
				if !hasKey {
					return
				}
				notBound := false
				for _, f := range w.factsAt(in2) {
					if f.Op == "true" && !f.Truth {
						if lc, _ := callOf(f.X); lc != nil && lc.Call.StaticCallee() != nil && lc.Call.StaticCallee().String() == "(*sync/atomic.Bool).Load" {
							notBound = true
						}
					}
					// or: the timer itself claimed the single use (nobody had bound it)
					if f.Op == "true" {
						if lc, _ := callOf(f.X); lc != nil {
							if _, when, isClaim := w.singleUseClaim(lc); isClaim && f.Truth == when {
								notBound = true
							}
						}
					}
				}
				if notBound {
					okCl = true
				}
			})
			// and nothing but the isBound test guards it: the call is reachable whenever !isBound
			if okCl {
				okArm = true
			} else {
				whyArm = "the deadline closure does not remove this connection on the not-bound edge"
			}
		})
		if okArm {
			c.OK("C16.4", fname(add), "arm bind timer", w.instrPos(store), "bindTimer = AfterFunc(m.tcpConnectionBindTimeout, remove-unless-bound) after the store, under Manager.lock")
		} else {
			c.Bad("C16.4", fname(add), "arm bind timer", w.instrPos(store), "an unbound peer connection can outlive the bind deadline: "+whyArm)
		}
		// all nil-error returns after the store pass the arming
		c.Anchor("C16.4", "armed on all success paths")
		badRet := ""
		for _, r := range returnsOf(add) {
			if !isNilConst(w.resolveLoad(r.Results[1])) {
				continue
			}
			if !allPathsTo(add, r.Block(), func(in ssa.Instruction) bool {
				st, ok := in.(*ssa.Store)
				if !ok {
					return false
				}
				fa, ok := st.Addr.(*ssa.FieldAddr)
				return ok && nm(fieldOf(fa)) == "bindTimer"
			}) {
				badRet = "the success return at " + w.instrPos(r) + " can be reached without a bind timer"
			}
		}
		if badRet == "" {
			c.OK("C16.4", fname(add), "armed on all success paths", w.pos(add.Pos()), "every nil-error return passes the bindTimer assignment")
		} else {
			c.Bad("C16.4", fname(add), "armed on all success paths", w.pos(add.Pos()), badRet)
		}
	}
	{
		c.Anchor("C16.4", "default 30 s")
		nm := w.Func("allocation", "", "NewManager")
		ok := false
		w.eachInstr(nm, func(in ssa.Instruction) {
			phi, isPhi := in.(*ssa.Phi)
			if !isPhi {
				return
			}
			for _, e := range phi.Edges {
				if k, isC := constInt(e); isC && k == int64(30e9) {
					ok = true
				}
			}
		})
		if ok {
			c.OK("C16.4", fname(nm), "default 30 s", w.pos(nm.Pos()), "a zero tcpConnectionBindTimeout is replaced by the constant 30 s")
		} else {
			c.Bad("C16.4", fname(nm), "default 30 s", w.pos(nm.Pos()), "the default bind timeout is not the constant 30 s")
		}
	}

	ruleConnHandlerGuardAs(c, "C16.5")

	// ---- C16.6
	c.Rule("C16.6", "data pipe: handleConnectionBindRequest starts two goroutines, one io.Copy(peerConn, clientConn) and one io.Copy(clientConn, peerConn), with peerConn the result of GetTCPConnection and clientConn = stunConn.Conn() of req.Conn; every exit of either goroutine calls the completion context's cancel function; after the wait on the completion context both connections are Close()d", 3)
	{
		h := w.Func("server", "", "handleConnectionBindRequest")
		tcpGet := w.Func("allocation", "Manager", "GetTCPConnection")
		type cp struct{ dst, src string }
		var copies []cp
		inGo := 0
		unfaithful := ""
		// the handler's body: itself and its single-call-site helpers; the pipe's goroutines
		// are function literals of those
		// goroutines started (with `go`) from the handler or its helpers: a function literal or
		// a named function; everything else reachable as a single-call-site helper is body
		goFns := map[*ssa.Function]bool{}
		goSites := map[*ssa.Function][]*ssa.Go{}
		for _, f := range w.helpersOf(h) {
			w.eachInstr(f, func(in ssa.Instruction) {
				g, ok := in.(*ssa.Go)
				if !ok {
					return
				}
				if mc, isMC := g.Call.Value.(*ssa.MakeClosure); isMC {
					goFns[w.closureBody(mc)] = true
				} else if cal := g.Call.StaticCallee(); cal != nil && w.IsMod[cal] {
					goFns[cal] = true
					goSites[cal] = append(goSites[cal], g)
				}
			})
		}
		var bodies []*ssa.Function
		for _, f := range w.helpersOf(h) {
			inGoroutine := false
			for g := f; g != nil; {
				if goFns[g] {
					inGoroutine = true
					break
				}
				if g.Parent() != nil {
					g = g.Parent()
					continue
				}
				site := w.singleSiteCI(g)
				if site == nil {
					break
				}
				g = site.Parent()
			}
			if !inGoroutine {
				bodies = append(bodies, f)
			}
		}
		for _, gf := range sortedFns(goFns) {
			// one goroutine function started several times (go copy(dst, src) twice): each
			// start is its own copy, with the parameters standing for that start's arguments
			sites := goSites[gf]
			if len(sites) <= 1 {
				sites = []*ssa.Go{nil}
			}
			for _, site := range sites {
				arg := func(v ssa.Value) ssa.Value {
					if site == nil {
						return v
					}
					if p := rawParamOf(v, gf); p != nil {
						if i := paramIndex(p); i >= 0 && i < len(site.Call.Args) {
							return site.Call.Args[i]
						}
					}
					return v
				}
				w.eachInstrDeep(gf, func(in ssa.Instruction) {
					if call, ok := in.(*ssa.Call); ok {
						if dst, src, isCopy, why := w.copyCallOf(call); isCopy {
							copies = append(copies, cp{connRole(w, arg(dst), tcpGet), connRole(w, arg(src), tcpGet)})
							inGo++
							if why != "" {
								unfaithful = fname(call.Call.StaticCallee()) + " " + why
							}
						}
					}
				})
			}
		}
		c.Anchor("C16.6", "two directions")
		if unfaithful != "" {
			c.Bad("C16.6", fname(h), "faithful copy", w.pos(h.Pos()), "the relay loop that stands in for io.Copy does not carry the stream over intact: "+unfaithful)
		}
		if len(copies) == 2 && inGo == 2 && copies[0].dst == copies[1].src && copies[0].src == copies[1].dst && copies[0].dst != copies[0].src &&
			((copies[0].dst == "peer" && copies[0].src == "client") || (copies[0].dst == "client" && copies[0].src == "peer")) {
			c.OK("C16.6", fname(h), "two directions", w.pos(h.Pos()), "io.Copy(peer, client) and io.Copy(client, peer), each in its own goroutine")
		} else {
			c.Bad("C16.6", fname(h), "two directions", w.pos(h.Pos()), fmt.Sprintf("the data connection is not piped both ways between the bound peer connection and the client connection: copies=%v in goroutines=%d", copies, inGo))
		}
		// every way a copy goroutine ends signals completion: the handler waits for it before
		// it closes the other side (io.Copy returns nil on an orderly EOF, so a signal on the
		// error edge only leaves the relay half-open for ever)
		c.Anchor("C16.6", "completion signalled")
		{
			// the completion signal: the cancel function of a context, close(ch) of a
			// channel, or a func() made by sync.OnceFunc around one of those
			// ... or a send on the very channel the handler waits on (that such a send cannot
			// block for ever is C15.10's obligation, not this one's)
			chanOf := func(v ssa.Value) ssa.Value {
				v = w.resolveLoad(v)
				if x, isFV := v.(*ssa.FreeVar); isFV {
					if b := w.binding(x); b != nil {
						v = w.resolveLoad(b)
					}
				}
				return v
			}
			waited := map[ssa.Value]bool{}
			for _, body := range bodies {
				w.eachInstr(body, func(in ssa.Instruction) {
					if u, ok := in.(*ssa.UnOp); ok && u.Op == token.ARROW {
						waited[chanOf(u.X)] = true
					}
				})
			}
			var isCancel func(in ssa.Instruction) bool
			isCancel = func(in ssa.Instruction) bool {
				if snd, isSend := in.(*ssa.Send); isSend {
					return waited[chanOf(snd.Chan)]
				}
				ci, ok := in.(ssa.CallInstruction)
				if !ok || ci.Common().IsInvoke() {
					return false
				}
				if _, isGo := in.(*ssa.Go); isGo {
					return false
				}
				if b, isB := ci.Common().Value.(*ssa.Builtin); isB {
					return b.Name() == "close"
				}
				if ci.Common().StaticCallee() != nil {
					return false
				}
				if ci.Common().Value.Type().String() == "context.CancelFunc" {
					return true
				}
				fv := w.resolveLoad(ci.Common().Value)
				if x, isFV := fv.(*ssa.FreeVar); isFV {
					if b := w.binding(x); b != nil {
						fv = w.resolveLoad(b)
					}
				}
				if oc, _ := fv.(*ssa.Call); oc != nil && stdCallee(&oc.Call) == "sync.OnceFunc" && len(oc.Call.Args) == 1 {
					var body *ssa.Function
					switch a := oc.Call.Args[0].(type) {
					case *ssa.MakeClosure:
						body = w.closureBody(a)
					case *ssa.Function:
						body = a
					}
					if body != nil && len(body.Blocks) > 0 {
						ok, _ := mustPassBefore(body.Blocks[0], w.deepHit(isCancel), func(*ssa.BasicBlock) bool { return false })
						return ok
					}
				}
				return false
			}
			deep := w.deepHit(isCancel)
			bad := ""
			nGo := 0
			for _, gf := range sortedFns(goFns) {
				hasCopy := false
				w.eachInstrDeep(gf, func(in ssa.Instruction) {
					if call, ok := in.(*ssa.Call); ok {
						if _, _, isCopy, _ := w.copyCallOf(call); isCopy {
							hasCopy = true
						}
					}
				})
				if !hasCopy || len(gf.Blocks) == 0 {
					continue
				}
				nGo++
				// deferred cancel counts: it runs on every exit
				deferred := false
				w.eachInstr(gf, func(in ssa.Instruction) {
					if d, ok := in.(*ssa.Defer); ok && isCancel(d) && d.Block() == gf.Blocks[0] {
						deferred = true
					}
				})
				if deferred {
					continue
				}
				if ok, trail := mustPassBefore(gf.Blocks[0], deep, func(*ssa.BasicBlock) bool { return false }); !ok {
					bad = "the copy goroutine " + fname(gf) + " can end without calling the completion context's cancel function (" + strings.Join(trail, "; ") + "): an orderly close of one side is not carried over to the other, the handler never returns"
				}
			}
			if bad == "" && nGo > 0 {
				c.OK("C16.6", fname(h), "completion signalled", w.pos(h.Pos()), fmt.Sprintf("%d copy goroutine function(s): every exit passes the cancel call", nGo))
			} else {
				if bad == "" {
					bad = "no copy goroutine found"
				}
				c.Bad("C16.6", fname(h), "completion signalled", w.pos(h.Pos()), bad)
			}
		}
		c.Anchor("C16.6", "close both")
		closed := map[string]bool{}
		for _, body := range bodies {
			var wait ssa.Instruction
			w.eachInstr(body, func(in ssa.Instruction) {
				if u, ok := in.(*ssa.UnOp); ok && u.Op.String() == "<-" {
					wait = in
				}
			})
			w.eachInstr(body, func(in ssa.Instruction) {
				call, ok := in.(*ssa.Call)
				if !ok || !call.Call.IsInvoke() || call.Call.Method.Name() != "Close" {
					return
				}
				if wait != nil && instrReaches(wait, in) {
					closed[connRole(w, call.Call.Value, tcpGet)] = true
				}
			})
		}
		if closed["peer"] && closed["client"] {
			c.OK("C16.6", fname(h), "close both", w.pos(h.Pos()), "peer and client connections are closed after the first copy completes")
		} else {
			c.Bad("C16.6", fname(h), "close both", w.pos(h.Pos()), fmt.Sprintf("after the pipe ends not both connections are closed (closed: %v)", closed))
		}
	}

	// ---- C16.7
	c.Rule("C16.7", "error mapping in handleConnectRequest: under errors.Is(err, ErrDupeTCPConnection) the response carries the constant 446, under errors.Is(err, ErrTCPConnectionTimeoutOrFailure) the constant 447", 2)
	{
		h := w.Func("server", "", "handleConnectRequest")
		buildMsg := w.Func("server", "", "buildMsg")
		want := map[string]int64{"ErrDupeTCPConnection": stunConst(w, "CodeConnAlreadyExists"), "ErrTCPConnectionTimeoutOrFailure": stunConst(w, "CodeConnTimeoutOrFailure")}
		seen := map[string]bool{}
		w.eachInstrDeep(h, func(in ssa.Instruction) {
			call, ok := in.(*ssa.Call)
			if !ok {
				return
			}
			// the response is built here, or by a response helper called here
			// (r.reject(err, code)): the error codes the call can put into a message
			codes, builds := w.errorCodesAt(call, buildMsg, 0)
			if !builds {
				return
			}
			for _, f := range w.factsAt(in) {
				if f.Op != "true" || !f.Truth {
					continue
				}
				ic, _ := callOf(f.X)
				if ic == nil || ic.Call.StaticCallee() == nil || ic.Call.StaticCallee().String() != "errors.Is" {
					continue
				}
				g := globalLoad(ic.Call.Args[1])
				if g == nil {
					continue
				}
				code, isWanted := want[g.Name()]
				if !isWanted {
					continue
				}
				// innermost errors.Is fact decides: skip when another wanted errors.Is is also true-known (nested); not the case here
				seen[g.Name()] = true
				c.Anchor("C16.7", g.Name())
				hasCode := false
				for _, k := range codes {
					if k == code {
						hasCode = true
					}
				}
				if hasCode && len(codes) == 1 {
					c.OK("C16.7", fname(h), g.Name(), w.instrPos(in), fmt.Sprintf("answered %d", code))
				} else {
					c.Bad("C16.7", fname(h), g.Name(), w.instrPos(in), fmt.Sprintf("%s is not answered with error code %d", g.Name(), code))
				}
			}
		})
		for name := range want {
			if !seen[name] {
				c.Bad("C16.7", fname(h), name, w.pos(h.Pos()), name+" is no longer mapped to its own error response")
			}
		}
	}

	// ---- C16.8
	c.Rule("C16.8", "duplicate detection covers every registered connection: in isDupeTCPConnection every iteration over allocation.tcpConnections reaches the comparison of that connection's remote IP and port with the candidate (or returns true); nothing else can skip an element", 1)
	{
		// the duplicate test is located by what it does, not by its name: a loop over an
		// allocation's tcpConnections (the field, or a parameter that only ever receives the
		// field) whose body compares remote IPs
		c.Anchor("C16.8", "isDupeTCPConnection")
		// (net.IP).Equal, ipnet.AddrEqual, or == / != of two netip.Addr / netip.AddrPort values
		// (that those are unmapped first is C16.10)
		isIPEqual := func(in ssa.Instruction) bool {
			if bo, isB := in.(*ssa.BinOp); isB && (bo.Op == token.EQL || bo.Op == token.NEQ) {
				switch bo.X.Type().String() {
				case "net/netip.AddrPort", "net/netip.Addr":
					return true
				}
				return false
			}
			call, isC := in.(*ssa.Call)
			if !isC || call.Call.StaticCallee() == nil {
				return false
			}
			switch call.Call.StaticCallee().String() {
			case "(net.IP).Equal":
				return true
			}
			return call.Call.StaticCallee() == w.Func("ipnet", "", "AddrEqual")
		}
		nLoops := 0
		allocPath := w.tpkg("allocation").Path()
		for _, fn := range w.ModFns {
			if fnPkgPath(fn) != allocPath {
				continue
			}
			isTC := func(coll ssa.Value) bool {
				coll = w.resolveLoad(coll)
				if _, f, ok := fieldLoad(coll); ok && f == tc {
					return true
				}
				if p, ok := coll.(*ssa.Parameter); ok {
					sites := w.callsTo(p.Parent())
					if len(sites) == 0 {
						return false
					}
					for _, cs := range sites {
						i := paramIndex(p)
						if i < 0 || i >= len(cs.Common().Args) {
							return false
						}
						if _, f, ok := fieldLoad(w.resolveLoad(cs.Common().Args[i])); !ok || f != tc {
							return false
						}
					}
					return true
				}
				return false
			}
			for _, lp := range w.rangeLoops(fn, isTC) {
				// is it the duplicate test? its body reaches an IP comparison
				has := false
				seen := map[*ssa.BasicBlock]bool{}
				var walk func(b *ssa.BasicBlock)
				walk = func(b *ssa.BasicBlock) {
					if seen[b] || b == lp.header {
						return
					}
					seen[b] = true
					for _, in := range b.Instrs {
						if isIPEqual(in) {
							has = true
						}
					}
					for _, s := range liveSuccs(b) {
						walk(s)
					}
				}
				walk(lp.body)
				if !has {
					continue
				}
				nLoops++
				ok, trail := mustPassBefore(lp.body, isIPEqual, func(b *ssa.BasicBlock) bool { return b == lp.header })
				if !ok {
					// paths that end in a return (the "cannot tell: treat as duplicate" branch) are fine
					ok, trail = mustPassBeforeX(lp.body, isIPEqual, func(b *ssa.BasicBlock) bool { return b == lp.header }, true)
				}
				if ok {
					c.OK("C16.8", fname(fn), "loop", w.pos(fn.Pos()), "every iteration compares the element's remote address (or returns)")
				} else {
					c.Bad("C16.8", fname(fn), "loop", w.pos(fn.Pos()), "some registered connections are skipped by the duplicate test (e.g. bound ones): a second Connect to the same peer would not be answered 446", trail...)
				}
			}
		}
		if nLoops == 0 {
			c.Bad("C16.8", "allocation", "loop", "-", "no loop over tcpConnections comparing remote addresses is left: the duplicate test is gone")
		}
	}

	// ---- C16.10 (=C08.8 over the allocation package): the duplicate test sees one peer however
	// its IPv4 address is spelled
	ruleNetipUnmapped(c, "C16.10", "allocation")
	ruleBindRefusalEffectFree(c, "C16.11")
	rulePendingConnOwnerOnly(c, "C16.13")
	ruleDialFromRelayAddr(c, "C16.14")
	ruleDeadlineSites(c, "C16.12")

	// ---- C16.9 (=C10.4, client half): the stream handed to the user starts right after the
	// ConnectionBind reply — peer bytes that follow it in the same segment are not swallowed
	c.Rule("C16.9", "client side of the pipe: BindConnection takes the ConnectionBind reply off the data connection by io.ReadFull of exactly the header and then exactly the declared body, and hands the connection to no other reader (=C10.4)", 2)
	ruleBindReplyExact(c, "C16.9")
}

// connRole classifies a connection value in handleConnectionBindRequest: "peer" (result of
// GetTCPConnection), "client" (Conn() of the STUNConn asserted from req.Conn), or its key.
func connRole(w *World, v ssa.Value, tcpGet *ssa.Function) string {
	v = w.allocRoot(v)
	if call, _ := callOf(v); call != nil {
		if call.Call.StaticCallee() == tcpGet {
			return "peer"
		}
		if cal := call.Call.StaticCallee(); cal != nil && cal.Name() == "Conn" && len(call.Call.Args) == 1 {
			r := w.allocRoot(call.Call.Args[0])
			if ex, ok := r.(*ssa.Extract); ok {
				if ta, ok := ex.Tuple.(*ssa.TypeAssert); ok {
					if _, f, isL := fieldLoad(ta.X); isL && f.Name() == "Conn" {
						return "client"
					}
				}
			}
		}
	}
	return w.key(v)
}

func ruleConnHandlerGuardAs(c *Ctx, rule string) { ruleConnHandlerGuard(c, rule) }

var _ = types.Identical

func ruleSingleUseOwner(c *Ctx, rule string) {
	w := c.W
	// ---- C16.2
	c.Rule(rule, "single use, owner only: every non-nil return of GetTCPConnection is on the edge a.userID == userID ∧ tcpConnection.isBound.Swap(true) == false for the looked-up connection; the Swap call is dominated by a.userID == userID", 2)
	{
		fn := w.Func("allocation", "Manager", "GetTCPConnection")
		uid := w.Field("allocation", "Allocation", "userID")
		isUserEq := func(f Fact) bool {
			if f.Op != "==" || !f.Truth {
				return false
			}
			for _, pair := range [][2]ssa.Value{{f.X, f.Y}, {f.Y, f.X}} {
				if _, fl, ok := fieldLoad(pair[0]); ok && fl == uid && w.sameKey(pair[1], fn.Params[1]) {
					return true
				}
			}
			return false
		}
		c.Anchor(rule, "return gate")
		bad := ""
		n := 0
		for _, r := range returnsOf(fn) {
			// each way the result can come about (a result variable filled on one branch and
			// returned at the end is judged where it is filled)
			for _, lf := range w.guardedLeaves(r.Results[0], r) {
				v := stripIface(w.resolveLoad(lf.val))
				if isNilConst(v) {
					continue
				}
				n++
				okUser, okSwap := false, false
				for _, f := range lf.facts {
					if isUserEq(f) {
						okUser = true
					}
					if f.Op == "true" {
						if call, _ := callOf(f.X); call != nil {
							if b, wantTruth, ok := w.singleUseClaim(call); ok && f.Truth == wantTruth && w.sameKey(b, v) {
								okSwap = true
							}
						}
					}
				}
				if !okUser {
					bad = "a connection is returned at " + w.instrPos(r) + " without the test a.userID == userID"
				} else if !okSwap {
					bad = "a connection is returned at " + w.instrPos(r) + " without isBound.Swap(true) having returned false for that connection: it could be bound twice"
				}
			}
		}
		if bad == "" && n > 0 {
			c.OK(rule, fname(fn), "return gate", w.pos(fn.Pos()), "non-nil only under userID match ∧ Swap(true)==false")
		} else {
			if bad == "" {
				bad = "never returns a connection"
			}
			c.Bad(rule, fname(fn), "return gate", w.pos(fn.Pos()), bad)
		}
		c.Anchor(rule, "swap order")
		nSwap := 0
		w.eachInstrDeep(fn, func(in ssa.Instruction) {
			call, ok := in.(*ssa.Call)
			if !ok {
				return
			}
			if _, _, isClaim := w.singleUseClaim(call); !isClaim || in.Parent() != fn && !w.partOf(in.Parent(), fn) {
				return
			}
			nSwap++
			okUser := false
			for _, f := range w.factsAt(in) {
				if isUserEq(f) {
					okUser = true
				}
			}
			if okUser {
				c.OK(rule, fname(fn), "swap order", w.instrPos(in), "the single use is consumed only after the user matched")
			} else {
				c.Bad(rule, fname(fn), "swap order", w.instrPos(in), "the single-use claim (isBound.Swap(true) / CompareAndSwap(false, true)) runs before / without the user test: a ConnectionBind by another user is refused but burns the connection's single use (the owner can no longer bind it and the bind timer no longer reaps it)")
			}
		})
		if nSwap == 0 {
			c.Bad(rule, fname(fn), "swap order", w.pos(fn.Pos()), "no isBound.Swap: single use is not enforced")
		}
	}

}

// singleUseClaim: call consumes the single use of a peer connection — isBound.Swap(true)
// (claimed iff it returned false) or isBound.CompareAndSwap(false, true) (claimed iff true),
// directly or through a one-line helper of tcpConnection returning the latter. Returns the
// connection object, and the truth value of the call's result that means "claimed".
func (w *World) singleUseClaim(call *ssa.Call) (obj ssa.Value, claimedWhen bool, ok bool) {
	isConst := func(v ssa.Value, want string) bool {
		k, isC := v.(*ssa.Const)
		return isC && k.Value != nil && k.Value.String() == want
	}
	h := call.Call.StaticCallee()
	if h == nil {
		return nil, false, false
	}
	switch h.String() {
	case "(*sync/atomic.Bool).Swap":
		if b, fl, isF := fieldLoadAddr(call.Call.Args[0]); isF && nm(fl) == "isBound" && isConst(call.Call.Args[1], "true") {
			return b, false, true
		}
	case "(*sync/atomic.Bool).CompareAndSwap":
		if b, fl, isF := fieldLoadAddr(call.Call.Args[0]); isF && nm(fl) == "isBound" && isConst(call.Call.Args[1], "false") && isConst(call.Call.Args[2], "true") {
			return b, true, true
		}
	}
	if w.IsMod[h] && len(h.Params) == 1 && len(call.Call.Args) == 1 {
		rets := returnsOf(h)
		if len(rets) == 1 && len(rets[0].Results) == 1 {
			if inner, isC := rets[0].Results[0].(*ssa.Call); isC {
				if b, when, ok2 := w.singleUseClaim(inner); ok2 && stripIface(w.resolveLoad(b)) == ssa.Value(h.Params[0]) {
					return call.Call.Args[0], when, true
				}
			}
		}
	}
	return nil, false, false
}
