package main

// Loading: go/packages -> go/types -> go/ssa -> VTA call graph. Everything a rule sees
// comes from here; nothing in pion/turn is ever executed.

import (
	"fmt"
	"go/ast"
	"go/constant"
	"go/token"
	"go/types"
	"os"
	"sort"
	"strconv"
	"strings"

	"golang.org/x/tools/go/callgraph"
	"golang.org/x/tools/go/callgraph/cha"
	"golang.org/x/tools/go/callgraph/vta"
	"golang.org/x/tools/go/packages"
	"golang.org/x/tools/go/ssa"
	"golang.org/x/tools/go/ssa/ssautil"
)

const modPath = "github.com/pion/turn/v5"

// Short package names used in anchor tables.
var pkgAlias = map[string]string{
	"turn":       modPath,
	"allocation": modPath + "/internal/allocation",
	"server":     modPath + "/internal/server",
	"client":     modPath + "/internal/client",
	"proto":      modPath + "/internal/proto",
	"ipnet":      modPath + "/internal/ipnet",
	"auth":       modPath + "/internal/auth",
	"stun":       "github.com/pion/stun/v3",
}

type World struct {
	Dir          string
	GOOS         string
	GOARCH       string
	Fset         *token.FileSet
	Roots        []*packages.Package
	AllPkgs      map[string]*packages.Package
	Prog         *ssa.Program
	ModFns       []*ssa.Function // all functions (incl. anonymous) of the module, sorted by name
	IsMod        map[*ssa.Function]bool
	CG           *callgraph.Graph
	Closures     map[*ssa.Function][]*ssa.MakeClosure
	stores       map[string][]*ssa.Store
	keyMemo      map[ssa.Value]string
	escMemo      map[ssa.Value]bool
	stableMemo   map[string]bool
	copierMemo   map[*ssa.Function]string
	persistMemo  map[*types.Var]string
	roundUpMemo  map[*ssa.Function]int64
	copyKeyBusy  bool
	reqBuildMemo *reqBuild
	factMemo     map[*ssa.Function]*funcFacts
	dead         map[edgeKey]bool
	keyDepth     int
	intConsts    map[string]*ssa.Const
	fwdBusy      bool
	liveMemo     map[*ssa.Function]map[*ssa.BasicBlock]bool
	li           *lockInfo
	eff          *effectInfo
	fl           *flowInfo
	ai           *absint
	synthPos     map[ssa.Instruction]string
	synth        *synthState
	ren          *renames
	storeSets    map[*ssa.Function]map[*types.Var]bool
	NPkgs        int
	NFuncs       int
}

var theWorld *World

type analysisFailure struct{ msg string }

func failf(format string, args ...any) {
	panic(analysisFailure{fmt.Sprintf(format, args...)})
}

func Load(dir, goos, goarch string) *World {
	env := append(os.Environ(), "GOFLAGS=-mod=mod", "GOPROXY=off", "GOWORK=off")
	if goos != "" {
		env = append(env, "GOOS="+goos, "GOARCH="+goarch, "CGO_ENABLED=0")
	}
	cfg := &packages.Config{Mode: packages.LoadAllSyntax, Dir: dir, Env: env, Tests: false}
	pkgs, err := packages.Load(cfg, ".", "./internal/...")
	if err != nil {
		failf("packages.Load: %v", err)
	}
	if len(pkgs) == 0 {
		failf("no packages loaded from %s", dir)
	}
	w := &World{Dir: dir, GOOS: goos, GOARCH: goarch, Roots: pkgs, AllPkgs: map[string]*packages.Package{},
		IsMod: map[*ssa.Function]bool{}, Closures: map[*ssa.Function][]*ssa.MakeClosure{},
		stores: map[string][]*ssa.Store{}, keyMemo: map[ssa.Value]string{}, escMemo: map[ssa.Value]bool{}, stableMemo: map[string]bool{},
		factMemo: map[*ssa.Function]*funcFacts{}}
	var errs []string
	packages.Visit(pkgs, nil, func(p *packages.Package) {
		w.AllPkgs[p.PkgPath] = p
		w.NPkgs++
		if strings.HasPrefix(p.PkgPath, modPath) || strings.HasPrefix(p.PkgPath, "github.com/pion/") {
			for _, e := range p.Errors {
				errs = append(errs, p.PkgPath+": "+e.Error())
			}
		}
	})
	if len(errs) > 0 {
		failf("type errors:\n%s", strings.Join(errs, "\n"))
	}
	nroot := 0
	for _, p := range pkgs {
		if strings.HasPrefix(p.PkgPath, modPath) {
			nroot++
		}
	}
	if nroot < 7 {
		failf("only %d module packages loaded (expected >= 7)", nroot)
	}
	w.Fset = pkgs[0].Fset
	prog, _ := ssautil.AllPackages(pkgs, ssa.InstantiateGenerics)
	prog.Build()
	w.Prog = prog
	all := ssautil.AllFunctions(prog)
	w.NFuncs = len(all)
	for fn := range all {
		if fn.Blocks == nil {
			continue
		}
		if p := fnPkgPath(fn); strings.HasPrefix(p, modPath) {
			w.IsMod[fn] = true
			w.ModFns = append(w.ModFns, fn)
		}
	}
	sort.Slice(w.ModFns, func(i, j int) bool {
		a, b := w.ModFns[i], w.ModFns[j]
		if a.String() != b.String() {
			return a.String() < b.String()
		}
		return a.Pos() < b.Pos()
	})
	w.CG = vta.CallGraph(all, cha.CallGraph(prog))
	for _, fn := range w.ModFns {
		for _, b := range fn.Blocks {
			for _, in := range b.Instrs {
				if mc, ok := in.(*ssa.MakeClosure); ok {
					f := mc.Fn.(*ssa.Function)
					w.Closures[f] = append(w.Closures[f], mc)
				}
			}
		}
	}
	theWorld = w
	// The store index is keyed by location keys, and keys of loads may themselves depend on
	// the index (single-store locals, write-once fields). Build it, forget every memo that
	// was computed against the incomplete index, and build it again against the full one.
	for pass := 0; pass < 2; pass++ {
		stores := map[string][]*ssa.Store{}
		for _, fn := range w.ModFns {
			for _, b := range fn.Blocks {
				for _, in := range b.Instrs {
					if st, ok := in.(*ssa.Store); ok {
						k := w.locKey(st.Addr)
						stores[k] = append(stores[k], st)
					}
				}
			}
		}
		w.stores = stores
		w.keyMemo = map[ssa.Value]string{}
		w.escMemo = map[ssa.Value]bool{}
		w.stableMemo = map[string]bool{}
		if w.synth != nil {
			w.synth.wo = nil
			w.synth.factsAt = map[*ssa.BasicBlock][]Fact{}
			w.synth.hf = map[hfKey][]Fact{}
		}
		w.factMemo = map[*ssa.Function]*funcFacts{}
	}
	w.inferRenames()
	w.computeDeadEdges()
	if w.ren != nil && len(w.ren.notes) > 0 && os.Getenv("TURNCHECK_QUIET") == "" {
		fmt.Fprintf(os.Stderr, "note: %d renamed member(s) recognised: %s\n", len(w.ren.notes), strings.Join(w.ren.notes, "; "))
	}
	return w
}

func fnPkgPath(fn *ssa.Function) string {
	for f := fn; f != nil; f = f.Parent() {
		if f.Pkg != nil {
			return f.Pkg.Pkg.Path()
		}
		if o := f.Origin(); o != nil && o.Pkg != nil {
			return o.Pkg.Pkg.Path()
		}
	}
	if fn.Object() != nil && fn.Object().Pkg() != nil {
		return fn.Object().Pkg().Path()
	}
	return ""
}

func (w *World) pos(p token.Pos) string {
	if !p.IsValid() {
		return "-"
	}
	ps := w.Fset.Position(p)
	f := ps.Filename
	if strings.HasPrefix(f, w.Dir+"/") {
		f = f[len(w.Dir)+1:]
	}
	return fmt.Sprintf("%s:%d", f, ps.Line)
}

func (w *World) instrPos(in ssa.Instruction) string {
	if s, ok := w.synthPos[in]; ok {
		return s
	}
	if in.Pos().IsValid() {
		return w.pos(in.Pos())
	}
	// fall back on the nearest instruction with a position in the same block
	b := in.Block()
	if b != nil {
		for _, x := range b.Instrs {
			if x.Pos().IsValid() {
				return w.pos(x.Pos()) + "~"
			}
		}
	}
	if in.Parent() != nil {
		return w.pos(in.Parent().Pos()) + "~"
	}
	return "-"
}

func short(s string) string {
	s = strings.ReplaceAll(s, modPath+"/internal/", "")
	s = strings.ReplaceAll(s, modPath, "turn")
	s = strings.ReplaceAll(s, "github.com/pion/stun/v3", "stun")
	return s
}

func fname(fn *ssa.Function) string { return short(fn.String()) }

// ---------------------------------------------------------------------------------
// Anchors: every lookup fails closed (exit 2) when the member does not exist.

func (w *World) tpkg(alias string) *types.Package {
	path, ok := pkgAlias[alias]
	if !ok {
		path = alias
	}
	p := w.AllPkgs[path]
	if p == nil || p.Types == nil {
		failf("anchor unresolved: package %s", path)
	}
	return p.Types
}

func (w *World) spkg(alias string) *ssa.Package {
	sp := w.Prog.Package(w.tpkg(alias))
	if sp == nil {
		failf("anchor unresolved: ssa package %s", alias)
	}
	return sp
}

// Func resolves a package-level function ("server", "", "buildMsg") or a method
// ("allocation", "Allocation", "WriteTo"); pointer receiver methods are found too.
func (w *World) Func(pkg, recv, name string) *ssa.Function {
	fn := w.FuncOpt(pkg, recv, name)
	if fn == nil {
		failf("anchor unresolved: %s.%s.%s", pkg, recv, name)
	}
	return fn
}

func (w *World) FuncOpt(pkg, recv, name string) *ssa.Function {
	if f := w.funcOpt1(pkg, recv, name); f != nil {
		return f
	}
	// renamed (unexported) member or receiver type?
	if w.ren != nil {
		if o, ok := w.ren.byRef["func|"+w.tpkg(pkg).Path()+"|"+recv+"|"+name].(*types.Func); ok {
			return w.Prog.FuncValue(o)
		}
		if recv != "" {
			if tn, ok := w.ren.byRef["type|"+w.tpkg(pkg).Path()+"|"+recv].(*types.TypeName); ok {
				return w.funcOpt1(pkg, tn.Name(), name)
			}
		}
	}
	return nil
}

func (w *World) funcOpt1(pkg, recv, name string) *ssa.Function {
	tp := w.tpkg(pkg)
	if recv == "" {
		obj, _ := tp.Scope().Lookup(name).(*types.Func)
		if obj == nil {
			return nil
		}
		return w.Prog.FuncValue(obj)
	}
	tn, _ := tp.Scope().Lookup(recv).(*types.TypeName)
	if tn == nil {
		return nil
	}
	for _, t := range []types.Type{tn.Type(), types.NewPointer(tn.Type())} {
		ms := w.Prog.MethodSets.MethodSet(t)
		for i := 0; i < ms.Len(); i++ {
			if ms.At(i).Obj().Name() == name && ms.At(i).Obj().Pkg() == tp {
				if f := w.Prog.MethodValue(ms.At(i)); f != nil && f.Synthetic == "" {
					return f
				}
				// wrapper: use the declared function
				if fo, ok := ms.At(i).Obj().(*types.Func); ok {
					if f := w.Prog.FuncValue(fo); f != nil {
						return f
					}
				}
			}
		}
	}
	return nil
}

func (w *World) Named(pkg, name string) *types.Named {
	tn, _ := w.tpkg(pkg).Scope().Lookup(name).(*types.TypeName)
	if tn == nil && w.ren != nil {
		tn, _ = w.ren.byRef["type|"+w.tpkg(pkg).Path()+"|"+name].(*types.TypeName)
	}
	if tn == nil {
		failf("anchor unresolved: type %s.%s", pkg, name)
	}
	n, _ := tn.Type().(*types.Named)
	if n == nil {
		failf("anchor unresolved: %s.%s is not a named type", pkg, name)
	}
	return n
}

func (w *World) Field(pkg, typ, field string) *types.Var {
	n := w.Named(pkg, typ)
	st, _ := n.Underlying().(*types.Struct)
	if st == nil {
		failf("anchor unresolved: %s.%s is not a struct", pkg, typ)
	}
	for i := 0; i < st.NumFields(); i++ {
		if st.Field(i).Name() == field {
			return st.Field(i)
		}
	}
	for i := 0; i < st.NumFields(); i++ {
		if nm(st.Field(i)) == field {
			return st.Field(i) // renamed
		}
	}
	failf("anchor unresolved: field %s.%s.%s", pkg, typ, field)
	return nil
}

// FieldOpt: Field, but nil when the struct has no such field (any more).
func (w *World) FieldOpt(pkg, typ, field string) *types.Var {
	n := w.Named(pkg, typ)
	st, _ := n.Underlying().(*types.Struct)
	if st == nil {
		return nil
	}
	for i := 0; i < st.NumFields(); i++ {
		if st.Field(i).Name() == field || nm(st.Field(i)) == field {
			return st.Field(i)
		}
	}
	return nil
}

func (w *World) Const(pkg, name string) constant.Value {
	c, _ := w.tpkg(pkg).Scope().Lookup(name).(*types.Const)
	if c == nil && w.ren != nil {
		c, _ = w.ren.byRef["const|"+w.tpkg(pkg).Path()+"|"+name].(*types.Const)
	}
	if c == nil {
		failf("anchor unresolved: const %s.%s", pkg, name)
	}
	return c.Val()
}

func (w *World) ConstInt(pkg, name string) int64 {
	v, ok := constant.Int64Val(constant.ToInt(w.Const(pkg, name)))
	if !ok {
		failf("anchor: const %s.%s is not an integer", pkg, name)
	}
	return v
}

func (w *World) Global(pkg, name string) *ssa.Global {
	g, _ := w.spkg(pkg).Members[name].(*ssa.Global)
	if g == nil && w.ren != nil {
		if o, ok := w.ren.byRef["var|"+w.tpkg(pkg).Path()+"|"+name]; ok {
			g, _ = w.spkg(pkg).Members[o.Name()].(*ssa.Global)
		}
	}
	if g == nil {
		failf("anchor unresolved: var %s.%s", pkg, name)
	}
	return g
}

// ---------------------------------------------------------------------------------
// helpers over SSA

func (w *World) eachInstr(fn *ssa.Function, f func(ssa.Instruction)) {
	for _, b := range fn.Blocks {
		for _, in := range b.Instrs {
			f(in)
		}
	}
}

// anonymous functions transitively declared inside fn (fn itself included)
func withAnon(fn *ssa.Function) []*ssa.Function {
	out := []*ssa.Function{fn}
	for _, a := range fn.AnonFuncs {
		out = append(out, withAnon(a)...)
	}
	return out
}

// callsTo returns every call instruction (call, go, defer) in the module whose static
// callee is target.
func (w *World) callsTo(target *ssa.Function) []ssa.CallInstruction {
	var out []ssa.CallInstruction
	for _, fn := range w.ModFns {
		w.eachInstr(fn, func(in ssa.Instruction) {
			if c, ok := in.(ssa.CallInstruction); ok {
				if c.Common().StaticCallee() == target {
					out = append(out, c)
				}
			}
		})
	}
	return out
}

func staticCallee(in ssa.Instruction) *ssa.Function {
	if c, ok := in.(ssa.CallInstruction); ok {
		return c.Common().StaticCallee()
	}
	return nil
}

// fieldOf returns the struct field selected by a FieldAddr or Field instruction.
func fieldOf(v ssa.Value) *types.Var {
	switch x := v.(type) {
	case *ssa.FieldAddr:
		return derefStruct(x.X.Type()).Field(x.Field)
	case *ssa.Field:
		return x.X.Type().Underlying().(*types.Struct).Field(x.Field)
	}
	return nil
}

func derefStruct(t types.Type) *types.Struct {
	if p, ok := t.Underlying().(*types.Pointer); ok {
		t = p.Elem()
	}
	st, _ := t.Underlying().(*types.Struct)
	return st
}

func isNilConst(v ssa.Value) bool {
	c, ok := v.(*ssa.Const)
	return ok && c.Value == nil && !isBasicZeroable(c.Type())
}

func isBasicZeroable(t types.Type) bool {
	_, ok := t.Underlying().(*types.Basic)
	return ok
}

func constInt(v ssa.Value) (int64, bool) {
	if vv, isV := v.(*virtVal); isV && strings.HasPrefix(vv.k, "const:") {
		// a helper's value that stands for a constant of the caller
		if n, err := strconv.ParseInt(strings.TrimPrefix(vv.k, "const:"), 10, 64); err == nil && isIntType(vv.t) {
			return n, true
		}
		return 0, false
	}
	c, ok := v.(*ssa.Const)
	if !ok || c.Value == nil {
		return 0, false
	}
	if c.Value.Kind() != constant.Int {
		return 0, false
	}
	return constant.Int64Val(c.Value)
}

// reachable: module functions reachable from roots over the call graph (static + VTA edges),
// including closures created in reachable functions and functions started with go/defer.
func (w *World) reachable(roots ...*ssa.Function) map[*ssa.Function]bool {
	seen := map[*ssa.Function]bool{}
	var visit func(fn *ssa.Function)
	visit = func(fn *ssa.Function) {
		if fn == nil || seen[fn] || !w.IsMod[fn] {
			return
		}
		seen[fn] = true
		if n := w.CG.Nodes[fn]; n != nil {
			for _, e := range n.Out {
				visit(e.Callee.Func)
			}
		}
		for _, a := range fn.AnonFuncs {
			visit(a)
		}
	}
	for _, r := range roots {
		visit(r)
	}
	return seen
}

func sortedFns(m map[*ssa.Function]bool) []*ssa.Function {
	var out []*ssa.Function
	for f := range m {
		out = append(out, f)
	}
	sort.Slice(out, func(i, j int) bool {
		if out[i].String() != out[j].String() {
			return out[i].String() < out[j].String()
		}
		return out[i].Pos() < out[j].Pos()
	})
	return out
}

// syntax helpers -------------------------------------------------------------------

func (w *World) fileOf(pos token.Pos) *ast.File {
	for _, p := range w.Roots {
		for _, f := range p.Syntax {
			if f.Pos() <= pos && pos <= f.End() {
				return f
			}
		}
	}
	return nil
}
