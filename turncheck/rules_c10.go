package main

import (
	"fmt"
	"go/token"
	"os"
	"sort"
	"strings"

	"golang.org/x/tools/go/ssa"
)

func init() {
	register(&propDef{
		ID:        "C10",
		Title:     "Stream framing is independent of TCP segmentation and always makes progress",
		Technique: "interval abstract interpretation of the frame-size arithmetic (wrap, bounds, progress), contradiction rule between the early-out threshold and the smallest frame, dependency slice of the classification verdict, typestate of stream reads (count used vs. discarded), who-may-read on the data connection",
		Explanation: "C10.1 the frame-size arithmetic of consumeSingleTURNFrame cannot wrap, its slices are in range, and a successful STUNConn.ReadFrom consumes ≥ 1 byte (the size it returns, never more than buffered); " +
			"C10.2 the 'buffer too short' early-out taken before classification uses a threshold K not larger than the smallest complete frame the function can return (contradiction rule: a complete frame must not be withheld); " +
			"C10.3 ReadFrom hands out s.buff[:n] and advances by the same n; on the incomplete outcome it only appends; on the invalid outcome it returns the error; " +
			"C10.4 stream reads are full reads: every Read on a net.Conn in the module has its byte count used as the bound of the bytes consumed (a discarded count, or a count compared for equality with the buffer size as an error test, assumes segmentation); the ConnectionBind reply is read from the data connection only through io.ReadFull with exactly-sized buffers and the connection is not handed to a buffering reader; " +
			"C10.5 the verdict 'not a TURN frame' does not depend on the declared length field or on how many payload bytes have arrived (only on the header bytes that classify the frame and on the header-size thresholds); " +
			"C10.6 that verdict is reached only after ChannelNumber.Valid (the module's one range predicate) has refused the leading 16 bits: the framer has no second notion of which channel numbers exist; " +
			"C10.7 the reassembly buffer STUNConn.buff is written by ReadFrom (and its helpers) only: no accessor or other method takes bytes out of it or resets it between two reads. C10.8 STUNConn.ReadFrom refuses only by handing on the error of the connection or of the framer.",
		NotCovered: "segmentation independence as a whole and frame ordering are dynamic; behaviour of net.Conn.Read and of pion/stun's IsMessage beyond its inlined shape.",
		Run:        runC10,
	})
}

func runC10(c *Ctx) {
	w := c.W
	a := w.absint()
	consume := w.Func("proto", "", "consumeSingleTURNFrame")
	readFrom := w.Func("proto", "STUNConn", "ReadFrom")
	bind := w.Func("client", "TCPAllocation", "BindConnection")
	// the three entry points with the private helpers their bodies are split into
	var fns []*ssa.Function
	inFns := map[*ssa.Function]bool{}
	for _, f := range []*ssa.Function{consume, readFrom, bind} {
		for _, h := range w.reachableHelpers(f) {
			if !inFns[h] {
				inFns[h] = true
				fns = append(fns, h)
			}
		}
	}
	ruleNoWrap(c, "C10.1w", fns, 0)
	ruleBounds(c, "C10.1b", fns, 2)
	ruleProgress(c, "C10.1p")

	ruleFramerClassification(c, "C10.6")
	ruleReassemblyBufferOwner(c, "C10.7")
	ruleFramerRefusals(c, "C10.8")

	// ---- C10.2
	c.Rule("C10.2", "contradiction rule: a return of the 'incomplete' error guarded only by len(b) < K (no classification fact yet) requires K ≤ the lower bound of the frame size on the nil-error returns of the same function", 1)
	{
		minFrame := int64(inf)
		for _, r := range returnsOf(consume) {
			if isNilConst(w.resolveLoad(r.Results[1])) {
				rg := a.rangeAt(w.resolveLoad(r.Results[0]), r, 3)
				if rg.lo < minFrame {
					minFrame = rg.lo
				}
			}
		}
		n := 0
		for _, r := range returnsOf(consume) {
			g := globalLoad(w.resolveLoad(r.Results[1]))
			if g == nil || !strings.Contains(g.Name(), "Incomplete") {
				continue
			}
			facts := w.factsAt(r)
			// only length facts, no classification (call) facts
			k := int64(-1)
			pure := true
			for _, f := range facts {
				t := termOf(f.X)
				kk, isC := constInt(f.Y)
				if f.Op == "<" && f.Truth && t.Len && w.sameKey(t.V, consume.Params[0]) && isC {
					k = kk
					continue
				}
				pure = false
			}
			if !pure || k < 0 {
				continue
			}
			n++
			c.Anchor("C10.2", "early-out")
			if k <= minFrame {
				c.OK("C10.2", fname(consume), "early-out threshold", w.instrPos(r), fmt.Sprintf("len(b) < %d ⇒ incomplete; smallest frame the function returns is %d bytes", k, minFrame))
			} else {
				c.Bad("C10.2", fname(consume), "early-out threshold", w.instrPos(r), fmt.Sprintf("buffers shorter than %d bytes are reported incomplete before classification, but a complete frame can be as short as %d bytes: such frames are withheld until more bytes arrive", k, minFrame))
			}
		}
		if n == 0 {
			c.Notes = append(c.Notes, "C10.2: no unclassified early-out in consumeSingleTURNFrame (nothing to contradict)")
			c.Anchor("C10.2", "early-out")
			c.Triv("C10.2", fname(consume), "early-out threshold", w.pos(consume.Pos()), "no early-out before classification")
		}
	}

	// ---- C10.3
	c.Rule("C10.3", "consume exactly: every store to STUNConn.buff in ReadFrom is either buff[n:] under the nil-error fact of consumeSingleTURNFrame(s.buff) (n its result) or an append onto buff; the return on the errors.Is(err, errInvalidTURNFrame) edge yields that error", 2)
	{
		buff := w.Field("proto", "STUNConn", "buff")
		n := 0
		w.eachInstrDeep(readFrom, func(in ssa.Instruction) {
			st, ok := in.(*ssa.Store)
			if !ok {
				return
			}
			fa, ok := st.Addr.(*ssa.FieldAddr)
			if !ok || fieldOf(fa) != buff {
				return
			}
			n++
			c.Anchor("C10.3", "buff stores")
			switch v := st.Val.(type) {
			case *ssa.Slice:
				cc, ci := callOf(v.Low)
				okFact := false
				for _, f := range w.factsAt(in) {
					if x, isNil, isNF := nilFact(f); isNF && isNil {
						if fc, fi := callOf(x); fc != nil && fc == cc && fi == 1 {
							okFact = true
						}
					}
				}
				// buff[:0] where n == len(buff): the same as buff[n:] (empty), the array is kept
				drained := false
				if v.Low == nil && v.High != nil {
					if k, isK := constInt(v.High); isK && k == 0 {
						for _, f := range w.factsAt(in) {
							if f.Op != "==" || !f.Truth {
								continue
							}
							for _, pair := range [][2]ssa.Value{{f.X, f.Y}, {f.Y, f.X}} {
								nc, ni := callOf(stripIntConv(pair[0]))
								if nc != nil && nc.Call.StaticCallee() == consume && ni == 0 {
									if t := termOf(pair[1]); t.Len && !t.Cap {
										if _, fl, isL := fieldLoad(w.resolveLoad(t.V)); isL && fl == buff {
											for _, f2 := range w.factsAt(in) {
												if x, isNil, isNF := nilFact(f2); isNF && isNil {
													if fc, fi := callOf(x); fc == nc && fi == 1 {
														drained = true
													}
												}
											}
										}
									}
								}
							}
						}
					}
				}
				if drained {
					c.OK("C10.3", fname(readFrom), "advance", w.instrPos(in), "buff = buff[:0] on the edge n == len(buff) of the nil-error edge: the frame was the whole buffer")
				} else if cc != nil && cc.Call.StaticCallee() == consume && ci == 0 && v.High == nil && okFact {
					c.OK("C10.3", fname(readFrom), "advance", w.instrPos(in), "buff = buff[n:] only on the nil-error edge of consumeSingleTURNFrame")
				} else {
					c.Bad("C10.3", fname(readFrom), "advance", w.instrPos(in), "the reassembly buffer is cut other than by the size of a complete frame on the success edge")
				}
			case *ssa.Call:
				if b, isB := v.Call.Value.(*ssa.Builtin); isB && b.Name() == "append" {
					if _, f, isL := fieldLoad(v.Call.Args[0]); isL && f == buff {
						c.OK("C10.3", fname(readFrom), "append", w.instrPos(in), "bytes read are appended to the buffer")
						return
					}
					// appending to a fresh empty slice is the same when the buffer is known empty
					emptyBuf := false
					for _, f := range w.factsAt(in) {
						if f.Op == "==" && f.Truth {
							for _, pair := range [][2]ssa.Value{{f.X, f.Y}, {f.Y, f.X}} {
								if k, isK := constInt(pair[1]); isK && k == 0 {
									if t := termOf(pair[0]); t.Len {
										if _, fl, isL := fieldLoad(t.V); isL && fl == buff {
											emptyBuf = true
										}
									}
								}
							}
						}
					}
					if sl, isS := v.Call.Args[0].(*ssa.Slice); isS && emptyBuf {
						if _, isAl := sl.X.(*ssa.Alloc); isAl {
							c.OK("C10.3", fname(readFrom), "append", w.instrPos(in), "the buffer is empty here: the bytes read become the buffer (private copy)")
							return
						}
						// the empty buffer's own storage re-used (buff[:0]): what is appended is
						// either everything just read, or — when a whole frame at the front of the
						// bytes just read is being returned from where it lies — exactly the rest:
						// src[size:n] with size the nil-error result of the frame test over src[:n]
						if _, fl, isL := fieldLoad(w.resolveLoad(sl.X)); isL && fl == buff && sl.Low == nil {
							if k, isK := constInt(sl.High); isK && k == 0 && len(v.Call.Args) == 2 {
								if tail, isT := v.Call.Args[1].(*ssa.Slice); isT {
									if tail.Low == nil {
										c.OK("C10.3", fname(readFrom), "append", w.instrPos(in), "the buffer is empty here: the bytes read become the buffer")
										return
									}
									cc, ci := callOf(tail.Low)
									okTail := false
									if cc != nil && cc.Call.StaticCallee() == consume && ci == 0 {
										sameBytes := false
										if arg, isA := cc.Call.Args[0].(*ssa.Slice); isA && arg.Low == nil && w.sameKey(arg.X, tail.X) && w.key(arg.High) == w.key(tail.High) {
											sameBytes = true // consume(src[:n]) … src[size:n]
										}
										if tail.High == nil && (cc.Call.Args[0] == tail.X || w.sameKey(cc.Call.Args[0], tail.X)) {
											sameBytes = true // seg := src[:n]; consume(seg) … seg[size:]
										}
										if sameBytes {
											for _, f := range w.factsAt(in) {
												if x, isNil, isNF := nilFact(f); isNF && isNil {
													if fc, fi := callOf(x); fc == cc && fi == 1 {
														okTail = true
													}
												}
											}
										}
									}
									if okTail {
										c.OK("C10.3", fname(readFrom), "append", w.instrPos(in), "a whole frame heads the bytes just read and is returned in place: exactly the bytes after it (src[size:n]) are kept")
										return
									}
								}
							}
						}
					}
				}
				c.Bad("C10.3", fname(readFrom), "buff store", w.instrPos(in), "unexpected rewrite of the reassembly buffer")
			default:
				c.Bad("C10.3", fname(readFrom), "buff store", w.instrPos(in), "unexpected rewrite of the reassembly buffer")
			}
		})
		if n < 2 {
			c.Bad("C10.3", fname(readFrom), "buff stores", w.pos(readFrom.Pos()), "ReadFrom no longer both consumes frames and appends fresh bytes")
		}
		c.Anchor("C10.3", "invalid edge")
		// Only an INCOMPLETE frame may make ReadFrom wait for more bytes: at every read of the
		// underlying connection the error of the preceding frame test can only be the
		// incomplete-frame sentinel (all other errors of that test were returned before).
		okInv := false
		nReads := 0
		w.eachInstrDeep(readFrom, func(in ssa.Instruction) {
			call, ok := in.(*ssa.Call)
			if !ok || !call.Call.IsInvoke() || call.Call.Method.Name() != "Read" {
				return
			}
			nReads++
			facts := w.factsAt(in)
			good := false
			if os.Getenv("TURNCHECK_C10DEBUG") != "" {
				for _, f := range facts {
					fmt.Fprintln(os.Stderr, "C10.3 fact at Read", w.instrPos(in), w.factStr(f))
				}
			}
			for _, f := range facts {
				x, outcome := factOutcome(f)
				var tested ssa.Value
				if x != nil && outcome == "nonnil" {
					tested = x
				}
				if sv, _, isS := sentinelFact(w, f); isS {
					tested = sv
				}
				if tested == nil {
					continue
				}
				ec, ei := callOf(w.resolveLoad(tested))
				if os.Getenv("TURNCHECK_C10DEBUG") != "" {
					fmt.Fprintf(os.Stderr, "C10.3 tested %T %s call=%v idx=%d\n", tested, w.key(tested), ec != nil, ei)
				}
				if ec == nil || ec.Call.StaticCallee() == nil || !w.IsMod[ec.Call.StaticCallee()] {
					continue
				}
				set, known := w.errGlobals(ec.Call.StaticCallee(), ei, 3)
				if !known || len(set) == 0 {
					continue
				}
				// narrow by the facts about that very value
				for _, f2 := range facts {
					if sv, g, isS := sentinelFact(w, f2); isS && w.sameKey(sv, tested) {
						set = map[string]bool{g.Name(): true}
					}
					if os.Getenv("TURNCHECK_C10DEBUG") != "" {
						fmt.Fprintf(os.Stderr, "C10.3 narrowing fact op=%s truth=%v X=%T\n", f2.Op, f2.Truth, f2.X)
						if ic, _ := callOf(f2.X); ic != nil && f2.Op == "true" {
							fmt.Fprintf(os.Stderr, "   callee=%v args0=%s same=%v tested=%s\n", ic.Call.StaticCallee(), w.key(ic.Call.Args[0]), w.sameKey(ic.Call.Args[0], tested), w.key(tested))
						}
					}
					if f2.Op == "true" && !f2.Truth {
						if ic, _ := callOf(f2.X); ic != nil && ic.Call.StaticCallee() != nil && ic.Call.StaticCallee().String() == "errors.Is" && w.sameKey(ic.Call.Args[0], tested) {
							if g := globalLoad(w.resolveLoad(ic.Call.Args[1])); g != nil {
								delete(set, g.Name())
							}
						}
					}
					if f2.Op == "==" && !f2.Truth {
						for _, pair := range [][2]ssa.Value{{f2.X, f2.Y}, {f2.Y, f2.X}} {
							if g := globalLoad(w.resolveLoad(pair[1])); g != nil && w.sameKey(pair[0], tested) {
								delete(set, g.Name())
							}
						}
					}
				}
				only := len(set) > 0
				for name := range set {
					if !strings.Contains(name, "Incomplete") {
						only = false
					}
				}
				if only {
					good = true
				}
			}
			if good {
				okInv = true
			} else {
				okInv = false
				nReads = -1000
			}
		})
		if nReads <= 0 {
			okInv = false
		}
		if okInv {
			c.OK("C10.3", fname(readFrom), "invalid edge", w.pos(readFrom.Pos()), "bytes that cannot begin a frame yield the error")
		} else {
			c.Bad("C10.3", fname(readFrom), "invalid edge", w.pos(readFrom.Pos()), "the invalid-frame outcome is not returned as an error")
		}
	}

	// ---- C10.4
	c.Rule("C10.4", "stream reads: for every invoke of Read on a net.Conn (or a type embedding one) in the module, result #0 is used as the bound of a slice of the buffer read into (the bytes actually received) — it is not discarded and not merely compared; in BindConnection the data connection parameter is used only for Write, as the reader argument of io.ReadFull, and for logging/fields — it is not handed to any other reader", 2)
	{
		n := 0
		for _, fn := range w.ModFns {
			w.eachInstr(fn, func(in ssa.Instruction) {
				call, ok := in.(*ssa.Call)
				if !ok || call.Call.Method == nil && call.Call.StaticCallee() == nil {
					return
				}
				name := ""
				var recvT string
				if call.Call.IsInvoke() {
					name, recvT = call.Call.Method.Name(), call.Call.Value.Type().String()
				} else if cal := call.Call.StaticCallee(); cal != nil && cal.Signature.Recv() != nil {
					name, recvT = cal.Name(), cal.Signature.Recv().Type().String()
				}
				if name != "Read" {
					return
				}
				if !(strings.HasSuffix(recvT, "net.Conn") || strings.Contains(recvT, "TCPConn") || strings.HasSuffix(recvT, "io.Reader")) {
					return
				}
				n++
				c.Anchor("C10.4", fname(fn))
				used := false
				cmpOnly := false
				for _, r := range *call.Referrers() {
					ex, ok := r.(*ssa.Extract)
					if !ok || ex.Index != 0 {
						continue
					}
					for _, u := range *ex.Referrers() {
						switch x := u.(type) {
						case *ssa.Slice:
							if x.High == ssa.Value(ex) {
								used = true
							}
						case *ssa.BinOp:
							if x.Op == token.EQL || x.Op == token.NEQ {
								cmpOnly = true
							}
						}
					}
				}
				switch {
				case used:
					c.OK("C10.4", fname(fn), "Read", w.instrPos(in), "the byte count bounds the bytes consumed (partial reads are handled)")
				case cmpOnly:
					c.Bad("C10.4", fname(fn), "Read", w.instrPos(in), "a single Read on a stream is treated as having filled the buffer (count only compared with a size): a reply split across TCP segments is rejected")
				default:
					c.Bad("C10.4", fname(fn), "Read", w.instrPos(in), "the byte count of a stream Read is discarded: the rest of the buffer is parsed although it may not have been filled")
				}
			})
		}
		if n == 0 {
			c.Bad("C10.4", "-", "Read", "-", "no stream Read found in the module: anchor (STUNConn.ReadFrom's Read) gone")
		}
		ruleBindReplyExact(c, "C10.4")
	}

	// ---- C10.5
	c.Rule("C10.5", "the invalid-frame verdict of consumeSingleTURNFrame is control-dependent only on header classification: none of the branch conditions dominating the return of the invalid error depends (through calls, depth ≤ 4) on the declared-length bytes b[2:4] or on a comparison of len(b) with a non-constant", 1)
	{
		c.Anchor("C10.5", "invalid verdict")
		n := 0
		bad := ""
		b0 := consume.Params[0]
		for _, r := range returnsOf(consume) {
			g := globalLoad(w.resolveLoad(r.Results[1]))
			if g == nil || !strings.Contains(g.Name(), "Invalid") {
				continue
			}
			n++
			for _, f := range w.factsAt(r) {
				for _, side := range []ssa.Value{f.X, f.Y} {
					if side == nil {
						continue
					}
					if w.depWalk(side, nil, func(v ssa.Value, stack []*ssa.Call) bool {
						sl, ok := v.(*ssa.Slice)
						if !ok {
							return false
						}
						lo, okL := constIntOrNil(sl.Low)
						hi, okH := constIntOrNil(sl.High)
						if !okL || !okH || !(lo == 2 && hi == 4) {
							return false
						}
						// is the sliced value the frame buffer (possibly a callee's parameter bound to it)?
						return w.depWalk(sl.X, stack, func(y ssa.Value, _ []*ssa.Call) bool { return y == ssa.Value(b0) })
					}) {
						bad = "the condition " + w.factStr(f) + " that leads to the invalid-frame verdict depends on the declared length bytes b[2:4]: an incomplete but valid frame is rejected once enough of it has arrived"
					}
				}
			}
		}
		if n == 0 {
			bad = "no return of the invalid-frame error: anchor gone"
		}
		if bad == "" {
			c.OK("C10.5", fname(consume), "invalid verdict", w.pos(consume.Pos()), "depends only on the classifying header bytes and constant size thresholds")
		} else {
			c.Bad("C10.5", fname(consume), "invalid verdict", w.pos(consume.Pos()), bad)
		}
	}
}

// ruleFramerClassification (C10.6): what the stream framer refuses as "not a TURN frame" must
// be exactly what is neither a STUN message nor ChannelData on a valid channel. The channel
// side of that is the module's one range predicate, ChannelNumber.Valid (C08.5): a return of
// the invalid-frame error whose conditions do not depend on Valid(leading 16 bits) was decided
// by some other, narrower or wider, idea of what a channel number is — frames on valid
// channels would be refused (or junk accepted) under every segmentation.
func ruleFramerClassification(c *Ctx, rule string) {
	w := c.W
	c.Rule(rule, "classification agreement: every return of the invalid-frame error in consumeSingleTURNFrame is control-dependent (through helpers) on ChannelNumber.Valid applied to the buffer's leading 16 bits, or the function classifies by the first byte on exactly the boundaries 0x40..0x7F (the same set) — the framer has no second notion of which channel numbers exist", 1)
	consume := w.Func("proto", "", "consumeSingleTURNFrame")
	valid := w.Func("proto", "ChannelNumber", "Valid")
	c.Anchor(rule, "invalid verdict")
	n := 0
	for _, r := range returnsOf(consume) {
		if len(r.Results) < 2 {
			continue
		}
		g := globalLoad(w.resolveLoad(r.Results[1]))
		if g == nil || !strings.Contains(g.Name(), "Invalid") {
			continue
		}
		n++
		dep := false
		for _, f := range w.factsAt(r) {
			for _, side := range []ssa.Value{f.X, f.Y} {
				if side == nil || dep {
					continue
				}
				if w.depWalk(side, nil, func(v ssa.Value, _ []*ssa.Call) bool {
					call, ok := under(v).(*ssa.Call)
					return ok && call.Call.StaticCallee() == valid
				}) {
					dep = true
				}
			}
		}
		if !dep {
			// the same decision taken on the first byte, on exactly the range's boundaries
			if lo, up, other := firstByteClass(w, consume); lo && up && other == "" {
				dep = true
			}
		}
		if dep {
			c.OK(rule, fname(consume), "invalid verdict", w.instrPos(r), "reached only after ChannelNumber.Valid (or the first-byte class 0x40..0x7F, which is the same set) refused the leading 16 bits")
		} else {
			c.Bad(rule, fname(consume), "invalid verdict", w.instrPos(r), "this return of the invalid-frame error does not depend on ChannelNumber.Valid of the leading 16 bits: the framer decides by another notion of channel numbers, so ChannelData on some valid channels is refused on a stream (under every segmentation) or junk is taken for a frame", w.factsDesc(r)...)
		}
	}
	if n == 0 {
		c.Bad(rule, fname(consume), "invalid verdict", w.pos(consume.Pos()), "no return of the invalid-frame error: anchor gone")
	}
}

func constIntOrNil(v ssa.Value) (int64, bool) {
	if v == nil {
		return -1, true
	}
	return constInt(v)
}

// sentinelFact recognises a must-fact "x is the sentinel error G": errors.Is(x, G) is true, or
// x == G.
func sentinelFact(w *World, f Fact) (ssa.Value, *ssa.Global, bool) {
	if f.Op == "true" && f.Truth {
		if ic, _ := callOf(f.X); ic != nil && ic.Call.StaticCallee() != nil && ic.Call.StaticCallee().String() == "errors.Is" {
			if g := globalLoad(w.resolveLoad(ic.Call.Args[1])); g != nil {
				return ic.Call.Args[0], g, true
			}
		}
	}
	if f.Op == "==" && f.Truth {
		if g := globalLoad(w.resolveLoad(f.Y)); g != nil {
			return f.X, g, true
		}
		if g := globalLoad(w.resolveLoad(f.X)); g != nil {
			return f.Y, g, true
		}
	}
	return nil, nil, false
}

// errGlobals: the package-level error values result #idx of fn can be (besides nil), followed
// through module callees whose error it forwards. known=false when some return yields
// something else (a wrapped or freshly made error).
func (w *World) errGlobals(fn *ssa.Function, idx int, depth int) (map[string]bool, bool) {
	out := map[string]bool{}
	if fn == nil || len(fn.Blocks) == 0 || depth <= 0 {
		return out, false
	}
	if idx < 0 {
		idx = 0
	}
	for _, r := range returnsOf(fn) {
		if idx >= len(r.Results) {
			return out, false
		}
		for _, lf := range w.guardedLeaves(r.Results[idx], r) {
			v := stripIface(w.resolveLoad(lf.val))
			if isNilConst(v) {
				continue
			}
			if g := globalLoad(v); g != nil {
				out[g.Name()] = true
				continue
			}
			if c, ci := callOf(v); c != nil && c.Call.StaticCallee() != nil && w.IsMod[c.Call.StaticCallee()] {
				sub, ok := w.errGlobals(c.Call.StaticCallee(), ci, depth-1)
				if !ok {
					return out, false
				}
				for k := range sub {
					out[k] = true
				}
				continue
			}
			return out, false
		}
	}
	return out, true
}

// declaredSTUNSize: v is int(binary.BigEndian.Uint16(hdr[2:4])) + 20 — the size of a STUN
// message as its header declares it.
func declaredSTUNSize(v ssa.Value) bool {
	bo, ok := stripIntConv(v).(*ssa.BinOp)
	if !ok || bo.Op != token.ADD {
		return false
	}
	for _, pair := range [][2]ssa.Value{{bo.X, bo.Y}, {bo.Y, bo.X}} {
		if k, isK := constInt(pair[1]); !isK || k != 20 {
			continue
		}
		call, isC := stripIntConv(pair[0]).(*ssa.Call)
		if !isC || call.Call.StaticCallee() == nil || call.Call.StaticCallee().Name() != "Uint16" || len(call.Call.Args) == 0 {
			continue
		}
		sl, isS := call.Call.Args[len(call.Call.Args)-1].(*ssa.Slice)
		if !isS {
			continue
		}
		lo, okL := constInt(sl.Low)
		hi, okH := constInt(sl.High)
		if okL && okH && lo == 2 && hi == 4 {
			return true
		}
	}
	return false
}

// ruleBindReplyExact: the ConnectionBind reply is taken off the data connection by exact reads
// (header, then the declared body) and the connection goes to no other reader — every byte
// after the reply belongs to the user of the data connection (C10.4; shared with C16 as the
// client half of "bytes are copied unmodified and in order").
func ruleBindReplyExact(c *Ctx, rule string) {
	w := c.W
	a := w.absint()
	bind := w.Func("client", "TCPAllocation", "BindConnection")
	// who-may-read the data connection in BindConnection
	c.Anchor(rule, "BindConnection dataConn")
	dc := bind.Params[1]
	bad := ""
	nFull := 0
	flowFns := map[*ssa.Function]bool{bind: true} // functions the data connection flows into
	seenV := map[ssa.Value]bool{}
	var visit func(v ssa.Value)
	visit = func(v ssa.Value) {
		if seenV[v] || v.Referrers() == nil {
			return
		}
		seenV[v] = true
		for _, r := range *v.Referrers() {
			switch x := r.(type) {
			case *ssa.MakeInterface:
				visit(x)
			case *ssa.ChangeInterface:
				visit(x)
			case *ssa.FieldAddr, *ssa.DebugRef:
			case *ssa.Store:
				// kept in a field of a module struct (a context object whose methods do the
				// exchange): every read of that field is the connection again
				if fa, isFA := x.Addr.(*ssa.FieldAddr); isFA && x.Val == v {
					fld := fieldOf(fa)
					if fld.Pkg() != nil && strings.HasPrefix(fld.Pkg().Path(), modPath) && !fld.Exported() {
						for _, fn2 := range w.ModFns {
							w.eachInstr(fn2, func(i2 ssa.Instruction) {
								if ld, isLd := i2.(*ssa.UnOp); isLd && ld.Op == token.MUL {
									if fa2, ok2 := ld.X.(*ssa.FieldAddr); ok2 && fieldOf(fa2) == fld {
										flowFns[fn2] = true
										visit(ld)
									}
								}
							})
						}
					}
				}
			case ssa.CallInstruction:
				cc := x.Common()
				if cal := cc.StaticCallee(); cal != nil {
					switch {
					case cal.String() == "io.ReadFull" && len(cc.Args) == 2 && cc.Args[0] == v:
						nFull++
					case cal.Name() == "Write" || cal.Name() == "Read":
					case strings.Contains(cal.String(), "log") || strings.Contains(cal.String(), "fmt."):
					case w.IsMod[cal] && cal.Signature.Recv() == nil && len(cal.Blocks) > 0:
						// a module helper: what it does with the connection is held to the same rule
						flowFns[cal] = true
						for i, a := range cc.Args {
							if a == v && i < len(cal.Params) {
								visit(cal.Params[i])
							}
						}
					default:
						if cc.Args[0] == v && cal.Signature.Recv() != nil {
							continue // method call on the conn itself (Write, SetDeadline, …)
						}
						bad = "the data connection is handed to " + fname(cal) + " at " + w.instrPos(x) + ": a reader that buffers may consume bytes past the ConnectionBind reply, which belong to the user"
					}
				} else if cc.IsInvoke() && cc.Value == v {
					// interface method on the conn
				} else {
					bad = "the data connection is passed to a dynamic call at " + w.instrPos(x)
				}
			}
		}
	}
	visit(dc)
	if bad == "" && nFull >= 2 {
		c.OK(rule, fname(bind), "dataConn uses", w.pos(bind.Pos()), fmt.Sprintf("%d io.ReadFull reads (header, body) and Write only", nFull))
	} else {
		if bad == "" {
			bad = fmt.Sprintf("the reply is not read by io.ReadFull of header and body (%d ReadFull calls)", nFull)
		}
		c.Bad(rule, fname(bind), "dataConn uses", w.pos(bind.Pos()), bad)
	}
	// the two ReadFull buffers are exactly the header (20) and the declared remainder
	c.Anchor(rule, "BindConnection sizes")
	okSizes := 0
	var ffs []*ssa.Function
	for f := range flowFns {
		ffs = append(ffs, f)
	}
	sort.Slice(ffs, func(i, j int) bool { return ffs[i].String() < ffs[j].String() })
	for _, ff := range ffs {
		w.eachInstr(ff, func(in ssa.Instruction) {
			call, ok := in.(*ssa.Call)
			if !ok || call.Call.StaticCallee() == nil || call.Call.StaticCallee().String() != "io.ReadFull" {
				return
			}
			l := a.rangeOfTerm(Term{Len: true, V: call.Call.Args[1]}, in, 3)
			if l.lo == 20 && l.hi == 20 {
				okSizes++ // header
			} else if sl, isS := call.Call.Args[1].(*ssa.Slice); isS && sl.Low != nil {
				if k, isK := constInt(sl.Low); isK && k == 20 && (sl.High == nil || declaredSTUNSize(sl.High)) {
					okSizes++ // raw[20:], or buf[20:size] with size = 20 + the header's declared length
				}
			}
		})
	}
	if okSizes >= 2 {
		c.OK(rule, fname(bind), "read sizes", w.pos(bind.Pos()), "reads exactly 20 header bytes, then raw[20:] of a buffer sized from the declared length")
	} else {
		c.Bad(rule, fname(bind), "read sizes", w.pos(bind.Pos()), "the ConnectionBind reply is not read as exactly header + declared body")
	}
}

// ruleReassemblyBufferOwner (C10.7): the bytes received but not yet returned live in
// STUNConn.buff; framing survives arbitrary segmentation only if every byte stays there until
// ReadFrom hands it out as part of a frame. Who may write the field: ReadFrom and the helpers
// that are part of its body — not an accessor such as Conn(), not Close.
func ruleReassemblyBufferOwner(c *Ctx, rule string) {
	w := c.W
	c.Rule(rule, "who may write the reassembly buffer: every store to STUNConn.buff is in (*STUNConn).ReadFrom or in a helper called only from it", 1)
	fld := w.Field("proto", "STUNConn", "buff")
	readFrom := w.Func("proto", "STUNConn", "ReadFrom")
	n := 0
	for _, fn := range w.ModFns {
		w.eachInstr(fn, func(in ssa.Instruction) {
			st, ok := in.(*ssa.Store)
			if !ok {
				return
			}
			fa, ok := st.Addr.(*ssa.FieldAddr)
			if !ok || fieldOf(fa) != fld {
				return
			}
			n++
			c.Anchor(rule, "STUNConn.buff")
			if w.partOf(fn, readFrom) {
				c.OK(rule, fname(fn), "store", w.instrPos(in), "written by the de-framer itself")
				return
			}
			// a literal under construction (NewSTUNConn) is not a write to a live buffer
			if al, isAl := rootAddr(fa.X).(*ssa.Alloc); isAl && al.Parent() == fn {
				c.OK(rule, fname(fn), "store", w.instrPos(in), "initialisation of a STUNConn under construction")
				return
			}
			c.Bad(rule, fname(fn), "store", w.instrPos(in), "the reassembly buffer is written outside ReadFrom: bytes of a frame that is still incomplete (the head of a frame whose tail has not arrived) are taken away or discarded between two reads, the tail is then parsed as the start of a frame — framing no longer survives this segmentation")
		})
	}
	if n == 0 {
		c.Anchor(rule, "STUNConn.buff")
		c.Bad(rule, "-", "store", "-", "no store to STUNConn.buff found: anchor gone")
	}
}
