package main

import (
	"fmt"
	"strings"

	"golang.org/x/tools/go/ssa"
)

// dumpFacts prints, for every call in the module whose callee name contains pat, the argument
// keys and the must-facts at the call (development aid; no verdict).
func dumpFacts(w *World, pat string) {
	for _, fn := range w.ModFns {
		w.eachInstr(fn, func(in ssa.Instruction) {
			c, ok := in.(ssa.CallInstruction)
			if !ok {
				return
			}
			cc := c.Common()
			name := ""
			if f := cc.StaticCallee(); f != nil {
				name = fname(f)
			} else if cc.IsInvoke() {
				name = "invoke:" + cc.Method.Name() + ":" + w.key(cc.Value)
			} else {
				name = "dyn:" + w.key(cc.Value)
			}
			if !strings.Contains(name, pat) {
				return
			}
			var as []string
			for _, x := range cc.Args {
				as = append(as, w.key(x))
			}
			fmt.Printf("\nCALL %s\n  in %s @%s\n  args: %s\n", name, fname(fn), w.instrPos(in), strings.Join(as, " | "))
			for _, f := range w.factsAt(in) {
				fmt.Printf("    fact: %s\n", w.factStr(f))
			}
			if li := w.lockInfo(); li != nil {
				fmt.Printf("    locks must={%s} may={%s}\n", li.mustAt(in).str(), li.mayAt(in).str())
			}
		})
	}
}
