package main

// Helper transparency.
//
// A behaviour-preserving refactoring typically moves a check, a lookup or an emission into a
// small helper function. The rules are written over "the handler's" values and facts, so the
// engine makes helpers transparent in three ways:
//
//   1. fact import (any number of call sites): a must-fact about the OUTCOME of a call to a
//      module function h (h(...) is nil / non-nil / true / false) implies every must-fact
//      that holds at all returns of h with that outcome. Those facts are about values of
//      that invocation of h; they are translated into the caller: parameters become the
//      actual arguments, pure value trees (calls, extracts, conversions, arithmetic) are
//      rebuilt as synthetic SSA values over the translated operands, anything else becomes a
//      virtual value that only carries a key. The synthetic values are memoised per
//      (value, call site), so identity comparisons between facts keep working.
//   2. single-call-site helpers: an unexported module function with exactly one incoming
//      call-graph edge, which is a static call, is treated like a function literal: its
//      parameters are keyed as the actual arguments and the facts at the call site hold
//      inside it.
//   3. value origin: result #i of a call to a module function all of whose returns yield the
//      same translated value is that value (origin).
//
// Soundness: SSA values are immutable, so a fact about values of a finished invocation stays
// true; only facts over *loads* describe memory at a point in time, and those are keyed by
// the existing stability rules (an unstable load inside a helper gets a virtual key that is
// unique to the invocation).

import (
	"fmt"
	"go/constant"
	"go/token"
	"go/types"
	"os"
	"reflect"
	"sort"
	"strings"
	"unsafe"

	"golang.org/x/tools/go/ssa"
)

type synKey struct {
	v  ssa.Value
	hc *ssa.Call
}

type hfKey struct {
	hc   *ssa.Call
	idx  int
	want string
}

type synthState struct {
	ctors       map[interface{}]*ctorInfo
	sfvBusy     map[ssa.Value]bool
	ctorCalls   map[string]*ssa.Call
	syn         map[synKey]ssa.Value
	hf          map[hfKey][]Fact
	hfBusy      map[*ssa.Function]bool
	factsAt     map[*ssa.BasicBlock][]Fact
	single      map[*ssa.Function]ssa.CallInstruction
	singleDone  map[*ssa.Function]bool
	synOrigin   map[ssa.Value]ssa.Value // synthetic value -> the helper value it stands for
	synSite     map[ssa.Value]*ssa.Call // synthetic value -> the call site it was translated at
	usedAsValue map[*ssa.Function]bool
	phiBusy     map[*ssa.Phi]bool
	sliceNN     map[*types.Var]int
	mapNN       map[*types.Var]int
	allocs      map[string]*ssa.Alloc
	wo          map[string]*woResult
	accShapes   map[*ssa.Function]*accShape
	accCalls    map[ssa.Value]*ssa.Call
	uniform     map[*ssa.Parameter]ssa.Value
	uniformDone map[*ssa.Parameter]bool
	pureExpr    map[*ssa.Function]ssa.Value
	immField    map[*types.Var]bool
	immWritten  map[*types.Var]bool
}

func (w *World) ss() *synthState {
	if w.synth == nil {
		w.synth = &synthState{syn: map[synKey]ssa.Value{}, hf: map[hfKey][]Fact{}, hfBusy: map[*ssa.Function]bool{},
			factsAt: map[*ssa.BasicBlock][]Fact{}, single: map[*ssa.Function]ssa.CallInstruction{}, singleDone: map[*ssa.Function]bool{},
			synOrigin: map[ssa.Value]ssa.Value{}, synSite: map[ssa.Value]*ssa.Call{}}
	}
	return w.synth
}

// setRegType sets the unexported result type of a synthetic SSA value (ssa.register.typ).
func setRegType(v ssa.Value, t types.Type) {
	rv := reflect.ValueOf(v).Elem()
	reg := rv.FieldByName("register")
	if !reg.IsValid() {
		return
	}
	f := reg.FieldByName("typ")
	if !f.IsValid() {
		return
	}
	reflect.NewAt(f.Type(), unsafe.Pointer(f.UnsafeAddr())).Elem().Set(reflect.ValueOf(&t).Elem())
}

// setBlock places a synthetic instruction in block b (ssa.anInstruction.block), so that
// Parent()/Block() queries answer "at the helper's call site".
func setBlock(v ssa.Value, b *ssa.BasicBlock) {
	rv := reflect.ValueOf(v).Elem()
	an := rv.FieldByName("anInstruction")
	if !an.IsValid() {
		return
	}
	f := an.FieldByName("block")
	if !f.IsValid() {
		return
	}
	reflect.NewAt(f.Type(), unsafe.Pointer(f.UnsafeAddr())).Elem().Set(reflect.ValueOf(b))
}

// isSynthetic: v was built by translate (it belongs to no block).
func (w *World) isSynthetic(v ssa.Value) bool {
	_, ok := w.ss().synOrigin[v]
	return ok
}

// singleSite returns the only call site of an unexported module function (nil otherwise).
// Functions whose address is taken, that are reachable through an interface, that are
// started with go/defer, or that are recursive do not qualify.
func (w *World) singleSite(fn *ssa.Function) *ssa.Call {
	c, _ := w.singleSiteCI(fn).(*ssa.Call)
	return c
}

// singleSiteCI is singleSite including `go f(...)` and `defer f(...)` statements: the
// arguments are evaluated at the statement, so parameters are the arguments there and the
// facts over SSA values at the statement hold in the body.
func (w *World) singleSiteCI(fn *ssa.Function) ssa.CallInstruction {
	s := w.ss()
	if s.singleDone[fn] {
		return s.single[fn]
	}
	s.singleDone[fn] = true
	if fn != nil && w.IsMod[fn] && fn.Parent() != nil && len(fn.Blocks) > 0 {
		// a function literal that is invoked on the spot: func(){...}()
		if mcs := w.Closures[fn]; len(mcs) == 1 {
			if refs := mcs[0].Referrers(); refs != nil && len(*refs) == 1 {
				if ci, ok := (*refs)[0].(ssa.CallInstruction); ok && ci.Common().Value == ssa.Value(mcs[0]) {
					s.single[fn] = ci
					return ci
				}
				// ... or handed to (*sync.Once).Do, which runs it on the spot (the first time)
				if ci, ok := (*refs)[0].(*ssa.Call); ok {
					if cal := ci.Call.StaticCallee(); cal != nil && len(fn.Params) == 0 && w.runsArgSync(ci, mcs[0]) {
						s.single[fn] = ci
						return ci
					}
				}
			}
		}
		return nil
	}
	if fn == nil || !w.IsMod[fn] || fn.Parent() != nil || fn.Synthetic != "" || len(fn.Blocks) == 0 {
		return nil
	}
	if obj := fn.Object(); obj == nil || obj.Exported() {
		return nil
	}
	node := w.CG.Nodes[fn]
	if node == nil {
		return nil
	}
	var site ssa.CallInstruction
	n := 0
	for _, e := range node.In {
		if e.Site == nil {
			return nil
		}
		// a promoted-method wrapper nobody calls (the type merely embeds the receiver) is
		// not a caller
		if cf := e.Caller.Func; cf != nil && cf.Synthetic != "" && !isBoundWrapper(cf) && len(e.Caller.In) == 0 && !w.fnUsedAsValue()[cf] {
			continue
		}
		n++
		site = e.Site
	}
	if n != 1 {
		return nil
	}
	c := site
	if c.Common().StaticCallee() != fn || c.Parent() == fn {
		return nil
	}
	if par := c.Parent(); isBoundWrapper(par) {
		// the only use is a method value x.m: m's receiver is x where the value is made
		if len(w.Closures[par]) != 1 {
			return nil
		}
	} else if !w.IsMod[par] || par.Synthetic != "" {
		return nil
	}
	// the function value must not be used other than as a callee
	if w.fnUsedAsValue()[fn] {
		return nil
	}
	// no cycles: the caller chain must not come back
	seen := map[*ssa.Function]bool{fn: true}
	for cur := c.Parent(); cur != nil; {
		if seen[cur] {
			return nil
		}
		seen[cur] = true
		for cur.Parent() != nil {
			cur = cur.Parent()
			if seen[cur] {
				return nil
			}
			seen[cur] = true
		}
		up := w.singleSiteNoCycleCheck(cur)
		if up == nil {
			break
		}
		cur = up.Parent()
	}
	s.single[fn] = c
	return c
}

// fnUsedAsValue: functions that occur as an operand other than the callee of a call.
func (w *World) fnUsedAsValue() map[*ssa.Function]bool {
	s := w.ss()
	if s.usedAsValue != nil {
		return s.usedAsValue
	}
	s.usedAsValue = map[*ssa.Function]bool{}
	for _, f := range w.ModFns {
		w.eachInstr(f, func(in ssa.Instruction) {
			var callee ssa.Value
			if ci, ok := in.(ssa.CallInstruction); ok && ci.Common().Method == nil {
				callee = ci.Common().Value
			}
			first := true
			for _, op := range in.Operands(nil) {
				if g, ok := (*op).(*ssa.Function); ok {
					if first && callee == ssa.Value(g) {
						first = false
						continue
					}
					s.usedAsValue[g] = true
				}
				first = false
			}
		})
	}
	return s.usedAsValue
}

func (w *World) singleSiteNoCycleCheck(fn *ssa.Function) ssa.CallInstruction {
	s := w.ss()
	if s.singleDone[fn] {
		return s.single[fn]
	}
	return nil
}

// helpersOf: fn, its function literals, and the single-call-site helpers they call
// (transitively) — "the body of fn" for rules that enumerate a function's instructions.
func (w *World) helpersOf(fn *ssa.Function) []*ssa.Function {
	var out []*ssa.Function
	seen := map[*ssa.Function]bool{}
	var visit func(f *ssa.Function)
	visit = func(f *ssa.Function) {
		if seen[f] {
			return
		}
		seen[f] = true
		out = append(out, f)
		for _, a := range f.AnonFuncs {
			visit(a)
		}
		w.eachInstr(f, func(in ssa.Instruction) {
			if c, ok := in.(ssa.CallInstruction); ok {
				if h := c.Common().StaticCallee(); h != nil && w.singleSiteCI(h) == c {
					visit(h)
				}
				if h := w.syncCallbackBody(c); h != nil {
					visit(h)
				}
			}
			// a method value x.m made here and nowhere else: m's body belongs here
			if mc, ok := in.(*ssa.MakeClosure); ok {
				if body := w.closureBody(mc); body != nil && ssa.Value(body) != mc.Fn && w.singleSiteCI(body) != nil {
					visit(body)
				}
			}
		})
	}
	visit(fn)
	return out
}

// eachInstrDeep visits the instructions of fn and of its single-call-site helpers (not of
// function literals).
func (w *World) eachInstrDeep(fn *ssa.Function, f func(ssa.Instruction)) {
	seen := map[*ssa.Function]bool{}
	var visit func(g *ssa.Function)
	visit = func(g *ssa.Function) {
		if seen[g] {
			return
		}
		seen[g] = true
		for _, b := range g.Blocks {
			for _, in := range b.Instrs {
				f(in)
				if c, ok := in.(ssa.CallInstruction); ok {
					if h := c.Common().StaticCallee(); h != nil && w.singleSiteCI(h) == c {
						visit(h)
					}
					if h := w.syncCallbackBody(c); h != nil {
						visit(h)
					}
				}
			}
		}
	}
	visit(fn)
}

// syncCallbackBody: for once.Do(func(){...}) (the literal made for that call only) the
// literal's function.
func (w *World) syncCallbackBody(c ssa.CallInstruction) *ssa.Function {
	call, ok := c.(*ssa.Call)
	if !ok {
		return nil
	}
	cal := call.Call.StaticCallee()
	if cal == nil {
		return nil
	}
	for _, a := range call.Call.Args {
		if mc, isMC := a.(*ssa.MakeClosure); isMC && w.runsArgSync(call, mc) {
			if body := w.closureBody(mc); body != nil && w.singleSiteCI(body) == c {
				return body
			}
		}
	}
	return nil
}

// runsArgSync: the call hands function value arg to a callee that runs it synchronously, on
// the calling goroutine, before returning: (*sync.Once).Do, or a module function whose
// corresponding parameter is used only as the callee of plain calls (a combinator such as
// retry(fn) / withLock(fn)).
func (w *World) runsArgSync(call *ssa.Call, arg ssa.Value) bool {
	cal := call.Call.StaticCallee()
	if cal == nil {
		return false
	}
	if syncCallback(cal) {
		return true
	}
	for i, a := range call.Call.Args {
		if a == arg && w.invokesParam(cal, i) {
			return true
		}
	}
	return false
}

// invokesParam: module function h calls its i-th parameter (a function value), and does
// nothing else with it (no store, no go, not passed on).
func (w *World) invokesParam(h *ssa.Function, i int) bool {
	if h == nil || !w.IsMod[h] || len(h.Blocks) == 0 || i >= len(h.Params) {
		return false
	}
	p := h.Params[i]
	if _, isSig := p.Type().Underlying().(*types.Signature); !isSig || p.Referrers() == nil {
		return false
	}
	n := 0
	for _, r := range *p.Referrers() {
		switch x := r.(type) {
		case *ssa.Call:
			if x.Call.Value != ssa.Value(p) {
				return false
			}
			for _, a := range x.Call.Args {
				if a == ssa.Value(p) {
					return false
				}
			}
			n++
		case *ssa.DebugRef:
		default:
			return false
		}
	}
	return n > 0
}

// calledFns: the module functions a call runs before it returns: its static callee and, for
// a synchronous combinator, the function values handed to it (literal or method value).
func (w *World) calledFns(call *ssa.Call) []*ssa.Function {
	var out []*ssa.Function
	if h := call.Call.StaticCallee(); h != nil {
		out = append(out, h)
	}
	for _, a := range call.Call.Args {
		switch x := a.(type) {
		case *ssa.MakeClosure:
			if w.runsArgSync(call, x) {
				if b := w.closureBody(x); b != nil {
					out = append(out, b)
				}
			}
		case *ssa.Function:
			if w.runsArgSync(call, x) {
				out = append(out, x)
			}
		}
	}
	return out
}

// translate expresses value v of helper h (an invocation made at call site hc) in the
// caller's terms.
func (w *World) translate(v ssa.Value, h *ssa.Function, hc *ssa.Call) ssa.Value {
	if v == nil {
		return nil
	}
	s := w.ss()
	if r, ok := s.syn[synKey{v, hc}]; ok {
		return r
	}
	r := w.translate1(v, h, hc)
	s.syn[synKey{v, hc}] = r
	if r != v {
		if _, isV := r.(*virtVal); !isV {
			if in, isIn := r.(ssa.Instruction); isIn && in.Block() == nil {
				s.synOrigin[r] = v
				s.synSite[r] = hc
				setBlock(r, hc.Block())
			}
		}
	}
	return r
}

func (w *World) blockOf(v ssa.Value) *ssa.BasicBlock {
	if in, ok := v.(ssa.Instruction); ok {
		return in.Block()
	}
	return nil
}

func (w *World) notePos(syn ssa.Instruction, orig ssa.Value, h *ssa.Function, hc *ssa.Call) {
	if w.synthPos == nil {
		w.synthPos = map[ssa.Instruction]string{}
	}
	if oi, ok := orig.(ssa.Instruction); ok {
		w.synthPos[syn] = w.instrPos(oi) + " (inside helper " + fname(h) + " called at " + w.instrPos(hc) + ")"
	}
}

func (w *World) translate1(v ssa.Value, h *ssa.Function, hc *ssa.Call) ssa.Value {
	switch x := v.(type) {
	case *ssa.Parameter:
		if x.Parent() == h {
			if i := paramIndex(x); i >= 0 && i < len(hc.Call.Args) {
				return hc.Call.Args[i]
			}
		}
		return v
	case *ssa.Const, *ssa.Global, *ssa.Function, *ssa.Builtin:
		return v
	case *virtVal:
		return w.virtOf(v, h, hc)
	case *ssa.Call:
		syn := &ssa.Call{}
		syn.Call.Method = x.Call.Method
		if x.Call.Method != nil {
			syn.Call.Value = w.translate(x.Call.Value, h, hc)
		} else {
			switch cv := x.Call.Value.(type) {
			case *ssa.Function, *ssa.Builtin:
				syn.Call.Value = cv
			default:
				return w.virtOf(v, h, hc) // dynamic call of a function value
			}
		}
		for _, a := range x.Call.Args {
			syn.Call.Args = append(syn.Call.Args, w.translate(a, h, hc))
		}
		setRegType(syn, x.Type())
		w.notePos(syn, x, h, hc)
		return syn
	case *ssa.Extract:
		t := w.translate(x.Tuple, h, hc)
		if _, isV := t.(*virtVal); isV {
			return w.virtOf(v, h, hc)
		}
		syn := &ssa.Extract{Tuple: t, Index: x.Index}
		setRegType(syn, x.Type())
		w.notePos(syn, x, h, hc)
		return syn
	case *ssa.Convert:
		syn := &ssa.Convert{X: w.translate(x.X, h, hc)}
		setRegType(syn, x.Type())
		return syn
	case *ssa.ChangeType:
		syn := &ssa.ChangeType{X: w.translate(x.X, h, hc)}
		setRegType(syn, x.Type())
		return syn
	case *ssa.MakeInterface:
		syn := &ssa.MakeInterface{X: w.translate(x.X, h, hc)}
		setRegType(syn, x.Type())
		return syn
	case *ssa.ChangeInterface:
		syn := &ssa.ChangeInterface{X: w.translate(x.X, h, hc)}
		setRegType(syn, x.Type())
		return syn
	case *ssa.BinOp:
		syn := &ssa.BinOp{Op: x.Op, X: w.translate(x.X, h, hc), Y: w.translate(x.Y, h, hc)}
		setRegType(syn, x.Type())
		return syn
	case *ssa.UnOp:
		if x.Op != token.MUL && x.Op != token.ARROW {
			syn := &ssa.UnOp{Op: x.Op, X: w.translate(x.X, h, hc)}
			setRegType(syn, x.Type())
			return syn
		}
		// a load of a field of a parameter whose location is stable is the same load in the
		// caller's terms; anything else is a value of that invocation only
		if r := w.resolveLoad(x); r != ssa.Value(x) {
			return w.translate(r, h, hc)
		}
		return w.virtOf(v, h, hc)
	}
	return w.virtOf(v, h, hc)
}

// virtOf: a virtual value whose key is v's key with h's parameters replaced by the
// arguments of hc. A key that mentions no parameter still identifies the helper's value, so
// a call-site tag keeps invocations apart.
func (w *World) virtOf(v ssa.Value, h *ssa.Function, hc *ssa.Call) ssa.Value {
	k := w.key(v)
	orig := k
	for i, p := range h.Params {
		if i < len(hc.Call.Args) {
			k = replaceKey(k, w.key(p), w.key(hc.Call.Args[i]))
		}
	}
	if k == orig && strings.Contains(k, ":"+fname(h)+":") && w.singleSiteCI(h) == nil {
		// a value computed inside a helper that has several call sites: private to this
		// invocation (a helper with one call site is part of its caller; a key that does not
		// mention the helper is already in outer terms)
		k += "@" + w.key(hc)
	}
	k = w.normCtorKey(k)
	return &virtVal{k: k, t: v.Type(), orig: v, site: hc}
}

// replaceKey replaces whole-token occurrences of old in s.
func replaceKey(s, old, new string) string {
	if old == "" || old == new {
		return s
	}
	out := ""
	for {
		i := indexToken(s, old)
		if i < 0 {
			return out + s
		}
		out += s[:i] + new
		s = s[i+len(old):]
	}
}

func indexToken(s, tok string) int {
	from := 0
	for {
		i := indexFrom(s, tok, from)
		if i < 0 {
			return -1
		}
		end := i + len(tok)
		if end == len(s) || !isKeyChar(s[end]) {
			return i
		}
		from = i + 1
	}
}

func indexFrom(s, sub string, from int) int {
	for i := from; i+len(sub) <= len(s); i++ {
		if s[i:i+len(sub)] == sub {
			return i
		}
	}
	return -1
}

func isKeyChar(c byte) bool {
	return c == '_' || c >= '0' && c <= '9' || c >= 'a' && c <= 'z' || c >= 'A' && c <= 'Z'
}

// helperFacts: the facts implied, in the caller's terms, by "result #idx of call hc has the
// given outcome" — the intersection over all returns of the callee that can produce the
// outcome of the must-facts holding there.
func (w *World) helperFacts(hc *ssa.Call, idx int, want string) []Fact {
	s := w.ss()
	k := hfKey{hc, idx, want}
	if r, ok := s.hf[k]; ok {
		return r
	}
	h := hc.Call.StaticCallee()
	if h == nil || !w.IsMod[h] || len(h.Blocks) == 0 || s.hfBusy[h] {
		return nil
	}
	if site, ok := s.synSite[hc]; ok && site != nil {
		_ = site // a synthetic call: its callee's facts are translated through the synthetic arguments
	}
	s.hfBusy[h] = true
	defer func() { s.hfBusy[h] = false }()
	ri := idx
	if ri < 0 {
		ri = 0
	}
	ai := w.absint()
	var acc map[string]Fact
	first := true
	for _, ret := range returnsOf(h) {
		if ri >= len(ret.Results) {
			continue
		}
		rv := w.resolveLoad(ret.Results[ri])
		match := false
		var extra []Fact
		switch want {
		case "nil", "nonnil":
			_, isC := stripIface(rv).(*ssa.Const)
			switch {
			case isC:
				match = isNilConst(stripIface(rv)) == (want == "nil")
			case ai.definitelyNonNil(rv):
				match = want == "nonnil"
			default:
				match = true
				decided := false
				for _, f := range w.factsAt(ret) {
					if x, isNilF, ok := nilFact(f); ok && stripIface(w.resolveLoad(x)) == stripIface(rv) {
						decided = true
						match = isNilF == (want == "nil")
					}
				}
				if !decided {
					extra = append(extra, Fact{Atom{"==", rv, ssa.NewConst(nil, rv.Type())}, want == "nil"})
				}
			}
		case "true", "false":
			if cst, ok := rv.(*ssa.Const); ok && cst.Value != nil && isBoolType(cst.Type()) {
				match = (cst.Value.String() == "true") == (want == "true")
			} else {
				match = true
				extra = append(extra, normCond(rv, want == "true")...)
			}
		}
		if !match {
			continue
		}
		set := map[string]Fact{}
		for _, f := range append(w.factsAt(ret), extra...) {
			tf := Fact{Atom{f.Op, w.translate(f.X, h, hc), w.translate(f.Y, h, hc)}, f.Truth}
			set[w.factStr(tf)] = tf
		}
		// what this return says about the call's OTHER results: (alloc, nil) — the value
		// returned next to a nil error is a fresh allocation; (entry, true) — the entry of a
		// comma-ok lookup in a table that never holds nil
		for j, rj := range ret.Results {
			if j == ri {
				continue
			}
			ex := extractOf(hc, j)
			if ex == nil {
				continue
			}
			switch rj.Type().Underlying().(type) {
			case *types.Pointer, *types.Interface, *types.Map, *types.Slice, *types.Chan, *types.Signature:
			default:
				continue
			}
			rjv := w.resolveLoad(rj)
			if ai.definitelyNonNil(rjv) || w.presentEntryOfNonNilTable(rjv, append(w.factsAt(ret), extra...)) || w.rangeValueOfNonNilMap(rjv) {
				nf := Fact{Atom{"==", ex, ssa.NewConst(nil, ex.Type())}, false}
				set[w.factStr(nf)] = nf
			}
		}
		if first {
			acc, first = set, false
		} else {
			for k := range acc {
				if _, ok := set[k]; !ok {
					delete(acc, k)
				}
			}
		}
	}
	var keys []string
	for k := range acc {
		keys = append(keys, k)
	}
	sort.Strings(keys)
	var out []Fact
	for _, k := range keys {
		out = append(out, acc[k])
	}
	s.hf[k] = out
	return out
}

// importFacts closes a fact list under helperFacts.
func (w *World) importFacts(facts []Fact) []Fact {
	facts = w.stdlibFacts(facts)
	seen := map[string]bool{}
	for _, f := range facts {
		seen[w.factStr(f)] = true
	}
	for i := 0; i < len(facts) && len(facts) < 4000; i++ {
		v, outcome := factOutcome(facts[i])
		if v == nil {
			continue
		}
		if phi, isPhi := w.resolveLoad(v).(*ssa.Phi); isPhi {
			// a merged value with a known outcome: what holds on every edge that can deliver
			// that outcome (err = phi(Get's error, CheckSize's error); err == nil rules out the
			// edge taken under Get's error != nil, so CheckSize(...) == nil holds)
			for _, nf := range w.phiOutcomeFacts(phi, outcome) {
				k := w.factStr(nf)
				if !seen[k] {
					seen[k] = true
					facts = append(facts, nf)
				}
			}
			continue
		}
		c, ci := callOf(w.resolveLoad(v))
		if c == nil {
			continue
		}
		h := c.Call.StaticCallee()
		if h == nil || !w.IsMod[h] {
			continue
		}
		for _, nf := range w.helperFacts(c, ci, outcome) {
			k := w.factStr(nf)
			if !seen[k] {
				seen[k] = true
				facts = append(facts, nf)
			}
		}
		// the result itself, seen through the helper: when the returns compatible with what
		// is known about the call's results (err == nil, ok == true, ...) all yield the same
		// value T for this result, the fact holds of T as well (existing == nil, with
		// existing = #0 of lookup(...) and err == nil, is GetChannelByNumber(...) == nil)
		if t := w.resultOriginIn(facts, c, ci); t != nil {
			nf := Fact{Atom{facts[i].Op, t, facts[i].Y}, facts[i].Truth}
			if facts[i].Op == "==" {
				if _, isNil, ok := nilFact(facts[i]); ok {
					nf = Fact{Atom{"==", t, ssa.NewConst(nil, t.Type())}, isNil}
				} else {
					continue
				}
			}
			k := w.factStr(nf)
			if !seen[k] {
				seen[k] = true
				facts = append(facts, nf)
			}
		}
	}
	return facts
}

// resultOriginIn: the value result #idx of helper call c stands for, given the outcomes of
// c's results recorded in facts (nil when the compatible returns disagree or there is none).
func (w *World) resultOriginIn(facts []Fact, c *ssa.Call, idx int) ssa.Value {
	h := c.Call.StaticCallee()
	if h == nil || !w.IsMod[h] || len(h.Blocks) == 0 || w.isSynthetic(c) {
		return nil
	}
	if idx < 0 {
		idx = 0
	}
	type oc struct {
		idx  int
		want string
	}
	var known []oc
	for _, f := range facts {
		x, outcome := factOutcome(f)
		if x == nil {
			continue
		}
		if fc, fi := callOf(w.resolveLoad(x)); fc == c {
			if fi < 0 {
				fi = 0
			}
			if fi != idx {
				known = append(known, oc{fi, outcome})
			}
		}
	}
	if len(known) == 0 {
		return nil
	}
	ai := w.absint()
	var got ssa.Value
	gk := ""
	for _, ret := range returnsOf(h) {
		if idx >= len(ret.Results) {
			return nil
		}
		compatible := true
		for _, k := range known {
			if k.idx >= len(ret.Results) {
				continue
			}
			rv := stripIface(w.resolveLoad(ret.Results[k.idx]))
			switch k.want {
			case "nil", "nonnil":
				if cst, isC := rv.(*ssa.Const); isC {
					if isNilConst(cst) != (k.want == "nil") {
						compatible = false
					}
				} else if ai.definitelyNonNil(rv) && k.want == "nil" {
					compatible = false
				} else {
					// the return may sit on an edge that decides the value's nil-ness
					for _, rf := range w.factsAt(ret) {
						if fv, isNil, ok := nilFact(rf); ok && (fv == rv || w.sameKey(fv, rv)) && isNil != (k.want == "nil") {
							compatible = false
						}
					}
				}
			case "true", "false":
				if cst, isC := rv.(*ssa.Const); isC && cst.Value != nil && isBoolType(cst.Type()) {
					if (cst.Value.String() == "true") != (k.want == "true") {
						compatible = false
					}
				}
			}
		}
		if !compatible {
			continue
		}
		tv := w.translate(w.resolveLoad(ret.Results[idx]), h, c)
		k := w.key(tv)
		if got == nil {
			got, gk = tv, k
		} else if k != gk {
			return nil
		}
	}
	if got == nil {
		return nil
	}
	if _, isC := got.(*ssa.Const); isC {
		return nil
	}
	return got
}

// origin resolves a value through helper boundaries: result #i of a call to a module
// function whose returns all yield the same (translated) value is that value.
func (w *World) origin(v ssa.Value) ssa.Value {
	for n := 0; n < 6; n++ {
		v = w.resolveLoad(v)
		c, idx := callOf(v)
		if c == nil {
			return v
		}
		h := c.Call.StaticCallee()
		if h == nil || !w.IsMod[h] || len(h.Blocks) == 0 {
			return v
		}
		if idx < 0 {
			idx = 0
		}
		var got ssa.Value
		gk := ""
		ok := true
		for _, ret := range returnsOf(h) {
			if idx >= len(ret.Results) {
				ok = false
				break
			}
			tv := w.translate(w.resolveLoad(ret.Results[idx]), h, c)
			k := w.key(tv)
			if got == nil {
				got, gk = tv, k
			} else if k != gk {
				ok = false
				break
			}
		}
		if !ok || got == nil {
			return v
		}
		if _, isV := got.(*virtVal); isV {
			return v
		}
		v = got
	}
	return v
}

// deepHit lifts an instruction predicate used in must-pass checks over helper calls: a
// static call of a module function counts as a hit when every path through that function
// (entry to any return) passes a hit, recursively.
func (w *World) deepHit(hit func(ssa.Instruction) bool) func(ssa.Instruction) bool {
	memo := map[*ssa.Function]int{} // 1 busy/false, 2 true
	var deep func(in ssa.Instruction) bool
	deep = func(in ssa.Instruction) bool {
		if hit(in) {
			return true
		}
		c, ok := in.(*ssa.Call)
		if !ok {
			return false
		}
		h := c.Call.StaticCallee()
		if b := w.syncCallbackBody(c); b != nil {
			h = b // once.Do(f): the first call runs f
		}
		if h == nil || !w.IsMod[h] || len(h.Blocks) == 0 {
			return false
		}
		switch memo[h] {
		case 1:
			return false
		case 2:
			return true
		}
		memo[h] = 1
		ok2, _ := mustPassBefore(h.Blocks[0], deep, func(*ssa.BasicBlock) bool { return false })
		if ok2 {
			memo[h] = 2
		}
		return ok2
	}
	return deep
}

// instrDominates: a executes before b on every path reaching b (same function).
func instrDominates(a, b ssa.Instruction) bool {
	if a.Block() == nil || b.Block() == nil || a.Parent() != b.Parent() {
		return false
	}
	if a.Block() == b.Block() {
		return indexIn(a) < indexIn(b)
	}
	return a.Block().Dominates(b.Block())
}

// domHit: some instruction that (deeply) performs `hit` dominates `at`, in at's function or —
// when that function is a single-call-site helper — before its call site, transitively.
func (w *World) domHit(at ssa.Instruction, hit func(ssa.Instruction) bool) bool {
	deep := w.deepHit(hit)
	for n := 0; at != nil && n < 8; n++ {
		found := false
		w.eachInstr(at.Parent(), func(in ssa.Instruction) {
			if !found && in != at && deep(in) && instrDominates(in, at) {
				found = true
			}
		})
		if found {
			return true
		}
		site := w.singleSiteCI(at.Parent())
		if site == nil {
			return false
		}
		at = site
	}
	return false
}

// rootOf: the function a single-call-site helper belongs to (itself otherwise).
func (w *World) rootOf(fn *ssa.Function) *ssa.Function {
	for n := 0; n < 8; n++ {
		site := w.singleSiteCI(fn)
		if site == nil {
			return fn
		}
		fn = site.Parent()
	}
	return fn
}

// isBoundWrapper: fn is the compiler-made wrapper behind a method value (x.m).
func isBoundWrapper(fn *ssa.Function) bool {
	return fn != nil && len(fn.Synthetic) >= 20 && fn.Synthetic[:20] == "bound method wrapper"
}

// closureBody: the function a closure value runs: the literal itself, or — for a method
// value x.m — the method m (whose receiver is then keyed as x when this is its only use).
func (w *World) closureBody(mc *ssa.MakeClosure) *ssa.Function {
	fn, _ := mc.Fn.(*ssa.Function)
	if !isBoundWrapper(fn) {
		return fn
	}
	var target *ssa.Function
	w.eachInstr(fn, func(in ssa.Instruction) {
		if c, ok := in.(*ssa.Call); ok && c.Call.StaticCallee() != nil {
			target = c.Call.StaticCallee()
		}
	})
	if target == nil {
		return fn
	}
	return target
}

// realOf: the helper-side instruction behind a synthetic value (v itself otherwise).
func (w *World) realOf(v ssa.Value) ssa.Value {
	for n := 0; n < 8; n++ {
		o, ok := w.ss().synOrigin[v]
		if !ok {
			return v
		}
		v = o
	}
	return v
}

// originAt resolves result #i of a helper call as seen at instruction `at`: only the
// helper's returns compatible with the must-facts at `at` about the call's results (ok ==
// true, err == nil, ...) are considered; when they agree on the translated value, that value
// is returned together with those returns. Otherwise v is returned unchanged.
func (w *World) originAt(v ssa.Value, at ssa.Instruction) (ssa.Value, []*ssa.Return, *ssa.Call) {
	v = w.resolveLoad(v)
	c, idx := callOf(v)
	if c == nil {
		return v, nil, nil
	}
	h := c.Call.StaticCallee()
	if h == nil || !w.IsMod[h] || len(h.Blocks) == 0 {
		return v, nil, nil
	}
	if idx < 0 {
		idx = 0
	}
	type oc struct {
		idx  int
		want string
	}
	var known []oc
	for _, f := range w.factsAt(at) {
		x, outcome := factOutcome(f)
		if x == nil {
			continue
		}
		if fc, fi := callOf(w.resolveLoad(x)); fc == c || (fc != nil && w.isSynthetic(c) && w.isSynthetic(fc) && w.key(fc) == w.key(c)) {
			if fi < 0 {
				fi = 0
			}
			known = append(known, oc{fi, outcome})
		}
	}
	ai := w.absint()
	var rets []*ssa.Return
	var got ssa.Value
	gk := ""
	for _, ret := range returnsOf(h) {
		if idx >= len(ret.Results) {
			return v, nil, nil
		}
		compatible := true
		for _, k := range known {
			if k.idx >= len(ret.Results) {
				continue
			}
			rv := stripIface(w.resolveLoad(ret.Results[k.idx]))
			switch k.want {
			case "nil", "nonnil":
				if cst, isC := rv.(*ssa.Const); isC {
					if isNilConst(cst) != (k.want == "nil") {
						compatible = false
					}
				} else if ai.definitelyNonNil(rv) && k.want == "nil" {
					compatible = false
				} else {
					// the return may sit on an edge that decides the value's nil-ness
					for _, rf := range w.factsAt(ret) {
						if fv, isNil, ok := nilFact(rf); ok && (fv == rv || w.sameKey(fv, rv)) && isNil != (k.want == "nil") {
							compatible = false
						}
					}
				}
			case "true", "false":
				if cst, isC := rv.(*ssa.Const); isC && cst.Value != nil && isBoolType(cst.Type()) {
					if (cst.Value.String() == "true") != (k.want == "true") {
						compatible = false
					}
				}
			}
		}
		if !compatible {
			continue
		}
		tv := w.translate(w.resolveLoad(ret.Results[idx]), h, c)
		k := w.key(tv)
		if got == nil {
			got, gk = tv, k
		} else if k != gk {
			return v, nil, nil
		}
		rets = append(rets, ret)
	}
	if got == nil {
		return v, nil, nil
	}
	return got, rets, c
}

// eachCallThrough visits the calls of fn and, through static calls of unexported module
// functions (depth-limited), the calls of those helpers; resolve maps a helper-side value to
// the outermost caller's terms (parameters become arguments, constants stay constants).
func (w *World) eachCallThrough(fn *ssa.Function, depth int, cb func(call *ssa.Call, resolve func(ssa.Value) ssa.Value)) {
	w.eachCallThroughX(fn, depth, false, cb)
}

// eachCallThroughX: with exportedToo, exported module functions are entered as well.
func (w *World) eachCallThroughX(fn *ssa.Function, depth int, exportedToo bool, cb func(call *ssa.Call, resolve func(ssa.Value) ssa.Value)) {
	var visit func(f *ssa.Function, xl func(ssa.Value) ssa.Value, d int, stack []*ssa.Function)
	visit = func(f *ssa.Function, xl func(ssa.Value) ssa.Value, d int, stack []*ssa.Function) {
		for _, s := range stack {
			if s == f {
				return
			}
		}
		stack = append(stack, f)
		w.eachInstr(f, func(in ssa.Instruction) {
			call, ok := in.(*ssa.Call)
			if !ok {
				return
			}
			cb(call, xl)
			h := call.Call.StaticCallee()
			if h == nil || !w.IsMod[h] || len(h.Blocks) == 0 || d <= 0 {
				return
			}
			if obj := h.Object(); !exportedToo && (obj == nil || obj.Exported()) {
				return
			}
			visit(h, func(v ssa.Value) ssa.Value { return xl(w.translate(v, h, call)) }, d-1, stack)
		})
	}
	visit(fn, func(v ssa.Value) ssa.Value { return v }, depth, nil)
}

// leafCtx: one non-phi value a (possibly phi) value can take, with the must-facts that hold
// where it is selected: at the use itself for a plain value, at the end of the predecessor
// block (plus the edge condition) for a phi operand.
type leafCtx struct {
	val   ssa.Value
	facts []Fact
	at    string
}

// guardedLeaves enumerates the feasible non-phi leaves of v as used at instruction `at`.
// Facts are about SSA values of the iteration in which the operand was selected, so a
// "found" variable carried around a loop keeps the facts of the iteration that set it.
func (w *World) guardedLeaves(v ssa.Value, at ssa.Instruction) []leafCtx {
	var out []leafCtx
	seen := map[*ssa.Phi]bool{}
	seenAlloc := map[*ssa.Alloc]bool{}
	var walk func(v ssa.Value, facts []Fact, where string)
	walk = func(v ssa.Value, facts []Fact, where string) {
		v = w.resolveLoad(v)
		// a local kept in memory (a named result read after a defer, a variable assigned in
		// several places): every store is a way the value can come about, plus the zero value
		if ld, isLd := v.(*ssa.UnOp); isLd && ld.Op == token.MUL {
			if al, isAl := ld.X.(*ssa.Alloc); isAl && !w.escapes(al) && !seenAlloc[al] {
				if ss := w.stores[w.locKey(al)]; len(ss) > 0 {
					seenAlloc[al] = true
					for _, st := range ss {
						if sv, isLd := st.Val.(*ssa.UnOp); isLd && sv.Op == token.MUL && sv.X == ssa.Value(al) {
							continue // x = x (a named result copied back before the deferred calls run)
						}
						walk(st.Val, w.factsAt(st), w.instrPos(st))
					}
					if zero := zeroConstOf(ld.Type()); zero != nil {
						out = append(out, leafCtx{zero, nil, "zero value of " + al.Comment})
					}
					return
				}
			}
		}
		phi, ok := v.(*ssa.Phi)
		if !ok {
			out = append(out, leafCtx{v, facts, where})
			return
		}
		if seen[phi] {
			return
		}
		seen[phi] = true
		for i, e := range phi.Edges {
			pred := phi.Block().Preds[i]
			if deadEdge(pred, phi.Block()) {
				continue
			}
			if e == ssa.Value(phi) {
				continue
			}
			var fs []Fact
			if len(pred.Instrs) > 0 {
				fs = append(fs, w.factsAt(pred.Instrs[0])...)
			}
			fs = append(fs, edgeFacts(pred, phi.Block())...)
			fs = w.importFacts(fs)
			walk(e, fs, w.instrPos(pred.Instrs[len(pred.Instrs)-1]))
		}
	}
	if at == nil {
		walk(v, nil, "-")
		return out
	}
	walk(v, w.factsAt(at), w.instrPos(at))
	return out
}

// bodyRoot: the named function whose body fn belongs to: function literals belong to the
// function that declares them, single-call-site helpers to their caller.
func (w *World) bodyRoot(fn *ssa.Function) *ssa.Function {
	for n := 0; n < 16 && fn != nil; n++ {
		if fn.Parent() != nil {
			fn = fn.Parent()
			continue
		}
		if isBoundWrapper(fn) {
			// the wrapper behind a method value belongs to the function that makes the value
			if mcs := w.Closures[fn]; len(mcs) == 1 {
				fn = mcs[0].Parent()
				continue
			}
			return fn
		}
		site := w.singleSiteCI(fn)
		if site == nil {
			return fn
		}
		fn = site.Parent()
	}
	return fn
}

// phiOutcomeFacts: facts implied by "phi has the given outcome" (nil / nonnil / true /
// false): the intersection, over the edges whose operand can have that outcome, of the
// must-facts at the end of the edge's predecessor, the edge condition, and the operand
// having the outcome. An edge is ruled out when its own facts say the operand has the
// opposite outcome, or when the operand is a constant of the opposite outcome.
func (w *World) phiOutcomeFacts(phi *ssa.Phi, outcome string) []Fact {
	st := w.ss()
	if st.phiBusy == nil {
		st.phiBusy = map[*ssa.Phi]bool{}
	}
	if st.phiBusy[phi] {
		return nil
	}
	st.phiBusy[phi] = true
	defer delete(st.phiBusy, phi)
	outcomeFact := func(v ssa.Value, oc string) Fact {
		switch oc {
		case "nil":
			return Fact{Atom{"==", v, ssa.NewConst(nil, v.Type())}, true}
		case "nonnil":
			return Fact{Atom{"==", v, ssa.NewConst(nil, v.Type())}, false}
		case "true":
			return Fact{Atom{"true", v, nil}, true}
		default:
			return Fact{Atom{"true", v, nil}, false}
		}
	}
	opposite := map[string]string{"nil": "nonnil", "nonnil": "nil", "true": "false", "false": "true"}
	var acc map[string]Fact
	first := true
	for i, e := range phi.Edges {
		pred := phi.Block().Preds[i]
		if deadEdge(pred, phi.Block()) || e == ssa.Value(phi) {
			continue
		}
		if phi.Block().Dominates(pred) {
			// a loop-carried operand: facts of an earlier iteration say nothing about the
			// values as they are when the phi is used
			return nil
		}
		ev := w.resolveLoad(e)
		// constants decide
		if cst, ok := stripIface(ev).(*ssa.Const); ok {
			switch outcome {
			case "nil", "nonnil":
				if (cst.Value == nil) != (outcome == "nil") {
					continue
				}
			case "true", "false":
				if cst.Value != nil && isBoolType(cst.Type()) && (cst.Value.String() == "true") != (outcome == "true") {
					continue
				}
			}
		}
		var fs []Fact
		if len(pred.Instrs) > 0 {
			fs = append(fs, w.factsAt(pred.Instrs[0])...)
		}
		fs = append(fs, edgeFacts(pred, phi.Block())...)
		// ruled out by its own edge?
		contra := w.factStr(outcomeFact(ev, opposite[outcome]))
		infeasible := false
		for _, f := range fs {
			if w.factStr(f) == contra {
				infeasible = true
			}
		}
		if infeasible {
			continue
		}
		if _, isC := stripIface(ev).(*ssa.Const); !isC {
			fs = append(fs, outcomeFact(ev, outcome))
		}
		fs = w.importFacts(fs)
		set := map[string]Fact{}
		for _, f := range fs {
			set[w.factStr(f)] = f
		}
		if first {
			acc, first = set, false
		} else {
			for k := range acc {
				if _, ok := set[k]; !ok {
					delete(acc, k)
				}
			}
		}
	}
	var keys []string
	for k := range acc {
		keys = append(keys, k)
	}
	sort.Strings(keys)
	var out []Fact
	for _, k := range keys {
		out = append(out, acc[k])
	}
	return out
}

// presentEntryOfNonNilTable: v is result #0 of a comma-ok lookup m[k] whose #1 is known true
// at ret (it is returned as another result that is the constant/known true there, or a
// must-fact says so), and no nil is ever stored into that map field anywhere in the module.
func (w *World) presentEntryOfNonNilTable(v ssa.Value, facts []Fact) bool {
	ex, ok := stripIface(v).(*ssa.Extract)
	if !ok || ex.Index != 0 {
		return false
	}
	lk, ok := ex.Tuple.(*ssa.Lookup)
	if !ok || !lk.CommaOk {
		return false
	}
	present := false
	for _, f := range facts {
		if f.Op == "true" && f.Truth {
			if e1, isE := f.X.(*ssa.Extract); isE && e1.Tuple == ssa.Value(lk) && e1.Index == 1 {
				present = true
			}
		}
	}
	if !present {
		return false
	}
	_, fld, isF := fieldLoad(w.resolveLoad(lk.X))
	return isF && w.mapNeverHoldsNil(fld)
}

// mapNeverHoldsNil: every MapUpdate on a map loaded from field fld stores a value that is
// definitely non-nil (a fresh allocation, or a parameter all of whose module call sites pass
// one, depth ≤ 2).
func (w *World) mapNeverHoldsNil(fld *types.Var) bool {
	st := w.ss()
	if st.mapNN == nil {
		st.mapNN = map[*types.Var]int{}
	}
	switch st.mapNN[fld] {
	case 1:
		return false
	case 2:
		return true
	}
	st.mapNN[fld] = 1
	nonNil := w.nonNilValue
	n := 0
	ok := true
	for _, fn := range w.ModFns {
		w.eachInstr(fn, func(in ssa.Instruction) {
			mu, isMU := in.(*ssa.MapUpdate)
			if !isMU {
				return
			}
			if _, f, isF := fieldLoad(w.resolveLoad(mu.Map)); !isF || f != fld {
				return
			}
			n++
			if !nonNil(mu.Value, 3) {
				ok = false
			}
		})
	}
	if ok && n > 0 {
		st.mapNN[fld] = 2
		return true
	}
	return false
}

// deepHitCtx is deepHit for predicates that compare values with the root function's own
// (parameters, locals): the predicate gets a resolver that expresses a helper's value in the
// root's terms (through every call site on the way), so helpers with several call sites are
// judged per call.
func (w *World) deepHitCtx(hit func(in ssa.Instruction, rs func(ssa.Value) ssa.Value) bool) func(ssa.Instruction) bool {
	var mk func(rs func(ssa.Value) ssa.Value, stack []*ssa.Function) func(ssa.Instruction) bool
	mk = func(rs func(ssa.Value) ssa.Value, stack []*ssa.Function) func(ssa.Instruction) bool {
		return func(in ssa.Instruction) bool {
			if hit(in, rs) {
				return true
			}
			c, ok := in.(*ssa.Call)
			if !ok {
				return false
			}
			h := c.Call.StaticCallee()
			if h == nil || !w.IsMod[h] || len(h.Blocks) == 0 || len(stack) > 3 {
				return false
			}
			for _, s := range stack {
				if s == h {
					return false
				}
			}
			inner := mk(func(v ssa.Value) ssa.Value { return rs(w.translate(v, h, c)) }, append(append([]*ssa.Function{}, stack...), h))
			ok2, _ := mustPassBefore(h.Blocks[0], inner, func(*ssa.BasicBlock) bool { return false })
			return ok2
		}
	}
	return mk(func(v ssa.Value) ssa.Value { return v }, nil)
}

// topOf: the instruction of root through which `in` is reached (in itself when it belongs to
// root; the call / go / defer / closure creation that leads into the helper or literal
// containing it otherwise). nil when in is not part of root's body.
func (w *World) topOf(in ssa.Instruction, root *ssa.Function) ssa.Instruction {
	for n := 0; n < 16 && in != nil; n++ {
		fn := in.Parent()
		if fn == root {
			return in
		}
		if isBoundWrapper(fn) || fn.Parent() != nil {
			mcs := w.Closures[fn]
			if len(mcs) != 1 {
				return nil
			}
			// an immediately invoked literal is entered at its call
			if site := w.singleSiteCI(fn); site != nil {
				in = site
			} else {
				in = mcs[0]
			}
			continue
		}
		site := w.singleSiteCI(fn)
		if site == nil {
			return nil
		}
		in = site
	}
	return nil
}

// zeroConstOf: the zero value of a nil-able or basic type as a constant (nil otherwise).
func zeroConstOf(t types.Type) ssa.Value {
	switch t.Underlying().(type) {
	case *types.Pointer, *types.Interface, *types.Slice, *types.Map, *types.Chan, *types.Signature:
		return ssa.NewConst(nil, t)
	}
	return nil
}

// tableLookup: v is the result of looking a key up in the table field tbl of some object —
// nil, or an element of the table selected under elem.Number == key (kind "Number") or
// AddrEqual(elem.Peer, key) (kind "Peer"). Recognised through any module function whose
// returned values are all such selections (GetChannelByNumber, GetChannelByAddr, a combined
// one-pass lookup returning both, ...). key and recv are expressed at the call site.
func (w *World) tableLookup(v ssa.Value, tbl *types.Var, addrEq *ssa.Function, depth int) (kind string, key, recv ssa.Value, ok bool) {
	v = stripIface(w.resolveLoad(v))
	c, idx := callOf(v)
	if c == nil || depth <= 0 {
		return "", nil, nil, false
	}
	h := c.Call.StaticCallee()
	if h == nil || !w.IsMod[h] || len(h.Blocks) == 0 || len(h.Params) == 0 {
		return "", nil, nil, false
	}
	if idx < 0 {
		idx = 0
	}
	var kp *ssa.Parameter
	n := 0
	for _, r := range returnsOf(h) {
		if idx >= len(r.Results) {
			return "", nil, nil, false
		}
		for _, lf := range w.guardedLeaves(r.Results[idx], r) {
			leaf := stripIface(lf.val)
			if isNilConst(leaf) {
				continue
			}
			// forwarding another lookup
			if ic, _ := callOf(leaf); ic != nil {
				k2, key2, recv2, ok2 := w.tableLookup(leaf, tbl, addrEq, depth-1)
				p2 := rawParamOf(key2, h)
				if !ok2 || p2 == nil || !w.sameKey(recv2, h.Params[0]) || (kind != "" && kind != k2) || (kp != nil && kp != p2) {
					return "", nil, nil, false
				}
				kind, kp = k2, p2
				n++
				continue
			}
			// an element of the receiver's table
			if !derivesFromTable(w, leaf, tbl) {
				if os.Getenv("TURNCHECK_TLDEBUG") != "" {
					fmt.Fprintf(os.Stderr, "TL %s#%d: leaf %s (%T) not from table\n", fname(h), idx, w.key(leaf), leaf)
				}
				return "", nil, nil, false
			}
			lk, lp := "", (*ssa.Parameter)(nil)
			for _, f := range lf.facts {
				if f.Op == "==" && f.Truth {
					for _, pair := range [][2]ssa.Value{{f.X, f.Y}, {f.Y, f.X}} {
						if w.isFieldLoadOf(pair[0], leaf, "Number") {
							if p := rawParamOf(pair[1], h); p != nil {
								lk, lp = "Number", p
							}
						}
					}
				}
				if f.Op == "true" && f.Truth {
					if ec, _ := callOf(f.X); ec != nil && ec.Call.StaticCallee() == addrEq && len(ec.Call.Args) == 2 {
						for _, pair := range [][2]ssa.Value{{ec.Call.Args[0], ec.Call.Args[1]}, {ec.Call.Args[1], ec.Call.Args[0]}} {
							if w.isFieldLoadOf(pair[0], leaf, "Peer") {
								if p := rawParamOf(pair[1], h); p != nil {
									lk, lp = "Peer", p
								}
							}
						}
					}
				}
			}
			if lk == "" || (kind != "" && kind != lk) || (kp != nil && kp != lp) {
				if os.Getenv("TURNCHECK_TLDEBUG") != "" {
					fmt.Fprintf(os.Stderr, "TL %s#%d: leaf %s selected under no key test (lk=%q kind=%q) facts=%d at %s\n", fname(h), idx, w.key(leaf), lk, kind, len(lf.facts), lf.at)
					for _, f := range lf.facts {
						fmt.Fprintf(os.Stderr, "     %s\n", w.factStr(f))
					}
				}
				return "", nil, nil, false
			}
			kind, kp = lk, lp
			n++
		}
	}
	if n == 0 || kp == nil {
		return "", nil, nil, false
	}
	i := paramIndex(kp)
	if i < 0 || i >= len(c.Call.Args) {
		return "", nil, nil, false
	}
	return kind, c.Call.Args[i], c.Call.Args[0], true
}

// rawParamOf: v is (a conversion of) a parameter of h — without following the parameter to
// the argument of a single call site.
func rawParamOf(v ssa.Value, h *ssa.Function) *ssa.Parameter {
	for i := 0; i < 6; i++ {
		switch x := v.(type) {
		case *ssa.Parameter:
			if x.Parent() == h {
				return x
			}
			return nil
		case *ssa.MakeInterface:
			v = x.X
		case *ssa.ChangeInterface:
			v = x.X
		case *ssa.ChangeType:
			v = x.X
		case *ssa.Convert:
			v = x.X
		default:
			return nil
		}
	}
	return nil
}

// rangeValueOfNonNilMap: v is the value variable of `for _, v := range x.field` over a map
// field into which no nil is ever stored.
func (w *World) rangeValueOfNonNilMap(v ssa.Value) bool {
	ex, ok := stripIface(w.resolveLoad(v)).(*ssa.Extract)
	if !ok || ex.Index != 2 {
		return false
	}
	nx, ok := ex.Tuple.(*ssa.Next)
	if !ok {
		return false
	}
	rg, ok := nx.Iter.(*ssa.Range)
	if !ok {
		return false
	}
	_, fld, isF := fieldLoad(w.resolveLoad(rg.X))
	if !isF {
		return false
	}
	if _, isMap := fld.Type().Underlying().(*types.Map); !isMap {
		return false
	}
	return w.mapNeverHoldsNil(fld)
}

// liftedCall: a call of some target function as seen from an enclosing function of interest:
// the call may be made by a forwarding helper (deliver(conn, data, from) calling
// conn.HandleInbound(data, from)); args are then the helper's arguments at its call site.
type liftedCall struct {
	fn   *ssa.Function       // the function of interest (or the direct caller when none is reached)
	at   ssa.CallInstruction // the call site inside fn
	args []ssa.Value         // the target's arguments in fn's terms
	orig ssa.CallInstruction // the call of the target this was lifted from
}

// liftCalls enumerates the calls of target, lifted through unexported forwarding helpers
// (depth-limited) until a function accepted by stop is reached.
func (w *World) liftCalls(target *ssa.Function, stop func(*ssa.Function) bool, depth int) []liftedCall {
	var out []liftedCall
	var orig ssa.CallInstruction
	var lift func(cs ssa.CallInstruction, args []ssa.Value, d int)
	lift = func(cs ssa.CallInstruction, args []ssa.Value, d int) {
		fn := cs.Parent()
		if stop(fn) || d <= 0 || fn.Parent() != nil || fn.Object() == nil || fn.Object().Exported() {
			out = append(out, liftedCall{fn, cs, args, orig})
			return
		}
		sites := w.callsTo(fn)
		if len(sites) == 0 {
			out = append(out, liftedCall{fn, cs, args, orig})
			return
		}
		for _, cs2 := range sites {
			if cs2.Parent().Synthetic != "" {
				continue
			}
			args2 := make([]ssa.Value, len(args))
			for i, a := range args {
				args2[i] = a
				if p := rawParamOf(a, fn); p != nil {
					if j := paramIndex(p); j >= 0 && j < len(cs2.Common().Args) {
						args2[i] = cs2.Common().Args[j]
					}
				} else if call2, isCall := cs2.(*ssa.Call); isCall {
					// a value computed in the helper from its parameters (append(attrs, mi)):
					// the same expression over the arguments of this call
					if _, isConst := a.(*ssa.Const); !isConst {
						args2[i] = w.translate(a, fn, call2)
					}
				}
			}
			lift(cs2, args2, d-1)
		}
	}
	for _, cs := range w.callsTo(target) {
		orig = cs
		lift(cs, cs.Common().Args, depth)
	}
	return out
}

// deepLeaves: the values v can take, with phis opened (feasible edges only), results of
// module helpers replaced by what the helper returns (recursively, not through functions
// accepted by stop), and — inside such a helper — the results of calls of one of its function
// parameters replaced by what the function value handed in at that call site returns
// (retry(func() error { return c.bind(b) }) yields the bind(b) call). Leaves are real
// instructions of the function they occur in (not translated); complete reports whether
// every leaf could be followed to its end.
func (w *World) deepLeaves(v ssa.Value, stop func(*ssa.Function) bool, depth int) (leaves []ssa.Value, complete bool) {
	type frame struct {
		h    *ssa.Function
		site *ssa.Call
	}
	complete = true
	seen := map[ssa.Value]bool{}
	var walk func(v ssa.Value, ctx []frame, d int)
	resultsOf := func(h *ssa.Function, idx int, ctx []frame, d int) {
		for _, r := range returnsOf(h) {
			if idx >= len(r.Results) {
				complete = false
				continue
			}
			walk(r.Results[idx], ctx, d)
		}
	}
	walk = func(v ssa.Value, ctx []frame, d int) {
		for _, l := range liveLeaves(w.resolveLoad(v)) {
			l = w.resolveLoad(l)
			if _, isPhi := l.(*ssa.Phi); isPhi {
				if !seen[l] {
					seen[l] = true
					walk(l, ctx, d)
				}
				continue
			}
			call, idx := callOf(l)
			if call == nil || d <= 0 {
				leaves = append(leaves, l)
				continue
			}
			if idx < 0 {
				idx = 0
			}
			if h := call.Call.StaticCallee(); h != nil {
				if !w.IsMod[h] || len(h.Blocks) == 0 || stop(h) || seen[call] {
					leaves = append(leaves, l)
					continue
				}
				seen[call] = true
				resultsOf(h, idx, append(append([]frame{}, ctx...), frame{h, call}), d-1)
				continue
			}
			// a call of a function parameter of the enclosing helper
			if p, isP := call.Call.Value.(*ssa.Parameter); isP && len(ctx) > 0 && ctx[len(ctx)-1].h == p.Parent() && !call.Call.IsInvoke() {
				top := ctx[len(ctx)-1]
				j := paramIndex(p)
				if j >= 0 && j < len(top.site.Call.Args) {
					var body *ssa.Function
					switch a := top.site.Call.Args[j].(type) {
					case *ssa.MakeClosure:
						body = w.closureBody(a)
					case *ssa.Function:
						body = a
					}
					if body != nil && len(body.Blocks) > 0 && w.IsMod[body] {
						if stop(body) {
							// the function value IS the stop function (method value): the leaf is its call
							leaves = append(leaves, l)
							continue
						}
						resultsOf(body, idx, ctx[:len(ctx)-1], d-1)
						continue
					}
				}
			}
			leaves = append(leaves, l)
		}
	}
	walk(v, nil, depth)
	return leaves, complete
}

// partOf: fn is root itself or a single-call-site helper (transitively) of it.
func (w *World) partOf(fn, root *ssa.Function) bool {
	for n := 0; n < 8 && fn != nil; n++ {
		if fn == root {
			return true
		}
		site := w.singleSiteCI(fn)
		if site == nil {
			return false
		}
		fn = site.Parent()
	}
	return false
}

// accShape: a lookup accessor — a method whose only result is recv.<field>[K(arg)] (K a static
// function of the argument, or the argument itself), e.g. GetPermission.
type accShape struct {
	field *types.Var
	keyFn *ssa.Function
}

func (w *World) accessorShape(h *ssa.Function) *accShape {
	s := w.ss()
	if s.accShapes == nil {
		s.accShapes = map[*ssa.Function]*accShape{}
	}
	if r, ok := s.accShapes[h]; ok {
		return r
	}
	s.accShapes[h] = nil
	if h == nil || len(h.Blocks) == 0 || len(h.Params) != 2 {
		return nil
	}
	rets := returnsOf(h)
	if len(rets) != 1 || len(rets[0].Results) != 1 {
		return nil
	}
	lk, ok := w.resolveLoad(rets[0].Results[0]).(*ssa.Lookup)
	if !ok || lk.CommaOk {
		return nil
	}
	base, fld, isL := fieldLoad(lk.X)
	if !isL || rawParamOf(base, h) != h.Params[0] {
		return nil
	}
	sh := &accShape{field: fld}
	idx := stripIface(lk.Index)
	if kc, isC := idx.(*ssa.Call); isC {
		if kc.Call.StaticCallee() == nil || len(kc.Call.Args) != 1 || rawParamOf(kc.Call.Args[0], h) != h.Params[1] {
			return nil
		}
		sh.keyFn = kc.Call.StaticCallee()
	} else if rawParamOf(idx, h) != h.Params[1] {
		return nil
	}
	s.accShapes[h] = sh
	return sh
}

// asAccessorCall: v is the accessor's lookup written out in place (x.<field>[K(y)], plain or
// the value of a comma-ok lookup): the equivalent call h(x, y) as a synthetic value placed
// where the lookup is. nil when v is not that lookup.
func (w *World) asAccessorCall(v ssa.Value, h *ssa.Function) *ssa.Call {
	sh := w.accessorShape(h)
	if sh == nil {
		return nil
	}
	v = stripIface(w.resolveLoad(v))
	if ex, ok := v.(*ssa.Extract); ok && ex.Index == 0 {
		v = ex.Tuple
	}
	lk, ok := v.(*ssa.Lookup)
	if !ok {
		return nil
	}
	s := w.ss()
	if s.accCalls == nil {
		s.accCalls = map[ssa.Value]*ssa.Call{}
	}
	if r, ok := s.accCalls[lk]; ok {
		return r
	}
	s.accCalls[lk] = nil
	base, fld, isL := fieldLoad(w.resolveLoad(lk.X))
	if !isL || fld != sh.field {
		return nil
	}
	var arg ssa.Value
	idx := stripIface(w.resolveLoad(lk.Index))
	if sh.keyFn != nil {
		kc, isC := idx.(*ssa.Call)
		if !isC || kc.Call.StaticCallee() != sh.keyFn || len(kc.Call.Args) != 1 {
			return nil
		}
		arg = kc.Call.Args[0]
	} else {
		arg = idx
	}
	syn := &ssa.Call{}
	syn.Call.Value = h
	syn.Call.Args = []ssa.Value{base, arg}
	setRegType(syn, h.Signature.Results().At(0).Type())
	setBlock(syn, lk.Block())
	s.synOrigin[syn] = lk
	if w.synthPos == nil {
		w.synthPos = map[ssa.Instruction]string{}
	}
	w.synthPos[syn] = w.instrPos(lk) + " (the lookup of " + h.Name() + " written in place)"
	s.accCalls[lk] = syn
	return syn
}

// siteOfValue: the helper call through which a value (or the base it was loaded from) entered
// the current function: the call site of a translated (virtual/synthetic) value, or the call
// whose result it is.
func (w *World) siteOfValue(vs ...ssa.Value) *ssa.Call {
	for _, v := range vs {
		if v == nil {
			continue
		}
		if vv, ok := stripIface(v).(*virtVal); ok && vv.site != nil {
			return vv.site
		}
		if site := w.ss().synSite[v]; site != nil {
			return site
		}
		if c, _ := callOf(w.resolveLoad(v)); c != nil && c.Call.StaticCallee() != nil && w.IsMod[c.Call.StaticCallee()] {
			return c
		}
	}
	return nil
}

// topOfCallThrough: the call in root through which instruction in (inside a helper that root
// calls, possibly one with several call sites elsewhere) is reached; nil when there is no
// unique such call.
func (w *World) topOfCallThrough(in ssa.Instruction, root *ssa.Function) ssa.Instruction {
	var found ssa.Instruction
	n := 0
	w.eachInstr(root, func(i2 ssa.Instruction) {
		c, ok := i2.(*ssa.Call)
		if !ok {
			return
		}
		h := c.Call.StaticCallee()
		for d := 0; h != nil && d < 3; d++ {
			if h == in.Parent() {
				found = i2
				n++
				return
			}
			// one more level: a helper calling the helper
			var next *ssa.Function
			w.eachInstr(h, func(i3 ssa.Instruction) {
				if c3, ok := i3.(*ssa.Call); ok && c3.Call.StaticCallee() != nil && w.IsMod[c3.Call.StaticCallee()] && c3.Call.StaticCallee() == in.Parent() {
					next = c3.Call.StaticCallee()
				}
			})
			h = next
		}
	})
	if n == 1 {
		return found
	}
	return nil
}

// reachableHelpers: fn, its function literals and every unexported function of the same
// package it statically calls (transitively, whatever the number of call sites): the code
// that runs as part of fn and is private to its package.
func (w *World) reachableHelpers(fn *ssa.Function) []*ssa.Function {
	var out []*ssa.Function
	seen := map[*ssa.Function]bool{}
	var visit func(f *ssa.Function, d int)
	visit = func(f *ssa.Function, d int) {
		if seen[f] || d > 4 {
			return
		}
		seen[f] = true
		out = append(out, f)
		for _, a := range f.AnonFuncs {
			visit(a, d)
		}
		w.eachInstr(f, func(in ssa.Instruction) {
			ci, ok := in.(ssa.CallInstruction)
			if !ok {
				return
			}
			h := ci.Common().StaticCallee()
			if h == nil || !w.IsMod[h] || len(h.Blocks) == 0 || fnPkgPath(h) != fnPkgPath(fn) {
				return
			}
			if h.Parent() == nil {
				if obj := h.Object(); obj == nil || obj.Exported() {
					return
				}
			}
			visit(h, d+1)
		})
	}
	visit(fn, 0)
	return out
}

// pureExprResult: h is a pure expression function — one block, no stores, no calls other
// than len/cap/min/max, one integer result — and the value it returns (nil otherwise).
func (w *World) pureExprResult(h *ssa.Function) ssa.Value {
	s := w.ss()
	if s.pureExpr == nil {
		s.pureExpr = map[*ssa.Function]ssa.Value{}
	}
	if r, ok := s.pureExpr[h]; ok {
		return r
	}
	s.pureExpr[h] = nil
	if h == nil || len(h.Blocks) != 1 || h.Signature.Results().Len() != 1 {
		return nil
	}
	var ret *ssa.Return
	for _, in := range h.Blocks[0].Instrs {
		switch x := in.(type) {
		case *ssa.Store, *ssa.MapUpdate, *ssa.Send, *ssa.Go, *ssa.Defer, *ssa.Panic, *ssa.RunDefers:
			return nil
		case *ssa.Call:
			b, isB := x.Call.Value.(*ssa.Builtin)
			if !isB {
				return nil
			}
			switch b.Name() {
			case "len", "cap", "min", "max":
			default:
				return nil
			}
		case *ssa.Return:
			ret = x
		}
	}
	if ret == nil || len(ret.Results) != 1 || !isIntType(ret.Results[0].Type()) {
		return nil
	}
	s.pureExpr[h] = ret.Results[0]
	return ret.Results[0]
}

// immutableFieldLoad: v is a load of a field that is only ever stored to while its object is
// a fresh, not yet shared local (constructor literals): every read of it through one pointer
// yields one value.
func (w *World) immutableFieldLoad(v ssa.Value) bool {
	u, ok := v.(*ssa.UnOp)
	if !ok || u.Op != token.MUL {
		return false
	}
	fa, ok := u.X.(*ssa.FieldAddr)
	if !ok {
		return false
	}
	return w.immutableField(fieldOf(fa))
}

func (w *World) immutableField(f *types.Var) bool {
	s := w.ss()
	if s.immField == nil {
		s.immField = map[*types.Var]bool{}
		written := map[*types.Var]bool{}
		for _, fn := range w.ModFns {
			w.eachInstr(fn, func(in ssa.Instruction) {
				st, ok := in.(*ssa.Store)
				if !ok {
					return
				}
				fa, ok := st.Addr.(*ssa.FieldAddr)
				if !ok {
					return
				}
				if al, isAl := rootAddr(fa).(*ssa.Alloc); isAl && freshUnescapedAt(al, st) {
					return
				}
				if w.freshResultUnescapedAt(rootAddr(fa), st) {
					return
				}
				written[fieldOf(fa)] = true
			})
		}
		s.immWritten = written
	}
	return !s.immWritten[f]
}

// freshResultUnescapedAt: obj is the result of a module constructor that hands back a fresh
// allocation on every return (NewAllocation's &Allocation{…}), and nothing that can run
// before `at` in this function has passed it on: a store to one of its fields at `at` is
// still part of the construction.
func (w *World) freshResultUnescapedAt(obj ssa.Value, at ssa.Instruction) bool {
	if _, isP := obj.(*ssa.Parameter); isP {
		return false
	}
	// the object's uses: of the call's value itself and, when it lives in a captured
	// variable (a cell written once), of every load of that cell and of the cell
	var uses []ssa.Instruction
	addUses := func(v ssa.Value, skip func(ssa.Instruction) bool) {
		if rs := v.Referrers(); rs != nil {
			for _, r := range *rs {
				if skip == nil || !skip(r) {
					uses = append(uses, r)
				}
			}
		}
	}
	val := obj
	if u, ok := obj.(*ssa.UnOp); ok && u.Op == token.MUL {
		cell, isCell := u.X.(*ssa.Alloc)
		if !isCell {
			return false
		}
		var init *ssa.Store
		for _, r := range *cell.Referrers() {
			switch x := r.(type) {
			case *ssa.Store:
				if x.Addr != ssa.Value(cell) || init != nil {
					return false
				}
				init = x
			case *ssa.UnOp:
				addUses(x, nil)
			case *ssa.DebugRef:
			default:
				uses = append(uses, r) // the closure that captures the cell
			}
		}
		if init == nil {
			return false
		}
		val = init.Val
		addUses(val, func(r ssa.Instruction) bool { return r == ssa.Instruction(init) })
	} else {
		addUses(obj, nil)
	}
	call, idx := callOf(val)
	if call == nil || call.Parent() != at.Parent() {
		return false
	}
	h := call.Call.StaticCallee()
	if h == nil || !w.IsMod[h] || len(h.Blocks) == 0 {
		return false
	}
	if idx < 0 {
		idx = 0
	}
	rets := returnsOf(h)
	if len(rets) == 0 {
		return false
	}
	for _, r := range rets {
		if idx >= len(r.Results) {
			return false
		}
		rv := w.resolveLoad(r.Results[idx])
		if isNilConst(rv) {
			continue
		}
		al, ok := rv.(*ssa.Alloc)
		if !ok || !al.Heap || !freshUnescapedAt(al, r) {
			return false
		}
	}
	for _, r := range uses {
		switch r.(type) {
		case *ssa.FieldAddr, *ssa.DebugRef:
			continue
		}
		if bo, ok := r.(*ssa.BinOp); ok && (bo.Op == token.EQL || bo.Op == token.NEQ) {
			continue
		}
		if r == at {
			continue
		}
		if instrReaches(r, at) {
			return false
		}
	}
	return true
}

// immutableGetter: h is `func (x *T) F() U { return x.f }` with f a field that is only
// written while its object is under construction: the call yields the same value whenever it
// is made on the same object.
func (w *World) immutableGetter(h *ssa.Function) bool {
	if h == nil || !w.IsMod[h] || len(h.Blocks) != 1 || len(h.Params) != 1 {
		return false
	}
	rets := returnsOf(h)
	if len(rets) != 1 || len(rets[0].Results) != 1 {
		return false
	}
	u, ok := rets[0].Results[0].(*ssa.UnOp)
	if !ok || u.Op != token.MUL {
		return false
	}
	fa, ok := u.X.(*ssa.FieldAddr)
	if !ok || fa.X != ssa.Value(h.Params[0]) {
		return false
	}
	return w.immutableField(fieldOf(fa))
}

// zeroConstAny: zeroConstOf extended to basic types (0, "", false).
func zeroConstAny(t types.Type) ssa.Value {
	if z := zeroConstOf(t); z != nil {
		return z
	}
	if b, ok := t.Underlying().(*types.Basic); ok {
		switch {
		case b.Info()&types.IsString != 0:
			return ssa.NewConst(constant.MakeString(""), t)
		case b.Info()&types.IsBoolean != 0:
			return ssa.NewConst(constant.MakeBool(false), t)
		case b.Info()&types.IsInteger != 0:
			return ssa.NewConst(constant.MakeInt64(0), t)
		case b.Info()&types.IsFloat != 0:
			return ssa.NewConst(constant.MakeFloat64(0), t)
		}
	}
	return nil
}

// withinBody: fn is target, a function literal (transitively) inside it, a bound-method
// wrapper made in it, or a single-call-site helper (transitively) of it.
func (w *World) withinBody(fn, target *ssa.Function) bool {
	for n := 0; n < 16 && fn != nil; n++ {
		if fn == target {
			return true
		}
		if fn.Parent() != nil {
			fn = fn.Parent()
			continue
		}
		if isBoundWrapper(fn) {
			if mcs := w.Closures[fn]; len(mcs) == 1 {
				fn = mcs[0].Parent()
				continue
			}
			return false
		}
		site := w.singleSiteCI(fn)
		if site == nil {
			return false
		}
		fn = site.Parent()
	}
	return false
}

// eachInstrThrough visits the instructions of fn and, through static calls of unexported
// module functions (any number of call sites, depth-limited), the instructions of those
// helpers; resolve expresses a helper-side value in fn's terms (parameters become the
// arguments of the calls on the way).
func (w *World) eachInstrThrough(fn *ssa.Function, depth int, cb func(in ssa.Instruction, resolve func(ssa.Value) ssa.Value)) {
	var visit func(f *ssa.Function, xl func(ssa.Value) ssa.Value, d int, stack []*ssa.Function)
	visit = func(f *ssa.Function, xl func(ssa.Value) ssa.Value, d int, stack []*ssa.Function) {
		for _, s := range stack {
			if s == f {
				return
			}
		}
		stack = append(stack, f)
		w.eachInstr(f, func(in ssa.Instruction) {
			cb(in, xl)
			call, ok := in.(*ssa.Call)
			if !ok {
				return
			}
			h := call.Call.StaticCallee()
			if h == nil || !w.IsMod[h] || len(h.Blocks) == 0 || d <= 0 {
				return
			}
			if h.Parent() == nil {
				if obj := h.Object(); obj == nil || (obj.Exported() && h.Signature.Recv() == nil) {
					return
				}
			} // (a function literal called in place — a scoped critical section — is body)
			// exported methods of unexported use are entered too when they are small helpers of
			// the same package (refresh/start of an element type)
			if fnPkgPath(h) != fnPkgPath(fn) {
				return
			}
			visit(h, func(v ssa.Value) ssa.Value { return xl(w.translate(v, h, call)) }, d-1, stack)
		})
	}
	visit(fn, func(v ssa.Value) ssa.Value { return v }, depth, nil)
}

// lookupOfRangedKey: v is m[k] (plain lookup) with k the key variable of a range over the
// same map field m, in a map that never holds nil: the entry is present and non-nil.
func (w *World) lookupOfRangedKey(v ssa.Value) bool {
	lk, ok := stripIface(w.resolveLoad(v)).(*ssa.Lookup)
	if !ok || lk.CommaOk {
		return false
	}
	kx, ok := stripIface(w.resolveLoad(lk.Index)).(*ssa.Extract)
	if !ok || kx.Index != 1 {
		return false
	}
	nx, ok := kx.Tuple.(*ssa.Next)
	if !ok {
		return false
	}
	rg, ok := nx.Iter.(*ssa.Range)
	if !ok {
		return false
	}
	b1, f1, ok1 := fieldLoad(w.resolveLoad(rg.X))
	b2, f2, ok2 := fieldLoad(w.resolveLoad(lk.X))
	if !ok1 || !ok2 || f1 != f2 || !w.sameKey(b1, b2) {
		return false
	}
	if _, isMap := f1.Type().Underlying().(*types.Map); !isMap {
		return false
	}
	return w.mapNeverHoldsNil(f1)
}

// uniformArgOf: parameter p of an unexported module function with several static call sites
// (no other use of the function) receives the very same SSA value at every one of them (a
// context object handed from helper to helper): that value. nil otherwise.
func (w *World) uniformArgOf(p *ssa.Parameter) ssa.Value {
	s := w.ss()
	if s.uniform == nil {
		s.uniform = map[*ssa.Parameter]ssa.Value{}
		s.uniformDone = map[*ssa.Parameter]bool{}
	}
	if s.uniformDone[p] {
		return s.uniform[p]
	}
	s.uniformDone[p] = true
	fn := p.Parent()
	if fn == nil || !w.IsMod[fn] || fn.Parent() != nil || fn.Synthetic != "" || len(fn.Blocks) == 0 {
		return nil
	}
	if obj := fn.Object(); obj == nil || obj.Exported() {
		return nil
	}
	if w.fnUsedAsValue()[fn] {
		return nil
	}
	node := w.CG.Nodes[fn]
	if node == nil || len(node.In) < 2 {
		return nil
	}
	idx := paramIndex(p)
	var first ssa.Value
	for _, e := range node.In {
		if e.Site == nil || e.Site.Common().StaticCallee() != fn || e.Caller.Func == fn || !w.IsMod[e.Caller.Func] || e.Caller.Func.Synthetic != "" {
			return nil
		}
		if _, isCall := e.Site.(*ssa.Call); !isCall {
			return nil
		}
		args := e.Site.Common().Args
		if idx < 0 || idx >= len(args) {
			return nil
		}
		a := args[idx]
		// strip local copies, not parameters (no recursion into other bindings here)
		for i := 0; i < 4; i++ {
			u, ok := a.(*ssa.UnOp)
			if !ok || u.Op != token.MUL {
				break
			}
			al, isAl := u.X.(*ssa.Alloc)
			if !isAl {
				break
			}
			ss := w.stores[w.locKey(al)]
			if len(ss) != 1 {
				break
			}
			a = ss[0].Val
		}
		// handed on from a helper that itself always receives one value (a.badRequest() called
		// from the handler and from a.reject())
		for i := 0; i < 4; i++ {
			pp, isP := a.(*ssa.Parameter)
			if !isP || pp.Parent() == fn {
				break
			}
			if r := w.uniformArgOf(pp); r != nil {
				a = r
				continue
			}
			break
		}
		switch a.(type) {
		case *ssa.Parameter, *ssa.Alloc, *ssa.Global, *ssa.Function, *ssa.Const, *ssa.Call, *ssa.Extract, *ssa.MakeClosure, *ssa.FreeVar:
		default:
			return nil
		}
		if first == nil {
			first = a
		} else if first != a {
			return nil
		}
	}
	s.uniform[p] = first
	return first
}

// localFuncTargets: the functions a local function-typed value can hold: every leaf (through
// phis and single-store locals) is a function literal, a method value or a named function.
func (w *World) localFuncTargets(v ssa.Value) []*ssa.Function {
	var out []*ssa.Function
	for _, l := range liveLeaves(w.resolveLoad(v)) {
		switch x := w.resolveLoad(l).(type) {
		case *ssa.MakeClosure:
			if b := w.closureBody(x); b != nil {
				out = append(out, b)
				continue
			}
			return nil
		case *ssa.Function:
			out = append(out, x)
		case *ssa.Const:
			if x.Value == nil {
				continue // nil function value: never called on that path (or panics)
			}
			return nil
		default:
			return nil
		}
	}
	return out
}

// deepRet: a return reached when result #idx of a function is followed into the module helpers
// whose result it hands on (`return c.handleResponse(msg)`): the innermost return instruction
// and the value it yields.
type deepRet struct {
	ret *ssa.Return
	val ssa.Value
}

func (w *World) returnsThrough(fn *ssa.Function, idx int, depth int) []deepRet {
	var out []deepRet
	seen := map[*ssa.Function]bool{}
	var visit func(f *ssa.Function, i int, d int)
	visit = func(f *ssa.Function, i int, d int) {
		if seen[f] {
			return
		}
		seen[f] = true
		defer delete(seen, f)
		for _, r := range returnsOf(f) {
			if i >= len(r.Results) {
				continue
			}
			v := w.resolveLoad(r.Results[i])
			if call, ci := callOf(v); call != nil && d > 0 && call.Parent() == f {
				if h := call.Call.StaticCallee(); h != nil && w.IsMod[h] && len(h.Blocks) > 0 && w.singleSiteCI(h) == ssa.CallInstruction(call) {
					if ci < 0 {
						ci = 0
					}
					visit(h, ci, d-1)
					continue
				}
			}
			out = append(out, deepRet{r, v})
		}
	}
	visit(fn, idx, depth)
	return out
}

// byValueOrigin: b is the spill slot of a by-value struct parameter (or receiver) of the helper
// called at hc (`func (a PeerAddress) UDPAddr()`: *b = a): the ADDRESS in the caller the
// argument was loaded from (`peer.UDPAddr()` passes *(&peer)), nil otherwise. The copy shares
// slices and pointers with that storage.
func (w *World) byValueOrigin(b *ssa.Alloc, hc *ssa.Call) ssa.Value {
	if b == nil || hc == nil || hc.Call.StaticCallee() != b.Parent() {
		return nil
	}
	ss := w.stores[w.locKey(b)]
	if len(ss) != 1 {
		return nil
	}
	p, isP := ss[0].Val.(*ssa.Parameter)
	if !isP || p.Parent() != b.Parent() {
		return nil
	}
	i := paramIndex(p)
	if i < 0 || i >= len(hc.Call.Args) {
		return nil
	}
	if u, isU := hc.Call.Args[i].(*ssa.UnOp); isU && u.Op == token.MUL {
		return u.X
	}
	return nil
}

// nonNilValue: v cannot be nil: a fresh allocation, a constructor result, or a parameter that
// every (module-internal) caller passes such a value for.
func (w *World) nonNilValue(v ssa.Value, depth int) bool {
	ai := w.absint()
	nonNil := w.nonNilValue

	v = w.resolveLoad(v)
	if ai.definitelyNonNil(v) {
		return true
	}
	if c, _ := callOf(v); c != nil {
		// a constructor: every return is a fresh allocation
		if h := c.Call.StaticCallee(); h != nil && w.IsMod[h] && len(h.Blocks) > 0 && depth > 0 {
			all := true
			for _, r := range returnsOf(h) {
				if len(r.Results) == 0 || !nonNil(r.Results[0], depth-1) {
					all = false
				}
			}
			return all
		}
		return false
	}
	if p, ok := v.(*ssa.Parameter); ok && depth > 0 {
		sites := w.callsTo(p.Parent())
		if len(sites) == 0 {
			return false
		}
		if obj := p.Parent().Object(); obj != nil && obj.Exported() && p.Parent().Pkg != nil && !strings.Contains(p.Parent().Pkg.Pkg.Path(), "/internal/") {
			return false // public API: callers unknown
		}
		i := paramIndex(p)
		for _, cs := range sites {
			if i < 0 || i >= len(cs.Common().Args) || !nonNil(cs.Common().Args[i], depth-1) {
				return false
			}
		}
		return true
	}
	return false
}

// sliceNeverHoldsNil: the slice held in struct field fld never has a nil element: every value
// stored into the field is nil / empty, or an append onto (a slice of) the field's own value
// of elements that are non-nil or themselves taken from the field, and no element is assigned
// nil in place.
func (w *World) sliceNeverHoldsNil(fld *types.Var) bool {
	st := w.ss()
	if st.sliceNN == nil {
		st.sliceNN = map[*types.Var]int{}
	}
	switch st.sliceNN[fld] {
	case 1:
		return false
	case 2:
		return true
	}
	st.sliceNN[fld] = 1
	fromField := func(v ssa.Value) bool {
		for i := 0; i < 4; i++ {
			v = stripIface(w.resolveLoad(v))
			if sl, ok := v.(*ssa.Slice); ok {
				v = sl.X
				continue
			}
			break
		}
		_, f, ok := fieldLoad(v)
		return ok && f == fld
	}
	ok := true
	n := 0
	for _, fn := range w.ModFns {
		w.eachInstr(fn, func(in ssa.Instruction) {
			s2, isSt := in.(*ssa.Store)
			if !isSt {
				return
			}
			switch a := s2.Addr.(type) {
			case *ssa.FieldAddr:
				if fieldOf(a) != fld {
					return
				}
				n++
				v := stripIface(w.resolveLoad(s2.Val))
				if isNilConst(v) || fromField(v) {
					return
				}
				if ms, isMS := v.(*ssa.MakeSlice); isMS {
					if k, isK := constInt(ms.Len); isK && k == 0 {
						return
					}
					ok = false
					return
				}
				ac, isC := v.(*ssa.Call)
				if !isC {
					ok = false
					return
				}
				b, isB := ac.Call.Value.(*ssa.Builtin)
				if !isB || b.Name() != "append" || len(ac.Call.Args) != 2 || !(fromField(ac.Call.Args[0]) || isNilConst(stripIface(ac.Call.Args[0]))) {
					ok = false
					return
				}
				if fromField(ac.Call.Args[1]) {
					return
				}
				els := variadicElemsOrdered(ac.Call.Args[1])
				if els == nil {
					ok = false
					return
				}
				for _, e := range els {
					if !w.nonNilValue(e, 3) {
						ok = false
					}
				}
			case *ssa.IndexAddr:
				if fromField(a.X) && !w.nonNilValue(s2.Val, 3) {
					ok = false
				}
			}
		})
	}
	if ok && n > 0 {
		st.sliceNN[fld] = 2
		return true
	}
	return false
}
