package main

import (
	"fmt"
	"go/token"
	"go/types"
	"sort"
	"strings"

	"golang.org/x/tools/go/ssa"
)

func init() {
	register(&propDef{
		ID:        "C15",
		Title:     "Server resources and lifecycle events stay balanced through every teardown",
		Technique: "who-may-write on the allocation table, release-coverage analysis of Allocation.Close derived from the struct's resource-typed fields, acquire/release path pairing on error paths, entry locksets, structural pairing of lifecycle callbacks with the insert/remove they report",
		Explanation: "C15.1 Manager.allocations is written only by CreateAllocation (insert, after which exactly the matching relay goroutine is started) and DeleteAllocation (delete + Close + callback on the found path); " +
			"C15.2 release coverage: for every resource-typed field of Allocation (timers, sockets, listeners, and the collections of permissions, channel bindings and TCP connections whose elements own timers/connections) Close releases it on every path past its idempotence guard; borrowed fields are an explicit exception table; snapshot accessors used by Close return copies, never the live slice; " +
			"C15.3 error-path release: a connection obtained from allocateConn, relayListener.Accept or allocatePacketConn (even-port probe) is on every path stored into its owner, or closed; " +
			"C15.4 Allocation.Close and removeTCPConnection are only entered with Manager.lock held (entry lockset over all callers) and close(a.closed) is guarded by the closed-test; " +
			"C15.5 the relay goroutines return only on the read/accept error edge after calling DeleteAllocation(a.fiveTuple) (other returns are reported as advisories), and the server loops close the manager / delete the connection's allocation after their read loop ends; " +
			"C15.6 every lifecycle callback is invoked in the function that performs the insert/remove it reports and only on the path where that insert/remove actually happened; " +
			"C15.7 in CreateAllocation no return lies between arming the lifetime timer and publishing the allocation in the table, and the insert precedes the created-callback; " +
			"C15.8 (=C04.2) every 5-tuple handed to the manager — including the teardown tuple after a stream connection ends — is built from the addresses of that very request/connection; " +
			"C15.9 the bind-timeout of a peer TCP connection releases it through the allocation object it was registered on (captured), not through a lookup among the live allocations — which would miss a connection registered on an allocation that has ended; " +
			"C15.10 a goroutine's completion signal cannot block for ever: goroutines that send on a channel local to the function that started them are matched by enough receives or buffer (cancel functions and close() never block). C15.11 (=C06.10) the lifetime timer is Reset by Refresh alone. C15.12 (=C07.8) report and removal of a binding are one step. C15.13 OnChannelCreated is called inside the hold of channelBindingsLock that inserted the binding.",
		NotCovered: "'exactly once', counts at quiescence and goroutine drain are dynamic; what a relay generator or callback does internally.",
		Run:        runC15,
	})
}

func runC15(c *Ctx) {
	defer debugKeyDiff(c.W)
	ruleAllocTableWriters(c, "C15.1")
	ruleDeleteAllocation(c, "C15.1d")
	ruleReleaseCoverage(c, "C15.2")
	ruleErrorPathRelease(c, "C15.3")
	ruleCloseUnderLock(c, "C15.4")
	ruleRelayLoopExits(c, "C15.5")
	ruleCallbackPairing(c, "C15.6")
	ruleArmThenPublish(c, "C15.7")
	// the teardown after a control connection ends deletes the allocation under the very
	// 5-tuple it was created under (shared with C04.2): a tuple built from anything else
	// (the listener's address) names no allocation and the release silently does nothing
	ruleRequestTuples(c, "C15.8")
	ruleBindTimerReleasesByIdentity(c, "C15.9")
	ruleGoroutineSignalsDoNotBlock(c, "C15.10")
	ruleLifetimeTimerResetByRefresh(c, "C15.11")
	ruleReportWithRemoval(c, "C15.12")
	ruleChannelAnnouncedUnderInsertLock(c, "C15.13")
}

// ---------------------------------------------------------------------------------

func ruleAllocTableWriters(c *Ctx, rule string) {
	w := c.W
	c.Rule(rule, "who-may-write: inserts into Manager.allocations occur only in CreateAllocation, deletes only in DeleteAllocation; after the insert CreateAllocation starts packetConnHandler only under relayPacketConn != nil and connHandler only under relayListener != nil, as `go` statements on the inserted allocation", 3)
	fld := w.Field("allocation", "Manager", "allocations")
	create := w.Func("allocation", "Manager", "CreateAllocation")
	del := w.Func("allocation", "Manager", "DeleteAllocation")
	for _, fn := range w.ModFns {
		w.eachInstr(fn, func(in ssa.Instruction) {
			switch x := in.(type) {
			case *ssa.MapUpdate:
				if _, f, ok := fieldLoad(x.Map); ok && f == fld {
					c.Anchor(rule, "insert")
					if w.bodyRoot(fn) == create {
						c.OK(rule, fname(fn), "insert", w.instrPos(in), "the one inserter")
					} else {
						c.Bad(rule, fname(fn), "insert", w.instrPos(in), "an allocation is inserted outside CreateAllocation: no relay goroutine, timer or created-event is guaranteed for it")
					}
				}
			case *ssa.Call:
				if b, ok := x.Call.Value.(*ssa.Builtin); ok && b.Name() == "delete" {
					if _, f, ok := fieldLoad(x.Call.Args[0]); ok && f == fld {
						c.Anchor(rule, "delete")
						if w.bodyRoot(fn) == del {
							c.OK(rule, fname(fn), "delete", w.instrPos(in), "the one remover (closes what it removes, C06.5)")
						} else {
							c.Bad(rule, fname(fn), "delete", w.instrPos(in), "an allocation is removed from the table outside DeleteAllocation: its resources are not released")
						}
					}
				}
			case *ssa.Store:
				if fa, ok := x.Addr.(*ssa.FieldAddr); ok && fieldOf(fa) == fld {
					if al, isAl := rootAddr(fa.X).(*ssa.Alloc); isAl && freshUnescapedAt(al, in) {
						return
					}
					c.Bad(rule, fname(fn), "replace table", w.instrPos(in), "the allocation table is replaced wholesale")
				}
			}
		})
	}
	// relay goroutines
	c.Anchor(rule, "relay goroutines")
	type g struct{ handler, field string }
	nOK := 0
	for _, gg := range []g{{"packetConnHandler", "relayPacketConn"}, {"connHandler", "relayListener"}} {
		h := w.Func("allocation", "Allocation", gg.handler)
		n := 0
		w.eachInstrDeep(create, func(in ssa.Instruction) {
			goi, ok := in.(*ssa.Go)
			if !ok || goi.Call.StaticCallee() != h {
				return
			}
			n++
			okFact := false
			for _, f := range w.factsAt(in) {
				if v, isNil, isNF := nilFact(f); isNF && !isNil {
					if _, fl, isL := fieldLoad(v); isL && fl.Name() == gg.field {
						okFact = true
					}
				}
			}
			if okFact {
				nOK++
			} else {
				c.Bad(rule, fname(create), "go "+gg.handler, w.instrPos(in), "the relay goroutine is started without the matching relay object being non-nil")
			}
		})
		if n != 1 {
			c.Bad(rule, fname(create), "go "+gg.handler, w.pos(create.Pos()), fmt.Sprintf("%d `go %s` statements in CreateAllocation, expected exactly 1", n, gg.handler))
		}
	}
	if nOK == 2 {
		c.OK(rule, fname(create), "relay goroutines", w.pos(create.Pos()), "one `go packetConnHandler` under relayPacketConn != nil, one `go connHandler` under relayListener != nil")
	}
}

// ---------------------------------------------------------------------------------
// release coverage

type loopInfo struct {
	header, body *ssa.BasicBlock
	isElem       func(v ssa.Value) bool // value is the element (slice) / key or value (map)
	desc         string
}

// rangeLoops finds `for … range coll` loops in fn whose collection satisfies pred.
func (w *World) rangeLoops(fn *ssa.Function, pred func(coll ssa.Value) bool) []loopInfo {
	var out []loopInfo
	w.eachInstr(fn, func(in ssa.Instruction) {
		switch x := in.(type) {
		case *ssa.Range:
			if !pred(x.X) {
				return
			}
			for _, r := range *x.Referrers() {
				nx, ok := r.(*ssa.Next)
				if !ok {
					continue
				}
				h := nx.Block()
				if iff, ok := h.Instrs[len(h.Instrs)-1].(*ssa.If); ok {
					_ = iff
					out = append(out, loopInfo{header: h, body: h.Succs[0], desc: "range over map", isElem: func(v ssa.Value) bool {
						e, ok := stripIface(v).(*ssa.Extract)
						return ok && e.Tuple == ssa.Value(nx) && e.Index >= 1
					}})
				}
			}
		case *ssa.IndexAddr:
			if !pred(x.X) {
				return
			}
			// A complete index loop over the collection, in any of its spellings
			// (`for _, e := range s`, `for i := range s`, `for i := 0; i < len(s); i++`):
			// the index I used here is a counter p (first value 0, step 1) or p+1 (first
			// value -1, step 1) of a loop header whose condition is  I < len(s).
			idx := x.Index
			var phi *ssa.Phi
			first := int64(0)
			if bo, ok := idx.(*ssa.BinOp); ok && bo.Op == token.ADD {
				if k, isK := constInt(bo.Y); isK && k == 1 {
					phi, _ = bo.X.(*ssa.Phi)
					first = -1
				}
			} else {
				phi, _ = idx.(*ssa.Phi)
			}
			if phi == nil || len(phi.Edges) != 2 {
				return
			}
			okInit, okStep := false, false
			for _, e := range phi.Edges {
				if k, isK := constInt(e); isK && k == first {
					okInit = true
				}
				if bo, ok := e.(*ssa.BinOp); ok && bo.Op == token.ADD && bo.X == ssa.Value(phi) {
					if k, isK := constInt(bo.Y); isK && k == 1 {
						okStep = true
					}
				}
			}
			if !okInit || !okStep {
				return
			}
			h := phi.Block()
			iff, ok := h.Instrs[len(h.Instrs)-1].(*ssa.If)
			if !ok {
				return
			}
			okCond := false
			for _, f := range normCond(iff.Cond, true) {
				if f.Op != "<" || !f.Truth || !w.sameKey(f.X, idx) {
					continue
				}
				if lc, _ := callOf(w.resolveLoad(f.Y)); lc != nil {
					if b, isB := lc.Call.Value.(*ssa.Builtin); isB && b.Name() == "len" && w.sameKey(lc.Call.Args[0], x.X) {
						okCond = true
					}
				}
			}
			if !okCond {
				return
			}
			for _, o := range out {
				if o.header == h {
					return // one loop, several element accesses
				}
			}
			coll := x.X
			out = append(out, loopInfo{header: h, body: h.Succs[0], desc: "index loop over the whole slice", isElem: func(v ssa.Value) bool {
				u, ok := stripIface(v).(*ssa.UnOp)
				if !ok || u.Op != token.MUL {
					return false
				}
				ia, ok := u.X.(*ssa.IndexAddr)
				return ok && w.sameKey(ia.X, coll) && w.sameKey(ia.Index, idx)
			}})
		}
	})
	return out
}

func isTimerPtr(t types.Type) bool { return t.String() == "*time.Timer" }
func isNetRes(t types.Type) bool {
	switch t.String() {
	case "net.PacketConn", "net.Listener", "net.Conn":
		return true
	}
	return false
}

// elemStruct: for map[K]*T / []*T return T (a module struct).
func elemStruct(t types.Type) *types.Named {
	var e types.Type
	switch x := t.Underlying().(type) {
	case *types.Map:
		e = x.Elem()
	case *types.Slice:
		e = x.Elem()
	default:
		return nil
	}
	if p, ok := e.(*types.Pointer); ok {
		if n, ok := p.Elem().(*types.Named); ok {
			if _, isS := n.Underlying().(*types.Struct); isS {
				return n
			}
		}
	}
	return nil
}

func resourceFields(n *types.Named) []*types.Var {
	st := n.Underlying().(*types.Struct)
	var out []*types.Var
	for i := 0; i < st.NumFields(); i++ {
		f := st.Field(i)
		if isTimerPtr(f.Type()) || isNetRes(f.Type()) {
			out = append(out, f)
		}
	}
	return out
}

var borrowedFields = map[string]string{
	"TurnSocket": "the listener socket the request arrived on: owned by the server (closed by Server.Close / the accept goroutine), not by the allocation",
}

func ruleReleaseCoverage(c *Ctx, rule string) {
	w := c.W
	c.Rule(rule, "release coverage of (*Allocation).Close, derived from the struct: every *time.Timer field is Stop()ped and every net.PacketConn/Listener/Conn field Close()d on all paths past the idempotence guard (a socket Close may be skipped only where that field is nil, or where an exclusive sibling socket field is non-nil); every collection of elements owning timers/connections is ranged over completely with each element's resources released and the element removed; snapshot accessors feeding those loops return fresh copies", 6)
	alloc := w.Named("allocation", "Allocation")
	cl := w.Func("allocation", "Allocation", "Close")
	recv := cl.Params[0]
	st := alloc.Underlying().(*types.Struct)
	// returns past the guard: all returns except the one on the `<-a.closed` select branch
	var rets []*ssa.Return
	for _, r := range returnsOf(cl) {
		guard := false
		for _, f := range w.factsAt(r) {
			if f.Op == "==" && f.Truth {
				if e, ok := under(f.X).(*ssa.Extract); ok {
					if _, isSel := e.Tuple.(*ssa.Select); isSel {
						guard = true
					}
				}
			}
		}
		if !guard {
			rets = append(rets, r)
		}
	}
	if len(rets) == 0 {
		c.Bad(rule, fname(cl), "returns", w.pos(cl.Pos()), "no return past the idempotence guard found")
		return
	}
	fieldLoadOfRecv := func(v ssa.Value, f *types.Var) bool {
		b, fl, ok := fieldLoad(v)
		return ok && fl == f && w.sameKey(b, recv)
	}
	// writers of socket fields, for exclusivity
	exclusive := func(f1, f2 *types.Var) bool {
		var s1, s2 []*ssa.Store
		for _, fn := range w.ModFns {
			w.eachInstr(fn, func(in ssa.Instruction) {
				if s, ok := in.(*ssa.Store); ok {
					if fa, ok := s.Addr.(*ssa.FieldAddr); ok {
						if isNilConst(s.Val) {
							return
						}
						switch fieldOf(fa) {
						case f1:
							s1 = append(s1, s)
						case f2:
							s2 = append(s2, s)
						}
					}
				}
			})
		}
		if len(s1) == 0 || len(s2) == 0 {
			return true
		}
		for _, a := range s1 {
			for _, b := range s2 {
				if a.Parent() != b.Parent() {
					return false
				}
				if instrReaches(a, b) || instrReaches(b, a) {
					// both stores execute: exclusive still when the VALUES are — every non-nil
					// source of one is selected under a condition that contradicts the
					// condition of every non-nil source of the other (switch on the protocol)
					if w.sameKey(a.Addr.(*ssa.FieldAddr).X, b.Addr.(*ssa.FieldAddr).X) && valuesExclusive(w, a, b) {
						continue
					}
					return false
				}
				// both on one fresh object?
				if !w.sameKey(a.Addr.(*ssa.FieldAddr).X, b.Addr.(*ssa.FieldAddr).X) {
					return false
				}
			}
		}
		return true
	}
	var sockFields []*types.Var
	for i := 0; i < st.NumFields(); i++ {
		if isNetRes(st.Field(i).Type()) {
			if _, b := borrowedFields[st.Field(i).Name()]; !b {
				sockFields = append(sockFields, st.Field(i))
			}
		}
	}
	for i := 0; i < st.NumFields(); i++ {
		f := st.Field(i)
		name := "Allocation." + f.Name()
		switch {
		case isTimerPtr(f.Type()):
			c.Anchor(rule, name)
			hit := func(in ssa.Instruction) bool {
				call, ok := in.(*ssa.Call)
				return ok && call.Call.StaticCallee() != nil && call.Call.StaticCallee().String() == "(*time.Timer).Stop" && fieldLoadOfRecv(call.Call.Args[0], f)
			}
			bad := ""
			dh := w.deepHit(hit)
			for _, r := range rets {
				if !allPathsTo(cl, r.Block(), dh) {
					bad = "a path to the return at " + w.instrPos(r) + " does not stop it"
				}
			}
			if bad == "" {
				c.OK(rule, fname(cl), name, w.pos(cl.Pos()), "Stop() on every path past the guard")
			} else {
				c.Bad(rule, fname(cl), name, w.pos(cl.Pos()), "timer leak at teardown: "+bad)
			}
		case isNetRes(f.Type()):
			if why, b := borrowedFields[f.Name()]; b {
				c.Triv(rule, fname(cl), name, w.pos(cl.Pos()), "borrowed: "+why)
				continue
			}
			c.Anchor(rule, name)
			hit := func(in ssa.Instruction) bool {
				call, ok := in.(*ssa.Call)
				return ok && call.Call.IsInvoke() && call.Call.Method.Name() == "Close" && fieldLoadOfRecv(call.Call.Value, f)
			}
			bad := ""
			// released(fn): every return of fn (of `only` when given) is preceded on all paths
			// by the Close — directly or in a helper for which the same holds — or is reached
			// with the field nil / with the exclusive sibling socket non-nil
			memo := map[*ssa.Function]int{}
			var released func(fn *ssa.Function, only []*ssa.Return) bool
			released = func(fn *ssa.Function, only []*ssa.Return) bool {
				if only == nil {
					switch memo[fn] {
					case 1:
						return false
					case 2:
						return true
					}
					memo[fn] = 1
				}
				hitOrHelper := func(in ssa.Instruction) bool {
					if hit(in) {
						return true
					}
					call, ok := in.(*ssa.Call)
					if !ok {
						return false
					}
					h := call.Call.StaticCallee()
					if b := w.syncCallbackBody(call); b != nil {
						h = b
					}
					if h == nil || !w.IsMod[h] || len(h.Blocks) == 0 || h == fn {
						return false
					}
					if h.Parent() == nil && w.singleSiteCI(h) != ssa.CallInstruction(call) {
						return false // only helpers that belong to this teardown
					}
					return released(h, nil)
				}
				rs := only
				if rs == nil {
					rs = returnsOf(fn)
				}
				okAll := true
				for _, r := range rs {
					if allPathsTo(fn, r.Block(), hitOrHelper) {
						continue
					}
					ok := false
					for _, fct := range w.factsAt(r) {
						v, isNil, isNF := nilFact(fct)
						if !isNF {
							continue
						}
						if isNil && fieldLoadOfRecv(v, f) {
							ok = true // nothing to close
						}
						if !isNil {
							for _, g := range sockFields {
								if g != f && fieldLoadOfRecv(v, g) && exclusive(f, g) {
									ok = true // the exclusive sibling is the live one
								}
							}
						}
					}
					if !ok {
						okAll = false
						if bad == "" {
							bad = "the return at " + w.instrPos(r) + " can be reached with this socket open and not closed"
						}
					}
				}
				if only == nil && okAll {
					memo[fn] = 2
				}
				return okAll
			}
			if released(cl, rets) {
				bad = ""
			} else if bad == "" {
				bad = "a path past the guard leaves this socket open"
			}
			if bad == "" {
				c.OK(rule, fname(cl), name, w.pos(cl.Pos()), "Close() on every path past the guard where the field can be non-nil")
			} else {
				c.Bad(rule, fname(cl), name, w.pos(cl.Pos()), "socket leak at teardown: "+bad)
			}
		default:
			et := elemStruct(f.Type())
			if et == nil || len(resourceFields(et)) == 0 {
				continue
			}
			c.Anchor(rule, name)
			ruleCollectionRelease(c, rule, cl, recv, f, et, rets)
		}
	}
}

// ruleCollectionRelease: Close ranges over collection field f (directly or through a
// snapshot accessor that copies it) and each iteration releases the element's resources.
func ruleCollectionRelease(c *Ctx, rule string, cl *ssa.Function, recv ssa.Value, f *types.Var, et *types.Named, rets []*ssa.Return) {
	w := c.W
	name := "Allocation." + f.Name()
	// collection value: load of the field, or result of an accessor method returning a copy
	var accessor *ssa.Function
	isColl := func(v ssa.Value) bool {
		v = stripIface(v)
		if b, fl, ok := fieldLoad(v); ok && fl == f && w.sameKey(b, recv) {
			return true
		}
		if call, ok := v.(*ssa.Call); ok {
			if cal := call.Call.StaticCallee(); cal != nil && w.IsMod[cal] && len(call.Call.Args) == 1 && w.sameKey(call.Call.Args[0], recv) && w.returnsCopyOf(cal, f) != "" {
				accessor = cal
				return true
			}
		}
		return false
	}
	// a local snapshot built in place: append(fresh, field...) or a complete range over the
	// field appending every element to a fresh slice
	isLocalCopy := func(v ssa.Value) bool {
		v = stripIface(w.resolveLoad(v))
		fn := (*ssa.Function)(nil)
		if in, ok := v.(ssa.Instruction); ok {
			fn = in.Parent()
		}
		if fn == nil {
			return false
		}
		isField := func(x ssa.Value) bool {
			b, fl, ok := fieldLoad(stripIface(w.resolveLoad(x)))
			return ok && fl == f && w.sameKey(b, recv)
		}
		fresh := func(x ssa.Value) bool {
			switch y := stripIface(w.resolveLoad(x)).(type) {
			case *ssa.MakeSlice:
				return true
			case *ssa.Const:
				return y.Value == nil
			case *ssa.Slice:
				_, isAl := y.X.(*ssa.Alloc)
				return isAl
			}
			return false
		}
		// append(fresh, field...)
		if call, ok := v.(*ssa.Call); ok {
			if b, isB := call.Call.Value.(*ssa.Builtin); isB && b.Name() == "append" && len(call.Call.Args) == 2 && fresh(call.Call.Args[0]) && isField(call.Call.Args[1]) {
				return true
			}
		}
		// the value a complete range over the field leaves behind: phi(fresh, append(phi, elem))
		if phi, ok := v.(*ssa.Phi); ok {
			for _, lp := range w.rangeLoops(fn, isField) {
				if phi.Block() != lp.header {
					continue
				}
				okInit, okStep := false, false
				var app *ssa.Call
				for _, e := range phi.Edges {
					if fresh(e) {
						okInit = true
					}
					if call, isC := stripIface(w.resolveLoad(e)).(*ssa.Call); isC {
						if b, isB := call.Call.Value.(*ssa.Builtin); isB && b.Name() == "append" && len(call.Call.Args) == 2 && call.Call.Args[0] == ssa.Value(phi) {
							for _, el := range variadicElems(call.Call.Args[1]) {
								if lp.isElem(el) {
									okStep, app = true, call
								}
							}
						}
					}
				}
				if okInit && okStep && app != nil {
					if must, _ := mustPassBefore(lp.body, func(in ssa.Instruction) bool { return in == ssa.Instruction(app) }, func(b *ssa.BasicBlock) bool { return b == lp.header }); must {
						return true
					}
				}
			}
		}
		return false
	}
	// the loop may sit in Close itself or in a helper / sync.Once body that belongs to it;
	// candidates: loops over the live field, over an accessor's copy, over a local copy
	type cand struct {
		lp   loopInfo
		fn   *ssa.Function
		kind string
	}
	var cands []cand
	for _, bf := range w.helpersOf(cl) {
		for _, lp := range w.rangeLoops(bf, isLocalCopy) {
			cands = append(cands, cand{lp, bf, "local copy"})
		}
		accessor = nil
		for _, lp := range w.rangeLoops(bf, isColl) {
			k := "live"
			if accessor != nil {
				k = "accessor"
			}
			cands = append(cands, cand{lp, bf, k})
		}
	}
	if len(cands) == 0 {
		c.Bad(rule, fname(cl), name, w.pos(cl.Pos()), "Close does not iterate over "+f.Name()+": its elements' timers/connections are not released")
		return
	}
	// prefer a loop whose body releases; the loop that merely copies the table is not it
	releases := func(lp loopInfo) bool {
		for _, rf := range resourceFields(et) {
			found := false
			seenB := map[*ssa.BasicBlock]bool{}
			var walk func(b *ssa.BasicBlock)
			walk = func(b *ssa.BasicBlock) {
				if seenB[b] || b == lp.header {
					return
				}
				seenB[b] = true
				for _, in := range b.Instrs {
					if call, ok := in.(*ssa.Call); ok {
						if cal := call.Call.StaticCallee(); cal != nil && (cal.String() == "(*time.Timer).Stop" || w.IsMod[cal]) {
							for _, a := range call.Call.Args {
								if lp.isElem(a) {
									found = true
								}
								if b2, _, ok := fieldLoad(a); ok && lp.isElem(b2) {
									found = true
								}
							}
						}
					}
				}
				for _, s2 := range liveSuccs(b) {
					walk(s2)
				}
			}
			walk(lp.body)
			_ = rf
			if found {
				return true
			}
		}
		return false
	}
	chosen := cands[0]
	for _, cd := range cands {
		if releases(cd.lp) {
			chosen = cd
			break
		}
	}
	loops := []loopInfo{chosen.lp}
	loopFn := chosen.fn
	if chosen.kind != "accessor" {
		accessor = nil
	}
	// ranging over the live slice while its elements are removed in place skips entries
	if _, isSlice := f.Type().Underlying().(*types.Slice); isSlice && chosen.kind == "live" && w.mutatedInPlace(f) {
		c.Bad(rule, fname(loopFn), name+" snapshot", w.pos(loopFn.Pos()), "the teardown loop ranges over the live "+f.Name()+" slice while its body removes elements from it in place: entries are skipped and never released")
		return
	}
	lp := loops[0]
	// the loop is on every path through the function that holds it ...
	for _, r := range returnsOf(loopFn) {
		if loopFn == cl {
			break
		}
		if !allPathsTo(loopFn, r.Block(), func(in ssa.Instruction) bool { return in.Block() == lp.header }) {
			c.Bad(rule, fname(loopFn), name, w.pos(loopFn.Pos()), "the teardown loop over "+f.Name()+" can be skipped on a path to the return at "+w.instrPos(r))
			return
		}
	}
	// ... and that function runs on every path of Close to its returns past the guard
	onPath := func(in ssa.Instruction) bool { return in.Block() == lp.header }
	if loopFn != cl {
		var reaches func(fn *ssa.Function, depth int) func(ssa.Instruction) bool
		reaches = func(fn *ssa.Function, depth int) func(ssa.Instruction) bool {
			return func(in ssa.Instruction) bool {
				call, ok := in.(*ssa.Call)
				if !ok || depth > 4 {
					return false
				}
				h := call.Call.StaticCallee()
				if b := w.syncCallbackBody(call); b != nil {
					h = b
				}
				if h == nil || !w.IsMod[h] || len(h.Blocks) == 0 {
					return false
				}
				if h == loopFn {
					return true
				}
				if h.Parent() == nil && w.singleSiteCI(h) != ssa.CallInstruction(call) {
					return false
				}
				ok2, _ := mustPassBefore(h.Blocks[0], reaches(h, depth+1), func(*ssa.BasicBlock) bool { return false })
				return ok2
			}
		}
		onPath = reaches(cl, 0)
	}
	for _, r := range rets {
		if !allPathsTo(cl, r.Block(), onPath) {
			c.Bad(rule, fname(cl), name, w.pos(cl.Pos()), "the teardown loop over "+f.Name()+" can be skipped on a path to the return at "+w.instrPos(r))
			return
		}
	}
	if accessor != nil {
		if how := w.returnsCopyOf(accessor, f); how != "copy" && w.overwrittenBelowLen(f) == "" {
			// a view of an array that is never written below its length (append-only /
			// copy-on-write field, holders only read): as good as a copy
		} else if how != "copy" {
			c.Bad(rule, fname(accessor), name+" snapshot", w.pos(accessor.Pos()), "the accessor feeding the teardown loop returns "+how+": removing elements while ranging over the live slice skips entries (the array is changed under the holder: "+w.overwrittenBelowLen(f)+")")
			return
		}
	}
	// each resource of the element type released in the body
	var missing []string
	for _, rf := range resourceFields(et) {
		hit := func(in ssa.Instruction) bool {
			call, ok := in.(*ssa.Call)
			if !ok {
				return false
			}
			// direct: Stop/Close on elem.rf
			if isTimerPtr(rf.Type()) && call.Call.StaticCallee() != nil && call.Call.StaticCallee().String() == "(*time.Timer).Stop" {
				if b, fl, ok := fieldLoad(call.Call.Args[0]); ok && fl == rf && lp.isElem(b) {
					return true
				}
			}
			// via a module callee taking the receiver and the element/key, which releases rf
			if cal := call.Call.StaticCallee(); cal != nil && w.IsMod[cal] {
				takesElem := false
				for _, a := range call.Call.Args {
					if lp.isElem(a) {
						takesElem = true
					}
				}
				if takesElem && w.calleeReleases(cal, rf) {
					return true
				}
			}
			return false
		}
		if ok, _ := mustPassBefore(lp.body, hit, func(b *ssa.BasicBlock) bool { return b == lp.header }); !ok {
			missing = append(missing, et.Obj().Name()+"."+rf.Name())
		}
	}
	if len(missing) > 0 {
		c.Bad(rule, fname(cl), name, w.pos(cl.Pos()), "the teardown loop over "+f.Name()+" does not release on every iteration: "+strings.Join(missing, ", "))
		return
	}
	src := "the field"
	if accessor != nil {
		src = "a copy made by " + accessor.Name()
	}
	c.OK(rule, fname(cl), name, w.pos(cl.Pos()), fmt.Sprintf("%s over %s on every path; each iteration releases %d resource field(s) of %s", lp.desc, src, len(resourceFields(et)), et.Obj().Name()))
}

// returnsCopyOf classifies an accessor whose result derives from recv.f: "copy" when every
// returned slice is built by append onto a fresh slice (or make+copy), "the live slice" when
// it is the field's own value (possibly re-sliced or passed through a library call), "" when
// the function does not return the field's contents.
func (w *World) returnsCopyOf(fn *ssa.Function, f *types.Var) string {
	if len(fn.Params) != 1 || fn.Signature.Results().Len() != 1 {
		return ""
	}
	touches := false
	w.eachInstr(fn, func(in ssa.Instruction) {
		if fa, ok := in.(*ssa.FieldAddr); ok && fieldOf(fa) == f {
			touches = true
		}
	})
	if !touches {
		return ""
	}
	res := "copy"
	onStack := map[ssa.Value]bool{}
	var classify func(v ssa.Value, depth int) string
	classify = func(v ssa.Value, depth int) string {
		v = stripIface(w.resolveLoad(v))
		if depth > 12 {
			return "an unclassified value"
		}
		if onStack[v] {
			return "copy" // loop-carried: decided by the other operands
		}
		onStack[v] = true
		defer delete(onStack, v)
		switch x := v.(type) {
		case *ssa.Phi:
			out := "copy"
			for _, e := range x.Edges {
				if e == ssa.Value(x) {
					continue
				}
				if r := classify(e, depth+1); r != "copy" {
					out = r
				}
			}
			return out
		case *ssa.Slice:
			if _, isArr := x.X.(*ssa.Alloc); isArr {
				return "copy" // slice of a fresh array literal
			}
			return classify(x.X, depth+1)
		case *ssa.MakeSlice:
			return "copy"
		case *ssa.Call:
			if b, ok := x.Call.Value.(*ssa.Builtin); ok && b.Name() == "append" {
				return classify(x.Call.Args[0], depth+1) // result aliases (at most) its first argument
			}
			// slices.Clone(field), slices.Collect(maps.Values(field)), slices.AppendSeq(fresh, …)
			if src := w.freshCopyOf(x); src != nil {
				if _, fl, ok := fieldLoad(stripIface(w.resolveLoad(src))); ok && fl == f {
					return "copy"
				}
			}
			return "the result of " + w.desc(x) + " (may alias the live slice)"
		case *ssa.UnOp:
			if _, fl, ok := fieldLoad(x); ok && fl == f {
				return "the live slice"
			}
		case *ssa.Const:
			return "copy"
		}
		return "an unclassified value (" + w.key(v) + ")"
	}
	for _, r := range returnsOf(fn) {
		if k := classify(r.Results[0], 0); k != "copy" {
			res = k
		}
	}
	return res
}

// calleeReleases: the module function stops/closes field rf of an element it looks up or is
// given (one level: a (*time.Timer).Stop on a load of rf, or a Close on a value of rf's type /
// on the struct embedding it).
func (w *World) calleeReleases(fn *ssa.Function, rf *types.Var) bool {
	found := false
	w.eachInstr(fn, func(in ssa.Instruction) {
		ci, ok := in.(ssa.CallInstruction)
		if !ok {
			return
		}
		cc := ci.Common()
		if isTimerPtr(rf.Type()) {
			if cal := cc.StaticCallee(); cal != nil && cal.String() == "(*time.Timer).Stop" {
				if _, fl, ok := fieldLoad(cc.Args[0]); ok && fl == rf {
					found = true
				}
			}
			return
		}
		// connection: Close invoked on the field's value, or the promoted Close of the embedding struct
		if cc.IsInvoke() && cc.Method.Name() == "Close" {
			if _, fl, ok := fieldLoad(cc.Value); ok && fl == rf {
				found = true
			}
		}
		if cal := cc.StaticCallee(); cal != nil && cal.Name() == "Close" && len(cc.Args) > 0 {
			if n := namedOf(cc.Args[0].Type()); n != nil {
				if s, ok := n.Underlying().(*types.Struct); ok {
					for i := 0; i < s.NumFields(); i++ {
						if s.Field(i) == rf && s.Field(i).Embedded() {
							found = true
						}
					}
				}
			}
		}
	})
	return found
}

// ---------------------------------------------------------------------------------
// C15.3 error-path release

func ruleErrorPathRelease(c *Ctx, rule string) {
	w := c.W
	c.Rule(rule, "acquire/release on error paths: for the connection produced by Manager.allocateConn (CreateTCPConnection), relayListener.Accept (connHandler) and Manager.allocatePacketConn (GetRandomEvenPort), every path from the successful acquisition to a function exit or to the next loop iteration passes a Close() of that connection, unless ownership was taken: addTCPConnection(…, conn) returned a nil error on that path (addTCPConnection stores the connection in tcpConnections before every nil-error return)", 3)
	add := w.Func("allocation", "Manager", "addTCPConnection")
	type site struct {
		fn   *ssa.Function
		name string
		pick func(call *ssa.Call) bool
		conn int // tuple index of the resource
		err  int // tuple index of the error
	}
	sites := []site{
		{w.Func("allocation", "Manager", "CreateTCPConnection"), "allocateConn", func(call *ssa.Call) bool {
			_, f, ok := fieldLoad(call.Call.Value)
			return ok && nm(f) == "allocateConn"
		}, 0, 1},
		{w.Func("allocation", "Allocation", "connHandler"), "Accept", func(call *ssa.Call) bool {
			return call.Call.IsInvoke() && call.Call.Method.Name() == "Accept"
		}, 0, 1},
		{w.Func("allocation", "Manager", "GetRandomEvenPort"), "allocatePacketConn", func(call *ssa.Call) bool {
			_, f, ok := fieldLoad(call.Call.Value)
			return ok && nm(f) == "allocatePacketConn"
		}, 0, 2},
	}
	for _, s := range sites {
		var prod *ssa.Call
		w.eachInstr(s.fn, func(in ssa.Instruction) {
			if call, ok := in.(*ssa.Call); ok && s.pick(call) {
				prod = call
			}
		})
		if prod == nil {
			// the acquisition moved into a helper of its own (one probe per call): the
			// obligation is the helper's, from its acquisition to its exits
			for _, h := range w.helpersOf(s.fn) {
				w.eachInstr(h, func(in ssa.Instruction) {
					if call, ok := in.(*ssa.Call); ok && s.pick(call) && prod == nil {
						prod = call
						s.fn = h
					}
				})
			}
		}
		if prod == nil {
			c.Bad(rule, fname(s.fn), s.name, w.pos(s.fn.Pos()), "resource producer call not found: anchor gone")
			continue
		}
		c.Anchor(rule, fname(s.fn))
		// path exploration from the function's entry with the helpers that handle the connection
		// inlined: state = (acquired, closed, the addTCPConnection call that took it)
		type pst struct {
			active bool
			closed bool
			add    *ssa.Call
		}
		extractOf := func(call *ssa.Call, idx int) []ssa.Value {
			var out []ssa.Value
			if call.Referrers() == nil {
				return nil
			}
			for _, r := range *call.Referrers() {
				if ex, ok := r.(*ssa.Extract); ok && ex.Index == idx {
					out = append(out, ex)
				}
			}
			return out
		}
		isConnIn := func(v ssa.Value, env *pathEnv) bool {
			v = env.resolve(w.resolveLoad(v))
			if mi, ok := v.(*ssa.MakeInterface); ok {
				v = env.resolve(mi.X)
			}
			pc, pi := callOf(v)
			return pc == prod && pi == s.conn
		}
		interesting := func(in ssa.Instruction) bool {
			ci, ok := in.(ssa.CallInstruction)
			if !ok {
				return false
			}
			if ci.Common().IsInvoke() && ci.Common().Method.Name() == "Close" {
				return true
			}
			return ci.Common().StaticCallee() == add || in == ssa.Instruction(prod)
		}
		may := w.mayContain(interesting)
		bad := ""
		nChecked := 0
		judge := func(st pst, env *pathEnv, where string) {
			if !st.active {
				return
			}
			nChecked++
			failed := false
			for _, ev := range extractOf(prod, s.err) {
				if known, isNil := env.knownNil(ev); known && !isNil {
					failed = true
				}
			}
			owned := false
			if st.add != nil {
				for _, ev := range extractOf(st.add, 1) {
					if known, isNil := env.knownNil(ev); known && isNil {
						owned = true
					}
				}
			}
			if !(st.closed || owned || failed) {
				bad = "the connection obtained at " + w.instrPos(prod) + " can reach " + where + " neither closed nor handed to an owner"
			}
		}
		cfg := &ipCfg[pst]{w: w}
		cfg.Inline = func(_ ssa.CallInstruction, h *ssa.Function) bool {
			return w.IsMod[h] && h != add && fnPkgPath(h) == fnPkgPath(s.fn) && w.singleSiteCI(h) != nil && may(h)
		}
		cfg.Step = func(in ssa.Instruction, st pst, env *pathEnv, _ []ssa.CallInstruction) pst {
			if in == ssa.Instruction(prod) {
				judge(st, env, "the next loop iteration (acquisition at "+w.instrPos(prod)+" again)")
				// a new acquisition: what was known of the previous one's results is stale
				for _, idx := range []int{s.conn, s.err} {
					for _, ev := range extractOf(prod, idx) {
						env.forget(ev)
					}
				}
				return pst{active: true}
			}
			ci, ok := in.(ssa.CallInstruction)
			if !ok || !st.active {
				return st
			}
			if _, isGo := in.(*ssa.Go); isGo {
				return st
			}
			switch {
			case ci.Common().IsInvoke() && ci.Common().Method.Name() == "Close" && isConnIn(ci.Common().Value, env):
				st.closed = true
			case ci.Common().StaticCallee() == add && len(ci.Common().Args) == 3 && isConnIn(ci.Common().Args[2], env):
				if call, isCall := in.(*ssa.Call); isCall {
					st.add = call
				}
			}
			return st
		}
		cfg.Return = func(r *ssa.Return, st pst, env *pathEnv) {
			judge(st, env, "the return at "+w.instrPos(r))
		}
		explorePaths(cfg, s.fn, pst{})
		if cfg.Exhausted {
			bad = "undecided: path exploration exceeded its budget"
		}
		if bad == "" && nChecked > 0 {
			c.OK(rule, fname(s.fn), s.name, w.instrPos(prod), fmt.Sprintf("%d path ends: each has the acquisition failed, the connection closed, or ownership taken by addTCPConnection", nChecked))
		} else {
			if bad == "" {
				bad = "no path from the acquisition to an exit was explored"
			}
			c.Bad(rule, fname(s.fn), s.name, w.instrPos(prod), "connection leak on an error path: "+bad)
		}
	}
	// addTCPConnection stores before every nil-error return
	{
		c.Anchor(rule, "addTCPConnection stores")
		tc := w.Field("allocation", "Allocation", "tcpConnections")
		bad := ""
		n := 0
		for _, r := range returnsOf(add) {
			if !isNilConst(w.resolveLoad(r.Results[1])) {
				continue
			}
			n++
			if !allPathsTo(add, r.Block(), func(in ssa.Instruction) bool {
				mu, ok := in.(*ssa.MapUpdate)
				if !ok {
					return false
				}
				_, f, isL := fieldLoad(mu.Map)
				if !isL || f != tc {
					return false
				}
				lit := w.literalOf(w.resolveLoad(mu.Value))
				if lit == nil {
					return false
				}
				for _, v := range lit.fields {
					if v != nil && w.sameKey(v, add.Params[2]) {
						return true
					}
				}
				return false
			}) {
				bad = "a nil-error return at " + w.instrPos(r) + " is reachable without the connection having been stored in tcpConnections"
			}
		}
		if bad == "" && n > 0 {
			c.OK(rule, fname(add), "ownership", w.pos(add.Pos()), "every nil-error return is preceded by tcpConnections[id] = &tcpConnection{conn, …}")
		} else {
			if bad == "" {
				bad = "no nil-error return"
			}
			c.Bad(rule, fname(add), "ownership", w.pos(add.Pos()), bad)
		}
	}
}

func blockReaches(a, b *ssa.BasicBlock) bool {
	seen := map[*ssa.BasicBlock]bool{}
	stack := append([]*ssa.BasicBlock{}, liveSuccs(a)...)
	for len(stack) > 0 {
		x := stack[len(stack)-1]
		stack = stack[:len(stack)-1]
		if seen[x] {
			continue
		}
		seen[x] = true
		if x == b {
			return true
		}
		stack = append(stack, liveSuccs(x)...)
	}
	return false
}

// pathsPass: every path from block `from` (after it) to block `to` (inclusive) contains a hit.
func pathsPass(from, to *ssa.BasicBlock, hit func(ssa.Instruction) bool) bool {
	has := func(b *ssa.BasicBlock) bool {
		for _, in := range b.Instrs {
			if hit(in) {
				return true
			}
		}
		return false
	}
	if has(to) || has(from) {
		// a hit in the producer's own block after the producer, or in the exit block
		return true
	}
	seen := map[*ssa.BasicBlock]bool{}
	stack := append([]*ssa.BasicBlock{}, liveSuccs(from)...)
	for len(stack) > 0 {
		b := stack[len(stack)-1]
		stack = stack[:len(stack)-1]
		if seen[b] || has(b) {
			continue
		}
		seen[b] = true
		if b == to {
			return false
		}
		if b == from {
			continue // next iteration: a new acquisition
		}
		stack = append(stack, liveSuccs(b)...)
	}
	return true
}

// ---------------------------------------------------------------------------------

func ruleCloseUnderLock(c *Ctx, rule string) {
	w := c.W
	li := w.lockInfo()
	c.Rule(rule, "Allocation.Close and Allocation.removeTCPConnection are entered only with Manager.lock write-held (entry lockset = intersection over all module callers); in Close the close(a.closed) is on the default edge of a non-blocking receive from a.closed", 3)
	for _, n := range []string{"Close", "removeTCPConnection"} {
		fn := w.Func("allocation", "Allocation", n)
		c.Anchor(rule, n)
		em := li.entryMust[fn]
		if em["TOP"] {
			c.Bad(rule, fname(fn), "entry lockset", w.pos(fn.Pos()), "no module caller found")
			continue
		}
		if em["allocation.Manager.lock/W"] {
			c.OK(rule, fname(fn), "entry lockset", w.pos(fn.Pos()), fmt.Sprintf("all %d callers hold Manager.lock (entry lockset {%s})", len(li.callers[fn]), em.str()))
		} else {
			var who []string
			for _, cs := range li.callers[fn] {
				if !li.mustAt(cs)["allocation.Manager.lock/W"] {
					who = append(who, fname(cs.Parent())+" at "+w.instrPos(cs))
				}
			}
			sort.Strings(who)
			c.Bad(rule, fname(fn), "entry lockset", w.pos(fn.Pos()), n+" can be entered without Manager.lock (tcpConnections is guarded by it; concurrent teardown): "+strings.Join(who, "; "))
		}
	}
	cl := w.Func("allocation", "Allocation", "Close")
	c.Anchor(rule, "close(a.closed)")
	n := 0
	w.eachInstrDeep(cl, func(in ssa.Instruction) {
		call, ok := in.(*ssa.Call)
		if !ok {
			return
		}
		if b, isB := call.Call.Value.(*ssa.Builtin); !isB || b.Name() != "close" {
			return
		}
		n++
		guarded := false
		for _, f := range w.factsAt(in) {
			if f.Op == "==" && !f.Truth {
				if e, ok := f.X.(*ssa.Extract); ok {
					if sel, isSel := e.Tuple.(*ssa.Select); isSel && !sel.Blocking && len(sel.States) == 1 && w.sameKey(sel.States[0].Chan, call.Call.Args[0]) {
						guarded = true
					}
				}
			}
		}
		if guarded {
			c.OK(rule, fname(cl), "close(a.closed)", w.instrPos(in), "on the default edge of `select { case <-a.closed: … default: }`")
		} else {
			c.Bad(rule, fname(cl), "close(a.closed)", w.instrPos(in), "close of the closed-channel is not guarded by the closed-test: a second Close panics")
		}
	})
	if n == 0 {
		// the idempotence guard may be a sync.Once instead of a closed-channel: then the whole
		// teardown (located by the stop of the allocation's own timer) runs inside once.Do
		underOnce := false
		lt := w.Field("allocation", "Allocation", "lifetimeTimer")
		w.eachInstr(cl, func(in ssa.Instruction) {
			call, ok := in.(*ssa.Call)
			if !ok {
				return
			}
			body := w.syncCallbackBody(call)
			if body == nil {
				return
			}
			w.eachInstrDeep(body, func(in2 ssa.Instruction) {
				if c2, ok := in2.(*ssa.Call); ok && c2.Call.StaticCallee() != nil && c2.Call.StaticCallee().String() == "(*time.Timer).Stop" {
					if _, f, isL := fieldLoad(c2.Call.Args[0]); isL && f == lt {
						underOnce = true
					}
				}
			})
		})
		if underOnce {
			c.OK(rule, fname(cl), "close(a.closed)", w.pos(cl.Pos()), "the teardown runs inside sync.Once.Do: a second Close does nothing")
		} else {
			c.Bad(rule, fname(cl), "close(a.closed)", w.pos(cl.Pos()), "Close no longer closes a.closed: anchor gone")
		}
	}
}

// ---------------------------------------------------------------------------------

func ruleRelayLoopExits(c *Ctx, rule string) {
	w := c.W
	c.Rule(rule, "relay goroutines: every return of packetConnHandler / connHandler on the read/accept error edge is preceded by manager.DeleteAllocation(a.fiveTuple); returns on other edges are advisories; in the server, readLoop's only exit is the read-error edge, and after it the packet-conn goroutine calls am.Close() and the listener goroutine calls DeleteAllocation + conn.Close()", 4)
	del := w.Func("allocation", "Manager", "DeleteAllocation")
	for _, n := range []string{"packetConnHandler", "connHandler"} {
		fn := w.Func("allocation", "Allocation", n)
		c.Anchor(rule, n)
		nErr := 0
		for _, r := range returnsOf(fn) {
			onErr := false
			for _, f := range w.factsAt(r) {
				if v, isNil, ok := nilFact(f); ok && !isNil {
					if call, idx := callOf(v); call != nil && call.Call.IsInvoke() && (call.Call.Method.Name() == "ReadFrom" && idx == 2 || call.Call.Method.Name() == "Accept" && idx == 1) {
						onErr = true
					}
				}
			}
			if !onErr {
				c.Notes = append(c.Notes, fmt.Sprintf("advisory: %s returns at %s on an edge other than the read/accept error; the relay goroutine ends without DeleteAllocation (the allocation stays until it expires)", fname(fn), w.instrPos(r)))
				continue
			}
			nErr++
			ok := allPathsTo(fn, r.Block(), func(in ssa.Instruction) bool {
				call, isC := in.(*ssa.Call)
				if !isC || call.Call.StaticCallee() != del || !w.sameKey(call.Call.Args[0], fn.Params[1]) {
					return false
				}
				b, f, isL := fieldLoad(call.Call.Args[1])
				return isL && nm(f) == "fiveTuple" && w.sameKey(b, fn.Params[0])
			})
			if ok {
				c.OK(rule, fname(fn), "exit on error", w.instrPos(r), "manager.DeleteAllocation(a.fiveTuple) before the return")
			} else {
				c.Bad(rule, fname(fn), "exit on error", w.instrPos(r), "the relay goroutine ends on a socket error without deleting its allocation: the allocation stays registered with a dead relay")
			}
		}
		if nErr == 0 {
			c.Bad(rule, fname(fn), "exit on error", w.pos(fn.Pos()), "no return on the read/accept error edge: a failed relay socket would spin")
		}
	}
	// readLoop exits
	{
		rl := w.Func("turn", "Server", "readLoop")
		c.Anchor(rule, "readLoop")
		bad := ""
		n := 0
		for _, r := range returnsOf(rl) {
			n++
			onErr := false
			for _, f := range w.factsAt(r) {
				if v, isNil, ok := nilFact(f); ok && !isNil {
					if call, idx := callOf(v); call != nil && call.Call.IsInvoke() && call.Call.Method.Name() == "ReadFrom" && idx == 2 {
						onErr = true
					}
				}
			}
			if !onErr {
				bad = "readLoop can return at " + w.instrPos(r) + " without a read error: one bad datagram or handler error would stop the listener"
			}
		}
		if bad == "" && n > 0 {
			c.OK(rule, fname(rl), "exits", w.pos(rl.Pos()), fmt.Sprintf("%d return(s), all on the ReadFrom error edge", n))
		} else {
			if bad == "" {
				bad = "no return at all"
			}
			c.Bad(rule, fname(rl), "exits", w.pos(rl.Pos()), bad)
		}
		// after-loop cleanup
		c.Anchor(rule, "after readLoop")
		mclose := w.Func("allocation", "Manager", "Close")
		nOK := 0
		for _, fn := range w.ModFns {
			w.eachInstr(fn, func(in ssa.Instruction) {
				call, ok := in.(*ssa.Call)
				if !ok || call.Call.StaticCallee() != rl {
					return
				}
				// followed (dominated-after) by Manager.Close or DeleteAllocation+conn.Close — in
				// this function, or, when the loop runs inside a serve callback / helper, after
				// every call of that helper (resolved through the call graph, depth ≤ 3)
				var tornDown func(site ssa.CallInstruction, depth int) bool
				tornDown = func(site ssa.CallInstruction, depth int) bool {
					if _, isGo := site.(*ssa.Go); isGo || depth > 3 {
						return false // a goroutine of its own: nothing runs after it in the spawner
					}
					sv, isV := site.(ssa.Instruction)
					if !isV || site.Parent() == nil {
						return false
					}
					f := site.Parent()
					okHere := false
					w.eachInstr(f, func(in2 ssa.Instruction) {
						c2, ok := in2.(*ssa.Call)
						if !ok {
							return
						}
						if (c2.Call.StaticCallee() == mclose || c2.Call.StaticCallee() == del) && instrReaches(sv, c2) && sv.Block().Dominates(c2.Block()) {
							okHere = true
						}
					})
					if okHere {
						return true
					}
					node := w.CG.Nodes[f]
					if node == nil || len(node.In) == 0 {
						return false
					}
					for _, e := range node.In {
						if e.Site == nil || !tornDown(e.Site, depth+1) {
							return false
						}
					}
					return true
				}
				okClean := tornDown(call, 0)
				if okClean {
					nOK++
					c.OK(rule, fname(fn), "after readLoop", w.instrPos(in), "the goroutine closes the manager / deletes the connection's allocation after the loop ends")
				} else {
					c.Bad(rule, fname(fn), "after readLoop", w.instrPos(in), "nothing is torn down after the read loop ends")
				}
			})
		}
		if nOK < 2 {
			c.Bad(rule, "-", "after readLoop", "-", fmt.Sprintf("only %d readLoop call sites with teardown (expected packet-conn and listener goroutines)", nOK))
		}
	}
}

// ---------------------------------------------------------------------------------

func ruleCallbackPairing(c *Ctx, rule string) {
	w := c.W
	c.Rule(rule, "callback pairing: OnAllocationCreated/OnPermissionCreated/OnChannelCreated are called in the function that inserts the entry, dominated by the insert; OnAllocationDeleted/OnPermissionDeleted/OnChannelDeleted are called in the function that removes the entry and only on a path where an entry was actually found (a lookup of the table yielded a present/non-nil entry), so that a second removal of the same key emits nothing; and every path of the removing function (helpers inlined) on which a found entry is removed reaches the deleted-event unless the handler is nil", 9)
	type cb struct {
		name, fn, recvT, table string
		created                bool
	}
	cbs := []cb{
		{"OnAllocationCreated", "CreateAllocation", "Manager", "allocations", true},
		{"OnAllocationDeleted", "DeleteAllocation", "Manager", "allocations", false},
		{"OnPermissionCreated", "AddPermission", "Allocation", "permissions", true},
		{"OnPermissionDeleted", "RemovePermission", "Allocation", "permissions", false},
		{"OnChannelCreated", "AddChannelBind", "Allocation", "channelBindings", true},
		{"OnChannelDeleted", "RemoveChannelBind", "Allocation", "channelBindings", false},
	}
	for _, k := range cbs {
		home := w.Func("allocation", k.recvT, k.fn)
		owner := "Allocation"
		if k.table == "allocations" {
			owner = "Manager"
		}
		tbl := w.Field("allocation", owner, k.table)
		n := 0
		for _, fn := range w.ModFns {
			w.eachInstr(fn, func(in ssa.Instruction) {
				call, ok := in.(*ssa.Call)
				if !ok || call.Call.StaticCallee() != nil || call.Call.IsInvoke() {
					return
				}
				_, f, isL := fieldLoad(call.Call.Value)
				if !isL || f.Name() != k.name {
					return
				}
				n++
				c.Anchor(rule, k.name)
				if !w.partOf(fn, home) {
					// a helper shared by several installers/removers may both change the table
					// and report it: accepted when the change itself is made in that helper's own
					// body (the checks below then apply there); emission in a function that does
					// not touch the table is refused
					touches := false
					w.eachInstrDeep(fn, func(i2 ssa.Instruction) {
						if tableWrite(w, i2, tbl) {
							touches = true
						}
						if call, ok := i2.(*ssa.Call); ok {
							if b, isB := call.Call.Value.(*ssa.Builtin); isB && b.Name() == "delete" {
								if _, f2, isL := fieldLoad(call.Call.Args[0]); isL && f2 == tbl {
									touches = true
								}
							}
						}
					})
					if !touches {
						c.Bad(rule, fname(fn), k.name, w.instrPos(in), k.name+" is emitted outside "+k.fn+", the function that performs the change it reports")
						return
					}
				}
				if k.created {
					// dominated by the insert into the table
					dom := w.domHit(in, func(in2 ssa.Instruction) bool { return tableWrite(w, in2, tbl) })
					if !dom {
						// reported first, inserted afterwards on every path (C15.7 checks that
						// nothing is armed in between)
						dom = true
						n2 := 0
						for _, r := range returnsOf(fn) {
							if r.Block() != in.Block() && !blockReaches(in.Block(), r.Block()) {
								continue
							}
							n2++
							if !pathsPass(in.Block(), r.Block(), w.deepHit(func(in2 ssa.Instruction) bool { return tableWrite(w, in2, tbl) })) {
								dom = false
							}
						}
						if n2 == 0 {
							dom = false
						}
					}
					if dom {
						c.OK(rule, fname(fn), k.name, w.instrPos(in), "tied to the insert into "+k.table+" (dominated by it, or followed by it on every path)")
					} else {
						c.Bad(rule, fname(fn), k.name, w.instrPos(in), "the created-event can be emitted without (or before) the entry being inserted")
					}
					return
				}
				// deleted: a "found" fact about a lookup in the table
				found := false
				for _, fct := range w.factsAt(in) {
					var v ssa.Value
					switch {
					case fct.Op == "true" && fct.Truth:
						v = fct.X // comma-ok of a map lookup
					case fct.Op == "==":
						if x, isNil, ok := nilFact(fct); ok && !isNil {
							v = x
						} else if fct.Truth {
							// element.Number == number on an element of the table
							for _, side := range []ssa.Value{fct.X, fct.Y} {
								if b, _, ok := fieldLoad(side); ok && derivesFromTable(w, b, tbl) {
									found = true
								}
							}
						}
					}
					if v != nil && derivesFromTable(w, v, tbl) {
						found = true
					}
				}
				if found {
					c.OK(rule, fname(fn), k.name, w.instrPos(in), "on a path where the entry was found in "+k.table)
				} else {
					c.Bad(rule, fname(fn), k.name, w.instrPos(in), "the deleted-event is emitted whether or not an entry existed: removing the same key twice (expiry racing with teardown during a slow callback) yields two deleted-events for one created-event")
				}
			})
		}
		if n == 0 {
			c.Bad(rule, fname(home), k.name, w.pos(home.Pos()), k.name+" is never invoked: anchor gone")
		}
		if k.created {
			continue
		}
		// every removal is reported: no path of the removing function (helpers inlined) takes an
		// entry that was found out of the table and returns without the deleted-event, unless
		// the handler is nil on that path
		c.Anchor(rule, k.name+" on removal")
		createdUnder := map[string]bool{}
		crName := strings.Replace(k.name, "Deleted", "Created", 1)
		for _, fn := range w.ModFns {
			w.eachInstr(fn, func(in ssa.Instruction) {
				call, ok := in.(*ssa.Call)
				if !ok || call.Call.StaticCallee() != nil || call.Call.IsInvoke() {
					return
				}
				if _, f, isL := fieldLoad(call.Call.Value); !isL || f.Name() != crName {
					return
				}
				for _, fct := range w.factsAt(in) {
					if fct.Op == "true" && fct.Truth {
						if ex, ok := fct.X.(*ssa.Extract); ok && ex.Index == 1 {
							if ta, isTA := ex.Tuple.(*ssa.TypeAssert); isTA && ta.CommaOk {
								createdUnder[types.TypeString(ta.AssertedType, nil)] = true
							}
						}
					}
				}
			})
		}
		isEmit := func(in ssa.Instruction) bool {
			call, ok := in.(*ssa.Call)
			if !ok || call.Call.StaticCallee() != nil || call.Call.IsInvoke() {
				return false
			}
			_, f, isL := fieldLoad(call.Call.Value)
			return isL && f.Name() == k.name
		}
		isRemove := func(in ssa.Instruction) bool {
			if call, ok := in.(*ssa.Call); ok {
				if b, isB := call.Call.Value.(*ssa.Builtin); isB && b.Name() == "delete" {
					_, f, isL := fieldLoad(call.Call.Args[0])
					return isL && f == tbl
				}
				return false
			}
			if st, ok := in.(*ssa.Store); ok {
				fa, isFA := st.Addr.(*ssa.FieldAddr)
				return isFA && fieldOf(fa) == tbl
			}
			return false
		}
		may := w.mayContain(func(in ssa.Instruction) bool { return isEmit(in) || isRemove(in) })
		type est struct{ removed, emitted bool }
		bad := ""
		nPaths, nRemoved := 0, 0
		cfg := &ipCfg[est]{w: w}
		cfg.Inline = func(_ ssa.CallInstruction, h *ssa.Function) bool {
			return w.IsMod[h] && fnPkgPath(h) == fnPkgPath(home) && may(h)
		}
		cfg.Step = func(in ssa.Instruction, st est, _ *pathEnv, _ []ssa.CallInstruction) est {
			if isRemove(in) {
				st.removed = true
			}
			if isEmit(in) {
				st.emitted = true
			}
			return st
		}
		cfg.Return = func(r *ssa.Return, st est, env *pathEnv) {
			nPaths++
			if !st.removed || st.emitted {
				if st.removed {
					nRemoved++
				}
				return
			}
			found, handlerNil := false, false
			for v, isNil := range env.nilK {
				if isNil {
					if _, f, isL := fieldLoad(v); isL && f.Name() == k.name {
						handlerNil = true
					}
				} else if derivesFromTable(w, v, tbl) {
					found = true
				}
			}
			for v, t := range env.truth {
				if !t {
					continue
				}
				if ex, ok := v.(*ssa.Extract); ok && ex.Index == 1 && derivesFromTable(w, ex.Tuple, tbl) {
					found = true
				}
				if bo, ok := v.(*ssa.BinOp); ok && bo.Op == token.EQL {
					for _, side := range []ssa.Value{bo.X, bo.Y} {
						if b, _, ok := fieldLoad(side); ok && derivesFromTable(w, b, tbl) {
							found = true
						}
					}
				}
				if call, ok := v.(*ssa.Call); ok {
					for _, a := range call.Call.Args {
						if b, _, ok := fieldLoad(a); ok && derivesFromTable(w, b, tbl) {
							found = true // AddrEqual(element.Peer, addr)
						}
					}
				}
			}
			// the event may have no representation for the entry at hand (permission events
			// carry a UDP address): a failed comma-ok type assertion exempts the path when the
			// created-event of the pair is emitted under the same assertion
			exempt := false
			for v, t := range env.truth {
				if ex, ok := v.(*ssa.Extract); ok && !t && ex.Index == 1 {
					if ta, isTA := ex.Tuple.(*ssa.TypeAssert); isTA && ta.CommaOk && createdUnder[types.TypeString(ta.AssertedType, nil)] {
						exempt = true
					}
				}
			}
			if found && !handlerNil && !exempt {
				bad = "an entry found in " + k.table + " is removed but the return at " + w.instrPos(r) + " is reached without " + k.name + ": a created-event is left without its deleted-event (e.g. when a step of the teardown fails)"
			}
		}
		explorePaths(cfg, home, est{})
		switch {
		case cfg.Exhausted:
			c.Bad(rule, fname(home), k.name+" on removal", w.pos(home.Pos()), "undecided: path exploration exceeded its budget")
		case bad != "":
			c.Bad(rule, fname(home), k.name+" on removal", w.pos(home.Pos()), bad)
		case nRemoved == 0:
			c.Bad(rule, fname(home), k.name+" on removal", w.pos(home.Pos()), "no explored path removes an entry and reports it: anchor gone")
		default:
			c.OK(rule, fname(home), k.name+" on removal", w.pos(home.Pos()), fmt.Sprintf("%d paths, %d of them remove an entry and emit the event", nPaths, nRemoved))
		}
	}
}

func tableWrite(w *World, in ssa.Instruction, tbl *types.Var) bool {
	switch x := in.(type) {
	case *ssa.MapUpdate:
		_, f, ok := fieldLoad(x.Map)
		return ok && f == tbl
	case *ssa.Store:
		fa, ok := x.Addr.(*ssa.FieldAddr)
		return ok && fieldOf(fa) == tbl
	}
	return false
}

// derivesFromTable: v is (an extract of) a lookup / index of the table field's value.
func derivesFromTable(w *World, v ssa.Value, tbl *types.Var) bool {
	return derivesFromTableD(w, v, tbl, 0)
}

func derivesFromTableD(w *World, v ssa.Value, tbl *types.Var, depth int) bool {
	for i := 0; i < 8; i++ {
		v = stripIface(w.resolveLoad(v))
		switch x := v.(type) {
		case *ssa.Call:
			// a lookup helper: every non-nil value it returns is read from the table
			h := x.Call.StaticCallee()
			if h == nil || !w.IsMod[h] || len(h.Blocks) == 0 || depth > 2 {
				return false
			}
			n := 0
			for _, r := range returnsOf(h) {
				if len(r.Results) == 0 {
					return false
				}
				for _, lf := range w.guardedLeaves(r.Results[0], r) {
					if isNilConst(lf.val) {
						continue
					}
					if !derivesFromTableD(w, lf.val, tbl, depth+1) {
						return false
					}
					n++
				}
			}
			return n > 0
		case *ssa.Extract:
			if c, ok := x.Tuple.(*ssa.Call); ok && x.Index == 0 {
				v = c
				continue
			}
			v = x.Tuple
		case *ssa.Lookup:
			_, f, ok := fieldLoad(x.X)
			return ok && f == tbl
		case *ssa.UnOp:
			if ia, ok := x.X.(*ssa.IndexAddr); ok {
				_, f, ok := fieldLoad(ia.X)
				return ok && f == tbl
			}
			return false
		default:
			return false
		}
	}
	return false
}

// ---------------------------------------------------------------------------------

func ruleArmThenPublish(c *Ctx, rule string) {
	w := c.W
	c.Rule(rule, "CreateAllocation: from the instruction that arms lifetimeTimer every path to a return passes the insert into Manager.allocations (a failed create leaves no live timer behind, since the expiry deletes by 5-tuple and would hit a later allocation), and the OnAllocationCreated call is either dominated by the insert (teardown arriving during a slow callback finds the allocation) or made before the timer is armed with every path from it reaching the insert (nothing can expire while the handler runs)", 2)
	create := w.Func("allocation", "Manager", "CreateAllocation")
	afterFunc := timeAfterFunc(w)
	tbl := w.Field("allocation", "Manager", "allocations")
	// the instruction of CreateAllocation that arms the timer: the AfterFunc call itself or
	// the call of a helper that always does it
	var arm ssa.Instruction
	isArm := w.deepHit(func(in ssa.Instruction) bool {
		call, ok := in.(*ssa.Call)
		return ok && call.Call.StaticCallee() == afterFunc
	})
	w.eachInstr(create, func(in ssa.Instruction) {
		if isArm(in) {
			arm = in
		}
	})
	c.Anchor(rule, "arm→insert")
	if arm == nil {
		c.Bad(rule, fname(create), "arm", w.pos(create.Pos()), "CreateAllocation no longer arms a timer: anchor gone")
		return
	}
	isInsert := w.deepHit(func(in ssa.Instruction) bool { return tableWrite(w, in, tbl) })
	bad := ""
	for _, r := range returnsOf(create) {
		if r.Block() != arm.Block() && !blockReaches(arm.Block(), r.Block()) {
			continue
		}
		if !pathsPass(arm.Block(), r.Block(), isInsert) {
			bad = "the return at " + w.instrPos(r) + " is reachable after the timer was armed at " + w.instrPos(arm) + " without the allocation having been inserted"
		}
	}
	if bad == "" {
		c.OK(rule, fname(create), "arm→insert", w.instrPos(arm), "every return after the arming passes the insert")
	} else {
		c.Bad(rule, fname(create), "arm→insert", w.instrPos(arm), "orphan timer: "+bad)
	}
	c.Anchor(rule, "insert→callback")
	// handled by C15.6 (dominance of the insert over OnAllocationCreated); restated here as its own obligation
	okDom := false
	w.eachInstrDeep(create, func(in ssa.Instruction) {
		call, ok := in.(*ssa.Call)
		if !ok || call.Call.StaticCallee() != nil || call.Call.IsInvoke() {
			return
		}
		if _, f, isL := fieldLoad(call.Call.Value); !isL || f.Name() != "OnAllocationCreated" {
			return
		}
		if w.domHit(in, func(in2 ssa.Instruction) bool { return tableWrite(w, in2, tbl) }) {
			okDom = true
		}
		// or the other way round, with nothing armed yet: the callback runs first, the timer is
		// armed only afterwards (it cannot fire while the handler runs), and every path from the
		// callback on inserts the allocation
		if !okDom && in.Parent() == create && !instrReaches(arm, in) {
			all := true
			for _, r := range returnsOf(create) {
				if r.Block() != in.Block() && !blockReaches(in.Block(), r.Block()) {
					continue
				}
				if !pathsPass(in.Block(), r.Block(), isInsert) {
					// an error return after the callback without the insert
					if len(r.Results) > 0 && !isNilConst(w.resolveLoad(r.Results[len(r.Results)-1])) {
						all = false
					} else {
						all = false
					}
				}
			}
			if all {
				okDom = true
			}
		}
	})
	if okDom {
		c.OK(rule, fname(create), "insert→callback", w.pos(create.Pos()), "the insert dominates the created-callback")
	} else {
		c.Bad(rule, fname(create), "insert→callback", w.pos(create.Pos()), "the created-callback can run before the allocation is in the table: expiry or Manager.Close during a slow callback finds nothing, and the allocation is published afterwards with a spent timer")
	}
}

// valuesExclusive: the values stored by a and b cannot both be non-nil: for every pair of
// non-nil sources the facts under which they are selected contain one atom with opposite
// truth values.
func valuesExclusive(w *World, a, b *ssa.Store) bool {
	la, okA := w.sources(a.Val, a, nil)
	lb, okB := w.sources(b.Val, b, nil)
	if !okA || !okB {
		return false
	}
	nonNil := func(ls []srcLeaf) []*srcLeaf {
		var out []*srcLeaf
		for i := range ls {
			if !isNilConst(ls[i].val) {
				out = append(out, &ls[i])
			}
		}
		return out
	}
	na, nb := nonNil(la), nonNil(lb)
	if len(na) == 0 || len(nb) == 0 {
		return true
	}
	for _, x := range na {
		for _, y := range nb {
			contra := false
			for _, f := range x.facts {
				for _, g := range y.facts {
					if f.Op == g.Op && f.Truth != g.Truth && sameAtomSides(w, f, g) {
						contra = true
					}
					// X == c1 vs X == c2 with different constants
					if f.Op == "==" && g.Op == "==" && f.Truth && g.Truth {
						cf, okf := constInt(f.Y)
						cg, okg := constInt(g.Y)
						if okf && okg && cf != cg && (f.X == g.X || w.sameKey(f.X, g.X)) {
							contra = true
						}
					}
				}
			}
			if !contra {
				return false
			}
		}
	}
	return true
}

// ruleBindTimerReleasesByIdentity (C15.9): a peer TCP connection that is never bound is
// released by its bind timer. Allocation.Close sweeps tcpConnections once; a connection that
// gets registered afterwards (a Connect whose dial completes late, an accept racing teardown)
// has only the timer. The timer's release therefore must not depend on the owning allocation
// still being registered in Manager.allocations.
func ruleBindTimerReleasesByIdentity(c *Ctx, rule string) {
	w := c.W
	c.Rule(rule, "bind-timeout release by identity: no function reachable from the closure armed as tcpConnection.bindTimer reads Manager.allocations (lookup or range)", 1)
	tbl := w.Field("allocation", "Manager", "allocations")
	bt := w.Field("allocation", "tcpConnection", "bindTimer")
	afterFunc := timeAfterFunc(w)
	n := 0
	for _, fn := range w.ModFns {
		w.eachInstr(fn, func(in ssa.Instruction) {
			st, ok := in.(*ssa.Store)
			if !ok {
				return
			}
			fa, ok := st.Addr.(*ssa.FieldAddr)
			if !ok || fieldOf(fa) != bt {
				return
			}
			call, _ := callOf(w.resolveLoad(st.Val))
			if call == nil || call.Call.StaticCallee() != afterFunc || len(call.Call.Args) != 2 {
				return
			}
			var body *ssa.Function
			switch a := call.Call.Args[1].(type) {
			case *ssa.MakeClosure:
				body = w.closureBody(a)
			case *ssa.Function:
				body = a
			}
			n++
			c.Anchor(rule, "bindTimer closure")
			if body == nil {
				c.Bad(rule, fname(fn), "bindTimer", w.instrPos(in), "cannot identify the function armed as bind timer")
				return
			}
			bad := ""
			seen := map[*ssa.Function]bool{}
			var visit func(f *ssa.Function, d int)
			visit = func(f *ssa.Function, d int) {
				if f == nil || seen[f] || d > 4 || len(f.Blocks) == 0 || !w.IsMod[f] {
					return
				}
				seen[f] = true
				w.eachInstr(f, func(i2 ssa.Instruction) {
					switch x := i2.(type) {
					case *ssa.Lookup:
						if _, f2, isL := fieldLoad(x.X); isL && f2 == tbl {
							bad = w.instrPos(i2)
						}
					case *ssa.Range:
						if _, f2, isL := fieldLoad(x.X); isL && f2 == tbl {
							bad = w.instrPos(i2)
						}
					case ssa.CallInstruction:
						visit(x.Common().StaticCallee(), d+1)
					}
				})
			}
			visit(body, 0)
			if bad == "" {
				c.OK(rule, fname(fn), "bindTimer", w.instrPos(in), "the timer releases through the allocation it was registered on")
			} else {
				c.Bad(rule, fname(fn), "bindTimer", w.instrPos(in), "the bind timer finds the connection's owner by searching Manager.allocations (at "+bad+"): for a connection registered on an allocation that has since ended the search finds nothing, the release is skipped, and the peer TCP connection outlives its allocation for good")
			}
		})
	}
	if n == 0 {
		c.Anchor(rule, "bindTimer closure")
		c.Bad(rule, "-", "bindTimer", "-", "no time.AfterFunc stored into tcpConnection.bindTimer: anchor gone")
	}
}

// ruleGoroutineSignalsDoNotBlock (C15.10): "no goroutine outlives its owner". A function that
// starts goroutines and waits for the first of them over a channel it made itself must leave
// room for the others: every send of a started goroutine on that channel needs a receive of
// its own or a buffer slot — cancel() and close() are idempotent and never block, a send is
// neither. Counted statically: sends in function literals started with `go` (a `go` inside a
// loop counts as many) against receives outside loops in the creator plus the capacity.
func ruleGoroutineSignalsDoNotBlock(c *Ctx, rule string) {
	w := c.W
	c.Rule(rule, "for every channel made locally (make(chan T[, k]) with constant k) whose only users are its creator and function literals the creator starts with `go`: (number of goroutine sends) ≤ (receives in the creator outside loops) + k", 0)
	n := 0
	for _, fn := range w.ModFns {
		w.eachInstr(fn, func(in ssa.Instruction) {
			mc, ok := in.(*ssa.MakeChan)
			if !ok {
				return
			}
			k, isK := constInt(mc.Size)
			if !isK {
				return
			}
			// the channel value and the local variable cell it may live in
			holders := map[ssa.Value]bool{mc: true}
			if mc.Referrers() != nil {
				for _, r := range *mc.Referrers() {
					if st, isSt := r.(*ssa.Store); isSt && st.Val == ssa.Value(mc) {
						if al, isAl := st.Addr.(*ssa.Alloc); isAl {
							holders[al] = true
						} else {
							return // stored into a field: not local
						}
					}
				}
			}
			sends, recvs := 0, 0
			unbounded, escaped := false, false
			inLoop := func(i ssa.Instruction) bool { return instrReaches(i, i) }
			var use func(v ssa.Value, inGo bool, goInLoop bool, d int)
			use = func(v ssa.Value, inGo bool, goInLoop bool, d int) {
				if v.Referrers() == nil || d > 4 {
					return
				}
				for _, r := range *v.Referrers() {
					switch x := r.(type) {
					case *ssa.UnOp:
						if x.Op == token.ARROW {
							if !inGo && !inLoop(x) {
								recvs++
							} else if !inGo {
								recvs += 1 << 20 // a receive loop in the creator drains everything
							}
						} else if x.Op == token.MUL {
							use(x, inGo, goInLoop, d+1) // load of the cell
						}
					case *ssa.Send:
						if x.Chan == v {
							if inGo {
								sends++
								if goInLoop || inLoop(x) {
									unbounded = true
								}
							}
						} else {
							escaped = true
						}
					case *ssa.Select:
						for _, st := range x.States {
							if st.Chan != v {
								continue
							}
							if st.Dir == types.SendOnly && inGo {
								if x.Blocking {
									// a select with other ready-able cases may still take another
									// branch: counted as a send only if it is the sole case
									if len(x.States) == 1 {
										sends++
									}
								}
							}
							if st.Dir == types.RecvOnly && !inGo {
								if inLoop(x) {
									recvs += 1 << 20
								} else {
									recvs++
								}
							}
						}
					case *ssa.Store:
						if x.Val == v {
							if _, isAl := x.Addr.(*ssa.Alloc); !isAl {
								escaped = true
							}
						}
					case *ssa.MakeClosure:
						body, _ := x.Fn.(*ssa.Function)
						started, loop := false, false
						if x.Referrers() != nil {
							for _, u := range *x.Referrers() {
								if g, isGo := u.(*ssa.Go); isGo {
									started = true
									if inLoop(g) {
										loop = true
									}
								}
							}
						}
						if body == nil {
							escaped = true
							continue
						}
						for i, b := range x.Bindings {
							if b == v && i < len(body.FreeVars) {
								if started {
									use(body.FreeVars[i], true, loop || goInLoop, d+1)
								} else {
									use(body.FreeVars[i], inGo, goInLoop, d+1)
								}
							}
						}
					case *ssa.Call:
						if b, isB := x.Call.Value.(*ssa.Builtin); isB && (b.Name() == "close" || b.Name() == "len" || b.Name() == "cap") {
							continue
						}
						escaped = true
					case *ssa.Go, *ssa.Defer, *ssa.Return, *ssa.MakeInterface, *ssa.Phi:
						escaped = true
					case *ssa.DebugRef:
					}
				}
			}
			for h := range holders {
				use(h, false, false, 0)
			}
			if escaped || sends == 0 {
				return
			}
			n++
			c.Anchor(rule, fname(fn))
			switch {
			case unbounded && recvs < 1<<20:
				c.Bad(rule, fname(fn), "channel", w.instrPos(in), fmt.Sprintf("goroutines started in a loop send on this channel, the creator receives %d time(s) and the buffer holds %d: the goroutines that are not received from block for ever", recvs, k))
			case int64(sends) > int64(recvs)+k:
				c.Bad(rule, fname(fn), "channel", w.instrPos(in), fmt.Sprintf("%d goroutine send(s) on this channel against %d receive(s) in the creator and a buffer of %d: once the creator has what it waited for, the remaining sender blocks on its send for ever — one goroutine per use outlives the connection, the allocation and the server (a cancel function or close() would not block)", sends, recvs, k))
			default:
				c.OK(rule, fname(fn), "channel", w.instrPos(in), fmt.Sprintf("%d goroutine send(s), %d receive(s) in the creator, buffer %d", sends, recvs, k))
			}
		})
	}
	if n == 0 {
		c.Triv(rule, "-", "scan", "-", "no local channel that started goroutines send on")
	}
}
