package main

// Rules written against bug-fix commits that regress a neighbouring case (round 10): each is a
// necessary condition of its property that the fix removed while repairing something else.

import (
	"go/token"
	"go/types"
	"strings"

	"golang.org/x/tools/go/ssa"
)

// ---- C03.10: a success response of an owner-gated method is built only for the owner
func ruleSuccessNeedsOwner(c *Ctx, rule string, handlers map[string]*ssa.Function) {
	w := c.W
	c.Rule(rule, "in Refresh, CreatePermission, ChannelBind, Connect and ConnectionBind every success-class message type is built under the must-fact that the owner lookup (GetAllocationForUserID / GetTCPConnection) returned non-nil: no path answers a request on an allocation of another user with success (a success under GetAllocation(...) == nil, where the 5-tuple holds nobody's allocation, acts on nothing and is left alone)", 5)
	byUser := w.Func("allocation", "Manager", "GetAllocationForUserID")
	tcpGet := w.Func("allocation", "Manager", "GetTCPConnection")
	getAlloc := w.Func("allocation", "Manager", "GetAllocation")
	for _, m := range authedMethods[1:] {
		h := handlers[m]
		if h == nil {
			continue
		}
		c.Anchor(rule, fname(h))
		n, bad := 0, ""
		for _, in := range successSites(w, h) {
			n++
			if w.guardedBy(in, getAlloc, -1, "nil", nil) != nil {
				continue // GetAllocation(...) == nil: the 5-tuple holds nobody's allocation, nothing is acted on
			}
			if w.guardedBy(in, byUser, -1, "nonnil", nil) == nil && w.guardedBy(in, tcpGet, -1, "nonnil", nil) == nil {
				bad = "a success response is built at " + w.instrPos(in) + " on a path on which no owner lookup returned an allocation: a request signed by another user (or a request on a 5-tuple without allocation) is answered with success"
			}
		}
		switch {
		case bad != "":
			c.Bad(rule, fname(h), "success needs owner", w.pos(h.Pos()), bad)
		case n == 0:
			c.Bad(rule, fname(h), "success needs owner", w.pos(h.Pos()), "no success response is built: anchor gone")
		default:
			c.OK(rule, fname(h), "success needs owner", w.pos(h.Pos()), "every success type is built under owner lookup != nil")
		}
	}
}

// successSites: the instructions of handler h (and its single-site helpers) at which a success
// response comes about: a stun.NewType whose class can be success, or a call of a shared
// helper of package server that builds one (r.succeed(attrs...)).
func successSites(w *World, h *ssa.Function) []ssa.Instruction {
	inBody := map[*ssa.Function]bool{}
	for _, f := range w.helpersOf(h) {
		inBody[f] = true
	}
	memo := map[*ssa.Function]bool{}
	var builds func(g *ssa.Function, d int) bool
	builds = func(g *ssa.Function, d int) bool {
		if v, ok := memo[g]; ok {
			return v
		}
		memo[g] = false
		r := false
		w.eachInstr(g, func(in ssa.Instruction) {
			call, ok := in.(*ssa.Call)
			if !ok {
				return
			}
			if maySuccessType(w, call) {
				r = true
			} else if cal := call.Call.StaticCallee(); cal != nil && d < 2 && w.IsMod[cal] && fnPkgPath(cal) == fnPkgPath(h) && builds(cal, d+1) {
				r = true
			}
		})
		memo[g] = r
		return r
	}
	var out []ssa.Instruction
	for _, f := range w.helpersOf(h) {
		w.eachInstr(f, func(in ssa.Instruction) {
			call, ok := in.(*ssa.Call)
			if !ok {
				return
			}
			if maySuccessType(w, call) {
				out = append(out, in)
			} else if cal := call.Call.StaticCallee(); cal != nil && !inBody[cal] && w.IsMod[cal] && fnPkgPath(cal) == fnPkgPath(h) && builds(cal, 0) {
				out = append(out, in)
			}
		})
	}
	return out
}

// maySuccessType: call is stun.NewType(method, class) and class can be ClassSuccessResponse
// (a constant, or a variable one of whose assignments is that constant).
func maySuccessType(w *World, call *ssa.Call) bool {
	h := call.Call.StaticCallee()
	if h == nil || h.Name() != "NewType" || len(call.Call.Args) != 2 {
		return false
	}
	want := stunConst(w, "ClassSuccessResponse")
	seen := map[ssa.Value]bool{}
	var may func(v ssa.Value, d int) bool
	may = func(v ssa.Value, d int) bool {
		if seen[v] || d > 6 {
			return false
		}
		seen[v] = true
		if k, ok := constInt(v); ok {
			return k == want
		}
		switch x := v.(type) {
		case *ssa.Phi:
			for _, e := range x.Edges {
				if may(e, d+1) {
					return true
				}
			}
		case *ssa.Convert:
			return may(x.X, d+1)
		case *ssa.ChangeType:
			return may(x.X, d+1)
		}
		return false
	}
	return may(call.Call.Args[1], 0)
}

// ---- C16.13 (= C03.11): the pending connection is touched only for its owner, and never handed back
func rulePendingConnOwnerOnly(c *Ctx, rule string) {
	w := c.W
	c.Rule(rule, "a pending peer connection is touched only for its owner and its single use is never handed back: in GetTCPConnection every Stop/Reset of the connection's bindTimer is made under the must-fact a.userID == userID; no function Resets a bindTimer, and no function writes false into isBound (Store(false), Swap(false), CompareAndSwap(_, false))", 1)
	fn := w.Func("allocation", "Manager", "GetTCPConnection")
	uid := w.Field("allocation", "Allocation", "userID")
	isUserEq := func(f Fact) bool {
		if f.Op != "==" || !f.Truth {
			return false
		}
		for _, pair := range [][2]ssa.Value{{f.X, f.Y}, {f.Y, f.X}} {
			if _, fl, ok := fieldLoad(pair[0]); ok && fl == uid && w.sameKey(pair[1], fn.Params[1]) {
				return true
			}
		}
		return false
	}
	onField := func(call *ssa.Call, field string) bool {
		if len(call.Call.Args) == 0 {
			return false
		}
		recv := call.Call.Args[0]
		if _, f, ok := fieldLoad(stripIface(recv)); ok && f.Name() == field {
			return true
		}
		if fa, ok := recv.(*ssa.FieldAddr); ok && fieldOf(fa).Name() == field {
			return true
		}
		if _, f, ok := fieldLoad(stripIface(w.resolveLoad(recv))); ok && f.Name() == field {
			return true
		}
		return false
	}
	c.Anchor(rule, "timer after owner test")
	w.eachInstrDeep(fn, func(in ssa.Instruction) {
		call, ok := in.(*ssa.Call)
		if !ok {
			return
		}
		s := stdCallee(&call.Call)
		if s != "(*time.Timer).Stop" && s != "(*time.Timer).Reset" || !onField(call, "bindTimer") {
			return
		}
		okUser := false
		for _, f := range w.factsAt(in) {
			if isUserEq(f) {
				okUser = true
			}
		}
		if okUser {
			c.OK(rule, fname(fn), "timer after owner test", w.instrPos(in), "the bind timer is stopped only after the user matched")
		} else {
			c.Bad(rule, fname(fn), "timer after owner test", w.instrPos(in), "the bind timer of the looked-up connection is stopped before / without the test a.userID == userID: a ConnectionBind by another user is refused but disarms the 30 s reaper of the owner's pending connection, which then lives on unbound for as long as the allocation does")
		}
	})
	c.Anchor(rule, "never handed back")
	n := 0
	for _, g := range w.ModFns {
		w.eachInstr(g, func(in ssa.Instruction) {
			call, ok := in.(*ssa.Call)
			if !ok {
				return
			}
			s := stdCallee(&call.Call)
			switch {
			case s == "(*time.Timer).Reset" && onField(call, "bindTimer"):
				n++
				c.Bad(rule, fname(g), "never handed back", w.instrPos(in), "a peer connection's bindTimer is Reset: the connection gets a fresh bind window, so it is no longer closed 30 s after it was made when no ConnectionBind completed (a client that keeps failing binds keeps the peer connection open indefinitely)")
			case strings.HasPrefix(s, "(*sync/atomic.Bool).") && onField(call, "isBound"):
				last := call.Call.Args[len(call.Call.Args)-1]
				k, isC := last.(*ssa.Const)
				switch s {
				case "(*sync/atomic.Bool).Store", "(*sync/atomic.Bool).Swap", "(*sync/atomic.Bool).CompareAndSwap":
					if isC && k.Value != nil && k.Value.String() == "false" {
						n++
						c.Bad(rule, fname(g), "never handed back", w.instrPos(in), "isBound is set back to false: the connection id can be bound a second time (the first binder may already be relaying on it), and the expired bind timer no longer reaps it")
					}
				}
			}
		})
	}
	if n == 0 {
		c.OK(rule, "allocation", "never handed back", "-", "no Reset of a bindTimer and no write of false into isBound in the module")
	}
}

// ---- C16.14: the peer connection is dialled from the relayed address
func ruleDialFromRelayAddr(c *Ctx, rule string) {
	w := c.W
	c.Rule(rule, "the local address of every outgoing peer connection (AllocateConnConfig.LocalAddr) is a load of the allocation's RelayAddr — the address the Allocate success reported — and nothing derived from the listener or the generator", 1)
	n := 0
	for _, g := range w.ModFns {
		w.eachInstr(g, func(in ssa.Instruction) {
			st, ok := in.(*ssa.Store)
			if !ok {
				return
			}
			fa, ok := st.Addr.(*ssa.FieldAddr)
			if !ok || fieldOf(fa).Name() != "LocalAddr" {
				return
			}
			if nn := namedOf(fa.X.Type()); nn == nil || nn.Obj().Name() != "AllocateConnConfig" {
				return
			}
			n++
			c.Anchor(rule, fname(g))
			good := true
			why := ""
			for _, lf := range w.guardedLeaves(st.Val, st) {
				v := stripIface(w.resolveLoad(lf.val))
				if _, f, ok := fieldLoad(v); ok && f.Name() == "RelayAddr" {
					continue
				}
				good = false
				why = w.desc(v)
			}
			if good {
				c.OK(rule, fname(g), "LocalAddr", w.instrPos(in), "LocalAddr = allocation.RelayAddr")
			} else {
				c.Bad(rule, fname(g), "LocalAddr", w.instrPos(in), "the peer connection is dialled from "+why+", not from the allocation's RelayAddr: the peer sees a source address other than the relayed transport address the client was given (for a wildcard-bound listener the kernel picks the source; for a generator that advertises a public address the dial no longer goes through it)")
			}
		})
	}
	if n == 0 {
		c.Bad(rule, "allocation", "LocalAddr", "-", "no AllocateConnConfig.LocalAddr is filled in: anchor gone")
	}
}

// ---- C19.12: the relayed address is the one the generator returned
func ruleRelayAddrFromGenerator(c *Ctx, rule string) {
	w := c.W
	c.Rule(rule, "every value assigned to Allocation.RelayAddr depends on result #1 of a configured generator call (Manager.allocatePacketConn / Manager.allocateListener), followed through helpers and struct results, and on no other address source (no LocalAddr()/Addr()/RemoteAddr() result, no net.*Addr constructed on the way): what XOR-RELAYED-ADDRESS reports is what the generator says the socket is reachable at, not an address substituted afterwards", 1)
	n := 0
	for _, g := range w.ModFns {
		w.eachInstr(g, func(in ssa.Instruction) {
			st, ok := in.(*ssa.Store)
			if !ok {
				return
			}
			fa, ok := st.Addr.(*ssa.FieldAddr)
			if !ok || fieldOf(fa).Name() != "RelayAddr" {
				return
			}
			if nn := namedOf(fa.X.Type()); nn == nil || nn.Obj().Name() != "Allocation" {
				return
			}
			n++
			c.Anchor(rule, fname(g)+"@"+anchorOrd(c, rule, fname(g)))
			bad := ""
			isGen := func(x ssa.Value) bool {
				ex, ok := x.(*ssa.Extract)
				if !ok || ex.Index != 1 {
					return false
				}
				call, ok := ex.Tuple.(*ssa.Call)
				if !ok || call.Call.IsInvoke() || call.Call.StaticCallee() != nil {
					return false
				}
				_, f, isL := fieldLoad(stripIface(call.Call.Value))
				return isL && (f.Name() == "allocatePacketConn" || f.Name() == "allocateListener")
			}
			other := ""
			isOther := func(x ssa.Value) bool {
				switch y := x.(type) {
				case *ssa.Call:
					if y.Call.IsInvoke() {
						switch y.Call.Method.Name() {
						case "LocalAddr", "Addr", "RemoteAddr":
							other = "the result of " + y.Call.Method.Name() + "() at " + w.instrPos(y)
							return true
						}
					}
				case *ssa.Alloc:
					if nn := namedOf(derefType(y.Type())); nn != nil && nn.Obj().Pkg() != nil && nn.Obj().Pkg().Path() == "net" && strings.HasSuffix(nn.Obj().Name(), "Addr") {
						other = "an address constructed at " + w.instrPos(y)
						return true
					}
				}
				return false
			}
			switch {
			case !w.dependsOn(st.Val, isGen, g):
				bad = w.desc(stripIface(w.resolveLoad(st.Val))) + ", which does not come from the generator call"
			case w.dependsOn(st.Val, isOther, g):
				bad = "a value that also depends on " + other
			}
			if bad == "" {
				c.OK(rule, fname(g), "RelayAddr", w.instrPos(in), "RelayAddr = result #1 of the generator call")
			} else {
				c.Bad(rule, fname(g), "RelayAddr", w.instrPos(in), "RelayAddr is assigned "+bad+" — not just the address the generator returned for the relay socket: the Allocate success advertises an address chosen afterwards (e.g. the listener's IP with the relay port, whatever its family), at which peers' datagrams need not reach the allocation")
			}
		})
	}
	if n == 0 {
		c.Bad(rule, "allocation", "RelayAddr", "-", "RelayAddr is never assigned: anchor gone")
	}
}

// ---- C06.12: Refresh does the thing before it says so
func ruleRefreshEffectBeforeResponse(c *Ctx, rule string, handlers map[string]*ssa.Function) {
	w := c.W
	c.Rule(rule, "in the Refresh handler every complete path through a place where the success response comes about passes Allocation.Refresh or Manager.DeleteAllocation — before it, or after it on every continuation (branch conditions on one value are kept consistent along a path): the effect does not hang on the outcome of the write, so a failed write cannot leave a Refresh(0) undone. A success answered under GetAllocation(...) == nil (nothing on the 5-tuple) has nothing to do", 1)
	h := handlers["MethodRefresh"]
	if h == nil {
		return
	}
	refresh := w.Func("allocation", "Allocation", "Refresh")
	del := w.Func("allocation", "Manager", "DeleteAllocation")
	isEff := func(in ssa.Instruction) bool {
		cal := staticCallee(in)
		return cal != nil && (cal == refresh || cal == del)
	}
	c.Anchor(rule, fname(h))
	n, bad := 0, ""
	getAlloc := w.Func("allocation", "Manager", "GetAllocation")
	var passes func(in ssa.Instruction, d int) bool
	passes = func(in ssa.Instruction, d int) bool {
		f := in.Parent()
		if everyPathPassesBefore(w, f, in, isEff) {
			return true
		}
		// the response first and the effect afterwards, unconditionally: every complete path
		// through the site has the effect somewhere on it
		if pathsThroughHaveEffect(w, f, in, isEff) {
			return true
		}
		// a helper that only sends: judged where it is called
		if f != h && d < 3 {
			if cs := w.singleSiteCI(f); cs != nil {
				if ci, ok := cs.(ssa.Instruction); ok {
					return passes(ci, d+1)
				}
			}
		}
		return false
	}
	for _, in := range successSites(w, h) {
		n++
		if w.guardedBy(in, getAlloc, -1, "nil", nil) != nil {
			continue // the request's 5-tuple holds no allocation at all: nothing to refresh or delete
		}
		if !passes(in, 0) {
			bad = "the success response built at " + w.instrPos(in) + " can be reached without Allocation.Refresh / Manager.DeleteAllocation having run: the response is written first and the effect depends on the write (a Refresh with lifetime 0 whose response cannot be written leaves the allocation, its relay socket and its permissions in place until the old lifetime runs out)"
		}
	}
	switch {
	case bad != "":
		c.Bad(rule, fname(h), "effect before response", w.pos(h.Pos()), bad)
	case n == 0:
		c.Bad(rule, fname(h), "effect before response", w.pos(h.Pos()), "no success response is built: anchor gone")
	default:
		c.OK(rule, fname(h), "effect before response", w.pos(h.Pos()), "Refresh / DeleteAllocation on every path to the success response")
	}
}

// ---- C13.16: the channel number lookup refuses only unknown numbers
func ruleFindAddrRefusals(c *Ctx, rule string) {
	w := c.W
	c.Rule(rule, "UDPConn.FindAddrByChannelNumber (which the client uses to attribute inbound ChannelData to a peer) fails only when the binding table has no entry for the number: the binding's state (a bind or refresh still in flight, a failed refresh) does not make inbound data undeliverable (closed refusal set)", 1)
	fn := w.Func("client", "UDPConn", "FindAddrByChannelNumber")
	ruleRefusals(c, rule, fn, "refusals", nil,
		func(in ssa.Instruction) bool {
			r, ok := in.(*ssa.Return)
			if !ok || len(r.Results) != 2 {
				return false
			}
			k, isC := w.resolveLoad(r.Results[1]).(*ssa.Const)
			return !(isC && k.Value != nil && k.Value.String() == "false")
		},
		func(e refusalEdge) string {
			for _, f := range e.own {
				if f.Op != "true" || f.Truth {
					continue
				}
				if call, idx := callOf(f.X); call != nil && idx == 1 {
					if cal := call.Call.StaticCallee(); cal != nil && strings.HasPrefix(cal.Name(), "findBy") {
						return "no binding with this number"
					}
				}
			}
			return ""
		}, "ChannelData on a channel the server already relays on (the server binds the channel before the client has processed the success response, and keeps it through a refresh) is dropped as coming from an unknown channel")
}

// ---- C17.8: a time-windowed username is refused only when malformed or expired
func ruleTimeWindowRefusals(c *Ctx, rule string) {
	w := c.W
	c.Rule(rule, "the time-windowed handlers (NewLongTermAuthHandler, LongTermTURNRESTAuthHandler) refuse a username only because a parse/derivation call returned an error or because its timestamp lies before time.Now(): no upper bound on the expiry, no other test, stands between a username the shared secret signs and its key (closed refusal set)", 2)
	isNow := func(x ssa.Value) bool {
		call, ok := x.(*ssa.Call)
		return ok && stdCallee(&call.Call) == "time.Now"
	}
	nowDep := func(v ssa.Value, fn *ssa.Function) bool { return w.dependsOn(v, isNow, fn) }
	expired := func(f Fact, fn *ssa.Function) bool {
		return f.Op == "<" && f.Truth && nowDep(f.Y, fn) && !nowDep(f.X, fn)
	}
	isLen := func(v ssa.Value) bool {
		call, ok := stripIface(v).(*ssa.Call)
		if !ok {
			return false
		}
		b, isB := call.Call.Value.(*ssa.Builtin)
		return isB && b.Name() == "len"
	}
	// sideNow: inside the one-line helper hh called at `call` from fn, does v depend on the clock —
	// on time.Now directly, or on a parameter whose argument at the call does
	sideNow := func(v ssa.Value, hh *ssa.Function, call *ssa.Call, fn *ssa.Function) bool {
		if nowDep(v, hh) {
			return true
		}
		for i, p := range hh.Params {
			if i < len(call.Call.Args) && nowDep(call.Call.Args[i], fn) && w.dependsOn(v, func(x ssa.Value) bool { return x == ssa.Value(p) }, hh) {
				return true
			}
		}
		return false
	}
	for _, name := range []string{"NewLongTermAuthHandler", "LongTermTURNRESTAuthHandler"} {
		outer := w.FuncOpt("turn", "", name)
		if outer == nil {
			continue
		}
		for _, fn := range outer.AnonFuncs {
			if fn.Signature.Results().Len() != 3 {
				continue
			}
			ruleRefusals(c, rule, fn, "refusals", nil,
				func(in ssa.Instruction) bool {
					r, ok := in.(*ssa.Return)
					if !ok || len(r.Results) != 3 {
						return false
					}
					k, isC := w.resolveLoad(r.Results[2]).(*ssa.Const)
					return !(isC && k.Value != nil && k.Value.String() == "false")
				},
				func(e refusalEdge) string {
					for _, f := range e.own {
						// an error result that is non-nil
						if f.Op == "==" && !f.Truth {
							for _, pair := range [][2]ssa.Value{{f.X, f.Y}, {f.Y, f.X}} {
								if !isNilConst(pair[1]) {
									continue
								}
								if call, _ := callOf(stripIface(pair[0])); call != nil && isErrorType(pair[0].Type()) {
									return "a parse / derivation call failed"
								}
							}
						}
						// expired: stamp < now
						if expired(f, fn) {
							return "the timestamp lies before now"
						}
						// ... decided by a one-line helper: u.expired(now)
						if f.Op == "true" {
							call, _ := callOf(f.X)
							if call == nil {
								// a flag of the parsed username: its shape
								if !nowDep(f.X, fn) {
									return "the username's shape"
								}
								continue
							}
							hh := call.Call.StaticCallee()
							if hh == nil {
								continue
							}
							if !w.IsMod[hh] {
								if !nowDep(f.X, fn) {
									return "the username's shape (" + hh.Name() + ")"
								}
								continue
							}
							if rets := returnsOf(hh); len(rets) == 1 && len(rets[0].Results) == 1 {
								for _, g := range normCond(rets[0].Results[0], f.Truth) {
									if g.Op == "<" && g.Truth && sideNow(g.Y, hh, call, fn) && !sideNow(g.X, hh, call, fn) {
										return "the timestamp lies before now (" + hh.Name() + ")"
									}
								}
							}
						}
						// the shape of the username: how many fields it has, what a field equals
						if f.Op == "==" && !nowDep(f.X, fn) && !nowDep(f.Y, fn) {
							if cx, _ := callOf(stripIface(f.X)); cx == nil || !w.IsMod[cx.Call.StaticCallee()] {
								if cy, _ := callOf(stripIface(f.Y)); cy == nil || !w.IsMod[cy.Call.StaticCallee()] {
									return "the username's shape"
								}
							}
						}
						if f.Op == "<" && (isLen(f.X) && isConstV(f.Y) || isLen(f.Y) && isConstV(f.X)) {
							return "the username's shape"
						}
					}
					return ""
				}, "credentials the operator's own secret signs are refused: the documented contract is \"valid until the timestamp\", and services issue long-lived or far-future usernames (GenerateLongTermCredentials takes any duration)")
		}
	}
}

// ---- C20.9: Validate refuses only what is unusable
func ruleValidateRefusals(c *Ctx, rule string) {
	w := c.W
	c.Rule(rule, "RelayAddressGeneratorPortRange.Validate refuses a configuration only for a zero/empty/nil field or for MaxPort < MinPort (closed refusal set): every range MinPort ≤ MaxPort, the single-port range included, is accepted", 1)
	fn := w.FuncOpt("turn", "RelayAddressGeneratorPortRange", "Validate")
	if fn == nil {
		return
	}
	recvFieldIn := func(v ssa.Value, g *ssa.Function) string {
		v = stripIface(w.resolveLoad(v))
		// len(field), string(field) and the like
		for d := 0; d < 3; d++ {
			if call, ok := v.(*ssa.Call); ok {
				if b, isB := call.Call.Value.(*ssa.Builtin); isB && b.Name() == "len" {
					v = stripIface(w.resolveLoad(call.Call.Args[0]))
					continue
				}
			}
			if cv, ok := v.(*ssa.Convert); ok {
				v = stripIface(w.resolveLoad(cv.X))
				continue
			}
			break
		}
		if b, f, ok := fieldLoad(v); ok && len(g.Params) > 0 && (b == g.Params[0] || w.sameKey(b, g.Params[0])) {
			return f.Name()
		}
		return ""
	}
	recvField := func(v ssa.Value) string { return recvFieldIn(v, fn) }
	// helperIsK: the fact "h(r) == k" for a method h of the generator: every return of h that
	// yields k sits under MaxPort < MinPort, and every other return yields something that cannot
	// be k (another constant; for k = 0, an unsigned value converted to int plus a positive constant)
	helperIsK := func(v ssa.Value, k int64) bool {
		call, _ := callOf(stripIface(v))
		if call == nil {
			return false
		}
		h := call.Call.StaticCallee()
		if h == nil || !w.IsMod[h] || len(h.Params) == 0 || len(call.Call.Args) == 0 || !(call.Call.Args[0] == fn.Params[0] || w.sameKey(call.Call.Args[0], fn.Params[0])) {
			return false
		}
		rets := returnsOf(h)
		if len(rets) == 0 {
			return false
		}
		nK := 0
		for _, r := range rets {
			if len(r.Results) != 1 {
				return false
			}
			for _, lf := range w.guardedLeaves(r.Results[0], r) {
				rv := stripIface(w.resolveLoad(lf.val))
				if c, ok := constInt(rv); ok {
					if c != k {
						continue
					}
					nK++
					swapped := false
					for _, f := range lf.facts {
						if f.Op == "<" && f.Truth && recvFieldIn(f.X, h) == "MaxPort" && recvFieldIn(f.Y, h) == "MinPort" {
							swapped = true
						}
					}
					if !swapped {
						return false
					}
					continue
				}
				if k != 0 {
					return false
				}
				bo, ok := rv.(*ssa.BinOp)
				if !ok || bo.Op != token.ADD {
					return false
				}
				pos := func(x ssa.Value) bool { c, ok := constInt(x); return ok && c > 0 }
				unsignedConv := func(x ssa.Value) bool {
					cv, ok := x.(*ssa.Convert)
					if !ok {
						return false
					}
					b, ok := cv.X.Type().Underlying().(*types.Basic)
					return ok && b.Info()&types.IsUnsigned != 0 && b.Kind() != types.Uint64 && b.Kind() != types.Uint && b.Kind() != types.Uintptr
				}
				if !(pos(bo.Y) && unsignedConv(bo.X) || pos(bo.X) && unsignedConv(bo.Y)) {
					return false
				}
			}
		}
		return nK > 0
	}
	isZero := func(v ssa.Value) bool {
		k, ok := v.(*ssa.Const)
		if !ok {
			return false
		}
		return k.Value == nil || k.Value.String() == "0" || k.Value.String() == `""`
	}
	ruleRefusals(c, rule, fn, "refusals", nil,
		func(in ssa.Instruction) bool {
			r, ok := in.(*ssa.Return)
			return ok && len(r.Results) == 1 && isNilConst(w.resolveLoad(r.Results[0]))
		},
		func(e refusalEdge) string {
			for _, f := range e.own {
				if f.Op == "==" && f.Truth {
					for _, pair := range [][2]ssa.Value{{f.X, f.Y}, {f.Y, f.X}} {
						if isZero(pair[1]) {
							if n := recvField(pair[0]); n != "" {
								return n + " is not set"
							}
						}
					}
				}
				if f.Op == "<" && f.Truth && recvField(f.X) == "MaxPort" && recvField(f.Y) == "MinPort" {
					return "MaxPort < MinPort"
				}
				if f.Op == "==" && f.Truth {
					for _, pair := range [][2]ssa.Value{{f.X, f.Y}, {f.Y, f.X}} {
						if k, ok := constInt(pair[1]); ok && helperIsK(pair[0], k) {
							return "MaxPort < MinPort (decided by a helper that yields this value for swapped bounds only)"
						}
					}
				}
				if f.Op == "==" && !f.Truth {
					for _, pair := range [][2]ssa.Value{{f.X, f.Y}, {f.Y, f.X}} {
						if call, _ := callOf(stripIface(pair[0])); call != nil && isNilConst(pair[1]) && isErrorType(pair[0].Type()) && !w.IsMod[call.Call.StaticCallee()] {
							return "a library call failed"
						}
					}
				}
			}
			return ""
		}, "a usable configuration (MinPort ≤ MaxPort, e.g. the single-port range MinPort == MaxPort that deployments behind a one-port forwarding use) is rejected by NewServer")
}

// ---- C05.13: other packages frame ChannelData with Encode
func ruleOnlyEncodeFrames(c *Ctx, rule string) {
	w := c.W
	c.Rule(rule, "outside package proto, the only method of ChannelData called that (transitively) writes its Raw field is Encode — the encoder whose output C11.3 shows to be padded to a multiple of four: no caller picks an unpadded encoder by transport", 1)
	raw := w.Field("proto", "ChannelData", "Raw")
	writesRaw := map[*ssa.Function]bool{}
	var does func(fn *ssa.Function, d int) bool
	does = func(fn *ssa.Function, d int) bool {
		if v, ok := writesRaw[fn]; ok {
			return v
		}
		writesRaw[fn] = false
		r := false
		w.eachInstr(fn, func(in ssa.Instruction) {
			if st, ok := in.(*ssa.Store); ok {
				if fa, ok := st.Addr.(*ssa.FieldAddr); ok && fieldOf(fa) == raw {
					r = true
				}
			}
			if cal := staticCallee(in); cal != nil && d < 4 && w.IsMod[cal] && fnPkgPath(cal) == w.tpkg("proto").Path() && does(cal, d+1) {
				r = true
			}
		})
		writesRaw[fn] = r
		return r
	}
	n := 0
	for _, g := range w.ModFns {
		if fnPkgPath(g) == w.tpkg("proto").Path() {
			continue
		}
		w.eachInstr(g, func(in ssa.Instruction) {
			cal := staticCallee(in)
			if cal == nil || cal.Signature.Recv() == nil || fnPkgPath(cal) != w.tpkg("proto").Path() {
				return
			}
			if nn := namedOf(cal.Signature.Recv().Type()); nn == nil || nn.Obj().Name() != "ChannelData" {
				return
			}
			if !does(cal, 0) {
				return
			}
			n++
			c.Anchor(rule, fname(g)+"@"+anchorOrd(c, rule, fname(g)))
			if cal.Name() == "Encode" {
				c.OK(rule, fname(g), "framing", w.instrPos(in), "ChannelData.Encode")
			} else {
				c.Bad(rule, fname(g), "framing", w.instrPos(in), "a ChannelData frame is produced by "+fname(cal)+", not by Encode: what is written is not the padded frame C11.3 establishes (on a stream the next frame then starts at a non-multiple of four and the receiver loses framing; the choice by the client's transport is also wrong for TCP/TLS clients of a UDP-looking socket)")
			}
		})
	}
	if n == 0 {
		c.Bad(rule, "module", "framing", "-", "no caller of ChannelData.Encode outside proto: anchor gone")
	}
}

// ---- C15.13: a channel is announced inside the hold that inserted it
func ruleChannelAnnouncedUnderInsertLock(c *Ctx, rule string) {
	w := c.W
	li := w.lockInfo()
	c.Rule(rule, "OnChannelCreated is called with Allocation.channelBindingsLock write-held (must-lockset) — or with another lock write-held that every assignment of the channelBindings table holds too: the lock under which the binding was inserted is one every removal needs, so no teardown can report the channel deleted — and the allocation deleted — before the channel has been reported created", 1)
	const cls = "allocation.Allocation.channelBindingsLock"
	allocPath := w.tpkg("allocation").Path()
	n := 0
	for _, fn := range w.ModFns {
		if fnPkgPath(fn) != allocPath {
			continue
		}
		w.eachInstr(fn, func(in ssa.Instruction) {
			call, ok := in.(*ssa.Call)
			if !ok || call.Call.StaticCallee() != nil || call.Call.IsInvoke() {
				return
			}
			_, f, isL := fieldLoad(call.Call.Value)
			if !isL || f.Name() != "OnChannelCreated" {
				return
			}
			n++
			c.Anchor(rule, fname(fn))
			held := li.mustAt(in)
			if holds(held, cls, true) {
				c.OK(rule, fname(fn), "OnChannelCreated", w.instrPos(in), "channelBindingsLock is write-held from the insertion to the announcement")
				return
			}
			// another lock doing the same job: one write-held here and at every assignment of the
			// channelBindings table (the insertion and every removal)
			common := map[string]bool{}
			for k := range held {
				if strings.HasSuffix(k, "/W") {
					common[k] = true
				}
			}
			nStores := 0
			for _, g := range w.ModFns {
				if fnPkgPath(g) != allocPath {
					continue
				}
				w.eachInstr(g, func(in2 ssa.Instruction) {
					st, ok := in2.(*ssa.Store)
					if !ok {
						return
					}
					fa, ok := st.Addr.(*ssa.FieldAddr)
					if !ok || fieldOf(fa).Name() != "channelBindings" {
						return
					}
					if _, isAl := fa.X.(*ssa.Alloc); isAl {
						return // the constructor's literal
					}
					nStores++
					m := li.mustAt(in2)
					for k := range common {
						if !m[k] {
							delete(common, k)
						}
					}
				})
			}
			if nStores > 0 && len(common) > 0 {
				names := ""
				for k := range common {
					names += " " + strings.TrimSuffix(k, "/W")
				}
				c.OK(rule, fname(fn), "OnChannelCreated", w.instrPos(in), "announced with"+names+" write-held, which every assignment of the channelBindings table holds as well: no removal can run between insertion and announcement")
			} else {
				c.Bad(rule, fname(fn), "OnChannelCreated", w.instrPos(in), "OnChannelCreated is called without channelBindingsLock (or any lock that every change of the channelBindings table holds) held: the binding is already in the table, so a teardown running in between (lifetime expiry, relay socket failure, manager close) reports OnChannelDeleted and OnAllocationDeleted first and OnChannelCreated arrives afterwards for a channel that is never reported deleted")
			}
		})
	}
	if n == 0 {
		c.Bad(rule, "allocation", "OnChannelCreated", "-", "OnChannelCreated is never called: anchor gone")
	}
}

func isConstV(v ssa.Value) bool { _, ok := v.(*ssa.Const); return ok }

// pathsThroughHaveEffect: every complete path of fn (entry to return) that executes `site`
// also executes an instruction accepted by isEff (a direct call, or a call of a module helper
// that contains one). Paths are enumerated with the truth of each normalised branch atom fixed
// once chosen, so `if x != 0 {A}; send; if x == 0 {B}` has two paths, not four. Blocks are
// visited at most twice per path; an exhausted budget answers false.
func pathsThroughHaveEffect(w *World, fn *ssa.Function, site ssa.Instruction, isEff func(ssa.Instruction) bool) bool {
	if site.Parent() != fn || len(fn.Blocks) == 0 {
		return false
	}
	may := w.mayContain(isEff)
	eff := func(in ssa.Instruction) bool {
		if isEff(in) {
			return true
		}
		if cal := staticCallee(in); cal != nil && w.IsMod[cal] && len(cal.Blocks) > 0 && may(cal) {
			return true
		}
		return false
	}
	budget := 50000
	ok := true
	ak := func(f Fact) string { return f.Op + "|" + w.key(f.X) + "|" + w.key(f.Y) }
	var walk func(b *ssa.BasicBlock, assign map[string]bool, visits map[*ssa.BasicBlock]int, seenS, seenE bool)
	walk = func(b *ssa.BasicBlock, assign map[string]bool, visits map[*ssa.BasicBlock]int, seenS, seenE bool) {
		if !ok {
			return
		}
		budget--
		if budget < 0 {
			ok = false
			return
		}
		for _, in := range b.Instrs {
			if in == site {
				seenS = true
			}
			if eff(in) {
				seenE = true
			}
			if _, isR := in.(*ssa.Return); isR {
				if seenS && !seenE {
					ok = false
				}
				return
			}
		}
		for _, sc := range liveSuccs(b) {
			if visits[sc] >= 2 {
				continue
			}
			fs := edgeFacts(b, sc)
			contra := false
			for _, f := range fs {
				if t, has := assign[ak(f)]; has && t != f.Truth {
					contra = true
				}
			}
			if contra {
				continue
			}
			na := assign
			if len(fs) > 0 {
				na = make(map[string]bool, len(assign)+len(fs))
				for k, v := range assign {
					na[k] = v
				}
				for _, f := range fs {
					na[ak(f)] = f.Truth
				}
			}
			visits[sc]++
			walk(sc, na, visits, seenS, seenE)
			visits[sc]--
		}
	}
	walk(fn.Blocks[0], map[string]bool{}, map[*ssa.BasicBlock]int{fn.Blocks[0]: 1}, false, false)
	return ok
}

// firstByteClass: the comparisons of fn between the buffer's first byte (b[0], possibly through
// a local) and constants. lower/upper: a comparison sits exactly on the lower (0x3F|0x40) resp.
// upper (0x7F|0x80) boundary of the first bytes of valid channel numbers — 0x4000..0x7FFF have
// exactly the first bytes 0x40..0x7F, and every number with such a first byte is valid, so a
// test on these boundaries is the range predicate applied to the leading 16 bits. other: a
// comparison of the first byte with any other constant (a narrower or wider class).
func firstByteClass(w *World, fn *ssa.Function) (lower, upper bool, other string) {
	isFirst := func(v ssa.Value) bool {
		v = stripIface(w.resolveLoad(under(v)))
		u, ok := v.(*ssa.UnOp)
		if !ok || u.Op != token.MUL {
			return false
		}
		ia, ok := u.X.(*ssa.IndexAddr)
		if !ok {
			return false
		}
		k, isK := constInt(ia.Index)
		if !isK || k != 0 {
			return false
		}
		b, ok := u.Type().Underlying().(*types.Basic)
		return ok && b.Kind() == types.Uint8
	}
	w.eachInstr(fn, func(in ssa.Instruction) {
		bo, ok := in.(*ssa.BinOp)
		if !ok {
			return
		}
		switch bo.Op {
		case token.LSS, token.LEQ, token.GTR, token.GEQ, token.EQL, token.NEQ:
		default:
			return
		}
		var k int64
		op := bo.Op
		switch {
		case isFirst(bo.X):
			kk, isK := constInt(bo.Y)
			if !isK {
				return
			}
			k = kk
		case isFirst(bo.Y):
			kk, isK := constInt(bo.X)
			if !isK {
				return
			}
			k = kk
			switch op { // k OP first  ==  first OP' k
			case token.LSS:
				op = token.GTR
			case token.LEQ:
				op = token.GEQ
			case token.GTR:
				op = token.LSS
			case token.GEQ:
				op = token.LEQ
			}
		default:
			return
		}
		switch {
		case k == 0x40 && (op == token.GEQ || op == token.LSS), k == 0x3F && (op == token.GTR || op == token.LEQ):
			lower = true
		case k == 0x7F && (op == token.LEQ || op == token.GTR), k == 0x80 && (op == token.LSS || op == token.GEQ):
			upper = true
		default:
			other = w.instrPos(in)
		}
	})
	return
}
