package main

// Rounding helpers, decided by case split on the residue.
//
// nearestPaddedValueLength(l) — written with a division, a remainder or a bit mask — returns
// the least multiple of k that is ≥ l. No interval and no linear form over l says so (the
// body divides), but the function only ever distinguishes the k residues of l: with
// l = k·q + r every value in the body is a linear form a·q + b with k | a, and every
// comparison is between forms with the same coefficient. roundUpFn evaluates the body once
// per residue r ∈ [0,k) for symbolic q ≥ 0 and reports k when every residue returns
// k·q + r + ((k − r) mod k). Callers may then use  arg ≤ f(arg) ≤ arg + (k−1)  (for arg ≥ 0).

import (
	"go/token"

	"golang.org/x/tools/go/ssa"
)

type qform struct {
	a, b int64 // a·q + b
	isB  bool  // boolean value in `t`
	t    bool
	ok   bool
}

// roundUpFn: h(l int) int rounds a non-negative l up to the next multiple of k (k in 2..64).
func (w *World) roundUpFn(h *ssa.Function) (k int64, ok bool) {
	if w.roundUpMemo == nil {
		w.roundUpMemo = map[*ssa.Function]int64{}
	}
	if v, seen := w.roundUpMemo[h]; seen {
		return v, v > 0
	}
	w.roundUpMemo[h] = 0
	if h == nil || len(h.Blocks) == 0 || len(h.Params) != 1 || h.Signature.Results().Len() != 1 || !isIntType(h.Params[0].Type()) || !isIntType(h.Signature.Results().At(0).Type()) {
		return 0, false
	}
	// candidate moduli: the constants of the body (k, or k−1 as a mask)
	cands := map[int64]bool{}
	w.eachInstr(h, func(in ssa.Instruction) {
		for _, op := range in.Operands(nil) {
			if *op == nil {
				continue
			}
			if c, isC := constInt(*op); isC {
				for _, k := range []int64{c, c + 1} {
					if k >= 2 && k <= 64 {
						cands[k] = true
					}
				}
			}
		}
	})
	for k := int64(2); k <= 64; k++ {
		if !cands[k] {
			continue
		}
		all := true
		for r := int64(0); r < k && all; r++ {
			res := roundEval(h, k, r)
			want := r + (k-r)%k
			if !res.ok || res.isB || res.a != k || res.b != want {
				all = false
			}
		}
		if all {
			w.roundUpMemo[h] = k
			return k, true
		}
	}
	return 0, false
}

func roundEval(h *ssa.Function, k, r int64) qform {
	vals := map[ssa.Value]qform{h.Params[0]: {a: k, b: r, ok: true}}
	get := func(v ssa.Value) qform {
		if c, isC := constInt(v); isC {
			return qform{b: c, ok: true}
		}
		if x, ok := v.(*ssa.Convert); ok && isIntType(x.Type()) && isIntType(x.X.Type()) {
			return vals[x.X]
		}
		return vals[v]
	}
	isPow2 := func(m int64) bool { return m > 0 && m&(m-1) == 0 }
	b, prev := h.Blocks[0], (*ssa.BasicBlock)(nil)
	for steps := 0; steps < 200; steps++ {
		var next *ssa.BasicBlock
		idx := -1
		for i, p := range b.Preds {
			if p == prev {
				idx = i
			}
		}
		for _, in := range b.Instrs {
			switch x := in.(type) {
			case *ssa.DebugRef:
			case *ssa.Phi:
				if idx < 0 {
					return qform{}
				}
				vals[x] = get(x.Edges[idx])
			case *ssa.Convert:
				vals[x] = get(x.X)
			case *ssa.BinOp:
				l, rr := get(x.X), get(x.Y)
				if !l.ok || !rr.ok || l.isB || rr.isB {
					vals[x] = qform{}
					break
				}
				res := qform{}
				switch x.Op {
				case token.ADD:
					res = qform{a: l.a + rr.a, b: l.b + rr.b, ok: true}
				case token.SUB:
					res = qform{a: l.a - rr.a, b: l.b - rr.b, ok: true}
				case token.MUL:
					switch {
					case rr.a == 0:
						res = qform{a: l.a * rr.b, b: l.b * rr.b, ok: true}
					case l.a == 0:
						res = qform{a: rr.a * l.b, b: rr.b * l.b, ok: true}
					}
				case token.QUO: // truncated division of a non-negative value
					if rr.a == 0 && rr.b > 0 && l.a%rr.b == 0 && l.a >= 0 && l.b >= 0 {
						res = qform{a: l.a / rr.b, b: l.b / rr.b, ok: true}
					}
				case token.REM:
					if rr.a == 0 && rr.b > 0 && l.a%rr.b == 0 && l.a >= 0 && l.b >= 0 {
						res = qform{b: l.b % rr.b, ok: true}
					}
				case token.AND: // x & (2^j − 1)
					if rr.a == 0 && isPow2(rr.b+1) && l.a%(rr.b+1) == 0 && l.a >= 0 && l.b >= 0 {
						res = qform{b: l.b % (rr.b + 1), ok: true}
					}
				case token.AND_NOT: // x &^ (2^j − 1)
					if rr.a == 0 && isPow2(rr.b+1) && l.a%(rr.b+1) == 0 && l.a >= 0 && l.b >= 0 {
						res = qform{a: l.a, b: l.b - l.b%(rr.b+1), ok: true}
					}
				case token.SHR:
					if rr.a == 0 && rr.b >= 0 && rr.b < 16 && l.a%(int64(1)<<uint(rr.b)) == 0 && l.a >= 0 && l.b >= 0 {
						res = qform{a: l.a >> uint(rr.b), b: l.b >> uint(rr.b), ok: true}
					}
				case token.SHL:
					if rr.a == 0 && rr.b >= 0 && rr.b < 16 {
						res = qform{a: l.a << uint(rr.b), b: l.b << uint(rr.b), ok: true}
					}
				case token.EQL, token.NEQ, token.LSS, token.LEQ, token.GTR, token.GEQ:
					if l.a != rr.a {
						break // depends on q
					}
					var t bool
					switch x.Op {
					case token.EQL:
						t = l.b == rr.b
					case token.NEQ:
						t = l.b != rr.b
					case token.LSS:
						t = l.b < rr.b
					case token.LEQ:
						t = l.b <= rr.b
					case token.GTR:
						t = l.b > rr.b
					default:
						t = l.b >= rr.b
					}
					res = qform{isB: true, t: t, ok: true}
				}
				vals[x] = res
			case *ssa.If:
				c := vals[x.Cond]
				if !c.ok || !c.isB {
					return qform{}
				}
				if c.t {
					next = b.Succs[0]
				} else {
					next = b.Succs[1]
				}
			case *ssa.Jump:
				next = b.Succs[0]
			case *ssa.Return:
				return get(x.Results[0])
			default:
				return qform{} // calls, memory: not a pure rounding helper
			}
		}
		if next == nil {
			return qform{}
		}
		prev, b = b, next
	}
	return qform{}
}
