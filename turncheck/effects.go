package main

// E6 — state effects. A function has a state effect when it (transitively, inside the
// module) writes server soft state, arms/resets/stops a timer, calls one of the relay
// generator function values held in Manager, closes a network connection or pipes bytes
// between connections. Observer callbacks (EventHandler, loggers) and writing a *response*
// to the client socket are not state effects.

import (
	"fmt"
	"go/token"
	"go/types"

	"golang.org/x/tools/go/ssa"
)

type effectInfo struct {
	direct map[*ssa.Function][]string // function -> descriptions of direct effects
	has    map[*ssa.Function]bool
	why    map[*ssa.Function]string
}

var stateTypes = [][2]string{{"allocation", "Manager"}, {"allocation", "Allocation"}, {"allocation", "Permission"}, {"allocation", "ChannelBind"}, {"allocation", "tcpConnection"}}

func (w *World) effects() *effectInfo {
	if w.eff != nil {
		return w.eff
	}
	ei := &effectInfo{direct: map[*ssa.Function][]string{}, has: map[*ssa.Function]bool{}, why: map[*ssa.Function]string{}}
	w.eff = ei
	for _, fn := range w.ModFns {
		w.eachInstr(fn, func(in ssa.Instruction) {
			if d := w.directEffect(in); d != "" {
				ei.direct[fn] = append(ei.direct[fn], d+" at "+w.instrPos(in))
			}
		})
	}
	for fn, ds := range ei.direct {
		ei.has[fn] = true
		ei.why[fn] = ds[0]
	}
	for changed := true; changed; {
		changed = false
		for _, fn := range w.ModFns {
			if ei.has[fn] {
				continue
			}
			n := w.CG.Nodes[fn]
			if n == nil {
				continue
			}
			for _, e := range n.Out {
				if cal := e.Callee.Func; w.IsMod[cal] && ei.has[cal] {
					ei.has[fn] = true
					ei.why[fn] = "calls " + fname(cal) + " (" + ei.why[cal] + ")"
					changed = true
					break
				}
			}
			if !ei.has[fn] {
				// a function that creates a closure with effects and hands it on (timer
				// callbacks) is treated as having the effect itself
				for _, a := range fn.AnonFuncs {
					if ei.has[a] {
						ei.has[fn] = true
						ei.why[fn] = "creates closure " + fname(a) + " (" + ei.why[a] + ")"
						changed = true
						break
					}
				}
			}
		}
	}
	return ei
}

func (w *World) isStateStruct(t types.Type) bool {
	n := namedOf(t)
	if n == nil {
		return false
	}
	for _, s := range stateTypes {
		if n.Obj() == w.Named(s[0], s[1]).Obj() {
			return true
		}
	}
	return false
}

func (w *World) directEffect(in ssa.Instruction) string {
	switch x := in.(type) {
	case *ssa.Store:
		if fa, ok := x.Addr.(*ssa.FieldAddr); ok && w.isStateStruct(fa.X.Type()) {
			if al, ok := rootAddr(fa.X).(*ssa.Alloc); ok && freshUnescapedAt(al, in) {
				return ""
			}
			return "store to " + fieldClass(fa)
		}
	case *ssa.MapUpdate:
		if _, f, ok := fieldLoad(x.Map); ok && f != nil && w.fieldOfStateStruct(x.Map) {
			return "map update of " + f.Name()
		}
	case ssa.CallInstruction:
		cc := x.Common()
		if b, ok := cc.Value.(*ssa.Builtin); ok && b.Name() == "delete" {
			if _, f, ok := fieldLoad(cc.Args[0]); ok && f != nil && w.fieldOfStateStruct(cc.Args[0]) {
				return "map delete of " + f.Name()
			}
			return ""
		}
		if cal := cc.StaticCallee(); cal != nil {
			full := cal.String()
			switch full {
			case "time.AfterFunc", "(*time.Timer).Reset", "(*time.Timer).Stop", "io.Copy":
				return "call " + full
			}
			if cal.Pkg != nil && cal.Pkg.Pkg.Path() == "sync/atomic" {
				switch nm(cal) {
				case "Store", "Swap", "CompareAndSwap", "Add":
					if len(cc.Args) > 0 {
						if fa, ok := cc.Args[0].(*ssa.FieldAddr); ok && w.isStateStruct(fa.X.Type()) {
							return "atomic " + cal.Name() + " on " + fieldClass(fa)
						}
					}
				}
			}
			return ""
		}
		if cc.IsInvoke() {
			if cc.Method.Name() == "Close" {
				switch cc.Value.Type().String() {
				case "net.Conn", "net.PacketConn", "net.Listener":
					return "Close on " + cc.Value.Type().String()
				}
			}
			return ""
		}
		// dynamic call through a function value held in a Manager field
		if b, f, ok := fieldLoad(cc.Value); ok && f != nil && b != nil {
			if n := namedOf(b.Type()); n != nil && n.Obj() == w.Named("allocation", "Manager").Obj() {
				switch nm(f) {
				case "permissionHandler":
					return "" // operator policy predicate
				}
				if _, isSig := f.Type().Underlying().(*types.Signature); isSig {
					return "call of relay generator Manager." + f.Name()
				}
			}
		}
	}
	return ""
}

func (w *World) fieldOfStateStruct(v ssa.Value) bool {
	v = stripIface(v)
	u, ok := v.(*ssa.UnOp)
	if !ok || u.Op != token.MUL {
		return false
	}
	fa, ok := u.X.(*ssa.FieldAddr)
	return ok && w.isStateStruct(fa.X.Type())
}

// effectAt: does executing this instruction (possibly) cause a state effect? Returns a
// description.
func (w *World) effectAt(in ssa.Instruction) string {
	if d := w.directEffect(in); d != "" {
		return d
	}
	ci, ok := in.(ssa.CallInstruction)
	if !ok {
		return ""
	}
	ei := w.effects()
	if cal := ci.Common().StaticCallee(); cal != nil {
		if ei.has[cal] {
			return fmt.Sprintf("call %s (%s)", fname(cal), ei.why[cal])
		}
		return ""
	}
	if n := w.CG.Nodes[in.Parent()]; n != nil {
		for _, e := range n.Out {
			if e.Site == ci && ei.has[e.Callee.Func] {
				return fmt.Sprintf("dynamic call may reach %s (%s)", fname(e.Callee.Func), ei.why[e.Callee.Func])
			}
		}
	}
	return ""
}
