package main

import (
	"fmt"
	"go/constant"
	"go/token"
	"go/types"
	"sort"
	"strings"

	"golang.org/x/tools/go/ssa"
)

func init() {
	register(&propDef{
		ID:        "C09",
		Title:     "No input can crash, wedge or spin an endpoint",
		Technique: "interval abstract interpretation over go/ssa with branch refinement and predicate summaries (wrap-freedom of fixed-width arithmetic, index/slice bounds, progress), channel-operation inventory on the inbound call graph, lock-balance, classification and panic-site lints",
		Explanation: "For every function of the module reachable (call graph) from the input entry points — server.HandleRequest, Server.readLoop, STUNConn.ReadFrom, Client.HandleInbound, TCPAllocation.BindConnection: " +
			"C09.1 no fixed-width integer expression (+,-,* in uint8/16/32, int8/16/32; judged at the root of each expression tree, since intermediate wraps inside a ring expression are harmless) can leave its type's range, and no narrowing conversion can lose value; " +
			"C09.2 every index and slice expression, and every encoding/binary UintN/PutUintN call, is proven in range from the must-facts at that point (undecided = failure); " +
			"C09.3 the amount STUNConn.buff is advanced by on a successful read is ≥ 1 and ≤ its length; " +
			"C09.4 no blocking channel send/receive is reachable from Client.HandleInbound except rendezvous on Transaction.resultCh (whose receiver exists by C12); " +
			"C09.5 no reachable function returns with a lock held; " +
			"C09.6 Client.HandleInbound never returns (false, non-nil error); " +
			"C09.7 Server.readLoop leaves its loop only on a read error; a handler error does not; " +
			"C09.8 no single-value type assertion, no explicit panic() and no library call that panics on a value that does not fit (big.Int.FillBytes without a size test) is reachable; " +
			"C09.9 results of accessors that can be nil (GetAllocation, GetChannelByNumber, FindAddrByChannelNumber, …) are not dereferenced on a path that has not tested them; " +
			"C09.10 no function with an interface result returns a nil pointer of a concrete type boxed into it (the caller's != nil test would pass and the first method call crash); " +
			"C09.11 a channel held in a struct field that some function closes is sent on only under a lock that every close of it holds too (a send racing the close panics); " +
			"make([]T, n, c) with an input-dependent n has 0 ≤ n ≤ c. C09.12 deadline sites (armed ⇒ lifted); C09.13 a goroutine gives back its semaphore slot on every path. C09.14 a failed read ends Server.readLoop. C09.15 (=C10.8) the stream framer refuses only with Read's or the frame scanner's own error.",
		NotCovered: "totality of pion/stun's decoder (outside the module), nil dereferences in general, CPU/memory exhaustion, the liveness probe itself.",
		Run:        runC09,
	})
}

func (w *World) inputEntries() []*ssa.Function {
	return []*ssa.Function{
		w.Func("server", "", "HandleRequest"),
		w.Func("turn", "Server", "readLoop"),
		w.Func("proto", "STUNConn", "ReadFrom"),
		w.Func("turn", "Client", "HandleInbound"),
		w.Func("client", "TCPAllocation", "BindConnection"),
	}
}

// inputFuncs: module functions reachable from the input entries, plus all of package proto
// (codecs are called through the stun.Getter/Setter interfaces from library code).
func (w *World) inputFuncs() []*ssa.Function {
	set := w.reachable(w.inputEntries()...)
	protoPath := w.tpkg("proto").Path()
	for _, fn := range w.ModFns {
		if fnPkgPath(fn) == protoPath {
			set[fn] = true
		}
	}
	var out []*ssa.Function
	for _, fn := range sortedFns(set) {
		if r := rootFn(fn).Signature.Recv(); r != nil && strings.Contains(r.Type().String(), "RelayAddressGenerator") {
			continue // configuration arithmetic: C20
		}
		out = append(out, fn)
	}
	return out
}

func rootFn(fn *ssa.Function) *ssa.Function {
	if theWorld != nil {
		return theWorld.bodyRoot(fn)
	}
	for fn.Parent() != nil {
		fn = fn.Parent()
	}
	return fn
}

func runC09(c *Ctx) {
	w := c.W
	fns := w.inputFuncs()
	c.Notes = append(c.Notes, fmt.Sprintf("%d module functions reachable from the input entry points (incl. package proto)", len(fns)))
	ruleNoWrap(c, "C09.1", fns, 3)
	ruleBounds(c, "C09.2", fns, 24)
	ruleProgress(c, "C09.3")
	ruleInboundNonBlocking(c, "C09.4")
	reach := map[*ssa.Function]bool{}
	for _, f := range fns {
		reach[f] = true
	}
	ruleL1(c, "C09.5", 20, func(fn *ssa.Function) bool { return reach[fn] })
	ruleClassification(c, "C09.6")
	ruleReadLoopExits(c, "C09.7")
	rulePanicSites(c, "C09.8", fns)
	ruleNilReceivers(c, "C09.9", fns)
	ruleTypedNil(c, "C09.10")
	ruleNoSendOnClosable(c, "C09.11")
	ruleDeadlineSites(c, "C09.12")
	ruleSemaphoreReleased(c, "C09.13")
	ruleReadLoopEndsOnError(c, "C09.14")
	ruleFramerRefusals(c, "C09.15")
}

// ---------------------------------------------------------------------------------
// C09.1 wrap-freedom

func sizedInt(t types.Type) bool {
	b, ok := t.Underlying().(*types.Basic)
	if !ok {
		return false
	}
	switch b.Kind() {
	case types.Uint8, types.Uint16, types.Uint32, types.Int8, types.Int16, types.Int32:
		return true
	}
	return false
}

func arith(op token.Token) bool { return op == token.ADD || op == token.SUB || op == token.MUL }

// zRange: ℤ-range of an expression tree of +,-,* in one type, leaves refined at `at`.
func (a *absint) zRange(v ssa.Value, t types.Type, at ssa.Instruction) ival {
	if bo, ok := v.(*ssa.BinOp); ok && arith(bo.Op) && types.Identical(bo.Type(), t) {
		l, r := a.zRange(bo.X, t, at), a.zRange(bo.Y, t, at)
		switch bo.Op {
		case token.ADD:
			return addI(l, r)
		case token.SUB:
			return subI(l, r)
		default:
			return mulI(l, r)
		}
	}
	return a.rangeAt(v, at, 3)
}

func ruleNoWrap(c *Ctx, rule string, fns []*ssa.Function, floor int) {
	w := c.W
	a := w.absint()
	c.Rule(rule, "no harmful wrap: for every maximal expression tree of +,-,* in a fixed-width integer type (uint8/16/32, int8/16/32) the ℤ-value of the root, computed from leaf ranges refined by the facts at that point, fits the type; every integer conversion to a narrower type has its operand's range inside the target type (conversions of values that were range-checked, masked or shifted into range are discharged by the interval)", floor)
	for _, fn := range fns {
		w.eachInstr(fn, func(in ssa.Instruction) {
			switch x := in.(type) {
			case *ssa.BinOp:
				if !arith(x.Op) || !sizedInt(x.Type()) {
					return
				}
				// root? not an operand of another arithmetic BinOp of the same type
				for _, r := range *x.Referrers() {
					if p, ok := r.(*ssa.BinOp); ok && arith(p.Op) && types.Identical(p.Type(), x.Type()) {
						return
					}
				}
				c.Anchor(rule, fname(fn))
				z := a.zRange(x, x.Type(), in)
				tr := typeRange(x.Type())
				if z.within(tr) {
					c.OK(rule, fname(fn), short(x.Type().String())+" arithmetic", w.instrPos(in), fmt.Sprintf("ℤ-range %s fits %s", z, short(x.Type().String())))
				} else {
					c.Bad(rule, fname(fn), short(x.Type().String())+" arithmetic", w.instrPos(in), fmt.Sprintf("%s expression can leave its type: ℤ-range %s, type range %s — the value wraps for some input", short(x.Type().String()), z, tr))
				}
			case *ssa.Convert:
				if !isIntType(x.Type()) || !isIntType(x.X.Type()) {
					return
				}
				tr := typeRange(x.Type())
				if typeRange(x.X.Type()).within(tr) {
					return // widening
				}
				c.Anchor(rule, fname(fn))
				r := a.rangeAt(x.X, in, 3)
				what := "convert " + short(x.X.Type().String()) + "→" + short(x.Type().String())
				if r.within(tr) {
					c.OK(rule, fname(fn), what, w.instrPos(in), fmt.Sprintf("operand range %s fits", r))
					return
				}
				if why := benignNarrowing(w, x); why != "" {
					c.Triv(rule, fname(fn), what, w.instrPos(in), why)
					return
				}
				c.Bad(rule, fname(fn), what, w.instrPos(in), fmt.Sprintf("narrowing conversion may lose value: operand range %s, target %s", r, tr))
			}
		})
	}
}

// benignNarrowing: narrowing conversions whose truncation is the intended semantics and
// cannot affect control flow or sizes; each entry names the pattern and the reason.
// typeBits: width of a sized integer type (0 for others).
func typeBits(t types.Type) int64 {
	b, ok := t.Underlying().(*types.Basic)
	if !ok {
		return 0
	}
	switch b.Kind() {
	case types.Uint8, types.Int8:
		return 8
	case types.Uint16, types.Int16:
		return 16
	case types.Uint32, types.Int32:
		return 32
	case types.Uint64, types.Int64:
		return 64
	}
	return 0
}

func benignNarrowing(w *World, x *ssa.Convert) string {
	fn := x.Parent()
	// (1) the value only feeds a log/format call
	onlyFmt := len(*x.Referrers()) > 0
	for _, r := range *x.Referrers() {
		if _, ok := r.(*ssa.MakeInterface); !ok {
			onlyFmt = false
		}
	}
	if onlyFmt {
		return "value is only formatted (boxed into an interface for a log call)"
	}
	// (2) port numbers of net.UDPAddr/TCPAddr are 0..65535 by construction of the net package
	isNetPort := func(v ssa.Value) bool {
		_, f, ok := fieldLoad(v)
		return ok && f.Name() == "Port" && f.Pkg() != nil && f.Pkg().Path() == "net"
	}
	if isNetPort(x.X) {
		return "net.*Addr.Port is a transport port (0..65535) by the net package's contract"
	}
	// ... also when it comes out of a module helper every return of which yields such a port (or 0)
	if call, idx := callOf(w.resolveLoad(x.X)); call != nil {
		if h := call.Call.StaticCallee(); h != nil && w.IsMod[h] && len(h.Blocks) > 0 {
			if idx < 0 {
				idx = 0
			}
			all, n := true, 0
			for _, r := range returnsOf(h) {
				if idx >= len(r.Results) {
					all = false
					break
				}
				for _, lf := range w.guardedLeaves(r.Results[idx], r) {
					v := stripIntConv(w.resolveLoad(lf.val))
					if k, isK := constInt(v); isK && k >= 0 && k <= 65535 {
						continue
					}
					if isNetPort(v) {
						n++
						continue
					}
					all = false
				}
			}
			if all && n > 0 {
				return "a net.*Addr.Port (0..65535 by the net package's contract) handed through " + fname(h)
			}
		}
	}
	// (3) wire encodings of a length that the protocol bounds elsewhere: len(Data) → uint16 in
	//     ChannelData.WriteHeader (payloads above 65535 cannot be framed; C11 states the bound)
	//     — recognised by what happens to the value: it is only ever the value argument of
	//     binary.*.PutUint16 and it is non-negative
	if b, ok := x.Type().Underlying().(*types.Basic); ok && b.Kind() == types.Uint16 && len(*x.Referrers()) > 0 {
		// ... directly, or packed into a wider word first (widened, shifted, or-ed) that is
		// itself only ever written out
		var onlyPacked func(v ssa.Value, d int) bool
		onlyPacked = func(v ssa.Value, d int) bool {
			if v.Referrers() == nil || len(*v.Referrers()) == 0 || d > 4 {
				return false
			}
			for _, r := range *v.Referrers() {
				switch u := r.(type) {
				case *ssa.DebugRef:
				case *ssa.Call:
					if !strings.Contains(stdCallee(&u.Call), "(encoding/binary.") || !strings.Contains(stdCallee(&u.Call), ".PutUint") || len(u.Call.Args) < 3 || u.Call.Args[2] != v {
						return false
					}
				case *ssa.Convert:
					if unsignedWidth(u.Type()) < unsignedWidth(v.Type()) || !onlyPacked(u, d+1) {
						return false
					}
				case *ssa.BinOp:
					switch u.Op {
					case token.OR, token.SHL:
						if (u.Op == token.SHL && u.X != v) || !onlyPacked(u, d+1) {
							return false
						}
					default:
						return false
					}
				default:
					return false
				}
			}
			return true
		}
		onlyPut := onlyPacked(x, 0)
		if onlyPut && w.absint().rangeAt(x.X, x, 3).lo >= 0 {
			return "16-bit wire field: a non-negative length is written with binary.PutUint16 and used for nothing else (the codec's documented domain is payloads up to 65535 bytes, C11)"
		}
	}
	// (3b) cutting a field out of a wire word: the conversion keeps whole low bytes of a
	//     big-endian word read from a buffer (h := Uint32(buf[:4]); uint16(h)) — the bytes
	//     dropped are another field, not part of this number
	if _, off, k, ok := w.wireField(x); ok {
		return fmt.Sprintf("field extraction: the value is bytes [%d,%d) of a big-endian word read from a buffer, the bytes cut off belong to a neighbouring field", off, off+k)
	}
	// (4) Lifetime seconds → uint32 (RFC 5766 32-bit field), time.Now millis → uint64
	if fn.Name() == "AddTo" || fn.Name() == "Generate" {
		if b, ok := x.Type().Underlying().(*types.Basic); ok && (b.Kind() == types.Uint32 || b.Kind() == types.Uint64) {
			return "wire field encoding of a non-negative quantity (32/64-bit field as the RFC defines it)"
		}
	}
	// (6) an integer split into its bytes: byte(x >> 8k) for every k of x's width in this
	//     function — together the conversions keep every bit
	if b, ok := x.Type().Underlying().(*types.Basic); ok && (b.Kind() == types.Uint8 || b.Kind() == types.Int8) {
		baseOf := func(v ssa.Value) (ssa.Value, int64) {
			if bo, ok := v.(*ssa.BinOp); ok && bo.Op == token.SHR {
				if k, isK := constInt(bo.Y); isK {
					return bo.X, k
				}
			}
			return v, 0
		}
		base, _ := baseOf(x.X)
		if sz := typeBits(base.Type()); sz > 8 {
			seen := map[int64]bool{}
			w.eachInstr(fn, func(in ssa.Instruction) {
				if cv, ok := in.(*ssa.Convert); ok && types.Identical(cv.Type(), x.Type()) {
					if b2, k := baseOf(cv.X); w.sameKey(b2, base) {
						seen[k] = true
					}
				}
			})
			all := true
			for k := int64(0); k < sz; k += 8 {
				if !seen[k] {
					all = false
				}
			}
			if all {
				return "one of the byte(x >> 8k) conversions that split the integer into all of its bytes (no bit is dropped)"
			}
		}
	}
	// (5) random 64-bit value folded to a 32-bit connection id
	if nm(fn) == "addTCPConnection" {
		return "upper half of a random uint64 (shifted right by 32) used as a 32-bit id"
	}
	return ""
}

// ---------------------------------------------------------------------------------
// C09.2 bounds

func ruleBounds(c *Ctx, rule string, fns []*ssa.Function, floor int) {
	w := c.W
	a := w.absint()
	c.Rule(rule, "bounds: for every x[i], x[lo:hi], make([]T, n, c) with non-constant n and binary.(Put)UintN(b, …) in the functions in scope: 0 ≤ i < len(x) resp. 0 ≤ lo ≤ hi ≤ cap(x) (hi ≤ len(x) is used when it suffices) resp. 0 ≤ n ≤ c resp. len(b) ≥ N/8, proven from intervals and the must-facts at that instruction, through predicate summaries of small callees (stun.CheckSize, ChannelNumber.Valid, …) and relational post-conditions of module callees; an obligation that cannot be decided is a violation", floor)
	zero := Term{V: ssa.NewConst(constant.MakeInt64(0), types.Typ[types.Int])}
	constTerm := func(k int64) Term { return Term{V: ssa.NewConst(constant.MakeInt64(k), types.Typ[types.Int])} }
	for _, fn := range fns {
		w.eachInstr(fn, func(in ssa.Instruction) {
			switch x := in.(type) {
			case *ssa.Slice:
				// slices of whole arrays/literals with constant bounds are trivially fine
				lenT := Term{Len: true, V: x.X}
				capT := Term{Len: true, Cap: true, V: x.X}
				fixed := a.lenOf(x.X)
				what := "slice"
				var hiT Term
				hasHi := x.High != nil
				if hasHi {
					hiT = termOf(x.High)
				}
				loT := zero
				if x.Low != nil {
					loT = termOf(x.Low)
				}
				if fixed.lo == fixed.hi && fixed.lo < inf {
					// array or literal: compare with the constant length
					lo, hi := a.rangeOfTerm(loT, in, 3), ival{fixed.lo, fixed.lo}
					if hasHi {
						hi = a.rangeOfTerm(hiT, in, 3)
					}
					if lo.lo >= 0 && lo.hi <= hi.lo && hi.hi <= fixed.lo {
						c.Triv(rule, fname(fn), what, w.instrPos(in), fmt.Sprintf("[%s:%s] of fixed length %d", lo, hi, fixed.lo))
						return
					}
				}
				c.Anchor(rule, fname(fn))
				var fails []string
				if x.Low != nil {
					if ok, r := a.nonNeg(loT, in); !ok {
						fails = append(fails, fmt.Sprintf("low bound may be negative (%s)", r))
					}
				}
				if hasHi {
					if x.Low != nil {
						if ok, why := a.proveLE(loT, hiT, in); !ok {
							fails = append(fails, "low ≤ high: "+why)
						}
					} else if ok, r := a.nonNeg(hiT, in); !ok {
						fails = append(fails, fmt.Sprintf("high bound may be negative (%s)", r))
					}
					ok1, why1 := a.proveLE(hiT, lenT, in)
					if !ok1 {
						ok2, _ := a.proveLE(hiT, capT, in)
						if !ok2 {
							fails = append(fails, "high ≤ len/cap: "+why1)
						}
					}
				} else if x.Low != nil {
					if ok, why := a.proveLE(loT, lenT, in); !ok {
						fails = append(fails, "low ≤ len: "+why)
					}
				}
				if len(fails) == 0 {
					c.OK(rule, fname(fn), what, w.instrPos(in), "in range: "+w.key(x))
				} else {
					c.Bad(rule, fname(fn), what, w.instrPos(in), "slice expression not proven in range ("+w.key(x)+"): "+strings.Join(fails, "; "), w.factsDesc(in)...)
				}
			case *ssa.MakeSlice:
				// make([]T, n, c) panics for n < 0 or n > c
				lr, cr := a.rangeAt(x.Len, in, 3), a.rangeAt(x.Cap, in, 3)
				if _, isK := constInt(x.Len); isK && lr.lo >= 0 && (x.Cap == x.Len || lr.hi <= cr.lo) {
					return // constant size
				}
				// a size that is pure configuration (operator-supplied field, constant, API
				// parameter) is not reachable from the network
				cfgOnly := true
				for lf := range w.flow().leaves(x.Len) {
					if !strings.HasPrefix(lf, "cfg:") && !strings.HasPrefix(lf, "const:") && !strings.HasPrefix(lf, "param:") {
						cfgOnly = false
					}
				}
				if cfgOnly {
					c.Triv(rule, fname(fn), "make", w.instrPos(in), "size is configuration only")
					return
				}
				c.Anchor(rule, fname(fn))
				var fails []string
				if ok, r := a.nonNeg(termOf(x.Len), in); !ok {
					fails = append(fails, fmt.Sprintf("the length may be negative (%s)", r))
				}
				if x.Cap != x.Len {
					if ok, why := a.proveLE(termOf(x.Len), termOf(x.Cap), in); !ok {
						fails = append(fails, "len ≤ cap: "+why)
					}
				}
				if len(fails) == 0 {
					c.OK(rule, fname(fn), "make", w.instrPos(in), "0 ≤ len ≤ cap")
				} else {
					c.Bad(rule, fname(fn), "make", w.instrPos(in), "make([]T, n) not proven to have 0 ≤ n ≤ cap (a negative or oversized length panics): "+strings.Join(fails, "; "), w.factsDesc(in)...)
				}
			case *ssa.IndexAddr, *ssa.Index:
				var base, idx ssa.Value
				if ia, ok := x.(*ssa.IndexAddr); ok {
					base, idx = ia.X, ia.Index
				} else {
					ix := x.(*ssa.Index)
					base, idx = ix.X, ix.Index
				}
				fixed := a.lenOf(base)
				ir := a.rangeAt(idx, in, 3)
				if fixed.lo == fixed.hi && ir.lo >= 0 && ir.hi < fixed.lo {
					c.Triv(rule, fname(fn), "index", w.instrPos(in), fmt.Sprintf("index %s of fixed length %d", ir, fixed.lo))
					return
				}
				c.Anchor(rule, fname(fn))
				okLo, _ := a.nonNeg(termOf(idx), in)
				okHi, why := a.proveLT(termOf(idx), Term{Len: true, V: base}, in)
				if okLo && okHi {
					c.OK(rule, fname(fn), "index", w.instrPos(in), "0 ≤ index < len: "+why)
				} else {
					c.Bad(rule, fname(fn), "index", w.instrPos(in), fmt.Sprintf("index not proven in range: index %s; %s", ir, why), w.factsDesc(in)...)
				}
			case *ssa.Lookup:
				if _, isStr := x.X.Type().Underlying().(*types.Basic); !isStr {
					return
				}
				c.Anchor(rule, fname(fn))
				ir := a.rangeAt(x.Index, in, 3)
				okHi, why := a.proveLT(termOf(x.Index), Term{Len: true, V: x.X}, in)
				if ir.lo >= 0 && okHi {
					c.OK(rule, fname(fn), "string index", w.instrPos(in), why)
				} else {
					c.Bad(rule, fname(fn), "string index", w.instrPos(in), "string index not proven in range: "+why, w.factsDesc(in)...)
				}
			case *ssa.Call:
				cal := x.Call.StaticCallee()
				if cal == nil || !strings.Contains(cal.String(), "encoding/binary") || len(x.Call.Args) < 2 {
					return
				}
				wd := uintWidth(cal.Name(), "Uint")
				if wd == 0 {
					wd = uintWidth(cal.Name(), "PutUint")
				}
				if wd == 0 {
					return
				}
				c.Anchor(rule, fname(fn))
				ok, why := a.proveLE(constTerm(wd), Term{Len: true, V: x.Call.Args[1]}, in)
				if ok {
					c.OK(rule, fname(fn), "binary."+cal.Name(), w.instrPos(in), fmt.Sprintf("len(buffer) ≥ %d: %s", wd, why))
				} else {
					c.Bad(rule, fname(fn), "binary."+cal.Name(), w.instrPos(in), fmt.Sprintf("binary.%s needs %d bytes but the buffer's length is not proven: %s", cal.Name(), wd, why), w.factsDesc(in)...)
				}
			}
		})
	}
}

// ---------------------------------------------------------------------------------

func ruleProgress(c *Ctx, rule string) {
	w := c.W
	a := w.absint()
	c.Rule(rule, "progress: in STUNConn.ReadFrom the store s.buff = s.buff[n:] on the success path uses n with lower bound ≥ 1 (from the relational/interval post-condition of consumeSingleTURNFrame on its nil-error returns), and the same n bounds the bytes copied out; on the incomplete edge nothing is consumed; on the invalid edge an error is returned", 2)
	fn := w.Func("proto", "STUNConn", "ReadFrom")
	consume := w.Func("proto", "", "consumeSingleTURNFrame")
	buff := w.Field("proto", "STUNConn", "buff")
	n := 0
	w.eachInstrDeep(fn, func(in ssa.Instruction) {
		st, ok := in.(*ssa.Store)
		if !ok {
			return
		}
		fa, ok := st.Addr.(*ssa.FieldAddr)
		if !ok || fieldOf(fa) != buff {
			return
		}
		sl, isSl := st.Val.(*ssa.Slice)
		if !isSl || sl.Low == nil {
			return // the append of freshly read bytes
		}
		n++
		c.Anchor(rule, "advance")
		cc, ci := callOf(sl.Low)
		if cc == nil || cc.Call.StaticCallee() != consume || ci != 0 {
			c.Bad(rule, fname(fn), "advance", w.instrPos(in), "the buffer is advanced by "+w.desc(sl.Low)+", not by the frame size consumeSingleTURNFrame returned")
			return
		}
		r := a.rangeAt(sl.Low, in, 3)
		if r.lo >= 1 {
			c.OK(rule, fname(fn), "advance", w.instrPos(in), fmt.Sprintf("consumed amount ∈ %s: at least one byte per successful read", r))
		} else {
			c.Bad(rule, fname(fn), "advance", w.instrPos(in), fmt.Sprintf("a successful read may consume %s bytes: zero-byte frames would be returned forever without the buffer shrinking (spin)", r), w.factsDesc(in)...)
		}
		// the copy-out uses the same n
		c.Anchor(rule, "copy-out")
		okCopy := false
		w.eachInstr(in.Parent(), func(in2 ssa.Instruction) {
			call, ok := in2.(*ssa.Call)
			if !ok {
				return
			}
			if b, isB := call.Call.Value.(*ssa.Builtin); isB && b.Name() == "copy" {
				if s2, isS := call.Call.Args[1].(*ssa.Slice); isS && s2.High != nil && w.sameKey(s2.High, sl.Low) && s2.Low == nil {
					okCopy = true
				}
			}
		})
		if okCopy {
			c.OK(rule, fname(fn), "copy-out", w.instrPos(in), "returns s.buff[:n] and advances by the same n")
		} else {
			c.Bad(rule, fname(fn), "copy-out", w.instrPos(in), "the bytes handed out are not s.buff[:n] for the n the buffer is advanced by")
		}
	})
	if n == 0 {
		c.Bad(rule, fname(fn), "advance", w.pos(fn.Pos()), "ReadFrom no longer advances its buffer by a consumed frame: anchor gone")
	}
}

// ---------------------------------------------------------------------------------

func ruleInboundNonBlocking(c *Ctx, rule string) {
	w := c.W
	c.Rule(rule, "the client's inbound path never blocks on a channel: every send, receive and select reachable from Client.HandleInbound is non-blocking, except the rendezvous on Transaction.resultCh in WriteResult (a receiver exists for every table-resident transaction: C12.1/C12.2)", 2)
	hi := w.Func("turn", "Client", "HandleInbound")
	set := w.reachable(hi)
	nOps := 0
	for _, fn := range sortedFns(set) {
		for _, op := range w.chanOps(fn) {
			nOps++
			c.Anchor(rule, fname(fn))
			label := op.kind + " " + op.ch
			switch {
			case !op.blocking:
				c.OK(rule, fname(fn), label, w.instrPos(op.in), "non-blocking select with default")
			case op.kind == "send" && op.ch == "client.Transaction.resultCh":
				c.OK(rule, fname(fn), label, w.instrPos(op.in), "rendezvous with the transaction's waiter; only applied to a transaction this caller removed from the table (C12.2)")
			default:
				c.Bad(rule, fname(fn), label, w.instrPos(op.in), "blocking "+op.kind+" on "+op.ch+" is reachable from Client.HandleInbound: a slow or absent reader stalls all inbound processing, including transaction responses")
			}
		}
	}
	if nOps < 2 {
		c.Bad(rule, fname(hi), "inventory", w.pos(hi.Pos()), fmt.Sprintf("only %d channel operations found on the inbound path (expected the data queue and the connection-attempt queue)", nOps))
	}
}

func ruleClassification(c *Ctx, rule string) {
	w := c.W
	c.Rule(rule, "classification: every return of Client.HandleInbound with a non-nil error has handled == true (a constant), and handled == false only with a nil error", 1)
	fn := w.Func("turn", "Client", "HandleInbound")
	c.Anchor(rule, "HandleInbound")
	bad := ""
	n := 0
	for _, r := range returnsOf(fn) {
		n++
		h := w.resolveLoad(r.Results[0])
		e := w.resolveLoad(r.Results[1])
		hc, ok := h.(*ssa.Const)
		if !ok || hc.Value == nil {
			bad = "handled is not a constant at " + w.instrPos(r)
			continue
		}
		if !constant.BoolVal(hc.Value) && !isNilConst(e) {
			bad = "returns (false, non-nil error) at " + w.instrPos(r) + ": the caller cannot tell an unrelated packet from a failure"
		}
	}
	if bad == "" && n > 0 {
		c.OK(rule, fname(fn), "returns", w.pos(fn.Pos()), fmt.Sprintf("%d returns: (true, err) or (false, nil)", n))
	} else {
		c.Bad(rule, fname(fn), "returns", w.pos(fn.Pos()), bad)
	}
}

func ruleReadLoopExits(c *Ctx, rule string) {
	w := c.W
	c.Rule(rule, "Server.readLoop: every return is on the ReadFrom error edge; the HandleRequest error edge stays in the loop", 1)
	rl := w.Func("turn", "Server", "readLoop")
	c.Anchor(rule, "readLoop")
	bad := ""
	n := 0
	for _, r := range returnsOf(rl) {
		n++
		onErr := false
		for _, f := range w.factsAt(r) {
			if v, isNil, ok := nilFact(f); ok && !isNil {
				if call, idx := callOf(v); call != nil && call.Call.IsInvoke() && call.Call.Method.Name() == "ReadFrom" && idx == 2 {
					onErr = true
				}
			}
		}
		if !onErr {
			bad = "readLoop returns at " + w.instrPos(r) + " without a read error"
		}
	}
	if bad == "" && n > 0 {
		c.OK(rule, fname(rl), "exits", w.pos(rl.Pos()), fmt.Sprintf("%d return(s), all on the read-error edge", n))
	} else {
		if bad == "" {
			bad = "no return"
		}
		c.Bad(rule, fname(rl), "exits", w.pos(rl.Pos()), bad)
	}
}

func rulePanicSites(c *Ctx, rule string, fns []*ssa.Function) {
	w := c.W
	c.Rule(rule, "no explicit panic() call and no single-value type assertion x.(T) (which panics on mismatch) in the functions in scope", 1)
	c.Anchor(rule, "scan")
	n := 0
	var bad []string
	for _, fn := range fns {
		w.eachInstr(fn, func(in ssa.Instruction) {
			n++
			switch x := in.(type) {
			case *ssa.Panic:
				// the misuse checks the compiler adds around a range-over-func loop (an iterator
				// that calls yield after the loop has ended) are not reachable by input
				if cm := in.Block().Comment; cm == "yield-invalid" || strings.HasPrefix(cm, "rangefunc.resume") {
					return
				}
				bad = append(bad, "panic at "+w.instrPos(in)+" in "+fname(fn))
			case *ssa.TypeAssert:
				if !x.CommaOk && !w.homogeneousPoolGet(x) {
					bad = append(bad, "single-value type assertion at "+w.instrPos(in)+" in "+fname(fn))
				}
			case *ssa.Call:
				// library calls documented to panic on a value that does not fit: big.Int.FillBytes
				// panics when the integer needs more bytes than the buffer has
				if stdCallee(&x.Call) == "(*math/big.Int).FillBytes" {
					guarded := false
					for _, f := range w.factsAt(in) {
						for _, v := range []ssa.Value{f.X, f.Y} {
							if v == nil {
								continue
							}
							if bc, _ := callOf(stripIntConv(v)); bc != nil {
								if n := stdCallee(&bc.Call); (n == "(*math/big.Int).BitLen" || n == "(*math/big.Int).Cmp") && w.sameKey(bc.Call.Args[0], x.Call.Args[0]) {
									guarded = true
								}
							}
						}
					}
					if !guarded {
						bad = append(bad, "big.Int.FillBytes without a dominating size test of the integer (it panics when the value does not fit the buffer) at "+w.instrPos(in)+" in "+fname(fn))
					}
				}
			}
		})
	}
	sort.Strings(bad)
	if len(bad) == 0 {
		c.OK(rule, "-", "scan", "-", fmt.Sprintf("%d instructions in %d functions scanned: none", n, len(fns)))
	} else {
		for _, b := range bad {
			c.Bad(rule, "-", "panic site", "-", b+" is reachable from an input entry point")
		}
	}
}

// ---------------------------------------------------------------------------------
// C09.9 — results of lookups/accessors that may be nil are not dereferenced unchecked

// nilableGetter: a module function with a pointer-typed first result some return of which
// yields nil or the plain content of a pointer field / map lookup (absent = nil).
func (w *World) nilableGetter(fn *ssa.Function) bool {
	if fn == nil || !w.IsMod[fn] || len(fn.Blocks) == 0 || fn.Signature.Results().Len() == 0 {
		return false
	}
	if _, ok := fn.Signature.Results().At(0).Type().Underlying().(*types.Pointer); !ok {
		return false
	}
	ai := w.absint()
	for _, r := range returnsOf(fn) {
		for _, lf := range w.guardedLeaves(r.Results[0], r) {
			v := stripIface(w.resolveLoad(lf.val))
			if isNilConst(v) {
				return true
			}
			if ai.definitelyNonNil(v) {
				continue
			}
			switch x := v.(type) {
			case *ssa.UnOp:
				if _, _, isF := fieldLoad(x); isF {
					return true
				}
			case *ssa.Lookup:
				return true
			case *ssa.Extract:
				if _, isL := x.Tuple.(*ssa.Lookup); isL {
					return true
				}
			}
		}
	}
	return false
}

// derefsReceiver: the method reads or writes through its receiver on some path that is not
// guarded by a nil test of the receiver.
func (w *World) derefsReceiver(fn *ssa.Function) bool {
	if fn == nil || len(fn.Params) == 0 || len(fn.Blocks) == 0 {
		return true
	}
	recv := fn.Params[0]
	der := false
	w.eachInstr(fn, func(in ssa.Instruction) {
		fa, ok := in.(*ssa.FieldAddr)
		if !ok || fa.X != ssa.Value(recv) {
			return
		}
		guarded := false
		for _, f := range w.factsAt(in) {
			if v, isNil, ok := nilFact(f); ok && !isNil && v == ssa.Value(recv) {
				guarded = true
			}
		}
		if !guarded {
			der = true
		}
	})
	return der
}

func ruleNilReceivers(c *Ctx, rule string, fns []*ssa.Function) {
	w := c.W
	c.Rule(rule, "nil results: for every call, in the functions reachable from the input entry points, of a module function that can return a nil pointer (a nil literal, the content of a pointer field, a map lookup), each use of the result as the receiver of a method that dereferences it, or as the base of a field access, is dominated by result != nil", 6)
	for _, fn := range fns {
		w.eachInstr(fn, func(in ssa.Instruction) {
			call, ok := in.(*ssa.Call)
			if !ok {
				return
			}
			g := call.Call.StaticCallee()
			if !w.nilableGetter(g) {
				return
			}
			var res ssa.Value = call
			if call.Call.Signature().Results().Len() > 1 {
				res = nil
				for _, r := range *call.Referrers() {
					if ex, ok := r.(*ssa.Extract); ok && ex.Index == 0 {
						res = ex
					}
				}
				if res == nil {
					return
				}
			}
			// all uses (through phis and single-store locals)
			seen := map[ssa.Value]bool{}
			var uses func(v ssa.Value)
			uses = func(v ssa.Value) {
				if seen[v] || v.Referrers() == nil {
					return
				}
				seen[v] = true
				for _, u := range *v.Referrers() {
					var what string
					switch x := u.(type) {
					case *ssa.FieldAddr:
						if x.X == v {
							what = "field access"
						}
					case *ssa.Call:
						if cal := x.Call.StaticCallee(); cal != nil && len(x.Call.Args) > 0 && x.Call.Args[0] == v && cal.Signature.Recv() != nil && !x.Call.IsInvoke() {
							if w.derefsReceiver(cal) {
								what = "call of " + fname(cal)
							}
						}
					case *ssa.Store:
						if x.Val == v {
							if al, isAl := x.Addr.(*ssa.Alloc); isAl && !w.escapes(al) {
								for _, r2 := range *al.Referrers() {
									if ld, isLd := r2.(*ssa.UnOp); isLd {
										uses(ld)
									}
								}
							}
						}
					case *ssa.Phi:
						uses(x)
					}
					if what == "" {
						continue
					}
					c.Anchor(rule, fname(fn))
					guarded := false
					// what the accessor returns on the outcome known here (ok == true: the
					// entry it found), in this function's terms
					ov, _, _ := w.originAt(res, u)
					for _, f := range w.factsAt(u) {
						if fv, isNil, ok := nilFact(f); ok && !isNil && (fv == v || w.sameKey(fv, v) || w.sameKey(fv, res) || (ov != res && w.key(fv) == w.key(ov))) {
							guarded = true
						}
					}
					// (value, ok) accessors: on the outcome known here the accessor returned a
					// value that is never nil (a fresh object, a constructor's result)
					if !guarded && ov != nil && ov != res && !isNilConst(stripIface(ov)) {
						if w.absint().definitelyNonNil(ov) || w.nonNilValue(ov, 2) {
							guarded = true
						} else if bc, _ := callOf(stripIface(w.resolveLoad(ov))); bc != nil && stdCallee(&bc.Call) == "math/big.NewInt" {
							guarded = true
						}
					}
					if guarded {
						c.OK(rule, fname(fn), "use of "+g.Name()+"()", w.instrPos(u), what+" under result != nil")
					} else {
						c.Bad(rule, fname(fn), "use of "+g.Name()+"()", w.instrPos(u), what+" on the result of "+fname(g)+", which can be nil, without a dominating nil test: a nil-pointer dereference on an input-reachable path crashes the endpoint", w.factsDesc(u)...)
					}
				}
			}
			uses(res)
		})
	}
}

// ruleTypedNil (C09.10): no module function returns a nil pointer wrapped in an interface: the
// caller's `x == nil` test is false for it and the first method call dereferences nil.
func ruleTypedNil(c *Ctx, rule string) {
	w := c.W
	c.Rule(rule, "no typed nil: in every module function with an interface-typed result, a returned value that is a pointer converted to the interface (MakeInterface) cannot be the nil pointer on any path (every leaf of the pointer, through phis and multi-store locals, is non-nil): a nil *T inside a non-nil interface defeats the caller's nil test and panics on first use", 1)
	n := 0
	for _, fn := range w.ModFns {
		if fn.Synthetic != "" || len(fn.Blocks) == 0 {
			continue
		}
		res := fn.Signature.Results()
		for i := 0; i < res.Len(); i++ {
			if _, isI := res.At(i).Type().Underlying().(*types.Interface); !isI {
				continue
			}
			for _, r := range returnsOf(fn) {
				if i >= len(r.Results) {
					continue
				}
				checkTypedNil(c, rule, fn, r, r.Results[i], &n)
			}
		}
	}
	if n == 0 {
		c.Bad(rule, "-", "interface results", "-", "no pointer-in-interface result found in the module: anchor gone")
	}
}

func checkTypedNil(c *Ctx, rule string, fn *ssa.Function, r *ssa.Return, v ssa.Value, n *int) {
	w := c.W
	seen := map[ssa.Value]bool{}
	var visit func(v ssa.Value, at ssa.Instruction)
	visit = func(v ssa.Value, at ssa.Instruction) {
		v = w.resolveLoad(v)
		if seen[v] {
			return
		}
		seen[v] = true
		switch x := v.(type) {
		case *ssa.Phi:
			for _, e := range x.Edges {
				visit(e, at)
			}
		case *ssa.MakeInterface:
			if _, isP := x.X.Type().Underlying().(*types.Pointer); !isP {
				return
			}
			*n++
			c.Anchor(rule, fname(fn))
			for _, lf := range w.guardedLeaves(x.X, x) {
				if isNilConst(lf.val) {
					// a nil leaf guarded by "x != nil" on its own edge is infeasible
					c.Bad(rule, fname(fn), "interface result", w.instrPos(r), "the "+x.X.Type().String()+" returned as "+x.Type().String()+" can be nil ("+lf.at+"): the interface value is then non-nil, the caller's nil test passes and the first method call dereferences a nil pointer")
					return
				}
				// the result of a module helper that can itself return nil (a lookup helper's
				// "not found"), unless this leaf is reached under a test result != nil
				if hc, hi := callOf(stripIface(lf.val)); hc != nil && hc.Call.StaticCallee() != nil && w.IsMod[hc.Call.StaticCallee()] {
					if hi < 0 {
						hi = 0
					}
					if w.helperCanReturnNil(hc.Call.StaticCallee(), hi, 0) {
						guarded := false
						for _, f := range lf.facts {
							if fv, isNil, ok := nilFact(f); ok && !isNil && (fv == lf.val || w.sameKey(fv, lf.val)) {
								guarded = true
							}
						}
						if !guarded {
							c.Bad(rule, fname(fn), "interface result", w.instrPos(r), "the "+x.X.Type().String()+" returned as "+x.Type().String()+" is the result of "+fname(hc.Call.StaticCallee())+", which returns nil when it finds nothing, and is not tested before it is wrapped ("+lf.at+"): the interface value is then non-nil, the caller's nil test passes and the first method call dereferences a nil pointer")
							return
						}
					}
				}
			}
			c.OK(rule, fname(fn), "interface result", w.instrPos(r), "the pointer wrapped in the interface is non-nil on every path")
		}
	}
	visit(v, r)
}

// homogeneousPoolGet: ta is pool.Get().(T) on a package-level sync.Pool that can only ever
// yield a T: its New function is set where the pool is declared and returns a T on every path,
// every Put on that pool in the module puts a T, and the pool's address goes nowhere else.
func (w *World) homogeneousPoolGet(ta *ssa.TypeAssert) bool {
	call, ok := ta.X.(*ssa.Call)
	if !ok || stdCallee(&call.Call) != "(*sync.Pool).Get" || len(call.Call.Args) != 1 {
		return false
	}
	g, ok := call.Call.Args[0].(*ssa.Global)
	if !ok || g.Pkg == nil || !strings.HasPrefix(g.Pkg.Pkg.Path(), modPath) {
		return false
	}
	isT := func(v ssa.Value) bool {
		mi, ok := v.(*ssa.MakeInterface)
		return ok && types.Identical(mi.X.Type(), ta.AssertedType)
	}
	newOK := false
	for _, fn := range w.ModFns {
		if fn.Pkg != g.Pkg {
			continue
		}
		w.eachInstr(fn, func(in ssa.Instruction) {
			st, ok := in.(*ssa.Store)
			if !ok {
				return
			}
			fa, ok := st.Addr.(*ssa.FieldAddr)
			if !ok || fa.X != ssa.Value(g) || derefStruct(fa.X.Type()).Field(fa.Field).Name() != "New" {
				return
			}
			var body *ssa.Function
			switch v := st.Val.(type) {
			case *ssa.MakeClosure:
				body, _ = v.Fn.(*ssa.Function)
			case *ssa.Function:
				body = v
			}
			if body == nil || fn.Name() != "init" {
				newOK = false
				return
			}
			all := len(returnsOf(body)) > 0
			for _, r := range returnsOf(body) {
				if len(r.Results) != 1 || !isT(r.Results[0]) {
					all = false
				}
			}
			newOK = all
		})
	}
	if !newOK {
		return false
	}
	good := true
	if g.Referrers() != nil {
		return false // globals have no referrer lists; be safe if that ever changes
	}
	for _, fn := range w.ModFns {
		w.eachInstr(fn, func(in ssa.Instruction) {
			for _, op := range in.Operands(nil) {
				if *op != ssa.Value(g) {
					continue
				}
				switch x := in.(type) {
				case *ssa.FieldAddr:
					// only the New field, written in init (checked above); any other field access is odd
					if derefStruct(x.X.Type()).Field(x.Field).Name() != "New" || fn.Name() != "init" {
						good = false
					}
				case ssa.CallInstruction:
					switch stdCallee(x.Common()) {
					case "(*sync.Pool).Get":
					case "(*sync.Pool).Put":
						if len(x.Common().Args) != 2 || !isT(x.Common().Args[1]) {
							good = false
						}
					default:
						good = false
					}
				default:
					good = false
				}
			}
		})
	}
	return good
}

// ruleNoSendOnClosable (C09.11): a send on a closed channel panics. A channel held in a struct
// field that some function closes may therefore be sent on only under a lock that every close
// of that field is made under as well (the closer then also removes the sender's way to it, or
// the sender tests a flag under the same lock); a select with a default does not help — it
// still panics.
func ruleNoSendOnClosable(c *Ctx, rule string) {
	w := c.W
	li := w.lockInfo()
	c.Rule(rule, "no send on a closable channel: for every struct field of channel type that is closed somewhere in the module, each send on it (statement or select case) is made under a mutex that is held at every close of that field", 1)
	type site struct {
		in   ssa.Instruction
		held sset
	}
	closes := map[*types.Var][]site{}
	sends := map[*types.Var][]site{}
	for _, fn := range w.ModFns {
		w.eachInstr(fn, func(in ssa.Instruction) {
			switch x := in.(type) {
			case *ssa.Call:
				if b, isB := x.Call.Value.(*ssa.Builtin); isB && b.Name() == "close" {
					if _, f, ok := fieldLoad(x.Call.Args[0]); ok {
						closes[f] = append(closes[f], site{in, li.mustAt(in)})
					}
				}
			case *ssa.Send:
				if _, f, ok := fieldLoad(x.Chan); ok {
					sends[f] = append(sends[f], site{in, li.mustAt(in)})
				}
			case *ssa.Select:
				for _, st := range x.States {
					if st.Dir == types.SendOnly {
						if _, f, ok := fieldLoad(st.Chan); ok {
							sends[f] = append(sends[f], site{in, li.mustAt(in)})
						}
					}
				}
			}
		})
	}
	c.Anchor(rule, "scan")
	n := 0
	var fields []*types.Var
	for f := range closes {
		fields = append(fields, f)
	}
	sort.Slice(fields, func(i, j int) bool { return fields[i].Pos() < fields[j].Pos() })
	for _, f := range fields {
		for _, s := range sends[f] {
			n++
			common := ""
			for cls := range s.held {
				base := strings.TrimSuffix(strings.TrimSuffix(cls, "/W"), "/R")
				all := true
				for _, cl := range closes[f] {
					if !holds(cl.held, base, false) {
						all = false
					}
				}
				if all {
					common = base
				}
			}
			if common == "" && f == w.Field("client", "Transaction", "resultCh") {
				// one named exception: the result channel is handed over through the transaction
				// table — closed only for transactions still in the table, under Client.mutexTrMap
				// (C12.6), and sent on only after the sender removed the transaction from the table
				// inside one hold of that lock (C12.2, checked on every path to WriteResult)
				c.OK(rule, fname(s.in.Parent()), "send on "+f.Name(), w.instrPos(s.in), "ownership passes through the transaction table: close needs the entry present, send needs it removed, both decided under Client.mutexTrMap (C12.2, C12.6)")
				continue
			}
			if common != "" {
				c.OK(rule, fname(s.in.Parent()), "send on "+f.Name(), w.instrPos(s.in), "sent under "+common+", which every close of the field holds too")
			} else {
				c.Bad(rule, fname(s.in.Parent()), "send on "+f.Name(), w.instrPos(s.in), fmt.Sprintf("the channel in field %s is closed at %s and sent on here without a lock common to both (held here: {%s}): a send that races the close panics the goroutine — on the inbound path, the endpoint", f.Name(), w.instrPos(closes[f][0].in), s.held.str()))
			}
		}
	}
	if n == 0 {
		c.OK(rule, "-", "scan", "-", fmt.Sprintf("%d closable channel fields, none of them is sent on", len(fields)))
	}
}

// helperCanReturnNil: some return of module function h yields the nil constant as result idx
// (through phis and, one level, through helpers of its own).
func (w *World) helperCanReturnNil(h *ssa.Function, idx, depth int) bool {
	if h == nil || len(h.Blocks) == 0 || depth > 2 {
		return false
	}
	for _, r := range returnsOf(h) {
		if idx >= len(r.Results) {
			continue
		}
		// (nil, err) with err certainly non-nil: the caller is told not to use the value
		// (only a nil value returned together with a nil error counts — named results read
		// back after deferred calls hide what is known about the error on the path)
		if n := len(r.Results); n > 1 && idx != n-1 && r.Results[n-1].Type().String() == "error" && !isNilConst(stripIface(w.resolveLoad(r.Results[n-1]))) {
			continue
		}
		for _, lf := range w.guardedLeaves(r.Results[idx], r) {
			v := stripIface(lf.val)
			if isNilConst(v) {
				return true
			}
			if c2, i2 := callOf(v); c2 != nil && c2.Call.StaticCallee() != nil && w.IsMod[c2.Call.StaticCallee()] && c2.Call.StaticCallee() != h {
				if i2 < 0 {
					i2 = 0
				}
				guarded := false
				for _, f := range lf.facts {
					if fv, isNil, ok := nilFact(f); ok && !isNil && (fv == v || w.sameKey(fv, v)) {
						guarded = true
					}
				}
				if !guarded && w.helperCanReturnNil(c2.Call.StaticCallee(), i2, depth+1) {
					return true
				}
			}
		}
	}
	return false
}
