package main

// A small evaluator for address comparisons written with net/netip: which components (IP,
// Port, Zone) of which address parameter a value depends on, through AddrPort(), Addr(),
// Port(), Unmap(), WithZone(""), AddrPortFrom and module helpers; every == / != / Equal met on
// the way is recorded as a comparison of the two sides' dependency sets. Used by the AddrEqual
// dependency rule (C02.3/C08.6) when the classic field-based analysis does not apply.

import (
	"go/token"
	"sort"
	"strings"

	"golang.org/x/tools/go/ssa"
)

type ndep struct {
	param *ssa.Parameter
	typ   string // UDPAddr / TCPAddr
	comp  string // IP / Port / Zone
}

type ndeps map[ndep]bool

func (d ndeps) union(o ndeps) ndeps {
	r := ndeps{}
	for k := range d {
		r[k] = true
	}
	for k := range o {
		r[k] = true
	}
	return r
}

func (d ndeps) only(comps ...string) ndeps {
	r := ndeps{}
	for k := range d {
		for _, c := range comps {
			if k.comp == c {
				r[k] = true
			}
		}
	}
	return r
}

type ncmp struct{ l, r ndeps }

type netipEval struct {
	w     *World
	cmps  []ncmp
	known bool // some netip construct was met
}

func (e *netipEval) eval(v ssa.Value, bind map[*ssa.Parameter]ndeps, depth int) ndeps {
	w := e.w
	if v == nil || depth > 12 {
		return ndeps{}
	}
	v = stripIface(v)
	switch x := v.(type) {
	case *ssa.Const, *ssa.Global, *ssa.Function, *ssa.Builtin:
		return ndeps{}
	case *ssa.Parameter:
		if d, ok := bind[x]; ok {
			return d
		}
		return ndeps{}
	case *ssa.FieldAddr:
		if n := namedOf(x.X.Type()); n != nil && n.Obj().Pkg() != nil && n.Obj().Pkg().Path() == "net" {
			if p := paramRoot(w, x.X); p != nil {
				if _, bound := bind[p]; !bound {
					return ndeps{ndep{p, n.Obj().Name(), derefStruct(x.X.Type()).Field(x.Field).Name()}: true}
				}
			}
		}
		return e.eval(x.X, bind, depth+1)
	case *ssa.Call:
		name := stdCallee(&x.Call)
		switch name {
		case "(*net.UDPAddr).AddrPort", "(*net.TCPAddr).AddrPort":
			e.known = true
			typ := "UDPAddr"
			if strings.Contains(name, "TCPAddr") {
				typ = "TCPAddr"
			}
			if p := paramRoot(w, x.Call.Args[0]); p != nil {
				return ndeps{ndep{p, typ, "IP"}: true, ndep{p, typ, "Port"}: true, ndep{p, typ, "Zone"}: true}
			}
			return ndeps{}
		case "(net/netip.AddrPort).Port":
			e.known = true
			return e.eval(x.Call.Args[0], bind, depth+1).only("Port")
		case "(net/netip.AddrPort).Addr":
			e.known = true
			return e.eval(x.Call.Args[0], bind, depth+1).only("IP", "Zone")
		case "(net/netip.Addr).Unmap":
			return e.eval(x.Call.Args[0], bind, depth+1)
		case "(net/netip.Addr).WithZone":
			if k, ok := x.Call.Args[1].(*ssa.Const); ok && k.Value != nil && k.Value.ExactString() == `""` {
				return e.eval(x.Call.Args[0], bind, depth+1).only("IP", "Port")
			}
			return e.eval(x.Call.Args[0], bind, depth+1)
		case "net/netip.AddrPortFrom":
			return e.eval(x.Call.Args[0], bind, depth+1).union(e.eval(x.Call.Args[1], bind, depth+1))
		case "(net.IP).Equal":
			l, r := e.eval(x.Call.Args[0], bind, depth+1), e.eval(x.Call.Args[1], bind, depth+1)
			e.cmps = append(e.cmps, ncmp{l, r})
			return l.union(r)
		}
		if h := x.Call.StaticCallee(); h != nil && w.IsMod[h] && len(h.Blocks) > 0 {
			nb := map[*ssa.Parameter]ndeps{}
			for i, p := range h.Params {
				if i < len(x.Call.Args) {
					nb[p] = e.eval(x.Call.Args[i], bind, depth+1)
				}
			}
			return e.evalFn(h, nb, depth+1)
		}
		r := ndeps{}
		for _, a := range x.Call.Args {
			r = r.union(e.eval(a, bind, depth+1))
		}
		return r
	case *ssa.BinOp:
		l, r := e.eval(x.X, bind, depth+1), e.eval(x.Y, bind, depth+1)
		if x.Op == token.EQL || x.Op == token.NEQ {
			if len(l) > 0 && len(r) > 0 {
				e.cmps = append(e.cmps, ncmp{l, r})
			}
		}
		return l.union(r)
	}
	if in, ok := v.(ssa.Instruction); ok {
		r := ndeps{}
		for _, op := range in.Operands(nil) {
			if *op != nil && *op != v {
				if _, isPhi := v.(*ssa.Phi); isPhi && depth > 8 {
					continue
				}
				r = r.union(e.eval(*op, bind, depth+1))
			}
		}
		return r
	}
	return ndeps{}
}

// evalFn: what the results of fn and the conditions it branches on depend on.
func (e *netipEval) evalFn(fn *ssa.Function, bind map[*ssa.Parameter]ndeps, depth int) ndeps {
	r := ndeps{}
	for _, b := range fn.Blocks {
		if len(b.Instrs) == 0 {
			continue
		}
		switch t := b.Instrs[len(b.Instrs)-1].(type) {
		case *ssa.Return:
			for _, res := range t.Results {
				r = r.union(e.eval(e.w.resolveLoad(res), bind, depth+1))
			}
		case *ssa.If:
			r = r.union(e.eval(t.Cond, bind, depth+1))
		}
	}
	return r
}

// netipAddrEqual: AddrEqual written with net/netip. ok: the evaluator applies (netip constructs
// were met); deps: sorted "Type.Comp" names the result depends on; cross: number of distinct
// (type, component) comparisons that pair the two parameters; self: a comparison pairs a
// parameter with itself.
func (w *World) netipAddrEqual(fn *ssa.Function) (ok bool, deps []string, cross int, self bool) {
	e := &netipEval{w: w}
	d := e.evalFn(fn, map[*ssa.Parameter]ndeps{}, 0)
	if !e.known {
		return false, nil, 0, false
	}
	names := map[string]bool{}
	for k := range d {
		names[k.typ+"."+k.comp] = true
	}
	for n := range names {
		deps = append(deps, n)
	}
	sort.Strings(deps)
	crossSet := map[string]bool{}
	for _, c := range e.cmps {
		lp, rp := map[*ssa.Parameter]bool{}, map[*ssa.Parameter]bool{}
		for k := range c.l {
			lp[k.param] = true
		}
		for k := range c.r {
			rp[k.param] = true
		}
		if len(lp) != 1 || len(rp) != 1 {
			continue
		}
		var a, b *ssa.Parameter
		for p := range lp {
			a = p
		}
		for p := range rp {
			b = p
		}
		if a == b {
			self = true
			continue
		}
		for k := range c.l {
			for k2 := range c.r {
				if k.typ == k2.typ && k.comp == k2.comp {
					crossSet[k.typ+"."+k.comp] = true
				}
			}
		}
	}
	return true, deps, len(crossSet), self
}
